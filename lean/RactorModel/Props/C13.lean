import RactorModel.Lemmas.FactoryFate
import RactorModel.Lemmas.FactoryCountW
import RactorModel.Lemmas.FactorySlotInst
import RactorModel.Lemmas.FactoryHandler
import RactorModel.Lemmas.FactoryStop
import RactorModel.Lemmas.FactoryActors
import RactorModel.Lemmas.FactoryNoPanic
import RactorModel.Lemmas.FactoryNoDrop
import RactorModel.Lemmas.FactoryPort
import RactorModel.Lemmas.FactoryReason
import RactorModel.Lemmas.FactoryHeartbeat
import RactorModel.Lemmas.FactoryReject

/-!
# C13 — Factory: every job meets exactly one fate, never runs twice

Property theorems only. Model `Model/Factory.lean`, oracle `C13.fateOk` in
`Model/FactoryOracle.lean`, lemmas `Lemmas/FactoryFate.lean`.
-/

namespace C13
open Factory

/-! ## Each rejection carries the reason of the branch that made it, and is made once -/

/-- what a rejection appends to the history: one discard report, addressed to the discard
handler `h` that is installed at that moment (`none`: no handler configured), and, if the submitter attached an acceptance port that is still unanswered, the
job handed back through it — both exactly once. -/
def rejection (h : Option Nat) (r : Reason) (j : Job) : List Ev :=
  Ev.discard r j.id h :: (if j.port then [Ev.reply j.id true] else [])

theorem reject_log (e : Env) (h : Option Nat) (r : Reason) (j : Job) :
    ((e.discard h r j).reject j).log = e.log ++ rejection h r j := by
  unfold Env.reject Env.discard Env.emit rejection
  split <;> simp

/-- (TTL) a job that is already expired when the factory sees it is rejected with `TtlExpired`
and nothing else happens to it: no routing, no queueing. -/
theorem dispatch_expired (w : W) (j : Job) (h : j.expired w.env.now = true) :
    (w.dispatch j).env.log = w.env.log ++ rejection w.handler .ttlExpired j ∧
    (w.dispatch j).queue = w.queue ∧ (w.dispatch j).pool = w.pool := by
  unfold W.dispatch
  simp only [h, if_true]
  exact ⟨reject_log _ _ _ _, trivial, trivial⟩

/-- (shutdown) once `DrainRequests` has been handled every later job is rejected with
`Shutdown`; it never reaches a worker or a queue. -/
theorem dispatch_draining (w : W) (j : Job) (h : j.expired w.env.now = false)
    (hd : w.drain ≠ .notDraining) :
    (w.dispatch j).env.log = w.env.log ++ rejection w.handler .shutdown j ∧
    (w.dispatch j).queue = w.queue ∧ (w.dispatch j).pool = w.pool := by
  unfold W.dispatch
  have : (w.drain == Drain.notDraining) = false := by
    cases hw : w.drain <;> simp_all
  simp only [h, this, Bool.false_eq_true, if_false]
  exact ⟨reject_log _ _ _ _, trivial, trivial⟩


/-! ## Conservation: every accepted job is in exactly one place

`total i w` counts the occurrences of job id `i` over every place a job can be: the factory's
mailbox, the factory queue, the workers' message queues, the worker actors (running or in their
mailbox) and the terminal fates in the history (handled, discarded with any reason — reported to
a handler or not —, lost with a worker, dropped when the factory itself stopped). -/

/-- (conservation) For every case configuration (router, queue type, discard settings, rate
limiter, pool size) and EVERY sequence of harness steps — dispatches with arbitrary ids, keys,
TTLs and acceptance ports, completions, worker failures and kills at any point, resizes, settings
updates, DrainRequests, clock advances, a factory held busy and released — the number of places
job `i` occupies equals the number of accepted dispatches with that id. -/
theorem conservation (c : CaseCfg) (steps : List Step) (i : Nat) :
    total i ((init c).runSteps steps) = accepted i (init c) steps := by
  rw [total_runSteps, total_init, Nat.zero_add]

/-- (exactly one fate, never twice) if job ids are not reused by the submitter, every job is in
AT MOST one place at any time: it is never duplicated — not handled twice, not handled and also
discarded, not discarded twice, not lost and also handled —, whatever happens. -/
theorem at_most_one_place (c : CaseCfg) (steps : List Step) (i : Nat)
    (huniq : steps.countP (isDispatchOp i) ≤ 1) :
    total i ((init c).runSteps steps) ≤ 1 := by
  rw [conservation]
  exact Nat.le_trans (accepted_le i _ steps) huniq

/-- the terminal fates of job `i` recorded in the history: at most one in total -/
theorem at_most_one_fate (c : CaseCfg) (steps : List Step) (i : Nat)
    (huniq : steps.countP (isDispatchOp i) ≤ 1) :
    cTerm i ((init c).runSteps steps).env.log ≤ 1 := by
  have h := at_most_one_place c steps i huniq
  simp only [total, cEnv] at h
  omega

/-- (nothing disappears) an accepted job is always SOMEWHERE: waiting in the factory's mailbox,
in the factory queue, in a worker's queue, at a worker actor, or it has met exactly one terminal
fate. There is no step of the factory after which an accepted job is nowhere. -/
theorem accepted_job_is_somewhere (c : CaseCfg) (steps : List Step) (i : Nat)
    (hacc : accepted i (init c) steps = 1) :
    total i ((init c).runSteps steps) = 1 := by
  rw [conservation, hacc]

/-- a job that was never accepted is nowhere: the factory invents no jobs -/
theorem no_job_from_nowhere (c : CaseCfg) (steps : List Step) (i : Nat)
    (hnone : steps.countP (isDispatchOp i) = 0) :
    total i ((init c).runSteps steps) = 0 := by
  have := accepted_le i (init c) steps
  rw [conservation]; omega

/-- (at most one job per worker death — the part that is true of the code, `_partial`) for
every router and EVERY sequence of operations the factory has at most one job booked as in
flight on a slot, so a death of that slot's worker abandons at most one job OF THE BOOKKEEPING.
That the worker ACTOR holds no more than that needs `noStaleCompletion`: after a stale completion
(finding F4) the record is cleared while the actor still runs the job and the factory hands it
another one — see the witness below, where one death loses two jobs. -/
theorem one_job_per_death_partial (c : CaseCfg) (steps : List Step) :
    ∀ p ∈ ((init c).runSteps steps).pool, p.curr.length ≤ 1 :=
  fun p hp => (slot_always slotOk_inv c steps p hp).one

/-! ## A worker death loses only what that incarnation held -/

/-- When actor `aid` dies exactly the jobs it held are lost (one `lost` event each), its
supervisor is told once, and no other actor changes. -/
theorem die_loses_only_held (e : Env) (a : Actor) (aid : Nat) (ha : e.getActor aid = some a)
    (halive : a.alive = true) :
    (e.die aid).log = e.log ++ a.heldJobs.map (fun j => Ev.lost aid j.id) ∧
    (e.die aid).sup = e.sup ++ [aid] ∧
    ∀ other, other ≠ aid → (e.die aid).getActor other = e.getActor other := by
  have haid : a.aid = aid := by
    have := List.find?_some ha
    simpa using this
  unfold Env.die
  simp only [ha, halive, Bool.not_true, Bool.false_eq_true, if_false]
  refine ⟨rfl, rfl, ?_⟩
  intro other hne
  have := getActor_setActor_other e { a with alive := false, running := none, mailbox := [], stopReq := false } other
    (by simp only; omega)
  simpa [Env.getActor] using this

/-- A dead actor accepts nothing: the hand-over fails and `dispatch_job` keeps the job at the
head of the worker's queue for the replacement. -/
theorem dispatchJob_to_dead_keeps_job (p : WP) (e : Env) (j : Job) (a : Actor)
    (ha : e.getActor p.actor = some a) (hdead : a.alive = false) :
    (p.dispatchJob e j).1.mq = j :: p.mq ∧ (p.dispatchJob e j).2 = e ∧ (p.dispatchJob e j).1.curr = p.curr := by
  unfold WP.dispatchJob Env.cast
  simp [ha, hdead]

/-- (at most one job per worker death, ACTOR level — `_partial`: finding F4 excluded by
`noStaleRun`) For every configuration, EVERY sequence of operations in which no worker is killed while
one of its completion reports is still unprocessed, and every instant `t` at which an operation is
applied: whichever live worker actor dies now (kill, Err, panic), at most ONE job is lost with it —
the log grows by at most one `lost` event, the one job that incarnation held (running or in its
mailbox). Workers that exit because the factory told them to stop hold nothing at all
(`stopped_workers_hold_nothing_partial`). The unconditional statement is false: witness `f4Steps`
below (one death loses jobs 2 and 3). -/
theorem one_job_lost_per_death_partial (c : CaseCfg) (steps : List Step) (t : Nat)
    (hns : noStaleRun (init c) steps = true) :
    let w := W.advanceTo t (advanceFuel ((init c).runSteps steps) t) ((init c).runSteps steps)
    w.stopped = false → ∀ aid a, w.env.getActor aid = some a → a.alive = true →
      ∃ l, (w.env.die aid).log = w.env.log ++ l ∧ l.length ≤ 1 ∧ ∀ ev ∈ l, ∃ id, ev = Ev.lost aid id := by
  intro w hs aid a g hal
  have hle := ((j_at c steps t hns).core hs).held_le_one g hal
  refine ⟨a.heldJobs.map (fun j => Ev.lost aid j.id), (die_loses_only_held w.env a aid g hal).1, by simpa using hle, ?_⟩
  intro ev hev
  obtain ⟨j, _, rfl⟩ := List.mem_map.mp hev
  exact ⟨j.id, rfl⟩

/-- … and a live worker actor that is no pool slot's worker any more (retired by a shrink or after
its last job while draining) is idle and has been told to stop: its exit loses nothing. -/
theorem stopped_workers_hold_nothing_partial (c : CaseCfg) (steps : List Step) (hns : noStaleRun (init c) steps = true) :
    let w := (init c).runSteps steps
    w.stopped = false → ∀ aid a, w.env.getActor aid = some a → a.alive = true →
      (∀ p ∈ w.pool, p.actor ≠ aid) → a.heldJobs = [] ∧ a.stopReq = true := by
  intro w hs aid a g hal hn
  exact ((j_always c steps hns).core hs).free aid a g hal hn

/-- (progress, safety form — `_partial` under `noStaleRun`) For every configuration and EVERY sequence of
operations without a stale completion, while the factory has not entered `post_stop`: a job queued for a worker
(`message_queue` non-empty) waits only behind
(i) a job that this worker's live actor holds (running or in its mailbox), or
(ii) a completion report of this worker that the factory has still to process, or
(iii) the death of this worker, whose supervision event the factory has still to process —
and each of the three ends with the head of the queue being handed over (`worker_complete`, `replace_worker`).
So no job is ever parked in a worker's queue behind nothing: "ends in a fate" needs only that workers return and
that the factory's mailbox is served. (Factory queue of the queuer: `C14.queuer_never_idles`.) -/
theorem queued_jobs_wait_behind_work_partial (c : CaseCfg) (steps : List Step) (hns : noStaleRun (init c) steps = true) :
    let w := (init c).runSteps steps
    w.stopped = false → ∀ p ∈ w.pool, p.mq ≠ [] →
      ∃ a, w.env.getActor p.actor = some a ∧
        ((a.alive = true ∧ (a.heldJobs ≠ [] ∨ finKeys p.wid w.inbox ≠ [])) ∨
         (a.alive = false ∧ p.actor ∈ w.env.sup)) := by
  intro w hs p hp hmq
  have hc := (j_always c steps hns).core hs
  obtain ⟨a, g, _, hal, hdead⟩ := hc.sa p hp
  refine ⟨a, g, ?_⟩
  cases hx : a.alive with
  | false => exact Or.inr ⟨rfl, (hdead hx).1⟩
  | true =>
    left
    refine ⟨rfl, ?_⟩
    have hcurr : p.curr ≠ [] := by
      rcases hc.prog p hp (by simp) hmq with h1 | ⟨a', g', hd'⟩
      · exact h1
      · rw [g] at g'; cases g'; rw [hx] at hd'; cases hd'
    have heq := (hal hx).2
    by_cases hh : a.heldJobs = []
    · right
      intro hf
      have : fkOf w.inbox p.wid = [] := hf
      rw [hh, this] at heq
      simp only [List.map_nil, List.append_nil, List.map_eq_nil_iff] at heq
      exact hcurr heq
    · exact Or.inl hh

/-- (jobs queued for a worker that dies are given to its replacement — the hand-over itself) `replace_worker` on a
slot whose queue starts with a job `j` that has not expired, with the freshly built actor open: `j` is the replacement's
first message (appended to its — empty — mailbox), the rest of the queue stays queued in order, and the slot books `j`
as its one job in flight. Whatever the dead incarnation had in flight is forgotten (`curr_jobs` cleared): those jobs are
the `lost` ones of `die_loses_only_held`. -/
theorem replacement_gets_next_queued_job (p : WP) (e : Env) (naid : Nat) (j : Job) (rest : List Job) (a : Actor)
    (hmq : p.mq = j :: rest) (hne : j.expired e.now = false) (ha : e.getActor naid = some a) (hal : a.alive = true) :
    (p.replaceWorker e naid).1.mq = rest ∧ (p.replaceWorker e naid).1.curr = [(j.key, j.id)] ∧
    (p.replaceWorker e naid).1.actor = naid ∧
    (p.replaceWorker e naid).2.getActor naid = some { a with mailbox := a.mailbox ++ [j] } := by
  have haid : a.aid = naid := getActor_aid ha
  have hn : ¬ ((!a.alive) = true) := by rw [hal]; exact Bool.false_ne_true
  have hgn : getNextNonExpired p.handler (j :: rest) (p.curr.foldl (fun acc x => acc.erase x.1) p.pending) e =
      (some j, rest, p.curr.foldl (fun acc x => acc.erase x.1) p.pending, e) := by
    unfold getNextNonExpired
    simp only [hne, Bool.not_false, if_true]
  have hcast : e.cast naid j = some (e.setActor { a with mailbox := a.mailbox ++ [j] }) := by
    unfold Env.cast
    simp only [ha]
    rw [if_neg hn]
  generalize ha' : ({ a with mailbox := a.mailbox ++ [j] } : Actor) = a' at hcast ⊢
  have haid' : a'.aid = naid := by subst ha'; exact haid
  have hgs := getActor_setActor_self e a a' (by rw [haid']; exact ha)
  rw [haid'] at hgs
  unfold WP.replaceWorker WP.getNext
  simp only [hmq, hgn]
  unfold WP.dispatchJob
  simp only [hcast]
  exact ⟨trivial, by first | rfl | simp [currInsert], trivial, hgs⟩

/-! ## TTL expiry at the two dequeue points -/

/-- (worker dequeue, `get_next_non_expired_job`) whatever the worker's queue holds, the job handed on is not
expired at that instant, it comes from the queue, and the queue that remains is a suffix of the old one (only the
expired jobs in front of it were removed — each reported `TtlExpired`, see `conservation`). -/
theorem worker_dequeue_skips_expired (h : Option Nat) (mq : List Job) (pend : List Nat) (e : Env) (j : Job)
    (hj : (getNextNonExpired h mq pend e).1 = some j) :
    j.expired e.now = false ∧ ∃ skipped, mq = skipped ++ j :: (getNextNonExpired h mq pend e).2.1 ∧
      ∀ x ∈ skipped, x.expired e.now = true := by
  induction mq generalizing pend e with
  | nil => simp [getNextNonExpired] at hj
  | cons x rest ih =>
    unfold getNextNonExpired at hj ⊢
    by_cases hx : x.expired e.now = true
    · simp only [hx, Bool.not_true, Bool.false_eq_true, if_false] at hj ⊢
      have hnow : (e.discard h .ttlExpired x).now = e.now := rfl
      obtain ⟨h1, sk, h2, h3⟩ := ih (pend.erase x.key) (e.discard h .ttlExpired x) hj
      rw [hnow] at h1 h3
      refine ⟨h1, x :: sk, by rw [List.cons_append, ← h2], ?_⟩
      intro y hy
      rcases List.mem_cons.mp hy with hy | hy
      · rw [hy]; exact hx
      · exact h3 y hy
    · have hx' : x.expired e.now = false := by simpa using hx
      simp only [hx', Bool.not_false, if_true, Option.some.injEq] at hj ⊢
      subst hj
      exact ⟨hx', [], rfl, fun _ hy => by cases hy⟩

/-- (factory dequeue, first loop of `try_route_next_active_job`) after the expired jobs at the head have been
discarded, the job at the head of the factory queue — the one the routing loop hands to the router next — is not
expired, for both queue types. -/
theorem factory_dequeue_skips_expired (fuel : Nat) (w : W) (hf : w.queue.length < fuel) (j : Job)
    (hj : qPeek (W.dropExpiredHead fuel w).cfg (W.dropExpiredHead fuel w).queue = some j) :
    j.expired (W.dropExpiredHead fuel w).env.now = false := by
  induction fuel generalizing w with
  | zero => omega
  | succ fuel ih =>
    unfold W.dropExpiredHead at hj ⊢
    cases hpk : qPeek w.cfg w.queue with
    | none => simp only [hpk] at hj ⊢; cases hj
    | some x =>
      simp only [hpk] at hj ⊢
      by_cases hx : x.expired w.env.now = true
      · simp only [hx, if_true] at hj ⊢
        cases hp : qPopFront w.cfg w.queue with
        | none =>
          exfalso
          have := qPopFront_none hp
          exact qPeek_some_ne_nil hpk this
        | some xq =>
          obtain ⟨x', q'⟩ := xq
          simp only [hp] at hj ⊢
          have hlen := popByPrio_length (show popByPrio w.cfg prioUp w.queue = some (x', q') from hp)
          exact ih _ (by simp only; omega) hj
      · have hx' : x.expired w.env.now = false := by simpa using hx
        simp only [hx', Bool.false_eq_true, if_false] at hj ⊢
        rw [hpk] at hj
        simp only [Option.some.injEq] at hj
        subst hj; exact hx'

/-! ## The factory never reaches its `panic!` -/

/-- (`RouteResult::Backlog` with a targeted worker, `try_route_next_active_job`: `panic!`, which would kill the
factory with everything it has queued) For every configuration — five routers, both queues, with and without a
rate limiter — and EVERY sequence of operations, the model never takes that branch: no `panicked` event in any
history, so the ghost fate `dropped` of that branch never occurs either and conservation speaks about real fates
while the factory runs. Proof: whatever `choose_target_worker` names for the head of the queue, the second
consultation inside `route_message` (with that pick as the hint) finds a worker of the pool, for each router
(`Factory.second_choice`); for round-robin this needs the F10 fix. -/
theorem never_panics (c : CaseCfg) (steps : List Step) : Ev.panicked ∉ ((init c).runSteps steps).env.log :=
  never_panics_run c steps

/-- (the ghost fate `dropped`) For every configuration and EVERY sequence of operations: as long as the factory
actor has not exited, no job has been dropped without a report. With `never_panics`, `post_stop_abandons_nothing`
and `conservation`: while the factory runs, every accepted job is in exactly one place or has one of the REPORTED
fates (handled, handed to the discard handler, lost with a dead worker). The only source of `dropped` is a
dispatch still in the factory's mailbox when the factory actor exits (its acceptance port is then closed,
seen as `acc=[id:x]`). -/
theorem never_drops_while_running (c : CaseCfg) (steps : List Step)
    (hx : ((init c).runSteps steps).exited = false) (id : Nat) :
    Ev.dropped id ∉ ((init c).runSteps steps).env.log :=
  never_drops_run c steps hx id

/-- the step behind it, for ANY state (reachable or not): routing the job with the router's own pick as
the hint never answers `Backlog` -/
theorem targeted_route_never_backlogs (w : W) (j : Job) (hint : Option Nat) (worker : Nat) (w1 : W)
    (hc : w.chooseTargetWorker j hint = (some worker, w1)) (q : List Job) :
    (W.routeMessage { w1 with queue := q } j (some worker)).1 ≠ .backlog :=
  routeMessage_after_choice w j hint worker w1 hc q

/-! ### Non-vacuity: a concrete run (queuer, one worker): job 1 handled, job 2 running -/
def exCase : CaseCfg :=
  { cfg := { router := .q, prioQueue := false, hasHandler := true, table := [], hasCC := false }, n := 1, disc := none, rl := none }
def exSteps : List Step :=
  [⟨.dispatch 1 7 0 none false, 3000000, 4000000, 5000000⟩, ⟨.dispatch 2 7 0 none false, 5000000, 6000000, 7000000⟩,
   ⟨.finish 0 true, 7000000, 8000000, 9000000⟩]
example : accepted 1 (init exCase) exSteps = 1 ∧ exSteps.countP (isDispatchOp 1) ≤ 1 := by decide
example : cTerm 1 ((init exCase).runSteps exSteps).env.log = 1 := by decide
example : cj 2 (((init exCase).runSteps exSteps).env.actors.flatMap Actor.heldJobs) = 1 := by decide
/-- the hypotheses of the actor-level theorems hold of this run (a live worker holds job 2) -/
example : noStaleRun (init exCase) exSteps = true ∧ ((init exCase).runSteps exSteps).stopped = false := by decide +kernel

/-! ### Finding F4 on its concrete witness: "at most one job per worker death" is FALSE of the code

`corpus/C13/e-lts-f4_stale_completion_loses_two_jobs.ops` with the instants of the real run
(the model replays it exactly: DIFF = 0 on every run). The stale `Finished(0, 7)` of the dead
incarnation is applied to the replacement's job 2; the factory hands it job 3 early; killing the
replacement loses jobs 2 and 3 with ONE death. Conservation still holds (both are `lost`). -/
def f4Case : CaseCfg :=
  { cfg := { router := .q, prioQueue := false, hasHandler := true, table := [], hasCC := true }, n := 1, disc := none, rl := none }
def f4Info : Info := { router := .q, prioQueue := false, hasHandler := true, n := 1, disc := none, rl := none }
def f4Steps : List Step :=
  [⟨.nop, 0, 2000000, 3000000⟩,
   ⟨.dispatch 1 7 7364705619221056123 none false, 3000000, 4000000, 5000000⟩,
   ⟨.dispatch 2 7 7364705619221056123 none false, 5000000, 6000000, 7000000⟩,
   ⟨.dispatch 3 7 7364705619221056123 none false, 7000000, 8000000, 9000000⟩,
   ⟨.block, 9000000, 101000000, 101000000⟩,
   ⟨.finish 0 true, 101000000, 102000000, 102000000⟩,
   ⟨.kill 0, 102000000, 103000000, 103000000⟩,
   ⟨.release 1, 103000000, 104000000, 105000000⟩,
   ⟨.kill 1, 105000000, 106000000, 107000000⟩,
   ⟨.nop, 107000000, 108000000, 109000000⟩]
/-- jobs lost with actor `aid` -/
def lostWith (w : W) (aid : Nat) : List Nat := w.env.log.filterMap fun | .lost a id => if a == aid then some id else none | _ => none
example : lostWith ((init f4Case).runSteps f4Steps) 1 = [2, 3] := by decide +kernel
example : C13.fateOk f4Info ((init f4Case).runSteps f4Steps).env.log = false := by decide +kernel
example : noStaleCompletion f4Info ((init f4Case).runSteps f4Steps).env.log = false := by decide +kernel
example : total 3 ((init f4Case).runSteps f4Steps) = 1 := by decide +kernel

/-! ## Which handler sees a discard

`UpdateSettings` can replace the discard handler while jobs are queued — at the factory and, under
every router (sticky queueing included: it parks same-key jobs in a busy worker's own queue), in
each worker slot, which keeps its own copy. `curOf h0 pre` is the handler installed by the latest
update the factory had handled when the history was `pre` (`h0` before any update). -/

/-- (handler sync) For every case configuration and EVERY sequence of harness steps — handler
updates interleaved with dispatches, completions, deaths, resizes, drains, a factory held busy —
each worker slot's copy of the discard handler is the factory's current handler. -/
theorem handler_sync (c : CaseCfg) (steps : List Step) :
    ∀ p ∈ ((init c).runSteps steps).pool, p.handler = ((init c).runSteps steps).handler := by
  have h := hinv_always c steps
  intro p hp
  rw [h.hs.pool p hp, h.hs.fac]

/-- the factory's handler is the one installed by the latest update it has handled -/
theorem current_handler_is_latest_installed (c : CaseCfg) (steps : List Step) :
    ((init c).runSteps steps).handler = curOf (initHandler c) ((init c).runSteps steps).env.log :=
  (hinv_always c steps).hs.fac

/-- (current handler) For every case configuration and EVERY sequence of harness steps: each
discard of the history — whatever its reason, whether it was made by the factory (queue, rate
limiter, drain, TTL at the head, `post_stop`) or out of a worker's own queue (TTL, load shedding) —
is reported to the handler installed by the latest update handled before it, never to a stale
copy; with no handler installed (`none`) it is reported to nobody. -/
theorem discards_reach_current_handler (c : CaseCfg) (steps : List Step) (pre post : List Ev)
    (r : Reason) (id : Nat) (h : Option Nat)
    (hl : ((init c).runSteps steps).env.log = pre ++ Ev.discard r id h :: post) :
    h = curOf (initHandler c) pre := by
  have ok := (hinv_always c steps).ok
  rw [hl] at ok
  exact discardsOk_at _ _ _ _ _ _ ok

/-- handling an update installs the new handler at the factory and in every slot at once -/
theorem update_installs_everywhere (w : W) (h : Option Nat) :
    (w.handleMsg (.setHandler h)).handler = h ∧ (∀ p ∈ (w.handleMsg (.setHandler h)).pool, p.handler = h) ∧
    (w.handleMsg (.setHandler h)).env.log = w.env.log ++ [Ev.installed h] := by
  refine ⟨rfl, ?_, rfl⟩
  intro x hx
  obtain ⟨y, _, rfl⟩ := List.mem_map.mp hx
  rfl

/-- handling any other message changes no handler, and every event it appends is fine for the
installed handler `h`: no installation, every discard addressed to `h` -/
theorem other_messages_keep_handler (w : W) (m : FMsg) (hm : ∀ hd, m ≠ .setHandler hd) (h : Option Nat)
    (hf : w.handler = h) (hp : ∀ p ∈ w.pool, p.handler = h) :
    (w.handleMsg m).handler = h ∧ (∀ p ∈ (w.handleMsg m).pool, p.handler = h) ∧
    ∃ new, (w.handleMsg m).env.log = w.env.log ++ new ∧ ∀ ev ∈ new, evOk h ev = true := by
  have q := hq_handleMsg w m hm ⟨hf, hp⟩
  exact ⟨q.hs.fac, q.hs.pool, q.ext⟩

/-- witness (the history that exposes a handler update which skips the worker copies under sticky
queueing): job 3 (TTL 1 ms) waits in the busy worker's own queue, the handler is replaced by
handler 1, the worker dies; the replacement finds job 3 expired — reported to handler 1. -/
def stickyCase : CaseCfg :=
  { cfg := { router := .sq, prioQueue := true, hasHandler := true, table := [], hasCC := false }, n := 1, disc := some (2, .oldest), rl := none }
def stickySteps : List Step :=
  [⟨.nop, 0, 2000000, 3000000⟩,
   ⟨.dispatch 2 3 18270091135093349626 none false, 3000000, 4000000, 5000000⟩,
   ⟨.dispatch 3 3 18270091135093349626 (some 1000000) false, 5000000, 6000000, 7000000⟩,
   ⟨.setHandler (some 1), 7000000, 8000000, 9000000⟩,
   ⟨.kill 0, 9000000, 10000000, 11000000⟩]
/-- the discards of a history -/
def discardsOf (w : W) : List (Reason × Nat × Option Nat) :=
  w.env.log.filterMap fun | .discard r id h => some (r, id, h) | _ => none
example : discardsOf ((init stickyCase).runSteps stickySteps) = [(.ttlExpired, 3, some 1)] := by decide +kernel

/-! ## A draining factory stops only when nobody holds a job

`post_stop` drops the pool: whatever still waits in a worker's queue at that moment vanishes without
a report (ghost event `abandoned`). So the factory may raise its stop signal only when EVERY slot
is free — also a slot that a pool shrink has flagged draining and that is still working off its
backlog. -/

/-- (`is_drained`) a draining factory counts as drained only when every slot of the pool —
flagged draining by a shrink or not — is free and the factory queue is empty. -/
theorem drained_means_every_worker_free (w : W) (hd : w.drain = .draining) (h : w.isDrained.1 = true) :
    (∀ p ∈ w.pool, p.isAvailable = true) ∧ w.queue = [] :=
  isDrained_true w hd h

/-- For every case configuration and EVERY sequence of harness steps (shrinks that leave busy
workers flagged draining, DrainRequests at any point, deaths, a factory held busy, …): whenever the
stop signal is up and `post_stop` has not run yet, no slot holds or queues a job, the factory queue
is empty and the factory is not suspended inside a handler. -/
theorem stop_signal_only_over_idle_pool (c : CaseCfg) (steps : List Step) :
    ((init c).runSteps steps).stopSignal = true → ((init c).runSteps steps).stopped = false →
    ((init c).runSteps steps).blocked = false ∧
    (∀ p ∈ ((init c).runSteps steps).pool, p.isAvailable = true) ∧ ((init c).runSteps steps).queue = [] :=
  (stopInv_always c steps).idle

/-- (drained exit) For every case configuration and EVERY sequence of harness steps: no job is
ever abandoned by `post_stop` — neither from a worker's queue nor from the factory queue. With
`conservation` (the terminal fates are handled / discarded / lost with a dying worker / dropped
with the factory's mailbox / abandoned): every job the factory took in before it stopped has met
one of the reported fates. -/
theorem post_stop_abandons_nothing (c : CaseCfg) (steps : List Step) (id : Nat) :
    Ev.abandoned id ∉ ((init c).runSteps steps).env.log :=
  (hinv_always c steps).clean id

/-- witness (the history that exposes an `is_drained` that skips slots flagged draining): custom
routing, 2 workers, worker 1 runs job 5 with job 7 queued, the pool shrinks to 1 (worker 1 flagged
draining), DrainRequests; the factory keeps running until worker 1 has worked off job 7. -/
def shrinkDrainCase : CaseCfg :=
  { cfg := { router := .cu, prioQueue := false, hasHandler := true, table := [], hasCC := false }, n := 2, disc := none, rl := none }
def shrinkDrainSteps : List Step :=
  [⟨.nop, 0, 2000000, 3000000⟩,
   ⟨.dispatch 5 1 2206609067086327257 none false, 3000000, 4000000, 5000000⟩,
   ⟨.dispatch 7 1 2206609067086327257 none false, 5000000, 6000000, 7000000⟩,
   ⟨.resize 1, 7000000, 8000000, 9000000⟩,
   ⟨.drain, 9000000, 10000000, 11000000⟩,
   ⟨.finish 1 true, 11000000, 12000000, 13000000⟩,
   ⟨.finish 1 true, 13000000, 14000000, 15000000⟩]
/-- jobs handled so far -/
def handledOf (w : W) : List Nat := w.env.log.filterMap fun | .handled _ id => some id | _ => none
example : ((init shrinkDrainCase).runSteps (shrinkDrainSteps.take 5)).stopped = false := by decide +kernel
example : handledOf ((init shrinkDrainCase).runSteps (shrinkDrainSteps.take 6)) = [5] ∧
    ((init shrinkDrainCase).runSteps (shrinkDrainSteps.take 6)).stopped = false := by decide +kernel
example : handledOf ((init shrinkDrainCase).runSteps shrinkDrainSteps) = [5, 7] ∧
    ((init shrinkDrainCase).runSteps shrinkDrainSteps).exited = true := by decide +kernel

/-! ## Round 4, wave 2: the acceptance port over whole runs -/

/-- (acceptance port, conservation over runs) For every case, EVERY op sequence and schedule and every job id `i`: the
answers given so far on ports of `i` plus the port-carrying dispatches of `i` still unhandled in the factory's mailbox are
exactly the port-carrying dispatches of `i`. No port is answered that was not handed in, none is answered twice, none is
forgotten once its dispatch has been handled. -/
theorem acceptance_port_conservation (c : CaseCfg) (steps : List Step) (i : Nat) :
    ((init c).runSteps steps).env.log.countP (isAnswerEv i) + pendingPorts i ((init c).runSteps steps).inbox
      = ((init c).runSteps steps).env.log.countP (isPortDispatchEv i) := by
  rw [← countP_ans, ← countP_ask]
  exact port_conservation_run c steps i

/-- (answered at most once, never both ways) If job id `i` was dispatched with a port at most once, then over the whole
run its port gets at most one answer: the history cannot contain both `None` and `Some(job)` for it, nor the same answer
twice, nor an answer and a closed port. -/
theorem acceptance_port_answered_at_most_once (c : CaseCfg) (steps : List Step) (i : Nat)
    (h1 : ((init c).runSteps steps).env.log.countP (isPortDispatchEv i) ≤ 1) :
    ((init c).runSteps steps).env.log.countP (isAnswerEv i) ≤ 1 := by
  have := acceptance_port_conservation c steps i
  omega

theorem acceptance_port_never_both (c : CaseCfg) (steps : List Step) (i : Nat)
    (h1 : ((init c).runSteps steps).env.log.countP (isPortDispatchEv i) ≤ 1) :
    ¬ (Ev.reply i false ∈ ((init c).runSteps steps).env.log ∧ Ev.reply i true ∈ ((init c).runSteps steps).env.log) := by
  intro ⟨ha, hb⟩
  have h2 := acceptance_port_answered_at_most_once c steps i h1
  generalize ((init c).runSteps steps).env.log = log at ha hb h2
  obtain ⟨s, t, rfl⟩ := List.append_of_mem ha
  have hb' : Ev.reply i true ∈ s ∨ Ev.reply i true ∈ t := by
    rcases List.mem_append.mp hb with h | h
    · exact Or.inl h
    · rcases List.mem_cons.mp h with h | h
      · cases h
      · exact Or.inr h
  have e1 : isAnswerEv i (Ev.reply i false) = true := by simp [isAnswerEv]
  have e2 : isAnswerEv i (Ev.reply i true) = true := by simp [isAnswerEv]
  rw [List.countP_append, List.countP_cons, e1] at h2
  simp only [if_true] at h2
  rcases hb' with h | h
  · have := List.countP_pos_iff.mpr ⟨_, h, e2⟩; omega
  · have := List.countP_pos_iff.mpr ⟨_, h, e2⟩; omega

/-- (answered exactly once) A port-carrying dispatch of `i` that is no longer in the factory's mailbox has been answered
exactly once — accepted, handed back, or (only when the factory actor exited with the message unread) closed. In particular
at every quiescent point of a running factory (`inbox = []`) every port handed in so far has its one answer. -/
theorem acceptance_port_answered_exactly_once (c : CaseCfg) (steps : List Step) (i : Nat)
    (h1 : ((init c).runSteps steps).env.log.countP (isPortDispatchEv i) = 1)
    (hp : pendingPorts i ((init c).runSteps steps).inbox = 0) :
    ((init c).runSteps steps).env.log.countP (isAnswerEv i) = 1 := by
  have := acceptance_port_conservation c steps i
  omega

/-- (a port is never left dangling by a running factory) While the factory actor has not exited, no acceptance port has
been dropped unanswered: `portClosed` occurs only when the factory exits with the dispatch still unread in its mailbox. -/
theorem acceptance_port_closed_only_at_exit (c : CaseCfg) (steps : List Step)
    (hx : ((init c).runSteps steps).exited = false) (i : Nat) :
    Ev.portClosed i ∉ ((init c).runSteps steps).env.log :=
  port_closed_only_at_exit_run c steps hx i

/-- (answered exactly once BY A REPLY while the factory runs) If the factory has not exited, a port-carrying dispatch of `i`
that has left the mailbox has received exactly one `None`/`Some(job)`. -/
theorem acceptance_port_replied_exactly_once (c : CaseCfg) (steps : List Step) (i : Nat)
    (hx : ((init c).runSteps steps).exited = false)
    (h1 : ((init c).runSteps steps).env.log.countP (isPortDispatchEv i) = 1)
    (hp : pendingPorts i ((init c).runSteps steps).inbox = 0) :
    ((init c).runSteps steps).env.log.countP (isReplyEv i) = 1 := by
  have h2 := acceptance_port_answered_exactly_once c steps i h1 hp
  have h3 := acceptance_port_closed_only_at_exit c steps hx
  rw [countP_reply_eq i _ h3]
  exact h2

/-- (no unrequested answer) a job dispatched without a port never gets an answer -/
theorem acceptance_port_no_unrequested_answer (c : CaseCfg) (steps : List Step) (i : Nat)
    (h0 : ((init c).runSteps steps).env.log.countP (isPortDispatchEv i) = 0) (b : Bool) :
    Ev.reply i b ∉ ((init c).runSteps steps).env.log := by
  intro hm
  have := acceptance_port_conservation c steps i
  have hpos : 0 < ((init c).runSteps steps).env.log.countP (isAnswerEv i) :=
    List.countP_pos_iff.mpr ⟨_, hm, by simp [isAnswerEv]⟩
  omega


/-- (hand-back soundness over whole runs) For every case, EVERY op sequence and schedule: every `Some(job)` answered on an
acceptance port (`reply id true`) is IMMEDIATELY preceded, in the history, by a discard-handler call for that very job —
a job is handed back only by the branch that has just reported it (expired, refused while draining, rate-limited, shed), with
that branch's reason; an accepted job (`None`) is never accompanied by a hand-back (`acceptance_port_never_both`). -/
theorem rejected_port_follows_its_discard (c : CaseCfg) (steps : List Step) (pre post : List Ev) (id : Nat)
    (hs : ((init c).runSteps steps).env.log = pre ++ Ev.reply id true :: post) :
    ∃ pre' r h, pre = pre' ++ [Ev.discard r id h] :=
  rejected_follows_discard_run c steps pre post id hs


/-! ## Round 4, wave 2: discard reasons over whole runs -/

/-- (reason soundness, RateLimited) For every case, EVERY op sequence and schedule: a discard-handler call with reason
`RateLimited` occurs only in a factory whose router is wrapped in a rate limiter — no other branch of the factory or of a
worker reports that reason. -/
theorem rate_limited_discard_needs_limiter (c : CaseCfg) (steps : List Step) (id : Nat) (h : Option Nat)
    (hm : Ev.discard .rateLimited id h ∈ ((init c).runSteps steps).env.log) : c.rl.isSome = true :=
  rate_limited_needs_limiter_run c steps id h hm

/-- (reason soundness, Shutdown) For every case, EVERY op sequence and schedule: every discard-handler call with reason
`Shutdown` comes, in the history, AFTER the draining hook — only a factory that has handled `DrainRequests` refuses or
abandons a job for shutdown; a job that merely expired or was shed before that is never reported as `Shutdown`. -/
theorem shutdown_discard_only_after_drain (c : CaseCfg) (steps : List Step) (id : Nat) (h : Option Nat) (pre post : List Ev)
    (hs : ((init c).runSteps steps).env.log = pre ++ Ev.discard .shutdown id h :: post) : Ev.hook .draining ∈ pre :=
  shutdown_after_drain_run c steps id h pre post hs

/-- corollary: a factory that was never asked to drain reports no `Shutdown` discard -/
theorem no_shutdown_discard_without_drain (c : CaseCfg) (steps : List Step) (id : Nat) (h : Option Nat)
    (hn : Ev.hook .draining ∉ ((init c).runSteps steps).env.log) :
    Ev.discard .shutdown id h ∉ ((init c).runSteps steps).env.log := by
  intro hm
  obtain ⟨pre, post, hs⟩ := List.append_of_mem hm
  exact hn (by rw [hs]; exact List.mem_append_left _ (shutdown_discard_only_after_drain c steps id h pre post hs))

/-- non-vacuity: the drain demo above (`shrinkDrainCase`) followed by one more dispatch reports it as `Shutdown` -/
example : (((init shrinkDrainCase).runSteps (shrinkDrainSteps.take 5 ++ [⟨.dispatch 9 1 0 none false, 11000000, 12000000, 13000000⟩])).env.log.filterMap
    fun | .discard r i _ => some (r, i) | _ => none) = [(.shutdown, 9)] := by decide +kernel

/-- non-vacuity: plain queuer, one worker, factory queue limit 1 / Newest; three port-carrying dispatches: the first is
handed to the worker (accepted), the second is queued (accepted), the third is shed (handed back) -/
def portDemoCase : CaseCfg :=
  { cfg := { router := .q, prioQueue := false, hasHandler := true, table := [], hasCC := false }, n := 1,
    disc := some (1, .newest), rl := none }
def portDemoSteps : List Step :=
  [⟨.dispatch 5 1 0 none true, 1000000, 2000000, 3000000⟩, ⟨.dispatch 6 1 0 none true, 3000000, 4000000, 5000000⟩,
   ⟨.dispatch 7 1 0 none true, 5000000, 6000000, 7000000⟩]
example : (((init portDemoCase).runSteps portDemoSteps).env.log.filterMap fun | .reply i b => some (i, b) | _ => none)
    = [(5, false), (6, false), (7, true)] := by decide +kernel
example : ((init portDemoCase).runSteps portDemoSteps).env.log.countP (isAnswerEv 7) = 1 := by decide +kernel

/-! ## Round 4, wave 2: the dead-man's switch (worker heartbeat) -/

/-- (dead-man's switch) For EVERY sequence of pings, job starts, completions and earlier checks of one worker slot, at
whatever instants: if `IdentifyStuckWorkers` at instant `t` declares the worker stuck for `detection_timeout`, the worker
is inside a job at that moment, that one job was already running when the unanswered ping went out, and it has been
running for longer than `detection_timeout`. Killing the worker then is a `kill` of an actor that holds exactly that job:
by `die_loses_only_held` / `one_job_lost_per_death_partial` that job and nothing else gets the fate `lost`. -/
theorem dead_mans_switch_only_long_jobs (es : List Heartbeat.Ev) (t timeout : Nat)
    (h : (({} : Heartbeat.Slot).run es).stuckAt t timeout = true) :
    ∃ t0 u, ((({} : Heartbeat.Slot).run es).advance t).running = some t0 ∧
      ((({} : Heartbeat.Slot).run es).advance t).hb.sentAt = some u ∧ t0 ≤ u ∧
      ((({} : Heartbeat.Slot).run es).advance t).now - t0 > timeout :=
  Heartbeat.stuck_means_one_long_job es t timeout h

/-- (dead-man's switch) an idle worker is never declared stuck, however long ago it was pinged -/
theorem dead_mans_switch_spares_idle (es : List Heartbeat.Ev) (t timeout : Nat)
    (hr : ((({} : Heartbeat.Slot).run es).advance t).running = none) :
    (({} : Heartbeat.Slot).run es).stuckAt t timeout = false :=
  Heartbeat.idle_never_stuck es t timeout hr

/-- non-vacuity: a job started at 0, pinged at 10, still running at 200 with timeout 100: stuck; the same ping to an idle
worker, or a job that returned at 50: not stuck -/
example : (({} : Heartbeat.Slot).run [.start 0, .ping 10]).stuckAt 200 100 = true := by decide
example : (({} : Heartbeat.Slot).run [.ping 10]).stuckAt 200 100 = false := by decide
example : (({} : Heartbeat.Slot).run [.start 0, .ping 10, .finish 50, .start 60]).stuckAt 200 100 = false := by decide


end C13

#print axioms C13.reject_log
#print axioms C13.dispatch_expired
#print axioms C13.dispatch_draining
#print axioms C13.conservation
#print axioms C13.at_most_one_place
#print axioms C13.at_most_one_fate
#print axioms C13.accepted_job_is_somewhere
#print axioms C13.no_job_from_nowhere
#print axioms C13.one_job_per_death_partial
#print axioms C13.one_job_lost_per_death_partial
#print axioms C13.stopped_workers_hold_nothing_partial
#print axioms C13.queued_jobs_wait_behind_work_partial
#print axioms C13.replacement_gets_next_queued_job
#print axioms C13.worker_dequeue_skips_expired
#print axioms C13.factory_dequeue_skips_expired
#print axioms C13.never_panics
#print axioms C13.never_drops_while_running
#print axioms C13.targeted_route_never_backlogs
#print axioms C13.die_loses_only_held
#print axioms C13.dispatchJob_to_dead_keeps_job
#print axioms C13.handler_sync
#print axioms C13.current_handler_is_latest_installed
#print axioms C13.discards_reach_current_handler
#print axioms C13.update_installs_everywhere
#print axioms C13.other_messages_keep_handler
#print axioms C13.drained_means_every_worker_free
#print axioms C13.stop_signal_only_over_idle_pool
#print axioms C13.post_stop_abandons_nothing
#print axioms C13.acceptance_port_conservation
#print axioms C13.acceptance_port_answered_at_most_once
#print axioms C13.acceptance_port_never_both
#print axioms C13.acceptance_port_answered_exactly_once
#print axioms C13.acceptance_port_no_unrequested_answer
#print axioms C13.rate_limited_discard_needs_limiter
#print axioms C13.shutdown_discard_only_after_drain
#print axioms C13.no_shutdown_discard_without_drain
#print axioms C13.acceptance_port_closed_only_at_exit
#print axioms C13.acceptance_port_replied_exactly_once
#print axioms C13.dead_mans_switch_only_long_jobs
#print axioms C13.dead_mans_switch_spares_idle
#print axioms C13.rejected_port_follows_its_discard
