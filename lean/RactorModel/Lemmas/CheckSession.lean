import RactorModel.Lemmas.NodeState

/-! `check_session` — the function the SESSIONS call (C18, round 4): what an unauthenticated
session can change about the reply given to another session. -/

namespace Election

/-- ids of the sessions matching a `CheckSession` query -/
def NS.matching (st : NS) (peer : String) (connId : Nat) : List Nat :=
  let conn : Option Nat := if connId == 0 then none else some connId
  (st.sessions.filter (fun s => s.peerName == some peer && s.conn == conn)).map (·.id)

theorem checkSession_eq (st : NS) (peer : String) (connId : Nat) :
    st.checkSession peer connId =
      match st.matching peer connId with
      | [id] => st.checkCandidate id
      | _ :: _ => .noOther
      | [] =>
        let existing := st.candidatesFor peer true
        if existing.isEmpty then .noOther
        else if existing.any (·.isServer) then .duplicate
        else if peer < st.thisName then .thisContinues
        else .otherContinues := rfl

/-- a session that does not match the query does not change the matching set -/
theorem matching_insert_of_not (thisName : String) (l1 l2 : List Session) (u : Session) (peer : String)
    (connId : Nat)
    (hu : (u.peerName == some peer && u.conn == (if connId == 0 then none else some connId)) = false) :
    (NS.mk thisName (l1 ++ u :: l2)).matching peer connId = (NS.mk thisName (l1 ++ l2)).matching peer connId := by
  unfold NS.matching
  simp only
  rw [filter_insert _ _ _ u hu]

/-- (what a spoofer can do to `check_session`) Let `s` be a registered session asking
`CheckSession` with its own (peer name, nonce), and `u` ANY unauthenticated other session (any claimed
name, direction, nonce, position in the table). The reply with `u` present is either the reply
without `u`, or `NoOtherConnection`; and it is the reply without `u` whenever `u` does not claim
exactly the asker's (name, nonce). -/
theorem checkSession_insert (thisName : String) (l1 l2 : List Session) (u s : Session) (peer : String)
    (hu : u.auth = false) (hs : s ∈ l1 ++ l2) (hp : s.peerName = some peer) (hw : s.conn ≠ some 0)
    (hid : ∀ x ∈ l1 ++ l2, x.id ≠ u.id) :
    let connId := s.conn.getD 0
    ((NS.mk thisName (l1 ++ u :: l2)).checkSession peer connId = (NS.mk thisName (l1 ++ l2)).checkSession peer connId ∨
     (NS.mk thisName (l1 ++ u :: l2)).checkSession peer connId = .noOther) ∧
    ((u.peerName == some peer && u.conn == (if connId == 0 then none else some connId)) = false →
     (NS.mk thisName (l1 ++ u :: l2)).checkSession peer connId = (NS.mk thisName (l1 ++ l2)).checkSession peer connId) := by
  intro connId
  -- without `u`: the query depends on the matching set and on the authenticated candidates only
  have hcand := candidatesFor_insert thisName l1 l2 u hu peer
  have same : (NS.mk thisName (l1 ++ u :: l2)).matching peer connId = (NS.mk thisName (l1 ++ l2)).matching peer connId →
      (NS.mk thisName (l1 ++ u :: l2)).checkSession peer connId = (NS.mk thisName (l1 ++ l2)).checkSession peer connId := by
    intro hm
    rw [checkSession_eq, checkSession_eq, hm]
    cases hmm : (NS.mk thisName (l1 ++ l2)).matching peer connId with
    | nil => simp only [hcand]
    | cons id rest =>
      cases rest with
      | nil =>
        simp only
        apply checkCandidate_insert thisName l1 l2 u id hu
        -- `id` is the id of a session of `l1 ++ l2`
        have : id ∈ (NS.mk thisName (l1 ++ l2)).matching peer connId := by rw [hmm]; simp
        unfold NS.matching at this
        simp only [List.mem_map, List.mem_filter] at this
        obtain ⟨x, ⟨hx, _⟩, rfl⟩ := this
        exact fun h => hid x hx h.symm
      | cons id2 rest2 => rfl
  by_cases hmatch : (u.peerName == some peer && u.conn == (if connId == 0 then none else some connId)) = true
  · refine ⟨?_, ?_⟩
    · -- `u` matches: the matching set gains `u.id`; it already contained the asker, so it has ≥ 2 members
      right
      rw [checkSession_eq]
      have hmem : s.id ∈ (NS.mk thisName (l1 ++ u :: l2)).matching peer connId := by
        unfold NS.matching
        simp only [List.mem_map, List.mem_filter]
        refine ⟨s, ⟨?_, ?_⟩, rfl⟩
        · rcases List.mem_append.mp hs with h | h
          · exact List.mem_append_left _ h
          · exact List.mem_append_right _ (List.mem_cons_of_mem _ h)
        · simp only [hp, beq_self_eq_true, Bool.true_and, connId]
          cases hc : s.conn with
          | none => simp
          | some v =>
            simp only [Option.getD_some]
            by_cases hv : v = 0
            · subst hv; exact absurd hc hw
            · simp [hv]
      have hmemu : u.id ∈ (NS.mk thisName (l1 ++ u :: l2)).matching peer connId := by
        unfold NS.matching
        simp only [List.mem_map, List.mem_filter]
        exact ⟨u, ⟨by simp, hmatch⟩, rfl⟩
      have hne : s.id ≠ u.id := hid s hs
      generalize (NS.mk thisName (l1 ++ u :: l2)).matching peer connId = m at hmem hmemu
      match m, hmem, hmemu with
      | [], h, _ => simp at h
      | [a], h1, h2 =>
        simp only [List.mem_singleton] at h1 h2
        exact absurd (h1.trans h2.symm) hne
      | _ :: _ :: _, _, _ => rfl
    · intro hn
      rw [hmatch] at hn
      exact absurd hn (by simp)
  · have hf : (u.peerName == some peer && u.conn == (if connId == 0 then none else some connId)) = false := by
      simpa using hmatch
    have := same (matching_insert_of_not thisName l1 l2 u peer connId hf)
    exact ⟨Or.inl this, fun _ => this⟩

end Election
