import RactorModel.Lemmas.PgExit

/-! From the invariant to the decidable snapshot predicate `Pg.ok`. -/

namespace Pg
open AList

theorem nodup_keys_iff {κ ν : Type} [DecidableEq κ] {l : List (κ × ν)} : (keys l).Nodup ↔ NodupKeys l := by
  unfold keys NodupKeys List.Nodup
  rw [List.pairwise_map]

theorem relMem_eq (st : State) (a : Nat) : ((get st.rel a).map (·.mem)).getD [] = relMem st a := by
  unfold relMem relOf; cases get st.rel a <;> rfl
theorem relGmon_eq (st : State) (a : Nat) : ((get st.rel a).map (·.gmon)).getD [] = relGmon st a := by
  unfold relGmon relOf; cases get st.rel a <;> rfl
theorem relWmon_eq (st : State) (a : Nat) : ((get st.rel a).map (·.wmon)).getD [] = relWmon st a := by
  unfold relWmon relOf; cases get st.rel a <;> rfl

section
variable {st : State} (h : Inv st)
include h

theorem map_entry {k : Key} {gs : GS} (hp : (k, gs) ∈ st.map) :
    get st.map k = some gs ∧ membersOf st k = gs.members ∧ listenersOf st k = gs.listeners := by
  have := get_of_mem h.kMap hp
  refine ⟨this, ?_, ?_⟩
  · unfold membersOf; rw [this]; rfl
  · unfold listenersOf; rw [this]; rfl

theorem rel_entry {a : Nat} {r : Rel} (hp : (a, r) ∈ st.rel) :
    get st.rel a = some r ∧ relMem st a = r.mem ∧ relGmon st a = r.gmon ∧ relWmon st a = r.wmon := by
  have := get_of_mem h.kRel hp
  refine ⟨this, ?_, ?_, ?_⟩ <;> simp [relMem, relGmon, relWmon, relOf, this]

theorem world_entry {s : Nat} {l : List Nat} (hp : (s, l) ∈ st.world) : get st.world s = some l ∧ worldOf st s = l := by
  have := get_of_mem h.kWorld hp
  exact ⟨this, by unfold worldOf; rw [this]; rfl⟩

theorem index_entry {s : Nat} {l : List Nat} (hp : (s, l) ∈ st.index) : get st.index s = some l ∧ idxOf st s = l := by
  have := get_of_mem h.kIdx hp
  exact ⟨this, by unfold idxOf; rw [this]; rfl⟩

theorem ok_of_inv : ok st = true := by
  simp only [ok, Bool.and_eq_true]
  refine ⟨⟨⟨⟨⟨⟨⟨?_, ?_⟩, ?_⟩, ?_⟩, ?_⟩, ?_⟩, ?_⟩, ?_⟩
  · simp only [allKeysNodup, Bool.and_eq_true, decide_eq_true_eq, nodup_keys_iff]
    exact ⟨⟨⟨h.kMap, h.kIdx⟩, h.kWorld⟩, h.kRel⟩
  · simp only [okMembers, Bool.and_eq_true, List.all_eq_true, List.contains_iff_mem, relMem_eq]
    constructor
    · rintro ⟨k, gs⟩ hp a ha
      obtain ⟨_, hm, _⟩ := map_entry h hp
      exact (h.mem k a).mp (hm ▸ ha)
    · rintro ⟨a, r⟩ hp k hk
      obtain ⟨_, hm, _⟩ := rel_entry h hp
      exact (h.mem k a).mpr (hm ▸ hk)
  · simp only [okGroupMonitors, Bool.and_eq_true, List.all_eq_true, List.contains_iff_mem, relGmon_eq]
    constructor
    · rintro ⟨k, gs⟩ hp a ha
      obtain ⟨_, _, hl⟩ := map_entry h hp
      exact (h.gmon k a).mp (hl ▸ ha)
    · rintro ⟨a, r⟩ hp k hk
      obtain ⟨_, _, hg, _⟩ := rel_entry h hp
      exact (h.gmon k a).mpr (hg ▸ hk)
  · simp only [okWorldMonitors, Bool.and_eq_true, List.all_eq_true, List.contains_iff_mem, relWmon_eq]
    constructor
    · rintro ⟨s, l⟩ hp a ha
      obtain ⟨_, hl⟩ := world_entry h hp
      exact (h.wmon s a).mp (hl ▸ ha)
    · rintro ⟨a, r⟩ hp s hs
      obtain ⟨_, _, _, hw⟩ := rel_entry h hp
      exact (h.wmon s a).mpr (hw ▸ hs)
  · simp only [okIndex, Bool.and_eq_true, List.all_eq_true, Bool.not_eq_eq_eq_not, Bool.not_true,
      List.isEmpty_eq_false_iff, Bool.or_eq_true, List.isEmpty_iff, List.contains_iff_mem]
    constructor
    · rintro ⟨s, l⟩ hp
      obtain ⟨hg, hl⟩ := index_entry h hp
      refine ⟨?_, ?_⟩
      · intro e; exact h.idxNE s (by rw [hg]; exact congrArg some e)
      · intro g hgm
        exact (h.idx s g).mp (hl ▸ hgm)
    · rintro ⟨k, gs⟩ hp
      obtain ⟨_, hm, _⟩ := map_entry h hp
      by_cases e : gs.members = []
      · exact Or.inl e
      · right
        have := (h.idx k.1 k.2).mpr (by rw [hm]; exact e)
        exact this
  · simp only [okNoEmpty, Bool.and_eq_true, List.all_eq_true, Bool.not_eq_eq_eq_not, Bool.not_true,
      Bool.and_eq_false_iff, List.isEmpty_eq_false_iff]
    constructor
    · rintro ⟨k, gs⟩ hp
      obtain ⟨hg, _, _⟩ := map_entry h hp
      exact h.mapNE k gs hg
    · rintro ⟨s, l⟩ hp
      obtain ⟨hg, _⟩ := world_entry h hp
      intro e; exact h.worldNE s (by rw [hg]; exact congrArg some e)
  · simp only [okDead, List.all_eq_true, Bool.and_eq_true, Option.isNone_iff_eq_none, Bool.not_eq_eq_eq_not,
      Bool.not_true]
    intro a ha
    have hr := h.dead a ha
    have hrm : relMem st a = [] := by simp [relMem, relOf, hr, Rel.empty]
    have hrg : relGmon st a = [] := by simp [relGmon, relOf, hr, Rel.empty]
    have hrw : relWmon st a = [] := by simp [relWmon, relOf, hr, Rel.empty]
    refine ⟨⟨hr, ?_⟩, ?_⟩
    · rintro ⟨k, gs⟩ hp
      obtain ⟨_, hm, hl⟩ := map_entry h hp
      constructor
      · rw [Bool.eq_false_iff]
        intro x
        have x' : a ∈ gs.members := List.contains_iff_mem.mp x
        have := (h.mem k a).mp (hm ▸ x')
        rw [hrm] at this; cases this
      · rw [Bool.eq_false_iff]
        intro x
        have x' : a ∈ gs.listeners := List.contains_iff_mem.mp x
        have := (h.gmon k a).mp (hl ▸ x')
        rw [hrg] at this; cases this
    · rintro ⟨s, l⟩ hp
      obtain ⟨_, hl⟩ := world_entry h hp
      rw [Bool.eq_false_iff]
      intro x
      have x' : a ∈ l := List.contains_iff_mem.mp x
      have := (h.wmon s a).mp (hl ▸ x')
      rw [hrw] at this; cases this
  · simp only [okSets, Bool.and_eq_true, List.all_eq_true, decide_eq_true_eq]
    refine ⟨⟨⟨?_, ?_⟩, ?_⟩, ?_⟩
    · rintro ⟨k, gs⟩ hp
      obtain ⟨_, hm, hl⟩ := map_entry h hp
      exact ⟨hm ▸ h.ndM k, hl ▸ h.ndL k⟩
    · rintro ⟨s, l⟩ hp
      obtain ⟨_, hl⟩ := world_entry h hp
      exact hl ▸ h.ndW s
    · rintro ⟨s, l⟩ hp
      obtain ⟨_, hl⟩ := index_entry h hp
      exact hl ▸ h.ndI s
    · rintro ⟨a, r⟩ hp
      obtain ⟨_, h1, h2, h3⟩ := rel_entry h hp
      have := h.ndR a
      rw [h1, h2, h3] at this
      exact ⟨⟨this.1, this.2.1⟩, this.2.2⟩

end

end Pg
