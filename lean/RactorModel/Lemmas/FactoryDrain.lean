import RactorModel.Lemmas.FactoryShape

/-! Draining (C15): the drain state only moves forward `NotDraining → Draining → Drained`;
once draining, every dispatch is refused; a drained factory stops. -/

namespace Factory

theorem dropExpiredHead_drain (fuel : Nat) (w : W) : (W.dropExpiredHead fuel w).drain = w.drain := by
  induction fuel generalizing w with
  | zero => rfl
  | succ fuel ih =>
    unfold W.dropExpiredHead
    split
    · split
      · split
        · rw [ih]
        · rfl
      · rfl
    · rfl

theorem routeLoop_drain (hint : Option Nat) (fuel : Nat) (w : W) : (W.routeLoop hint fuel w).drain = w.drain := by
  induction fuel generalizing w with
  | zero => rfl
  | succ fuel ih =>
    unfold W.routeLoop
    split
    · rfl
    · rename_i j _
      have hs := chooseTargetWorker_frame w j hint
      cases hc : w.chooseTargetWorker j hint with
      | mk t w1 =>
        rw [hc] at hs
        simp only at hs ⊢
        cases t with
        | none => exact hs.drain
        | some worker =>
          simp only
          cases hp : qPopFront w1.cfg w1.queue with
          | none => exact hs.drain
          | some jq =>
            obtain ⟨j', q⟩ := jq
            simp only
            have hr := routeMessage_frame { w1 with queue := q } j' (some worker)
            cases hrm : W.routeMessage { w1 with queue := q } j' (some worker) with
            | mk r w2 =>
              rw [hrm] at hr
              have hps : w2.drain = w.drain := by rw [hr.drain]; exact hs.drain
              cases r with
              | handled => exact hps
              | rateLimited => simp only; rw [ih]; exact hps
              | backlog => exact hps

theorem tryRoute_drain (w : W) (hint : Option Nat) : (w.tryRouteNextActiveJob hint).drain = w.drain := by
  unfold W.tryRouteNextActiveJob
  rw [routeLoop_drain, dropExpiredHead_drain]

theorem shedQueueOldest_drain (limit fuel : Nat) (w : W) : (W.shedQueueOldest limit fuel w).drain = w.drain := by
  induction fuel generalizing w with
  | zero => rfl
  | succ fuel ih =>
    unfold W.shedQueueOldest
    split
    · split
      · rw [ih]
      · rw [ih]
    · rfl

theorem maybeEnqueue_drain (w : W) (j : Job) : (w.maybeEnqueue j).drain = w.drain := by
  unfold W.maybeEnqueue
  split
  · split <;> rfl
  · rw [shedQueueOldest_drain]
  · rfl

theorem growOne_drain (w : W) (wid : Nat) : (w.growOne wid).drain = w.drain := by
  unfold W.growOne
  split
  · split
    · rw [(availChange_frame _ _ _).drain]
    · rfl
  · rw [(availChange_frame _ _ _).drain]

theorem foldl_drain {f : W → Nat → W} (hf : ∀ w k, (f w k).drain = w.drain) (l : List Nat) (w : W) :
    (l.foldl f w).drain = w.drain := by
  induction l generalizing w with
  | nil => rfl
  | cons a l ih => rw [List.foldl_cons, ih, hf]

theorem growPool_drain (w : W) (n : Nat) : (w.growPool n).drain = w.drain := by
  unfold W.growPool; exact foldl_drain (fun w k => growOne_drain w _) _ w

theorem shrinkOne_drain (w : W) (wid : Nat) : (w.shrinkOne wid).drain = w.drain := by
  unfold W.shrinkOne
  split
  · split
    · rfl
    · simp only; rw [(availChange_frame _ _ _).drain]
  · rfl

theorem shrinkPool_drain (w : W) (n : Nat) : (w.shrinkPool n).drain = w.drain := by
  unfold W.shrinkPool; exact foldl_drain (fun w k => shrinkOne_drain w _) _ w

theorem flushAfterGrow_drain (fuel : Nat) (w : W) : (W.flushAfterGrow fuel w).drain = w.drain := by
  induction fuel generalizing w with
  | zero => rfl
  | succ fuel ih =>
    unfold W.flushAfterGrow
    simp only
    split
    · rfl
    · split
      · exact tryRoute_drain w none
      · rw [ih, tryRoute_drain]

theorem resizePool_drain (w : W) (n : Nat) : (w.resizePool n).drain = w.drain := by
  unfold W.resizePool
  split
  · rfl
  · simp only
    split
    · rw [flushAfterGrow_drain]; exact growPool_drain w _
    · split
      · exact shrinkPool_drain w _
      · rfl

theorem dispatch_drain (w : W) (j : Job) : (w.dispatch j).drain = w.drain := by
  unfold W.dispatch
  split
  · rfl
  · split
    · have hr := routeMessage_frame w j none
      cases hrm : w.routeMessage j none with
      | mk r w2 =>
        rw [hrm] at hr
        cases r with
        | handled => exact hr.drain
        | rateLimited => exact hr.drain
        | backlog => simp only; rw [maybeEnqueue_drain]; exact hr.drain
    · rfl

theorem drain_ite (c : Prop) [Decidable c] (a b : W) (d : Drain) (ha : a.drain = d) (hb : b.drain = d) :
    (if c then a else b).drain = d := by
  split <;> assumption

theorem workerFinishedJob_drain (w : W) (who key : Nat) : (w.workerFinishedJob who key).drain = w.drain := by
  unfold W.workerFinishedJob
  split
  · cases hwc : WP.workerComplete _ w.env key with
    | mk p' e' =>
      simp only
      split
      · split <;> rfl
      · apply drain_ite
        · rw [(availChange_frame _ _ _).drain, tryRoute_drain]
        · rw [tryRoute_drain]
  · exact tryRoute_drain w _

theorem removeExpired_drain (w : W) : w.removeExpired.drain = w.drain := by
  unfold W.removeExpired; split <;> rfl

theorem calcRest_drain (w : W) : w.calcRest.drain = w.drain := by
  unfold W.calcRest; exact removeExpired_drain w

theorem updateSettings_drain (w : W) (d : Option (Option (Nat × Mode))) (n : Option Nat) :
    (w.updateSettings d n).drain = w.drain := by
  unfold W.updateSettings
  cases d <;> cases n <;> simp only [resizePool_drain]

theorem afterReplace_drain (w : W) (wid : Nat) : (w.afterReplace wid).drain = w.drain := by
  unfold W.afterReplace
  cases hret : w.retireIdleDrainingWorker wid with
  | some w2 =>
    simp only
    unfold W.retireIdleDrainingWorker at hret
    split at hret
    · split at hret
      · simp only [Option.some.injEq] at hret; subst hret; rfl
      · simp at hret
    · simp at hret
  | none =>
    simp only
    apply drain_ite
    · rw [(availChange_frame _ _ _).drain, tryRoute_drain]
    · rw [tryRoute_drain]

theorem handleSupervisorEvt_drain (w : W) (who : Nat) : (w.handleSupervisorEvt who).drain = w.drain := by
  unfold W.handleSupervisorEvt
  split
  · rfl
  · split
    · rfl
    · simp only
      cases hrw : WP.replaceWorker _ _ w.nextAid with
      | mk p' e' => simp only; rw [afterReplace_drain]

theorem postStop_drain (w : W) : w.postStop.drain = w.drain := rfl

/-- the drain state never goes back to `NotDraining` -/
def DrainMono (w w' : W) : Prop := w.drain ≠ .notDraining → w'.drain ≠ .notDraining

theorem DrainMono.of_eq {w w' : W} (h : w'.drain = w.drain) : DrainMono w w' := fun hd => by rw [h]; exact hd
theorem DrainMono.trans {a b c : W} (h1 : DrainMono a b) (h2 : DrainMono b c) : DrainMono a c := fun hd => h2 (h1 hd)
theorem DrainMono.refl (w : W) : DrainMono w w := fun h => h

theorem handleMsg_drainMono (w : W) (m : FMsg) : DrainMono w (w.handleMsg m) := by
  cases m with
  | dispatch j => exact DrainMono.of_eq (dispatch_drain w j)
  | finished who key => exact DrainMono.of_eq (workerFinishedJob_drain w who key)
  | adjust n => exact DrainMono.of_eq (resizePool_drain w n)
  | updateSettings d n => exact DrainMono.of_eq (updateSettings_drain w d n)
  | setHandler hd => exact DrainMono.of_eq rfl
  | drainRequests => intro _; simp [W.handleMsg, W.emit]
  | calculate =>
    show DrainMono w (if w.cfg.hasCC && w.armed then { w with armed := false, blocked := true } else w.calcRest)
    split
    · exact DrainMono.of_eq rfl
    · exact DrainMono.of_eq (calcRest_drain w)
  | getQueueDepth => exact DrainMono.of_eq rfl
  | getNumActiveWorkers => exact DrainMono.of_eq rfl
  | getAvailableCapacity => exact DrainMono.of_eq rfl

theorem isDrained_drainMono (w : W) : DrainMono w w.isDrained.2 := by
  unfold W.isDrained
  split
  · exact DrainMono.refl w
  · exact DrainMono.refl w
  · split
    · intro _; simp
    · exact DrainMono.refl w

theorem afterHandle_drainMono (w : W) : DrainMono w w.afterHandle := by
  unfold W.afterHandle
  split
  · exact DrainMono.refl w
  · have := isDrained_drainMono w
    cases hd : w.isDrained with
    | mk d w2 =>
      rw [hd] at this
      simp only at this ⊢
      split
      · exact fun h => this h
      · exact this

theorem loopStep_drainMono (w w' : W) (hl : w.loopStep = some w') : DrainMono w w' := by
  unfold W.loopStep at hl
  split at hl
  · simp at hl
  · split at hl
    · simp only [Option.some.injEq] at hl; subst hl; exact DrainMono.of_eq rfl
    · split at hl
      · simp only [Option.some.injEq] at hl; subst hl
        exact DrainMono.of_eq (handleSupervisorEvt_drain _ _)
      · split at hl
        · rename_i m rest _
          simp only [Option.some.injEq] at hl; subst hl
          intro hd
          exact afterHandle_drainMono _ (handleMsg_drainMono { w with inbox := rest } m hd)
        · simp at hl

theorem runQ_drainMono (fuel : Nat) (w : W) : DrainMono w (W.runQ fuel w) := by
  induction fuel generalizing w with
  | zero => exact DrainMono.refl w
  | succ fuel ih =>
    unfold W.runQ
    cases hl : w.loopStep with
    | some w' => simp only; exact (loopStep_drainMono w w' hl).trans (ih w')
    | none =>
      simp only
      have hs : DrainMono w (W.tryFinishStop { w with env := w.env.settle }) := by
        refine DrainMono.of_eq ?_
        unfold W.tryFinishStop
        split <;> rfl
      split
      · exact hs
      · exact hs.trans (ih _)

theorem send_drain (w : W) (m : FMsg) : (w.send m).drain = w.drain := by
  unfold W.send; split <;> rfl

theorem advanceTo_drainMono (t fuel : Nat) (w : W) : DrainMono w (W.advanceTo t fuel w) := by
  induction fuel generalizing w with
  | zero => exact DrainMono.of_eq rfl
  | succ fuel ih =>
    unfold W.advanceTo
    split
    · simp only
      refine DrainMono.trans ?_ (ih _)
      refine DrainMono.trans ?_ (runQ_drainMono _ _)
      exact DrainMono.of_eq (by rw [send_drain]; rfl)
    · exact DrainMono.of_eq rfl

theorem finish_drain (w : W) (aid : Nat) (ok : Bool) : (w.finish aid ok).drain = w.drain := by
  unfold W.finish
  cases ha : w.env.getActor aid with
  | none => rfl
  | some a =>
    simp only
    cases hr : a.running with
    | none => rfl
    | some j =>
      simp only
      split
      · rfl
      · split
        · rfl
        · simp only [send_drain]

theorem applyOp_drainMono (w : W) (op : Op) : DrainMono w (w.applyOp op) := by
  cases op with
  | dispatch id key hash ttl acc =>
    simp only [W.applyOp]
    split
    · exact DrainMono.refl w
    · exact DrainMono.of_eq (by rw [send_drain]; rfl)
  | finish aid ok => exact DrainMono.of_eq (finish_drain w aid ok)
  | kill aid => exact DrainMono.of_eq rfl
  | resize n => exact DrainMono.of_eq (by simp only [W.applyOp, send_drain]; rfl)
  | settings d n =>
    refine DrainMono.of_eq ?_
    simp only [W.applyOp, send_drain]
    cases d <;> cases n <;> rfl
  | drain => exact DrainMono.of_eq (by simp only [W.applyOp, send_drain]; rfl)
  | setHandler hd => exact DrainMono.of_eq (by simp only [W.applyOp, send_drain]; rfl)
  | advance => exact DrainMono.refl w
  | block => exact DrainMono.of_eq rfl
  | release n =>
    simp only [W.applyOp]
    split
    · refine DrainMono.trans ?_ (afterHandle_drainMono _)
      refine DrainMono.of_eq ?_
      rw [calcRest_drain]
      split
      · rw [resizePool_drain]; rfl
      · rfl
    · exact DrainMono.refl w
  | nop => exact DrainMono.refl w

theorem ask_drainMono (w : W) (m : FMsg) : DrainMono w (w.ask m) := by
  unfold W.ask
  split
  · exact DrainMono.of_eq rfl
  · simp only
    have h1 : DrainMono w (W.runQ RUN_FUEL (w.send m)) :=
      (DrainMono.of_eq (send_drain w m)).trans (runQ_drainMono _ _)
    split
    · exact fun h => h1 h
    · exact h1

theorem queries_drainMono (w : W) : DrainMono w w.queries := by
  unfold W.queries
  split
  · exact DrainMono.of_eq rfl
  · exact ((DrainMono.of_eq rfl : DrainMono w { w with answers := [] }).trans (ask_drainMono _ _)).trans
      ((ask_drainMono _ _).trans (ask_drainMono _ _))

theorem stepOp_drainMono (w : W) (op : Op) (t0 tq te : Nat) : DrainMono w (w.stepOp op t0 tq te) := by
  unfold W.stepOp
  simp only
  generalize hw1 : W.advanceTo t0 (advanceFuel w t0) w = w1
  have h1 : DrainMono w w1 := by rw [← hw1]; exact advanceTo_drainMono _ _ _
  generalize hw2 : W.runQ RUN_FUEL (w1.applyOp op) = w2
  have h2 : DrainMono w1 w2 := by rw [← hw2]; exact (applyOp_drainMono _ _).trans (runQ_drainMono _ _)
  generalize hw3 : W.advanceTo tq (advanceFuel w2 tq) w2 = w3
  have h3 : DrainMono w2 w3 := by rw [← hw3]; exact advanceTo_drainMono _ _ _
  generalize hw4 : w3.queries = w4
  have h4 : DrainMono w3 w4 := by rw [← hw4]; exact queries_drainMono _
  generalize hw5 : W.advanceTo te (advanceFuel w4 te) w4 = w5
  have h5 : DrainMono w4 w5 := by rw [← hw5]; exact advanceTo_drainMono _ _ _
  exact fun h => h5 (h4 (h3 (h2 (h1 h))))

theorem runSteps_drainMono (w : W) (steps : List Step) : DrainMono w (w.runSteps steps) := by
  induction steps generalizing w with
  | nil => exact DrainMono.refl w
  | cons s rest ih => exact (stepOp_drainMono w s.op s.t0 s.tq s.te).trans (ih _)

end Factory

namespace Factory

theorem dropMsg_log (e : Env) (m : FMsg) : ∃ rest, (e.dropMsg m).log = e.log ++ rest := by
  cases m with
  | dispatch j =>
    show ∃ rest, (if j.port then (e.emit (.dropped j.id)).emit (.portClosed j.id) else e.emit (.dropped j.id)).log = _
    cases j.port
    · exact ⟨[Ev.dropped j.id], by simp [Env.emit]⟩
    · exact ⟨[Ev.dropped j.id, Ev.portClosed j.id], by simp [Env.emit]⟩
  | _ => exact ⟨[], by simp [Env.dropMsg]⟩

theorem foldl_dropMsg_log (inbox : List FMsg) (e : Env) : ∃ rest, (inbox.foldl Env.dropMsg e).log = e.log ++ rest := by
  induction inbox generalizing e with
  | nil => exact ⟨[], by simp⟩
  | cons m ms ih =>
    obtain ⟨r1, h1⟩ := dropMsg_log e m
    obtain ⟨r2, h2⟩ := ih (e.dropMsg m)
    exact ⟨r1 ++ r2, by rw [List.foldl_cons, h2, h1, List.append_assoc]⟩

end Factory

namespace Factory

theorem die_log (e : Env) (aid : Nat) : ∃ rest, (e.die aid).log = e.log ++ rest := by
  unfold Env.die
  cases ha : e.getActor aid with
  | none => exact ⟨[], by simp⟩
  | some a =>
    simp only
    split
    · exact ⟨[], by simp⟩
    · exact ⟨_, rfl⟩

theorem killAll_log (e : Env) : ∃ rest, e.killAll.log = e.log ++ rest := by
  unfold Env.killAll
  generalize e.actors.map (·.aid) = ids
  induction ids generalizing e with
  | nil => exact ⟨[], by simp⟩
  | cons a as ih =>
    obtain ⟨r1, h1⟩ := die_log e a
    obtain ⟨r2, h2⟩ := ih (e.die a)
    exact ⟨r1 ++ r2, by rw [List.foldl_cons, h2, h1, List.append_assoc]⟩

end Factory
