import RactorModel.Model.Tree

/-!
# Model `TreeConc` (C05, round 4) — any number of concurrently exiting actors, linkers, unlinkers

Core Lean only.  The same tree state as `Model/Tree.lean`; what is new is the step relation: every
actor has its own exit program counter `CPc`, and a schedule (`List COp`) interleaves, one tree-lock
region (or one lock-free statement) at a time,

* `spawn`, `link c p`, `linkStart c p`, `unlink c p`, `setStatus a st` by arbitrary outside threads (so
  `spawn_linked` = `spawn; …; linkStart; on refusal begin/xstep…`, any number of them, at any depth),
* `begin a kill`: `a`'s task leaves its message loop (kill path: `handle_signal` runs `terminate` first,
  BEFORE `Stopping` is published; every other cause goes straight to `cleanup`),
* `xstep a`: the next statement of `a`'s exit, in the order the code has them
  (`actor.rs::ActorLifecycleGuard::cleanup`, `actor_cell.rs::terminate`):
  `terminate` = worklist; per popped actor first `if status < Stopping { kill() }` (one statement, no
  lock), then `take_children` (one region under `TREE_MUTATION_LOCK`) — two separate steps here, the
  worklist iteration of `Tree.visit` split at the schedule point `tree.take`;
  `set_status(Stopping)`; `terminate` again; `try_get_supervisor()` (a lock-free read, its result is
  kept in the program counter) and then `unlink(that supervisor)` (a region of its own, re-checking the
  supervisor); `set_status(Stopped)`.

Several machines run at once: every killed descendant runs its own `terminate` over its own subtree
while its ancestor's worklist is still walking it.
-/

namespace Tree

/-- program counter of one actor's exit -/
inductive CPc
  | idle
  /-- inside `terminate` (`cleanup = false`: the call in `handle_signal`, `true`: the one in `cleanup`);
  `cur = some y`: `y` was popped and kill-tested, `take_children(y)` is next -/
  | term (cleanup : Bool) (pending : List Nat) (cur : Option Nat)
  | pub
  | detach
  /-- `try_get_supervisor()` returned `o`; `unlink` is next -/
  | unl (o : Option Nat)
  | publishStopped
  | done
  deriving DecidableEq, Repr

structure CState where
  t : State := {}
  pc : Nat → CPc := fun _ => .idle

inductive COp
  | spawn
  | link (c p : Nat)
  /-- the link `start` makes for the actor it starts (`link_starting`: child refused only at `Stopping`+) -/
  | linkStart (c p : Nat)
  | unlink (c p : Nat)
  | setStatus (a : Nat) (st : Status)
  | begin (a : Nat) (kill : Bool)
  | xstep (a : Nat)
  /-- the order in which `terminate` visits the actors on its worklist is the iteration order of a
  `HashMap` (`children.into_values()`): any rearrangement of the pending list may happen at any time -/
  | shuffle (a : Nat) (pending : List Nat)
  deriving DecidableEq, Repr

/-- the same elements, in any order and multiplicity -/
def sameMembers (p q : List Nat) : Bool := p.all (q.contains ·) && q.all (p.contains ·)

/-- what one step does to the tree -/
inductive TAct
  | nop
  | spawn
  | link (c p : Nat)
  | linkStart (c p : Nat)
  | unlink (c p : Nat)
  | take (y : Nat)
  | setSt (a : Nat) (st : Status)
  /-- `if y.get_status() < Stopping { y.kill() }` -/
  | kill (y : Nat)
  /-- `set_status(Stopped)`, the last statement of `cleanup` -/
  | stopped (a : Nat)
  deriving DecidableEq, Repr

def applyAct (t : State) : TAct → State
  | .nop => t
  | .spawn => spawn t
  | .link c p => (link t c p).1
  | .linkStart c p => (linkStart t c p).1
  | .unlink c p => unlink t c p
  | .take y => (takeChildren t y).1
  | .setSt a st => setStatus t a st
  | .kill y => if killCond true (t.status y) then { t with killed := upd t.killed y true } else t
  | .stopped a => setStatus t a .stopped

/-- the next statement of `a`'s exit: its effect on the tree and the new program counter -/
def xact (t : State) (a : Nat) : CPc → TAct × CPc
  | .idle => (.nop, .idle)
  | .term cl (y :: rest) none => (.kill y, .term cl rest (some y))
  | .term cl pend (some y) => (.take y, .term cl ((takeChildren t y).2 ++ pend) none)
  | .term false [] none => (.nop, .pub)
  | .term true [] none => (.nop, .detach)
  | .pub => (.setSt a .stopping, .term true [a] none)
  | .detach => (.nop, .unl (t.sup a))
  | .unl none => (.nop, .publishStopped)
  | .unl (some p) => (.unlink a p, .publishStopped)
  | .publishStopped => (.stopped a, .done)
  | .done => (.nop, .done)

def cact (g : CState) : COp → TAct
  | .spawn => .spawn
  | .link c p => .link c p
  | .linkStart c p => .linkStart c p
  | .unlink c p => .unlink c p
  | .setStatus a st => if a < g.t.n ∧ st ≠ .stopped then .setSt a st else .nop
  | .begin _ _ => .nop
  | .xstep a => (xact g.t a (g.pc a)).1
  | .shuffle _ _ => .nop

def cpc (g : CState) : COp → Nat → CPc
  | .begin a kill =>
    if a < g.t.n ∧ g.pc a = .idle then upd g.pc a (if kill then .term false [a] none else .pub) else g.pc
  | .xstep a => upd g.pc a (xact g.t a (g.pc a)).2
  | .shuffle a pend' =>
    match g.pc a with
    | .term cl pend cur => if sameMembers pend pend' then upd g.pc a (.term cl pend' cur) else g.pc
    | _ => g.pc
  | _ => g.pc

def cstep (g : CState) (op : COp) : CState := ⟨applyAct g.t (cact g op), cpc g op⟩

def crun (g : CState) (ops : List COp) : CState := ops.foldl cstep g

def cinit : CState := {}

/-- `x` sits on the worklist of somebody's `terminate` -/
def onWork (g : CState) (x : Nat) : Prop := ∃ a cl pend cur, g.pc a = .term cl pend cur ∧ x ∈ pend

/-- `x` is on its way out: its task has left the message loop, or it was sent the kill signal, or it has
published `Stopping` (it sits in `post_stop`, of whatever length, and is *not* sent a kill —
`actor_cell.rs::terminate` tests `< Stopping`), or a `terminate` worklist holds it. -/
def Exiting (g : CState) (x : Nat) : Prop :=
  g.pc x ≠ .idle ∨ g.t.killed x = true ∨ Status.stopping.toNat ≤ (g.t.status x).toNat ∨ onWork g x

/-- "at rest": no exit is in flight, and every actor that was sent the kill signal or has published
`Stopping` has finished `cleanup`.  (That such an actor *does* run `cleanup` is C01/C03: a task that takes
the kill signal, returns from `post_stop`, panics or is cancelled drops its `ActorLifecycleGuard`.) -/
def Rest (g : CState) : Prop :=
  ∀ x, (g.pc x = .idle ∨ g.pc x = .done) ∧
    ((g.t.killed x = true ∨ Status.stopping.toNat ≤ (g.t.status x).toNat) → g.pc x = .done)

/-- the step is an *accepted* `unlink c _` / hand-over `link c q` (to another supervisor) by an outside
thread: `c` leaves its supervisor's child set by the user's own doing -/
def escStep (g : CState) (op : COp) (c : Nat) : Bool :=
  match op with
  | .unlink c' p' => decide (c' = c) && decide (g.t.sup c = some p')
  | .link c' q => decide (c' = c) && (link g.t c q).2 &&
      (match g.t.sup c with | some o => decide (o ≠ q) | none => false)
  | .linkStart c' q => decide (c' = c) && (linkStart g.t c q).2 &&
      (match g.t.sup c with | some o => decide (o ≠ q) | none => false)
  | _ => false

/-- … somewhere along the run -/
def escRun : CState → List COp → Nat → Bool
  | _, [], _ => false
  | g, op :: ops, c => escStep g op c || escRun (cstep g op) ops c

/-! ### what a lock-free reader can see inside a tree-lock region

`get_children`, `for_each_child`, `try_get_supervisor` take only the per-field mutex, not
`TREE_MUTATION_LOCK`.  Inside `link` (hand-over of `c` from `q` to `p`) the two field guards of the first
half (`p.children`, `c.supervisor`) are released before `q.children` is locked; inside `take_children` the
set is closed before the children's supervisor fields are cleared one by one. -/

/-- first half of a hand-over `link c p`: insert into `p`'s set, replace `c`'s supervisor -/
def linkA (s : State) (c p : Nat) : State :=
  match s.kids p with
  | none => s
  | some ks => { s with kids := upd s.kids p (some (ins c ks)), sup := upd s.sup c (some p) }

/-- second half: remove `c` from the previous supervisor's set (if still open) -/
def linkB (s : State) (c q : Nat) : State :=
  match s.kids q with
  | none => s
  | some qs => { s with kids := upd s.kids q (some (qs.erase c)) }

/-- `take_children p` after the `take()` and after the supervisor fields of `cleared` were reset -/
def takeMid (s : State) (p : Nat) (cleared : List Nat) : State :=
  { s with kids := upd s.kids p none,
           sup := fun x => if x ∈ cleared ∧ s.sup x = some p then none else s.sup x }

end Tree
