import RactorModel.Lemmas.Tree

/-! Corollaries of the `Tree` invariants used by `Props/C05.lean`: refused links, monotonicity
(closed stays closed, exiting actors never gain links), the kill set of `exit`, the exit/link race. -/

namespace Tree

/-! ### (4) `link` -/

theorem linkB_refused {lim : Nat} {s : State} {c p : Nat} (h : ¬ gateB lim s c p ∨ s.kids p = none) :
    linkBelow lim s c p = (s, false) := by
  rcases linkB_cases lim s c p with ⟨e, _⟩ | ⟨ks, hg, hk, _⟩
  · exact e
  · rcases h with h | h
    · exact absurd hg h
    · rw [hk] at h; cases h

theorem linkB_true {lim : Nat} {s : State} {c p : Nat} (h : (linkBelow lim s c p).2 = true) :
    gateB lim s c p ∧ (∃ ks, s.kids p = some ks) ∧ (linkBelow lim s c p).1.sup c = some p := by
  rcases linkB_cases lim s c p with ⟨e, _⟩ | ⟨ks, hg, hk, hcase⟩
  · rw [e] at h; cases h
  · refine ⟨hg, ⟨ks, hk⟩, ?_⟩
    rcases hcase with ⟨hs, e⟩ | ⟨hs, e⟩ | ⟨q, hs, hqp, e⟩
    · rw [e]; exact hs
    · rw [e]; simp
    · rw [e]; simp

/-- what a single `link` can change at an actor `z` other than the child and the new supervisor:
it can only lose a child -/
theorem linkB_other {lim : Nat} {s : State} (h : Inv s) {c p z : Nat} :
    (∀ x, child (linkBelow lim s c p).1 z x → x = c ∧ z = p ∨ child s z x) ∧
    ((linkBelow lim s c p).1.sup z = s.sup z ∨ z = c) ∧
    (s.kids z = none → (linkBelow lim s c p).1.kids z = none) ∧
    (linkBelow lim s c p).1.status = s.status ∧ (linkBelow lim s c p).1.killed = s.killed ∧ (linkBelow lim s c p).1.n = s.n := by
  rcases linkB_cases lim s c p with ⟨e, _⟩ | ⟨ks, hg, hk, hcase⟩
  · rw [e]; exact ⟨fun x hx => .inr hx, .inl rfl, id, by trivial, by trivial, by trivial⟩
  · have hchild_p : ∀ x, x ∈ ins c ks → x = c ∨ child s p x := fun x hx => by
      rcases mem_ins.mp hx with e | hm
      · exact .inl e
      · exact .inr ⟨ks, hk, hm⟩
    rcases hcase with ⟨hs, e⟩ | ⟨hs, e⟩ | ⟨q, hs, hqp, e⟩
    · rw [e]
      refine ⟨?_, .inl rfl, ?_, rfl, rfl, rfl⟩
      · rintro x ⟨ks', hk', hx⟩
        simp only [upd_apply] at hk'
        split at hk'
        · next hz => cases hk'; subst hz
                     rcases hchild_p x hx with e | e
                     · exact .inl ⟨e, rfl⟩
                     · exact .inr e
        · exact .inr ⟨ks', hk', hx⟩
      · intro hz; simp only [upd_apply]; split
        · next e => subst e; rw [hk] at hz; cases hz
        · exact hz
    · rw [e]
      refine ⟨?_, ?_, ?_, rfl, rfl, rfl⟩
      · rintro x ⟨ks', hk', hx⟩
        simp only [upd_apply] at hk'
        split at hk'
        · next hz => cases hk'; subst hz
                     rcases hchild_p x hx with e | e
                     · exact .inl ⟨e, rfl⟩
                     · exact .inr e
        · exact .inr ⟨ks', hk', hx⟩
      · simp only [upd_apply]; split
        · next e => exact .inr e
        · exact .inl rfl
      · intro hz; simp only [upd_apply]; split
        · next e => subst e; rw [hk] at hz; cases hz
        · exact hz
    · rw [e]
      obtain ⟨qs, hkq, hcq⟩ := (h.links c q).mp hs
      have hk1 : upd s.kids p (some (ins c ks)) q = some qs := by rw [upd_ne _ _ hqp]; exact hkq
      simp only [hk1]
      refine ⟨?_, ?_, ?_, by trivial, by trivial, by trivial⟩
      · rintro x ⟨ks', hk', hx⟩
        simp only [upd_apply] at hk'
        split at hk'
        · next hz => cases hk'; subst hz; exact .inr ⟨qs, hkq, List.mem_of_mem_erase hx⟩
        · split at hk'
          · next hz => cases hk'; subst hz
                       rcases hchild_p x hx with e | e
                       · exact .inl ⟨e, rfl⟩
                       · exact .inr e
          · exact .inr ⟨ks', hk', hx⟩
      · simp only [upd_apply]; split
        · next e => exact .inr e
        · exact .inl rfl
      · intro hz; simp only [upd_apply]; split
        · next e => subst e; rw [hkq] at hz; cases hz
        · split
          · next e => subst e; rw [hk] at hz; cases hz
          · exact hz

theorem linkB_other_n (lim : Nat) (s : State) (c p : Nat) : (linkBelow lim s c p).1.n = s.n := by
  rcases linkB_cases lim s c p with ⟨e, _⟩ | ⟨ks, _, _, hcase⟩
  · rw [e]
  · rcases hcase with ⟨_, e⟩ | ⟨_, e⟩ | ⟨q, _, _, e⟩ <;> rw [e]

theorem link_refused {s : State} {c p : Nat} (h : ¬ gate s c p ∨ s.kids p = none) : link s c p = (s, false) :=
  linkB_refused h

theorem link_true {s : State} {c p : Nat} (h : (link s c p).2 = true) :
    gate s c p ∧ (∃ ks, s.kids p = some ks) ∧ (link s c p).1.sup c = some p := linkB_true h

theorem link_other {s : State} (h : Inv s) {c p z : Nat} :
    (∀ x, child (link s c p).1 z x → x = c ∧ z = p ∨ child s z x) ∧
    ((link s c p).1.sup z = s.sup z ∨ z = c) ∧
    (s.kids z = none → (link s c p).1.kids z = none) ∧
    (link s c p).1.status = s.status ∧ (link s c p).1.killed = s.killed ∧ (link s c p).1.n = s.n :=
  linkB_other h

theorem link_other_n (s : State) (c p : Nat) : (link s c p).1.n = s.n := linkB_other_n _ s c p

/-- below `Draining` the link `start` makes and the public `link` are the same function -/
theorem linkStart_eq_link {s : State} {c p : Nat} (h : (s.status c).toNat < Status.draining.toNat) :
    linkStart s c p = link s c p := by
  unfold linkStart link linkBelow
  have e1 : ¬ Status.stopping.toNat ≤ (s.status c).toNat := by simp only [Status.toNat] at h ⊢; omega
  have e2 : ¬ Status.draining.toNat ≤ (s.status c).toNat := by simp only [Status.toNat] at h ⊢; omega
  simp only [e1, e2]

/-! ### monotonicity of the worklist -/

theorem loop_mono (fixed : Bool) : ∀ (f : Nat) (s : State) (pending : List Nat) (z : Nat),
    ((loop fixed f s pending).kids z = s.kids z ∨ (loop fixed f s pending).kids z = none) ∧
    ((loop fixed f s pending).sup z = s.sup z ∨ (loop fixed f s pending).sup z = none) ∧
    (s.killed z = true → (loop fixed f s pending).killed z = true) := by
  intro f
  induction f with
  | zero => intro s pending z; exact ⟨.inl rfl, .inl rfl, id⟩
  | succ f ih =>
    intro s pending z
    cases pending with
    | nil => exact ⟨.inl rfl, .inl rfl, id⟩
    | cons x rest =>
      simp only [Tree.loop]
      obtain ⟨_, _, hkx, hky, _, hsup, hkilled⟩ := visit_spec fixed s x
      obtain ⟨a, b, c⟩ := ih (visit fixed s x).1 ((visit fixed s x).2 ++ rest) z
      refine ⟨?_, ?_, ?_⟩
      · rcases a with a | a
        · by_cases e : z = x
          · subst e; right; rw [a]; exact hkx
          · left; rw [a]; exact hky z e
        · exact .inr a
      · rcases b with b | b
        · rw [b, hsup z]; split
          · exact .inr rfl
          · exact .inl rfl
        · exact .inr b
      · intro hz; apply c; rw [hkilled z]; simp [hz]

/-! ### (6) what `exit` does -/

theorem desc_setStatus {s : State} {a x : Nat} (b : Nat) (st : Status) :
    Desc (setStatus s b st) a x ↔ Desc s a x := by
  constructor <;> intro h
  · induction h with
    | refl => exact .refl
    | tail _ hc ih => exact .tail ih hc
  · induction h with
    | refl => exact .refl
    | tail _ hc ih => exact .tail ih hc

/-- the kill set of an exit -/
theorem exit_killed (fixed : Bool) (s : State) (a : Nat) (h : Inv s) (z : Nat) :
    (exit fixed s a).killed z = true ↔
      s.killed z = true ∨ (Desc s a z ∧ killCond fixed ((setStatus s a .stopping).status z) = true) := by
  have h1 : Inv (setStatus s a .stopping) := h.setStatus a _ (by decide)
  obtain ⟨_, _, _, _, E, _, _⟩ := terminate_spec fixed (setStatus s a .stopping) a h1
  have hk : (exit fixed s a).killed = (terminate fixed (setStatus s a .stopping) a).killed :=
    (detachSelf_frame _ _).1
  rw [hk, E z, desc_setStatus]
  rfl

theorem max_stopped (st : Status) : st.max .stopped = .stopped := by
  cases st <;> rfl

theorem exit_status (fixed : Bool) (s : State) (a z : Nat) :
    (exit fixed s a).status z = if z = a then .stopped else s.status z := by
  have e : (exit fixed s a).status z =
      upd (detachSelf (terminate fixed (setStatus s a .stopping) a) a).status a
        (((detachSelf (terminate fixed (setStatus s a .stopping) a) a).status a).max .stopped) z := rfl
  rw [e, (detachSelf_frame _ _).2.1]
  have e2 : (terminate fixed (setStatus s a .stopping) a).status = (setStatus s a .stopping).status :=
    (loop_status _ _ _).1
  rw [e2, max_stopped, upd_apply]
  split
  · rfl
  · next hne => simp [Tree.setStatus, upd_ne _ _ hne]

theorem killCond_false {fixed : Bool} {st : Status} (h : killCond fixed st = false) :
    (fixed = true → Status.stopping.toNat ≤ st.toNat) ∧ (fixed = false → Status.draining.toNat ≤ st.toNat) := by
  cases fixed <;> cases st <;> simp [killCond, Status.toNat] at h ⊢

/-- (6): with the kill condition `< Stopping`, an exit sends the kill signal to every actor linked
beneath the exiting one that is not already stopping or stopped; with `<= Upgrading` the draining
ones are skipped as well -/
theorem exit_kills (fixed : Bool) (s : State) (a : Nat) (h : Inv s) (z : Nat) (hd : Desc s a z) (hza : z ≠ a) :
    (exit fixed s a).killed z = true ∨
      (if fixed then Status.stopping.toNat ≤ (s.status z).toNat else Status.draining.toNat ≤ (s.status z).toNat) := by
  have hst : (setStatus s a .stopping).status z = s.status z := by simp [Tree.setStatus, upd_ne _ _ hza]
  cases hc : killCond fixed (s.status z) with
  | true => left; rw [exit_killed fixed s a h z, hst]; exact .inr ⟨hd, hc⟩
  | false =>
    right
    obtain ⟨h1, h2⟩ := killCond_false hc
    cases fixed
    · simpa using h2 rfl
    · simpa using h1 rfl

/-- the subtree is closed and detached after the exit -/
theorem exit_detaches (fixed : Bool) (s : State) (a : Nat) (h : Inv s) (z : Nat) (hd : Desc s a z) :
    (exit fixed s a).kids z = none ∧ (∀ w, Desc s a w → child s w z → (exit fixed s a).sup z = none) := by
  have h1 : Inv (setStatus s a .stopping) := h.setStatus a _ (by decide)
  obtain ⟨A, _, C, _, _, _, _⟩ := terminate_spec fixed (setStatus s a .stopping) a h1
  have hA := A z ((desc_setStatus a .stopping).mpr hd)
  refine ⟨?_, ?_⟩
  · show (detachSelf (terminate fixed (setStatus s a .stopping) a) a).kids z = none
    rcases detachSelf_kids (terminate fixed (setStatus s a .stopping) a) a z with e | ⟨ks, e, _⟩
    · exact e.trans hA
    · rw [hA] at e; cases e
  · intro w hw hc
    have := C w z ((desc_setStatus a .stopping).mpr hw) hc
    show (detachSelf (terminate fixed (setStatus s a .stopping) a) a).sup z = none
    rcases detachSelf_sup (terminate fixed (setStatus s a .stopping) a) a z with e | e
    · exact e.trans this
    · exact e

/-! ### (2) and the second half of (4): monotonicity of every op -/

theorem exit_mono (fixed : Bool) (s : State) (a z : Nat) :
    ((exit fixed s a).kids z = s.kids z ∨ (exit fixed s a).kids z = none ∨
        ∃ ks c, s.kids z = some ks ∧ (exit fixed s a).kids z = some (ks.erase c)) ∧
    ((exit fixed s a).sup z = s.sup z ∨ (exit fixed s a).sup z = none) := by
  obtain ⟨hk, hs, _⟩ := loop_mono fixed (totalKids (setStatus s a .stopping) (setStatus s a .stopping).n + 1)
    (setStatus s a .stopping) [a] z
  have hk' : (terminate fixed (setStatus s a .stopping) a).kids z = s.kids z ∨
      (terminate fixed (setStatus s a .stopping) a).kids z = none := hk
  have hs' : (terminate fixed (setStatus s a .stopping) a).sup z = s.sup z ∨
      (terminate fixed (setStatus s a .stopping) a).sup z = none := hs
  have ek : (exit fixed s a).kids z = (detachSelf (terminate fixed (setStatus s a .stopping) a) a).kids z := rfl
  have es : (exit fixed s a).sup z = (detachSelf (terminate fixed (setStatus s a .stopping) a) a).sup z := rfl
  rw [ek, es]
  generalize terminate fixed (setStatus s a .stopping) a = t at hk' hs'
  refine ⟨?_, ?_⟩
  · rcases detachSelf_kids t a z with e | ⟨ks, e1, e2⟩
    · rw [e]; exact hk'.imp id .inl
    · rcases hk' with e' | e'
      · exact .inr (.inr ⟨ks, a, by rw [← e', e1], e2⟩)
      · rw [e'] at e1; cases e1
  · rcases detachSelf_sup t a z with e | e
    · rw [e]; exact hs'
    · exact .inr e

/-- (2) a closed child set stays closed, whatever happens -/
theorem closed_step (fixed : Bool) {s : State} (h : Inv s) (op : Op) (z : Nat) (hz : s.kids z = none) :
    (step fixed s op).kids z = none := by
  cases op with
  | spawn => exact hz
  | link c p => exact (link_other h (c := c) (p := p) (z := z)).2.2.1 hz
  | unlink c p => exact unlink_closed c p hz
  | takeChildren p =>
    simp only [Tree.step]
    cases hk : s.kids p with
    | none => rw [takeChildren_none hk]; exact hz
    | some ks => rw [takeChildren_some hk]; simp only [upd_apply]; split <;> simp [hz]
  | terminate a => exact loop_closed _ _ _ hz
  | exit a =>
    rcases (exit_mono fixed s a z).1 with e | e | ⟨ks, c, e, _⟩
    · exact e.trans hz
    · exact e
    · rw [hz] at e; cases e
  | setStatus a st => simp only [Tree.step]; split <;> exact hz

/-- the gate of `link_below` seen from a third actor `z` that is at least `Draining`: `z` gains no child;
`z` gains no supervisor if it is the child and at or above the child limit (or not the child at all) -/
theorem linkB_no_gain {lim : Nat} {s : State} (h : Inv s) (c p z : Nat)
    (hz : Status.draining.toNat ≤ (s.status z).toNat) :
    (∀ x, child (linkBelow lim s c p).1 z x → child s z x) ∧
    ((lim ≤ (s.status z).toNat ∨ z ≠ c) → ∀ q, (linkBelow lim s c p).1.sup z = some q → s.sup z = some q) := by
  obtain ⟨h1, h2, _⟩ := linkB_other (lim := lim) h (c := c) (p := p) (z := z)
  have hngp : z = p → linkBelow lim s c p = (s, false) := by
    intro e
    apply linkB_refused; left
    unfold gateB
    subst e; simp only [Status.toNat] at hz ⊢; omega
  have hngc : z = c → lim ≤ (s.status z).toNat → linkBelow lim s c p = (s, false) := by
    intro e hl
    apply linkB_refused; left
    unfold gateB
    subst e; omega
  refine ⟨fun x hx => ?_, fun hcond q hq => ?_⟩
  · by_cases e : z = p
    · rw [hngp e] at hx; exact hx
    · rcases h1 x hx with ⟨_, e'⟩ | e'
      · exact absurd e' e
      · exact e'
  · rcases h2 with e' | e'
    · rw [← e']; exact hq
    · rcases hcond with hl | hne
      · rw [hngc e' hl] at hq; exact hq
      · exact absurd e' hne

/-- (4) an actor that is draining, stopping or stopped never gains a child or a supervisor (the operations
of `Op`: the public `link`; for the link `start` makes see `linkB_no_gain` / `C05.start_link_no_gain`) -/
theorem no_gain_step (fixed : Bool) {s : State} (h : Inv s) (op : Op) (z : Nat)
    (hz : Status.draining.toNat ≤ (s.status z).toNat) :
    (∀ x, child (step fixed s op) z x → child s z x) ∧
    (∀ q, (step fixed s op).sup z = some q → s.sup z = some q) := by
  cases op with
  | spawn => exact ⟨fun _ hx => hx, fun _ hq => hq⟩
  | link c p =>
    obtain ⟨a, b⟩ := linkB_no_gain (lim := Status.draining.toNat) h c p z hz
    exact ⟨a, b (.inl hz)⟩
  | unlink c p =>
    refine ⟨?_, ?_⟩
    · rintro x ⟨ks', hk', hx⟩
      rcases unlink_kids s c p z with e | ⟨ks, e1, e2⟩
      · exact ⟨ks', by rw [← e]; exact hk', hx⟩
      · rw [show (Tree.step fixed s (.unlink c p)).kids z = some (ks.erase c) from e2] at hk'
        cases hk'; exact ⟨ks, e1, List.mem_of_mem_erase hx⟩
    · intro q hq
      rcases unlink_sup s c p z with e | e
      · rw [← e]; exact hq
      · rw [show (Tree.step fixed s (.unlink c p)).sup z = none from e] at hq; cases hq
  | takeChildren p =>
    simp only [Tree.step]
    cases hk : s.kids p with
    | none => rw [takeChildren_none hk]; exact ⟨fun _ hx => hx, fun _ hq => hq⟩
    | some ks =>
      rw [takeChildren_some hk]
      refine ⟨?_, ?_⟩
      · rintro x ⟨ks', hk', hx⟩
        simp only [upd_apply] at hk'
        split at hk'
        · cases hk'
        · exact ⟨ks', hk', hx⟩
      · intro q hq
        simp only at hq
        split at hq
        · cases hq
        · exact hq
  | terminate a =>
    obtain ⟨hk, hs, _⟩ := loop_mono fixed (totalKids s s.n + 1) s [a] z
    refine ⟨?_, ?_⟩
    · rintro x ⟨ks', hk', hx⟩
      rcases hk with e | e
      · exact ⟨ks', by rw [← e]; exact hk', hx⟩
      · rw [show (Tree.step fixed s (.terminate a)).kids z = none from e] at hk'; cases hk'
    · intro q hq
      rcases hs with e | e
      · rw [← e]; exact hq
      · rw [show (Tree.step fixed s (.terminate a)).sup z = none from e] at hq; cases hq
  | exit a =>
    obtain ⟨hk, hs⟩ := exit_mono fixed s a z
    refine ⟨?_, ?_⟩
    · rintro x ⟨ks', hk', hx⟩
      rcases hk with e | e | ⟨ks, c, e1, e2⟩
      · exact ⟨ks', by rw [← e]; exact hk', hx⟩
      · rw [show (Tree.step fixed s (.exit a)).kids z = none from e] at hk'; cases hk'
      · rw [show (Tree.step fixed s (.exit a)).kids z = some (ks.erase c) from e2] at hk'
        cases hk'; exact ⟨ks, e1, List.mem_of_mem_erase hx⟩
    · intro q hq
      rcases hs with e | e
      · rw [← e]; exact hq
      · rw [show (Tree.step fixed s (.exit a)).sup z = none from e] at hq; cases hq
  | setStatus a st =>
    simp only [Tree.step]; split <;> exact ⟨fun _ hx => hx, fun _ hq => hq⟩

end Tree

namespace Tree

theorem Inv.ok {s : State} (h : Inv s) : ok s = true := by
  unfold Tree.ok
  have h1 : linksOk s = true := by
    unfold linksOk
    rw [List.all_eq_true]
    intro c _
    rw [Bool.and_eq_true]
    refine ⟨?_, ?_⟩
    · cases hs : s.sup c with
      | none => rfl
      | some p =>
        obtain ⟨ks, hk, hc⟩ := (h.links c p).mp hs
        have := (h.bound p ks c hk hc).1
        simp [hk, hc, this]
    · rw [List.all_eq_true]
      intro p _
      cases hk : s.kids p with
      | none => rfl
      | some ks =>
        by_cases hc : c ∈ ks
        · have := (h.links c p).mpr ⟨ks, hk, hc⟩
          simp [this]
        · simp [hc]
  have h2 : stoppedOk s = true := by
    unfold stoppedOk
    rw [List.all_eq_true]
    intro a _
    by_cases hst : s.status a = .stopped
    · obtain ⟨h1, h2⟩ := h.stopped a hst
      rcases h2 with h2 | h2 <;> simp [hst, h1, h2]
    · simp [hst]
  have h3 : setsOk s = true := by
    unfold setsOk
    rw [List.all_eq_true]
    intro p _
    cases hk : s.kids p with
    | none => rfl
    | some ks =>
      simp only [Bool.and_eq_true, List.all_eq_true, decide_eq_true_eq]
      exact ⟨fun c hc => (h.bound p ks c hk hc).2, h.nodup p ks hk⟩
  rw [h1, h2, h3]; rfl

theorem closed_steps (fixed : Bool) {s : State} (h : Inv s) (ops : List Op) (z : Nat) (hz : s.kids z = none) :
    (steps fixed s ops).kids z = none := by
  induction ops generalizing s with
  | nil => exact hz
  | cons op ops ih => exact ih (h.step fixed op) (closed_step fixed h op z hz)

end Tree
