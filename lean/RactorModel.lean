-- Root of the `RactorModel` library: every model, lemma and property module.
import RactorModel.Extracted
import RactorModel.Props.C18
import RactorModel.Props.C10
import RactorModel.Props.C11
import RactorModel.Props.C09
import RactorModel.Props.C08
import RactorModel.Props.C16
import RactorModel.Props.C20
import RactorModel.Props.C12
import RactorModel.Props.C05
import RactorModel.Props.C02
import RactorModel.Props.C07
import RactorModel.Props.C06
import RactorModel.Props.C19
import RactorModel.Props.C17
