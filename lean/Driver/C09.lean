import RactorModel.Model.Rpc
import Driver.Common

/-! Driver for the `Rpc` model (C09).

ops (one per line; `T` = timeout in ms or `-`):
  `case`                                  fresh world
  `spawn`                                 → `ok`
  `call a T` / `fcall a f T`              → events
  `mcall a1,a2,… T`                       → events
  `handle a reply:v|drop|keep|detach`     → `handled p [sent-ok|sent-err]` | `fwd v` | `idle`, then events
  `later p reply:v|drop`                  → `sent-ok|sent-err|dropped|noport`, then events
  `exit a` (kill) / `drain a`             → events
  `stop a reply:v|drop|keep|detach`       → graceful stop: the blocked handler (if any) finishes with the
                                             given action, then the actor stops: `handled p …|fwd v|idle`, events
  `advance d`                             → events
  `fail a err|panic`                      → `failed p|failed-fwd v|idle`, events: the handler of a's current message
                                             returns Err / panics (ActorFailed: no state handed on)
  `spawnsup`                              → `ok`      (a supervisor; own index space)
  `spawnl u`                              → `ok|failed` (callee spawned linked to supervisor u)
  `suphandle u stash|drop`                → `evt a|idle`, events: u finishes handling the termination event (with
                                             the child's last state) at the head of its queue
  `supdrop u a`                           → `dropped|noevent`, events: u drops the stashed event of actor a
  `supexit u`                             → events: u is killed (queue + stash dropped, children killed)
  (`later p …` on a port inside a STASHED state = the supervisor takes it out of the state and uses it)
events: ` | ` then `;`-separated, sorted: `done p=R`, `fdone p=R[+ok|+senderr]`, `mdone g=R1,R2…|err`
with `R ::= success:v | senderError | timeout | sendErr`.
-/

namespace Driver.C09
open Rpc Driver

def showRes : Res → String
  | .success v => s!"success:{v}"
  | .senderError => "senderError"
  | .timeout => "timeout"
  | .sendErr => "sendErr"
  | .abandoned => "abandoned"

def parseAct? (s : String) : Option Act :=
  if s == "drop" then some .drop
  else if s == "keep" then some .keep
  else if s == "detach" then some .detach
  else match s.splitOn ":" with
    | ["reply", v] => v.toNat?.map .reply
    | _ => none

def parseT? (s : String) : Option (Option Nat) :=
  if s == "-" then some none else s.toNat?.map some

def groupMembersIdx (s : S) (g : Nat) : List (Nat × Call) :=
  (List.zip (List.range s.calls.length) s.calls).filter (fun pc => pc.2.group == some g)

/-- events produced by one model step -/
def events (before after : S) : List String :=
  let idx := List.range after.calls.length
  let single : List String := idx.filterMap (fun p =>
    match after.calls[p]? with
    | some c =>
      let was := (before.calls[p]?).bind (·.res)
      if was.isNone && c.group.isNone then
        match c.res with
        | some r =>
          match c.forward with
          | some f =>
            -- the forward this completion performed, from the model's ghost log of forwards
            let fwdOk := match r with
              | .success _ =>
                (match after.fwdlog.find? (fun (e : Nat × Nat × Nat × Bool) => e.1 == p) with
                 | some e => if e.2.1 == f && e.2.2.2 then "+ok" else "+senderr"
                 | none => "+no-forward")
              | _ => ""
            some s!"fdone {p}={match r with | .success _ => "success" | o => showRes o}{fwdOk}"
          | none => some s!"done {p}={showRes r}"
        | none => none
      else none
    | none => none)
  let groups : List String := (List.range after.groups).filterMap (fun g =>
    let ms := groupMembersIdx after g
    let doneNow := ms.all (fun pc => pc.2.res.isSome)
    let doneBefore := g < before.groups && (groupMembersIdx before g).all (fun pc => pc.2.res.isSome)
      && (groupMembersIdx before g).length == ms.length
    if doneNow && !doneBefore then
      if ms.any (fun pc => pc.2.res == some .sendErr || pc.2.res == some .abandoned) then some s!"mdone {g}=err"
      -- the vector `multi_call` returns: the model's result vector (written through the threaded slots)
      else some s!"mdone {g}={",".intercalate (((after.mresults[g]?).getD []).map (fun r => (r.map showRes).getD "?"))}"
    else none)
  single ++ groups

def fmt (pre : String) (ev : List String) : String :=
  if ev.isEmpty then pre else s!"{pre} | {";".intercalate ev}"

/-! ### oracle state derived from the IMPLEMENTATION's observations only -/

inductive Hold | mailbox (a : Nat) | kept (a : Nat) | detached | gone
  deriving BEq

structure ICall where
  callee : Nat
  deadline : Option Nat
  hold : Hold
  done : Bool
  fwd : Option Nat := none
  group : Option Nat := none
  tmo : Option Nat := none       -- the timeout the caller gave (travels with the port: `get_timeout`)

structure OS where
  now : Nat := 0
  calls : List ICall := []
  replies : List (Nat × Nat) := []        -- (port, value) actually sent by the real callee
  groups : List (List Nat) := []          -- member ports per multi_call group
  expectFwd : List (Nat × Nat) := []      -- (target, value) forwards announced by `fdone …+ok`
  dead : List Nat := []                   -- actors the implementation reported as stopped (`# died …`)
  asup : List (Option Nat) := []          -- per spawned actor: the supervisor it was linked to
  supsAlive : List Bool := []             -- per supervisor: not yet killed by the harness

structure DS where
  m : S := init
  o : OS := {}

def parseEvents (impl : String) : String × List String :=
  match impl.splitOn " | " with
  | [pre, ev] => (pre, ev.splitOn ";")
  | [pre] => (pre, [])
  | _ => (impl, [])

/-- `done p=R` / `fdone p=R+x` / `mdone g=…` → (kind, id, payload) -/
def parseEvent (e : String) : Option (String × Nat × String) :=
  match words e with
  | [k, rest] =>
    match rest.splitOn "=" with
    | [i, r] => i.toNat?.map (fun i => (k, i, r))
    | _ => none
  | _ => none

def successVal (r : String) : Option Nat :=
  match (r.splitOn "+").head!.splitOn ":" with
  | ["success", v] => v.toNat?
  | _ => none

/-- judge the implementation's events of one op; returns failed clauses and the new oracle state -/
def judge (o : OS) (evs : List String) : OS × List String := Id.run do
  let mut o := o
  let mut bad : List String := []
  for e in evs do
    match parseEvent e with
    | some (k, i, r) =>
      if k == "done" || k == "fdone" then
        -- no cross-wiring: a Success carries exactly what the real callee sent on THIS port
        if k == "done" then
          match successVal r with
          | some v => if !(o.replies.contains (i, v)) then bad := bad ++ ["c09.success-not-own-reply"]
          | none => pure ()
        else if r.startsWith "success" then
          -- call_and_forward does not return the value: it must be the one sent on this port,
          -- and on `+ok` exactly that value is owed to the forward target
          match o.replies.find? (fun pv => pv.1 == i), (o.calls[i]?).bind (·.fwd) with
          | some (_, v), some f => if r.endsWith "+ok" then o := { o with expectFwd := (f, v) :: o.expectFwd }
          | none, _ => bad := bad ++ ["c09.success-not-own-reply"]
          | _, _ => pure ()
        match o.calls[i]? with
        | some c =>
          if c.done then bad := bad ++ ["c09.call-completed-twice"]
          -- SenderError only once the port is gone: never while a live actor, a detached task or a
          -- termination event still held by a supervisor owns it
          if r.startsWith "senderError" && c.hold != .gone then bad := bad ++ ["c09.sender-error-but-port-held"]
          if r.startsWith "timeout" then
            match c.deadline with
            | some d => if o.now < d then bad := bad ++ ["c09.timeout-early"]
            | none => bad := bad ++ ["c09.timeout-without-deadline"]
          o := { o with calls := o.calls.modify i (fun c => { c with done := true }) }
        | none => bad := bad ++ ["c09.unknown-call"]
      else if k == "mdone" then
        match o.groups[i]? with
        | some ms =>
          if r != "err" then
            let rs := r.splitOn ","
            if rs.length != ms.length then bad := bad ++ ["c09.multi-call-wrong-arity"]
            for (p, ri) in List.zip ms rs do
              match successVal ri with
              | some v => if !(o.replies.contains (p, v)) then bad := bad ++ ["c09.multi-call-out-of-order-or-cross-wired"]
              | none =>
                if ri == "senderError" && (o.calls[p]?).any (fun c => c.hold != .gone) then
                  bad := bad ++ ["c09.sender-error-but-port-held"]
          o := { o with calls := ms.foldl (fun cs p => cs.modify p (fun c => { c with done := true })) o.calls }
        | none => bad := bad ++ ["c09.unknown-group"]
    | none => if e != "" then bad := bad ++ ["unparsable-event"]
  return (o, bad)

/-- after an op: nobody whose port died or whose deadline passed is left hanging -/
def hanging (o : OS) : List String :=
  let decided (c : ICall) : Bool := c.hold == .gone || (match c.deadline with | some d => d ≤ o.now | none => false)
  -- a multi_call completes as a whole: only when every member is decided
  let groupDecided (g : Nat) : Bool := o.calls.all (fun c => c.group != some g || c.done || decided c)
  let stuck (c : ICall) : Bool := !c.done && decided c && (match c.group with | some g => groupDecided g | none => true)
  let late := o.calls.any (fun c => stuck c && c.hold != .gone)
  let dead := o.calls.any (fun c => stuck c && c.hold == .gone)
  (if late then ["c09.no-answer-by-deadline"] else []) ++ (if dead then ["c09.caller-left-hanging"] else [])

def setHold (o : OS) (p : Nat) (h : Hold) : OS :=
  { o with calls := o.calls.modify p (fun c => { c with hold := h }) }

def killHolds (o : OS) (a : Nat) : OS :=
  { o with calls := o.calls.map (fun c =>
      if c.hold == .mailbox a || c.hold == .kept a then { c with hold := .gone } else c) }

/-- the last state of `a` is gone (never boxed, or its event was dropped): the ports in it are dropped -/
def dropState (o : OS) (a : Nat) : OS :=
  { o with calls := o.calls.map (fun c => if c.hold == .kept a then { c with hold := .gone } else c) }

def supLive (o : OS) (a : Nat) : Bool :=
  match (o.asup[a]?).join with
  | some u => (o.supsAlive[u]?).getD false
  | none => false

/-- graceful exit of `a` (stop / drain completion): the mailbox is dropped; the state — with the
ports kept in it — is dropped too UNLESS a live supervisor receives it inside the termination event -/
def gracefulHolds (o : OS) (a : Nat) : OS :=
  let o1 := { o with calls := o.calls.map (fun c => if c.hold == .mailbox a then { c with hold := .gone } else c) }
  if supLive o a then o1 else dropState o1 a

/-- `handled p [sent-ok|sent-err]` -/
def applyHandled (o : OS) (a : Nat) (pre : String) (act : Act) : OS :=
  match words pre with
  | "handled" :: p :: _ :: rest =>
    match p.toNat? with
    | some p =>
      match act with
      | .reply v => if rest == ["sent-ok"] then setHold { o with replies := (p, v) :: o.replies } p .gone else setHold o p .gone
      | .drop => setHold o p .gone
      | .keep => setHold o p (.kept a)
      | .detach => setHold o p .detached
    | none => o
  | _ => o

def showT (t : Option Nat) : String := match t with | some t => toString t | none => "-"

/-- `get_timeout` of the dequeued port must be the timeout its caller gave -/
def timeoutClause (o : OS) (ipre : String) : List String :=
  match words ipre with
  | "handled" :: p :: t :: _ =>
    match p.toNat? with
    | some p => if t == s!"t={showT ((o.calls[p]?).bind (·.tmo))}" then [] else ["c09.port-timeout-mismatch"]
    | none => []
  | _ => []

def modelHandlePre (o : OS) (before : S) (a : Nat) (act : Act) : String :=
  match before.actors[a]? with
  | some x =>
    if !x.alive then "idle" else
    match x.mailbox with
    | .call p :: _ =>
      let t := showT ((o.calls[p]?).bind (·.tmo))
      match act with
      | .reply _ =>
        let open_ := match before.calls[p]? with | some c => c.res.isNone | none => false
        s!"handled {p} t={t} {if open_ then "sent-ok" else "sent-err"}"
      | _ => s!"handled {p} t={t}"
    | .fwd v :: _ => s!"fwd {v}"
    | [] => "idle"
  | none => "idle"

/-- `obs # died a,b` → (obs, [a,b]) -/
def splitDied (impl : String) : String × List Nat :=
  match impl.splitOn " # died " with
  | [o, d] => (o, (natList? d).getD [])
  | _ => (impl, [])

def step (ds : DS) (op implFull : String) : DS × StepOut :=
  let (impl, idied) := splitDied implFull
  let (ipre, ievs) := parseEvents impl
  -- actors that stop in this step (kill, stop, or a draining actor reaching its marker) drop
  -- every port they still own
  -- which actors stopped is the IMPLEMENTATION's report (`# died …`); deaths not already accounted for by
  -- the op itself (kill / failure / supervisor death) are graceful: stop or drain completion
  let died (o : OS) : OS :=
    idied.foldl (fun o a =>
      let o := gracefulHolds o a
      -- a forward owed to an actor that stops is no longer owed
      { o with expectFwd := o.expectFwd.filter (fun fv => fv.1 != a), dead := a :: o.dead }) o
  -- the model's own account of who stopped in this step, in the same format
  let modelDied (m m' : S) : String :=
    let l := (List.range m'.actors.length).filter (fun a =>
      match m.actors[a]?, m'.actors[a]? with
      | some x, some x' => x.alive && !x'.alive
      | _, _ => false)
    if l.isEmpty then "" else s!" # died {",".intercalate (l.map toString)}"
  let finish (m' : S) (pre : String) (o' : OS) (nt : Bool) (extraBad : List String := []) : DS × StepOut :=
    let model := fmt pre (events ds.m m') ++ modelDied ds.m m'
    let (o2, bad) := judge (died o') ievs
    ({ m := m', o := o2 }, { model := model, oracle := extraBad ++ bad ++ hanging o2, nontrivial := nt })
  let run1 (mop : Op) (pre : String) (o' : OS) (nt : Bool) : DS × StepOut :=
    finish (Rpc.step ds.m mop) pre o' nt
  -- C02: a send of the wrong message type is rejected (InvalidActorType) before anything else
  -- happens and does not disturb the actor: the model state is unchanged
  let badOp : DS × StepOut :=
    let orc := (if ipre.startsWith "invalid-type" then [] else ["c02.wrong-type-not-rejected"]) ++
               (if ipre.endsWith "actor-died" then ["c02.wrong-type-disturbed-actor"] else [])
    finish ds.m "invalid-type undisturbed" ds.o true orc
  -- an op the harness refused (it names an actor / supervisor that does not exist — only a
  -- shrunk replay can contain one) is not an op: nothing happened, nothing is judged
  if ipre == "bad-actor" || ipre == "bad-sup" then (ds, { model := ipre }) else
  match words op with
  | ["case"] => ({}, { model := "ok" })
  | ["spawn"] => run1 .spawn "ok" { ds.o with asup := ds.o.asup ++ [none] } false
  | ["spawnsup"] => run1 .spawnSup "ok" { ds.o with supsAlive := ds.o.supsAlive ++ [true] } false
  | ["spawnl", u] =>
    match u.toNat? with
    | some u =>
      let o' := if ipre == "ok" then { ds.o with asup := ds.o.asup ++ [some u] } else ds.o
      run1 (.spawnl u) (if supAlive ds.m u then "ok" else "failed") o' false
    | none => (ds, { model := "bad-op" })
  | ["suphandle", u, what] =>
    match u.toNat? with
    | some u =>
      let keep := what == "stash"
      let pre := match ds.m.sups[u]? with
        | some x => if x.alive then (match x.inbox with | a :: _ => s!"evt {a}" | [] => "idle") else "idle"
        | none => "idle"
      -- the real supervisor dropped the event of the actor it names: the state in it is gone
      let o' := match words ipre with
        | ["evt", a] => (match a.toNat? with | some a => if keep then ds.o else dropState ds.o a | none => ds.o)
        | _ => ds.o
      run1 (.suphandle u keep) pre o' (ipre.startsWith "evt")
    | none => (ds, { model := "bad-op" })
  | ["supdrop", u, a] =>
    match u.toNat?, a.toNat? with
    | some u, some a =>
      let pre := match ds.m.sups[u]? with
        | some x => if x.alive && x.stash.contains a then "dropped" else "noevent"
        | none => "noevent"
      run1 (.supdrop u a) pre (if ipre == "dropped" then dropState ds.o a else ds.o) (ipre == "dropped")
    | _, _ => (ds, { model := "bad-op" })
  | ["supexit", u] =>
    match u.toNat? with
    | some u =>
      -- the supervisor's queue and stash are dropped and its children are killed
      let o1 := { ds.o with supsAlive := ds.o.supsAlive.set u false }
      let o' := (List.range o1.asup.length).foldl (fun o a =>
        if (o1.asup[a]?).join == some u then killHolds o a else o) o1
      run1 (.supexit u) "ok" o' true
    | none => (ds, { model := "bad-op" })
  | ["call", a, t] =>
    match a.toNat?, parseT? t with
    | some a, some t =>
      let sendErr := ievs.any (fun e => e.endsWith "=sendErr")
      let o' := { ds.o with calls := ds.o.calls ++ [⟨a, t.map (· + ds.o.now), if sendErr then .gone else .mailbox a, false, none, none, t⟩] }
      run1 (.call a t) "ok" o' false
    | _, _ => (ds, { model := "bad-op" })
  | ["fcall", a, f, t] =>
    match a.toNat?, f.toNat?, parseT? t with
    | some a, some f, some t =>
      let sendErr := ievs.any (fun e => e.endsWith "=sendErr")
      let o' := { ds.o with calls := ds.o.calls ++ [⟨a, t.map (· + ds.o.now), if sendErr then .gone else .mailbox a, false, some f, none, t⟩] }
      run1 (.fcall a f t) "ok" o' true
    | _, _, _ => (ds, { model := "bad-op" })
  | ["mcall", as, t] =>
    match natList? as, parseT? t with
    | some as, some t =>
      let failed := ievs.any (fun e => e.endsWith "=err")
      let base := ds.o.calls.length
      -- on a failed send the real multi_call created ports only up to the failing actor; the
      -- oracle tracks the successfully sent prefix as abandoned (no completion expected)
      let news : List ICall := as.map (fun a => ⟨a, t.map (· + ds.o.now), if failed then .detached else .mailbox a, failed, none, some ds.o.groups.length, t⟩)
      let o' := { ds.o with calls := ds.o.calls ++ news, groups := ds.o.groups ++ [List.range' base as.length] }
      -- the model may create fewer ports when a send fails; keep port numbering aligned
      let m' := Rpc.step ds.m (.mcall as t)
      let pad := (base + as.length) - m'.calls.length
      let m'' := { m' with calls := m'.calls ++ (List.range pad).map (fun i =>
        ⟨0, none, .dropped, some .abandoned, some (m'.groups - 1), none, m'.calls.length + i, 0⟩) }
      finish m'' "ok" o' true
    | _, _ => (ds, { model := "bad-op" })
  | ["handle", a, act] =>
    match a.toNat?, parseAct? act with
    | some a, some act =>
      let o' := applyHandled ds.o a ipre act
      -- a forwarded value must have been announced by an `fdone …+ok`, exactly once
      let (o'', fbad) := match words ipre with
        | ["fwd", v] =>
          match v.toNat? with
          | some v =>
            if o'.expectFwd.contains (a, v) then ({ o' with expectFwd := o'.expectFwd.erase (a, v) }, [])
            else (o', ["c09.forward-duplicated-or-unannounced"])
          | none => (o', [])
        | _ => (o', [])
      -- an announced (`+ok`) forward / accepted cast must reach the target's handler: an actor that
      -- is alive, owed a message and reports an empty mailbox has lost it
      let aliveM := !ds.o.dead.contains a
      let fbad := fbad ++ (if ipre == "idle" && aliveM && o'.expectFwd.any (fun fv => fv.1 == a)
        then ["c09.forward-announced-but-not-delivered"] else [])
      finish (Rpc.step ds.m (.handle a act)) (modelHandlePre ds.o ds.m a act) o'' (ipre.startsWith "handled") (fbad ++ timeoutClause ds.o ipre)
    | _, _ => (ds, { model := "bad-op" })
  | ["handle", a, act, d] =>
    -- `handle a act +d`: the handler's action and a clock jump of d in one step
    match a.toNat?, parseAct? act, (d.drop 1).toNat? with
    | some a, some act, some d =>
      let o' := applyHandled ds.o a ipre act
      let o' := { o' with now := o'.now + d }
      let (o'', fbad) := match words ipre with
        | ["fwd", v] =>
          match v.toNat? with
          | some v =>
            if o'.expectFwd.contains (a, v) then ({ o' with expectFwd := o'.expectFwd.erase (a, v) }, [])
            else (o', ["c09.forward-duplicated-or-unannounced"])
          | none => (o', [])
        | _ => (o', [])
      finish (Rpc.step ds.m (.handleAt a act d)) (modelHandlePre ds.o ds.m a act) o'' true (fbad ++ timeoutClause ds.o ipre)
    | _, _, _ => (ds, { model := "bad-op" })
  | ["later", p, "probe"] =>
    -- `RpcReplyPort::is_closed` of a port somebody still holds: closed iff its caller has gone
    -- (timed out, or its multi_call bailed out); nothing changes
    match p.toNat? with
    | some p =>
      let pre := match ds.m.calls[p]? with
        | some c =>
          let reachable := match c.loc with
            | .actor _ => true | .detached => true | .event a => supStashed ds.m.sups a | _ => false
          if reachable then (if c.res.isSome then "closed" else "open") else "noport"
        | none => "noport"
      -- judged on the implementation's own history: a port reported closed although its caller is
      -- still waiting (no completion event seen, deadline not passed), or open although it completed
      let orc := match ds.o.calls[p]? with
        | some c =>
          if ipre == "closed" && !c.done && c.group.isNone then ["c09.port-closed-but-caller-waiting"]
          else if ipre == "open" && c.done && c.group.isNone then ["c09.port-open-but-caller-gone"] else []
        | none => []
      finish ds.m pre ds.o (ipre != "noport") orc
    | none => (ds, { model := "bad-op" })
  | ["cast", a, v] =>
    match a.toNat?, v.toNat? with
    | some a, some v =>
      let pre := if accepting ds.m a then "ok" else "sendErr"
      -- a delivered cast is owed to the target exactly once (checked when it is handled); a
      -- refused one must hand back the very message (`sendErr`), nothing else
      let o' := if ipre == "ok" then { ds.o with expectFwd := (a, v) :: ds.o.expectFwd } else ds.o
      let orc := if ipre == "ok" || ipre == "sendErr" then [] else ["c09.cast-error-not-own-message"]
      finish (Rpc.step ds.m (.cast a v)) pre o' true orc
    | _, _ => (ds, { model := "bad-op" })
  | ["later", p, act] =>
    match p.toNat?, parseAct? act with
    | some p, some act =>
      let pre := match ds.m.calls[p]? with
        | some c =>
          (match c.loc, act with
           | .actor _, .reply _ => if c.res.isNone then "sent-ok" else "sent-err"
           | .detached, .reply _ => if c.res.isNone then "sent-ok" else "sent-err"
           | .actor _, .drop => "dropped"
           | .detached, .drop => "dropped"
           | .event a, .reply _ => if supStashed ds.m.sups a then (if c.res.isNone then "sent-ok" else "sent-err") else "noport"
           | .event a, .drop => if supStashed ds.m.sups a then "dropped" else "noport"
           | _, _ => "noport")
        | none => "noport"
      let o' := match act with
        | .reply v => if ipre == "sent-ok" then setHold { ds.o with replies := (p, v) :: ds.o.replies } p .gone
                      else if ipre == "sent-err" then setHold ds.o p .gone else ds.o
        | _ => if ipre == "dropped" then setHold ds.o p .gone else ds.o
      run1 (.later p act) pre o' true
    | _, _ => (ds, { model := "bad-op" })
  | ["badcast", _] => badOp
  | ["badsend", _] => badOp
  | ["badcall", _] => badOp
  | ["baddcast", _] => badOp
  | ["baddsend", _] => badOp
  | ["baddcall", _] => badOp
  | ["baddafter", _] => badOp
  | ["exit", a] =>
    match a.toNat? with
    | some a =>
      -- a kill never boxes the state: everything the (still alive) actor owned is dropped; killing an
      -- actor that already stopped does not touch a state a supervisor may still hold
      run1 (.exit a) "ok" (if idied.contains a then killHolds ds.o a else ds.o) true
    | none => (ds, { model := "bad-op" })
  | ["stop", a, act] =>
    match a.toNat?, parseAct? act with
    | some a, some act =>
      let pre := modelHandlePre ds.o ds.m a act
      let o' := gracefulHolds (applyHandled ds.o a ipre act) a
      finish (Rpc.step ds.m (.stop a act)) pre o' true (timeoutClause ds.o ipre)
    | _, _ => (ds, { model := "bad-op" })
  | ["fail", a, _] =>
    match a.toNat? with
    | some a =>
      -- which message the failing handler held: the head of the queue
      let pre := match ds.m.actors[a]? with
        | some x => if !x.alive then "idle" else
            (match x.mailbox with | .call p :: _ => s!"failed {p}" | .fwd v :: _ => s!"failed-fwd {v}" | [] => "idle")
        | none => "idle"
      -- a failure never hands the state on: everything the actor owned is dropped; a forwarded value the
      -- failing handler held was delivered to it (it is no longer owed)
      let o1 := if ipre.startsWith "failed" then killHolds ds.o a else ds.o
      let o' := match words ipre with
        | ["failed-fwd", v] => (match v.toNat? with | some v => { o1 with expectFwd := o1.expectFwd.erase (a, v) } | none => o1)
        | _ => o1
      run1 (.fail a) pre o' (ipre.startsWith "failed")
    | none => (ds, { model := "bad-op" })
  | ["drain", a] =>
    match a.toNat? with
    | some a =>
      -- (an actor with an empty mailbox stops at once: reported by `# died`)
      run1 (.drain a) "ok" ds.o true
    | none => (ds, { model := "bad-op" })
  | ["advance", d] =>
    match d.toNat? with
    | some d => run1 (.advance d) "ok" { ds.o with now := ds.o.now + d } true
    | none => (ds, { model := "bad-op" })
  | _ => (ds, { model := "bad-op" })

/-- a trailing ` m` marks the same op issued through the `call!` / `call_t!` / `forward!` macros
(`ractor/src/macros.rs`): identical semantics, so the model step is the same -/
def stripMacro (op : String) : String :=
  match words op with
  | ["call", a, t, "m"] => s!"call {a} {t}"
  | ["call", a, t, "m0"] => s!"call {a} {t}"
  | ["call", a, t, "f"] => s!"call {a} {t}"
  | ["fcall", a, f, t, "f"] => s!"fcall {a} {f} {t}"
  | ["cast", a, v, _] => s!"cast {a} {v}"
  -- ` d`: the same call issued through a `DerivedActorRef` (`get_derived`, converter closure)
  | ["call", a, t, "d"] => s!"call {a} {t}"
  | ["fcall", a, f, t, "m"] => s!"fcall {a} {f} {t}"
  | _ => op

def run (ops impl : Array String) : IO Tally :=
  replay ({} : DS) (fun ds op im =>
    let (ds', out) := step ds (stripMacro op) im
    -- the C09 check does not report the C02 clauses (they are claimed by the C02 check)
    (ds', { out with oracle := out.oracle.filter (fun c => !c.startsWith "c02.") })) ops impl

/-- same replay, reporting only the wrong-type clauses of C02 (run entry of `checks/C02.json`) -/
def runC02 (ops impl : Array String) : IO Tally :=
  replay ({} : DS) (fun ds op im =>
    let (ds', out) := step ds (stripMacro op) im
    (ds', { out with oracle := out.oracle.filter (fun c => c.startsWith "c02.") })) ops impl

end Driver.C09
