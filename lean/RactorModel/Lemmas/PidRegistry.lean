import RactorModel.Model.PidRegistry

/-! Helper lemmas for the `PidRegistry` model (C10, round 4): monotonicity of `known`, what an op's
events say about the state after it, trace decomposition. No invariant is needed here: these hold
from every start state. -/

namespace PidRegistry

theorem any_id_setPhase (l : List Actor) (b p a : Nat) :
    (setPhase l b p).any (fun x => x.id == a) = l.any (fun x => x.id == a) := by
  induction l with
  | nil => rfl
  | cons x l ih =>
    simp only [setPhase, List.map_cons, List.any_cons] at *
    rw [ih]; split <;> rfl

theorem map_id_setPhase (l : List Actor) (b p : Nat) :
    (setPhase l b p).map (·.id) = l.map (·.id) := by
  induction l with
  | nil => rfl
  | cons x l ih =>
    simp only [setPhase, List.map_cons] at *
    rw [ih]; split <;> rfl

theorem known_iff (s : State) (a : Nat) : known s a = true ↔ a ∈ s.actors.map (·.id) := by
  simp only [known, List.any_eq_true, List.mem_map, beq_iff_eq]

theorem getA_spec {s : State} {a : Nat} {x : Actor} (h : getA s a = some x) : x ∈ s.actors ∧ x.id = a := by
  unfold getA at h
  exact ⟨List.mem_of_find?_eq_some h, by simpa using List.find?_some h⟩

theorem getA_known {s : State} {a : Nat} {x : Actor} (h : getA s a = some x) : known s a = true := by
  simp only [known, List.any_eq_true, beq_iff_eq]
  exact ⟨x, getA_spec h⟩

theorem getA_id {s : State} {a : Nat} {x : Actor} (h : getA s a = some x) : x.id = a := (getA_spec h).2

theorem getA_mem {s : State} {a : Nat} {x : Actor} (h : getA s a = some x) : x ∈ s.actors := (getA_spec h).1

theorem getA_none_known {s : State} {a : Nat} (h : getA s a = none) : known s a = false := by
  simp only [getA, List.find?_eq_none] at h
  simp only [known, Bool.eq_false_iff, ne_eq, List.any_eq_true, not_exists, not_and]
  intro x hx; exact h x hx

/-- the id an op introduces, if any -/
def newId (s : State) : Op → Option Nat
  | .spawn a => if known s a then none else some a
  | .remote a => if known s a then none else some a
  | _ => none

theorem known_step (s : State) (op : Op) (a : Nat) :
    known (step s op) a = (known s a || (newId s op == some a)) := by
  cases op with
  | spawn b =>
    simp only [step, newId]
    cases hk : known s b
    · simp [known]
    · simp
  | remote b =>
    simp only [step, newId]
    cases hk : known s b
    · simp [known]
    · simp
  | exitBegin b =>
    simp only [step, newId]
    split
    · simp
    · split
      · simp
      · simp only [known, any_id_setPhase]; simp
  | exitEnd b =>
    simp only [step, newId]
    split
    · simp
    · split
      · simp
      · simp only [known, any_id_setPhase]; simp
  | monitor m => simp only [step, newId]; split <;> simp [known]
  | demonitor m => simp [step, newId, known]
  | getAll => simp [step, newId]
  | whereIs b => simp [step, newId]

theorem known_step_mono {s : State} {a : Nat} (op : Op) (h : known s a = true) :
    known (step s op) a = true := by
  rw [known_step, h]; rfl

theorem known_run_mono {s : State} {a : Nat} (ops : List Op) (h : known s a = true) :
    known (run s ops) a = true := by
  induction ops generalizing s with
  | nil => exact h
  | cons op ops ih => exact ih (known_step_mono op h)

/-- the pid table only grows by the registration of a fresh local actor -/
theorem mem_pids_step {s : State} {op : Op} {x : Nat} (h : x ∈ (step s op).pids) :
    x ∈ s.pids ∨ (op = .spawn x ∧ known s x = false) := by
  cases op with
  | spawn b =>
    simp only [step] at h
    by_cases hk : known s b = true
    · simp only [hk, ↓reduceIte] at h; exact .inl h
    · simp only [hk, Bool.false_eq_true, ↓reduceIte, List.mem_append, List.mem_singleton] at h
      rcases h with h | h
      · exact .inl h
      · subst h; exact .inr ⟨rfl, by simpa using hk⟩
  | remote b =>
    simp only [step] at h
    split at h <;> exact .inl h
  | exitBegin b =>
    simp only [step] at h
    split at h
    · exact .inl h
    · split at h
      · exact .inl h
      · simp only at h
        split at h
        · exact .inl h
        · exact .inl (List.mem_filter.mp h).1
  | exitEnd b =>
    simp only [step] at h
    split at h
    · exact .inl h
    · split at h <;> exact .inl h
  | monitor m => simp only [step] at h; split at h <;> exact .inl h
  | demonitor m => exact .inl h
  | getAll => exact .inl h
  | whereIs b => exact .inl h

/-- "gone": known and not (any more) in the pid table — stays so for ever -/
theorem gone_step {s : State} {a : Nat} (op : Op) (hk : known s a = true) (hp : a ∉ s.pids) :
    a ∉ (step s op).pids := by
  intro h
  rcases mem_pids_step h with h | ⟨_, h⟩
  · exact hp h
  · rw [hk] at h; cases h

theorem gone_run {s : State} {a : Nat} (ops : List Op) (hk : known s a = true) (hp : a ∉ s.pids) :
    a ∉ (run s ops).pids := by
  induction ops generalizing s with
  | nil => exact hp
  | cons op ops ih => exact ih (known_step_mono op hk) (gone_step op hk hp)

/-- what one op's events look like -/
theorem mem_events {s : State} {op : Op} {e : Ev} (h : e ∈ events s op) :
    (e.spawn = true ∧ op = .spawn e.who ∧ known s e.who = false ∧ e.to ∈ s.mons) ∨
    (e.spawn = false ∧ op = .exitBegin e.who ∧ e.who ∈ s.pids ∧ e.to ∈ s.mons ∧ e.to ≠ e.who ∧
      ∃ x, getA s e.who = some x ∧ x.phase = 0 ∧ x.remote = false) := by
  cases op with
  | spawn b =>
    simp only [events] at h
    by_cases hk : known s b = true
    · simp [hk] at h
    · simp only [hk, Bool.false_eq_true, ↓reduceIte, List.mem_map] at h
      obtain ⟨m, hm, rfl⟩ := h
      exact .inl ⟨rfl, rfl, by simpa using hk, hm⟩
  | exitBegin b =>
    simp only [events] at h
    split at h
    · cases h
    · rename_i x hx
      split at h
      · rename_i hc
        simp only [List.mem_map, List.mem_filter, bne_iff_ne, ne_eq] at h
        obtain ⟨m, ⟨hm, hne⟩, rfl⟩ := h
        exact .inr ⟨rfl, rfl, hc.2.2, hm, hne, x, hx, hc.1, hc.2.1⟩
      · cases h
  | remote b => cases h
  | exitEnd b => cases h
  | monitor m => cases h
  | demonitor m => cases h
  | getAll => cases h
  | whereIs b => cases h

/-- after the op that reported it, the subject is known; after a `Terminate` it has left the pid table -/
theorem events_after {s : State} {op : Op} {e : Ev} (h : e ∈ events s op) :
    known (step s op) e.who = true ∧ (e.spawn = false → e.who ∉ (step s op).pids) := by
  rcases mem_events h with ⟨hs, hop, hk, _⟩ | ⟨hs, hop, hp, _, _, x, hx, hph, hr⟩
  · refine ⟨?_, fun h' => by rw [hs] at h'; cases h'⟩
    rw [known_step, hop]; simp [newId, hk]
  · refine ⟨known_step_mono _ (getA_known hx), fun _ => ?_⟩
    rw [hop]
    simp only [step, hx, hph, hr]
    simp

theorem trace_append (s : State) (l₁ l₂ : List Op) :
    trace s (l₁ ++ l₂) = trace s l₁ ++ trace (run s l₁) l₂ := by
  induction l₁ generalizing s with
  | nil => rfl
  | cons op l₁ ih => simp only [List.cons_append, trace, run, ih, List.append_assoc]

theorem dtrace_append (s : State) (l₁ l₂ : List Op) :
    dtrace s (l₁ ++ l₂) = dtrace s l₁ ++ dtrace (run s l₁) l₂ := by
  induction l₁ generalizing s with
  | nil => rfl
  | cons op l₁ ih => simp only [List.cons_append, dtrace, run, ih, List.append_assoc]

theorem run_append (s : State) (l₁ l₂ : List Op) : run s (l₁ ++ l₂) = run (run s l₁) l₂ := by
  induction l₁ generalizing s with
  | nil => rfl
  | cons op l₁ ih => simp only [List.cons_append, run, ih]

/-- L1: once an id is known, nobody is ever told `Spawn` of it (again) -/
theorem no_spawn_after_known {s : State} {a : Nat} (hk : known s a = true) (ops : List Op) :
    ∀ e ∈ trace s ops, e.who = a → e.spawn = false := by
  induction ops generalizing s with
  | nil => intro e he; cases he
  | cons op ops ih =>
    intro e he hw
    simp only [trace, List.mem_append] at he
    rcases he with he | he
    · rcases mem_events he with ⟨_, _, hk', _⟩ | ⟨hs, _⟩
      · rw [hw, hk] at hk'; cases hk'
      · exact hs
    · exact ih (known_step_mono op hk) e he hw

/-- L2: once an actor has left the pid table, nothing is ever reported about it -/
theorem silent_after_gone {s : State} {a : Nat} (hk : known s a = true) (hp : a ∉ s.pids)
    (ops : List Op) : ∀ e ∈ trace s ops, e.who ≠ a := by
  induction ops generalizing s with
  | nil => intro e he; cases he
  | cons op ops ih =>
    intro e he hw
    simp only [trace, List.mem_append] at he
    rcases he with he | he
    · rcases mem_events he with ⟨_, _, hk', _⟩ | ⟨_, _, hp', _⟩
      · rw [hw, hk] at hk'; cases hk'
      · rw [hw] at hp'; exact hp hp'
    · exact ih (known_step_mono op hk) (gone_step op hk hp) e he hw

/-- L4: every reported subject is known at the end of the run, and a terminated one is out of the pid
table at the end of the run -/
theorem trace_who (s : State) (ops : List Op) :
    ∀ e ∈ trace s ops, known (run s ops) e.who = true ∧ (e.spawn = false → e.who ∉ (run s ops).pids) := by
  induction ops generalizing s with
  | nil => intro e he; cases he
  | cons op ops ih =>
    intro e he
    simp only [trace, List.mem_append] at he
    rcases he with he | he
    · have ⟨h1, h2⟩ := events_after he
      exact ⟨known_run_mono ops h1, fun hs => gone_run ops h1 (h2 hs)⟩
    · exact ih (step s op) e he

theorem dtrace_sublist (s : State) (ops : List Op) : (dtrace s ops).Sublist (trace s ops) := by
  induction ops generalizing s with
  | nil => exact List.Sublist.refl _
  | cons op ops ih =>
    simp only [dtrace, trace]
    exact List.Sublist.append List.filter_sublist (ih _)

end PidRegistry
