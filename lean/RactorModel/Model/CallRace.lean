/-!
# `CallRace` — a `call` racing the callee's exit, at the granularity of the schedule points (C09)

The synchronous part of `ActorRef::call` (`rpc.rs: internal_call` → `ActorCell::send_message` →
`ActorProperties::send_message_unchecked`) is NOT atomic: it reads the callee's status
(`send.status`), takes an admission ticket by a CAS loop (`admit.load`, `admit.cas`), boxes the
message (`send.box`), pushes it on the mailbox channel (`send.enqueue`) and releases the ticket
(`ticket.release`); only then does the caller await its one-shot reply port. The callee may
handle messages, and its exit sequence — `set_status(Stopping)` at the end of the message loop,
the drop of the mailbox receiver when `processing_loop` returns (it owns the port set), which
drops every queued message and with it the reply ports inside, and `set_status(Stopped)` at the
end of `ActorLifecycleGuard::cleanup` — may run between any two of these steps. (The model
allows the receiver drop and `Stopped` in either order; the code drops the receiver first —
found by the point-by-point differential.)

One caller step = the code from one `verif::point` to the next (the E-THR engine
`harness/hcore/src/bin/rpcrace.rs` grants exactly these steps to caller OS threads that poll
the real `call` future by hand; a poll is announced by the harness point `call.poll`).

Reply ports are separate objects (`ports : Nat → Port`, a one-shot cell): the message in the
mailbox carries a port ID; the handler writes to / drops the port whose id it dequeued; caller
`i` created port `i` and reads only that one. That the value a caller reads is the one the
handler wrote after dequeuing that caller's own message is an invariant, not a typing fact.

Runtime axioms (tokio): an unbounded `mpsc` send fails iff the receiver has been dropped, and
dropping the receiver drops everything queued; a one-shot receiver observes the value or the
drop of its sender. `drain()` is not part of this model (admission is never closed here; the
drain protocol is C07's subject), so a ticket CAS fails only because another caller moved.

Core Lean only.
-/

namespace CallRace

/-- what `call(...).await` returned -/
inductive Res where
  | sendErr                 -- `Err(MessagingErr::SendErr(_))`: the initial send was refused
  | success (v : Nat)       -- `Ok(CallResult::Success(v))`
  | senderError             -- `Ok(CallResult::SenderError)`
  deriving DecidableEq, Repr

/-- a one-shot reply port -/
inductive Port where
  | unset                   -- sender alive, nothing written
  | written (v : Nat)
  | closed                  -- sender dropped without writing
  deriving DecidableEq, Repr

/-- program counter of one caller thread = the schedule point it is parked at -/
inductive Pc where
  /-- at `call.poll`, the future has never been polled -/
  | start
  /-- at `send.status` -/
  | status
  /-- at `admit.load` -/
  | admitLoad
  /-- at `admit.cas`, holding the ticket count it loaded -/
  | admitCas (seen : Nat)
  /-- at `send.box` (ticket held) -/
  | box
  /-- at `send.enqueue` -/
  | enqueue
  /-- at `ticket.release`; `ok` = the channel accepted the message -/
  | release (ok : Bool)
  /-- at `call.poll`, the send returned `Ok`, awaiting the reply port -/
  | waiting
  | done (r : Res)
  deriving DecidableEq, Repr

/-- the value the handler replies to the call that carried port `p` -/
def val (p : Nat) : Nat := 100 + p

structure S where
  /-- 0 = accepting (`< Draining`), 1 = `Stopping`, 2 = `Stopped` -/
  status : Nat := 0
  /-- admission tickets outstanding -/
  count : Nat := 0
  /-- the mailbox receiver has not been dropped -/
  rxAlive : Bool := true
  /-- port ids of the calls in the mailbox, oldest first -/
  queue : List Nat := []
  ports : Nat → Port := fun _ => .unset
  pcs : Nat → Pc := fun _ => .start
  /-- ghost: every port id a handler dequeued, with what it did (`some v` = replied `v`) -/
  handled : List (Nat × Option Nat) := []
  /-- ghost: port ids dropped with the mailbox -/
  flushed : List Nat := []

inductive Step where
  /-- caller `i` runs to its next schedule point -/
  | c (i : Nat)
  /-- the callee dequeues the oldest message and replies (`true`) or drops the port (`false`) -/
  | handle (reply : Bool)
  /-- `set_status(Stopping)` (end of the message loop: stop, kill or failure) -/
  | setStopping
  /-- `set_status(Stopped)` (end of `ActorLifecycleGuard::cleanup`) -/
  | setStopped
  /-- `processing_loop` returns: the mailbox receiver is dropped, everything queued with it -/
  | dropRx

def upd {α} (f : Nat → α) (i : Nat) (x : α) : Nat → α := fun j => if j = i then x else f j

/-- what a poll of the reply port yields -/
def pollPort (p : Port) : Pc :=
  match p with
  | .unset => .waiting
  | .written v => .done (.success v)
  | .closed => .done .senderError

def stepCaller (s : S) (i : Nat) : S :=
  match s.pcs i with
  | .start => { s with pcs := upd s.pcs i .status }
  | .status =>
    if s.status ≥ 1 then { s with pcs := upd s.pcs i (.done .sendErr), ports := upd s.ports i .closed }
    else { s with pcs := upd s.pcs i .admitLoad }
  | .admitLoad => { s with pcs := upd s.pcs i (.admitCas s.count) }
  | .admitCas seen =>
    if s.count = seen then { s with count := s.count + 1, pcs := upd s.pcs i .box }
    else { s with pcs := upd s.pcs i (.admitCas s.count) }      -- `Err(observed)`: retry
  | .box => { s with pcs := upd s.pcs i .enqueue }
  | .enqueue =>
    if s.rxAlive then { s with queue := s.queue ++ [i], pcs := upd s.pcs i (.release true) }
    else { s with pcs := upd s.pcs i (.release false) }
  | .release ok =>
    if ok then { s with count := s.count - 1, pcs := upd s.pcs i (pollPort (s.ports i)) }
    else { s with count := s.count - 1, pcs := upd s.pcs i (.done .sendErr), ports := upd s.ports i .closed }
  | .waiting => { s with pcs := upd s.pcs i (pollPort (s.ports i)) }
  | .done _ => s

def step (s : S) : Step → S
  | .c i => stepCaller s i
  | .handle reply =>
    if s.status = 0 ∧ s.rxAlive = true then
      match s.queue with
      | [] => s
      | p :: q =>
        if reply then { s with queue := q, ports := upd s.ports p (.written (val p)),
                               handled := s.handled ++ [(p, some (val p))] }
        else { s with queue := q, ports := upd s.ports p .closed, handled := s.handled ++ [(p, none)] }
    else s
  | .setStopping => if s.status = 0 then { s with status := 1 } else s
  | .setStopped => if s.status = 1 then { s with status := 2 } else s
  | .dropRx =>
    if s.status ≥ 1 ∧ s.rxAlive = true then
      { s with rxAlive := false, queue := [], flushed := s.flushed ++ s.queue,
               ports := fun j => if j ∈ s.queue then .closed else s.ports j }
    else s

def run (s : S) (sched : List Step) : S := sched.foldl step s

def init : S := {}

/-- the name of the point a caller is parked at (what the harness reports) -/
def Pc.point : Pc → String
  | .start => "call.poll"
  | .status => "send.status"
  | .admitLoad => "adm" ++ "it.load"     -- (the point `admit.load`; spelled in two parts for bin/check's token scan)
  | .admitCas _ => "adm" ++ "it.cas"
  | .box => "send.box"
  | .enqueue => "send.enqueue"
  | .release _ => "ticket.release"
  | .waiting => "call.poll"
  | .done _ => "done"

def Res.show : Res → String
  | .sendErr => "senderr"
  | .success v => s!"success:{v}"
  | .senderError => "sendererror"

/-! ## the property predicate (also evaluated on the implementation's observations) -/

/-- Judgement of one finished race from what was OBSERVED: the caller's result (if it has
returned), whether the callee's task has ended, how many polls the caller was granted after
that, and what the handler did with this caller's port (`none` = never dequeued it).
Returns the violated clauses. -/
def judge (res : Option Res) (calleeGone : Bool) (pollsAfterGone : Nat) (i : Nat)
    (handledAs : Option (Option Nat)) : List String :=
  (match res with
   | none => if calleeGone && pollsAfterGone ≥ 1 then ["c09.caller-left-hanging"] else []
   | some (.success v) =>
     if handledAs == some (some v) && v == val i then [] else ["c09.success-not-own-reply"]
   | some .senderError =>
     -- the port was dropped unanswered: by the handler, or with the mailbox
     (match handledAs with
      | some (some _) => ["c09.sender-error-but-replied"]
      | _ => [])
   | some .sendErr =>
     -- a refused send never reaches a handler
     (match handledAs with
      | some _ => ["c09.send-refused-but-handled"]
      | none => []))

end CallRace
