import RactorModel.Model.Listener

/-! Invariant of the accept loop / client connect model. -/

namespace Listener

/-- everything opened so far: sessions, then the queue -/
def opened (s : S) : List (Nat × Bool) := s.sessions ++ s.queue

structure Inv (s : S) : Prop where
  srv : ((opened s).filter (·.2)).map (·.1) = s.accepted
  cli : ((opened s).filter (fun x => !x.2)).map (·.1) = s.dialled
  lt : ∀ x ∈ opened s, x.1 < s.nextConn
  asc : ((opened s).map (·.1)).Pairwise (· < ·)
  oks : s.dialled.length = s.connectOks
  up : s.listenerUp = false → s.respawnDue = true

theorem inv_init : Inv {} := by
  constructor <;> simp [opened]

theorem opened_nodeHandles (s : S) : opened (step s .nodeHandles) = opened s := by
  unfold step opened
  cases h : s.queue <;> simp [h]

theorem inv_push (s : S) (b : Bool) (s' : S) (h : Inv s)
    (ho : opened s' = opened s ++ [(s.nextConn, b)]) (hn : s'.nextConn = s.nextConn + 1)
    (ha : s'.accepted = if b then s.accepted ++ [s.nextConn] else s.accepted)
    (hd : s'.dialled = if b then s.dialled else s.dialled ++ [s.nextConn])
    (hk : s'.dialled.length = s'.connectOks)
    (hu : s'.listenerUp = false → s'.respawnDue = true) : Inv s' := by
  refine ⟨?_, ?_, ?_, ?_, hk, hu⟩
  · rw [ho, ha]; cases b <;> simp [List.filter_append, h.srv]
  · rw [ho, hd]; cases b <;> simp [List.filter_append, h.cli]
  · intro x hx; rw [ho] at hx; rw [hn]
    rcases List.mem_append.mp hx with hx | hx
    · exact Nat.lt_succ_of_lt (h.lt x hx)
    · simp at hx; subst hx; exact Nat.lt_succ_self _
  · rw [ho, List.map_append, List.pairwise_append]
    refine ⟨h.asc, by simp, ?_⟩
    intro a ha b hb
    simp at hb; subst hb
    obtain ⟨x, hx, rfl⟩ := List.mem_map.mp ha
    exact h.lt x hx

theorem inv_same (s s' : S) (h : Inv s) (ho : opened s' = opened s) (hn : s.nextConn ≤ s'.nextConn)
    (ha : s'.accepted = s.accepted) (hd : s'.dialled = s.dialled) (hk : s'.connectOks = s.connectOks)
    (hu : s'.listenerUp = false → s'.respawnDue = true) : Inv s' := by
  refine ⟨?_, ?_, ?_, ?_, ?_, hu⟩
  · rw [ho, ha]; exact h.srv
  · rw [ho, hd]; exact h.cli
  · intro x hx; rw [ho] at hx; exact Nat.lt_of_lt_of_le (h.lt x hx) hn
  · rw [ho]; exact h.asc
  · rw [hd, hk]; exact h.oks

theorem inv_step (s : S) (e : Ev) (h : Inv s) : Inv (step s e) := by
  cases e with
  | accept a =>
    by_cases hup : s.listenerUp = true
    · cases a with
      | err => exact inv_same s _ h (by simp [step, hup, opened]) (by simp [step, hup]) (by simp [step, hup]) (by simp [step, hup]) (by simp [step, hup]) (by simp [step, hup])
      | okSetupFails => exact inv_same s _ h (by simp [step, hup, opened]) (by simp [step, hup]) (by simp [step, hup]) (by simp [step, hup]) (by simp [step, hup]) (by simp [step, hup])
      | okTlsFails => exact inv_same s _ h (by simp [step, hup, opened]) (by simp [step, hup]) (by simp [step, hup]) (by simp [step, hup]) (by simp [step, hup]) (by simp [step, hup])
      | ok =>
        exact inv_push s true _ h (by simp [step, hup, opened]) (by simp [step, hup]) (by simp [step, hup]) (by simp [step, hup])
          (by simp [step, hup]; exact h.oks) (by simp [step, hup])
    · have : step s (.accept a) = s := by simp [step, hup]
      rw [this]; exact h
  | respawn =>
    by_cases hr : s.respawnDue = true
    · exact inv_same s _ h (by simp [step, hr, opened]) (by simp [step, hr]) (by simp [step, hr]) (by simp [step, hr]) (by simp [step, hr]) (by simp [step, hr])
    · have : step s .respawn = s := by simp [step, hr]
      rw [this]; exact h
  | connect c =>
    cases c with
    | refused => exact inv_same s _ h (by simp [step, opened]) (by simp [step]) (by simp [step]) (by simp [step]) (by simp [step]) (by simpa [step] using h.up)
    | setupFails => exact inv_same s _ h (by simp [step, opened]) (by simp [step]) (by simp [step]) (by simp [step]) (by simp [step]) (by simpa [step] using h.up)
    | nodeGone => exact inv_same s _ h (by simp [step, opened]) (by simp [step]) (by simp [step]) (by simp [step]) (by simp [step]) (by simpa [step] using h.up)
    | ok =>
      exact inv_push s false _ h (by simp [step, opened]) (by simp [step]) (by simp [step]) (by simp [step])
        (by simp [step]; exact h.oks) (by simpa [step] using h.up)
  | nodeHandles =>
    have ho := opened_nodeHandles s
    refine inv_same s _ h ho ?_ ?_ ?_ ?_ ?_ <;>
      (unfold step; cases hq : s.queue <;> simp) 
    exact h.up
    exact h.up

theorem inv_run (evs : List Ev) (s : S) (h : Inv s) : Inv (run s evs) := by
  induction evs generalizing s with
  | nil => exact h
  | cons e es ih => exact ih _ (inv_step s e h)

theorem opened_drain (s : S) : (drain s).sessions = opened s := rfl

/-- the two halves (server-side / client-side) of a duplicate-free list of connections -/
theorem nodup_split (l : List (Nat × Bool)) (h : (l.map (·.1)).Nodup) :
    (((l.filter (·.2)).map (·.1)) ++ ((l.filter (fun x => !x.2)).map (·.1))).Nodup := by
  induction l with
  | nil => simp
  | cons x xs ih =>
    simp only [List.map_cons, List.nodup_cons] at h
    have ih' := ih h.2
    have hnot : ∀ (p : Nat × Bool → Bool), x.1 ∉ (xs.filter p).map (·.1) := by
      intro p hm
      obtain ⟨y, hy, hxy⟩ := List.mem_map.mp hm
      exact h.1 (List.mem_map.mpr ⟨y, (List.mem_filter.mp hy).1, hxy⟩)
    rw [List.nodup_append] at ih' ⊢
    cases hb : x.2 <;> simp only [List.filter_cons, hb, Bool.not_false, Bool.not_true, if_true, List.map_cons, Bool.false_eq_true, if_false]
    · refine ⟨ih'.1, List.nodup_cons.mpr ⟨hnot _, ih'.2.1⟩, ?_⟩
      intro a ha b hb' hab
      rcases List.mem_cons.mp hb' with rfl | hb''
      · exact hnot _ (hab ▸ ha)
      · exact ih'.2.2 a ha b hb'' hab
    · refine ⟨List.nodup_cons.mpr ⟨hnot _, ih'.1⟩, ih'.2.1, ?_⟩
      intro a ha b hb' hab
      rcases List.mem_cons.mp ha with rfl | ha'
      · exact hnot _ (hab ▸ hb')
      · exact ih'.2.2 a ha' b hb' hab

end Listener
