import RactorModel.Model.Remote
import RactorModel.Model.Link
import RactorModel.Model.Advert
import RactorModel.Model.Fields
import Driver.Common

/-! Driver for the `Remote` model (C20). Ops as written by `harness/hcluster/src/bin/c20.rs`.

E-PURE on `RemoteActorState`:
  `proxy` · `call <port> <payload>` · `cast <payload>` · `reply <tag> <data>` ·
  `abandon <port>` · `killsession` · (wave 2) `fcast <variant> <args> <meta|->` ·
  `fcall <variant> <args> <meta|-> <timeout ms|->` (see `fieldsStep`)
  observation of a handled message:
  `tag=<t> pending=<tags|-> cursor=<c|-> frames=<c:tag:payload|k:payload,…|-> got=<port:data,…|->`

E-LTS end to end: see the `e2e` section below.
-/

namespace Driver.C20
open Remote Driver

structure PSt where
  px : Proxy := {}
  closed : List Nat := []
  sessionUp : Bool := true
  /-- (port, payload) of every call made, for the oracle -/
  calls : List (Nat × Nat) := []
  /-- (tag, port) in the order the implementation's frames announced them -/
  tagOf : List (Nat × Nat) := []
  /-- ports that already got a reply (oracle: at most one) -/
  replied : List Nat := []
  /-- tags for which a `reply` op was issued -/
  resolved : List Nat := []
  /-- wave 2: the tag counter of the field probe's proxy (`fcall`) -/
  ftag : Nat := 0

/-! ### E-LTS end to end (two real nodes)

The order in which traffic through A's proxy and through B's proxy interleaves at the real
actor, and the outcome of lifecycle events that race with traffic, depend on the schedule.
The driver therefore keeps, per proxy `(dir, t)`, a `Remote.Net` model fed with the same
casts/calls; whenever the system is at rest and nothing raced (`exact`), the Net run to
quiescence predicts the observation exactly (a mismatch is a DIFF and an ORACLE failure);
otherwise the observation is only judged by the safety clauses of `C20.ok`
(per-proxy FIFO prefix, reply correlation, mirroring). -/

structure PX where
  dir : Nat
  t : Nat
  net : Net := Net.init 4 4
  /-- nothing raced with this proxy's traffic so far -/
  exact : Bool := true

structure CallInfo where
  id : Nat
  dir : Nat
  t : Nat
  req : Nat
  hold : Bool
  /-- the reply port in the proxy's `Net`, if the call was accepted by a proxy known to be up -/
  port : Option Nat
  /-- issued while the proxy was certainly down -/
  down : Bool := false
  /-- the harness found no proxy to call through: no caller exists -/
  nocall : Bool := false
  abandoned : Bool := false
  /-- abandoned while certainly still waiting (a `Hold` through a proxy that was up) -/
  abortSure : Bool := false
  /-- the caller's own timeout: absolute time (ms) -/
  deadline : Option Nat := none
  /-- the deadline has passed -/
  expired : Bool := false
  /-- … while the call was certainly still waiting -/
  timeoutSure : Bool := false

structure E2E where
  -- a node session is not being polled (`holdsess`): nothing is at rest
  sessHeld : Bool := false
  /-- per probe: 0 up, 1 stop issued, 2 down, 3 spawn issued -/
  probes : List Nat := []
  /-- 0 up, 1 cut issued, 2 down, 4 may die any time (`cutafter`), 5 dies with the next batch
  the faulty node's writer task handles (`fault <d> write|flush`) -/
  link : Nat := 0
  /-- the transport fault that was injected, if any -/
  fault : Option String := none
  /-- `Model/Link.lean`: the faulty node's tcp session / writer task / reader / node session; the
  link is taken to be down when this model says the session has stopped -/
  lk : Link.S Nat := {}
  /-- the link is down only according to the model of what the code does when a remote REFERENCE
  is stopped (`Link.Ev.proxyStopped`): predictions are compared, no property clause is raised -/
  modelOnly : Bool := false
  pxs : List PX := []
  calls : List CallInfo := []
  settled : Bool := true
  /-- ((scope, group), probe): memberships of the real actors when the nodes connected
  (what the initial scan of `after_authenticated` sees; the default scope is `""`) -/
  l0 : Memb := []
  /-- the local pg changes since then, in order -/
  evs : List PgEv := []
  /-- the paused clock (ms) -/
  now : Nat := 0
  /-- the relay direction (0: A→B, 1: B→A) that stands still after its sender's authentication
  frames: the receiving node has not seen the peer's Spawn / PgJoin / Ready yet, so it owns no
  proxy at all and is not ready -/
  held : Option Nat := none

/-- node `d` (0 = A, 1 = B) has not received the peer's initial state: it owns no proxies -/
def E2E.starved (e : E2E) (d : Nat) : Bool := e.held == some (1 - d)

/-- the originals' memberships now -/
def E2E.localNow (e : E2E) : Memb := e.evs.foldl Memb.apply e.l0

/-- the remote references' memberships on a peer that has processed everything it was sent:
`Remote.Mirror` run over `Remote.syncStream` (initial scan, then the notifications in order) -/
def E2E.remoteNow (e : E2E) : Memb := (Mirror.run {} (syncStream e.l0.keys e.l0 e.evs)).members

/-- name of the clause for "the link is down but a remote reference lives on" -/
def E2E.downClause (e : E2E) (running members accepted : Nat) : List String :=
  if e.modelOnly then [] else
  match e.fault with
  | some k =>
    if e.link == 2 then
      -- the oracle proved of the model (`C20.okDown_model`), on the implementation's observation
      (if Link.okDown e.lk.faulted true running members accepted then []
       else [s!"transport-error-did-not-close-session fault={k}"])
    else ["mirror"]
  | none => ["mirror"]

def scopeOf (s : String) : String := if s == "-" then "" else s

def sortStrs (l : List String) : List String := (l.toArray.qsort (· < ·)).toList

def replyOf (t req : Nat) : Nat := req * 7 + t + 1

/-- 0 certainly up, 1 uncertain, 2 certainly down, 3 no such probe -/
def E2E.pstate (e : E2E) (t : Nat) : Nat :=
  match e.probes[t]? with
  | none => 3
  | some ps =>
    if ps == 2 || e.link == 2 then 2
    else if ps == 0 && e.link == 0 then 0 else 1

def E2E.px (e : E2E) (d t : Nat) : PX := (e.pxs.find? fun p => p.dir == d && p.t == t).getD { dir := d, t := t }

def E2E.setPx (e : E2E) (p : PX) : E2E :=
  if e.pxs.any fun q => q.dir == p.dir && q.t == p.t then
    { e with pxs := e.pxs.map fun q => if q.dir == p.dir && q.t == p.t then p else q }
  else { e with pxs := e.pxs ++ [p] }

/-- run a `Net` to quiescence: the proxy, all stages, the real actor answering every `Call`
(never a `Hold`), the replies travelling back -/
def drainNet (calls : List CallInfo) (d t : Nat) : Nat → Net → Net
  | 0, n => n
  | fuel + 1, n =>
    let n := n.mbox.foldl (fun n _ => n.step .proxy) n
    let n := (List.range (n.fwd.length)).foldl
      (fun n i => (List.range (n.fwd.contents.length + 1)).foldl (fun n _ => n.step (.moveF i)) n) n
    let n := n.handles.foldl (fun n h =>
      match calls.find? (fun c => c.dir == d && c.t == t && c.port == some h.gport) with
      | some c => if c.hold then n else n.step (.answer h.id (replyOf t c.req))
      | none => n) n
    let n := (List.range (n.back.length)).foldl
      (fun n i => (List.range (n.back.contents.length + 1)).foldl (fun n _ => n.step (.moveB i)) n) n
    if n.mbox.isEmpty && n.fwd.contents.isEmpty && n.back.contents.isEmpty then n else drainNet calls d t fuel n

def dirName (d : Nat) : String := if d == 0 then "a" else "b"
def parseDir? (s : String) : Option Nat := if s == "a" then some 0 else if s == "b" then some 1 else none

/-- one entry of a probe's log -/
def parseEntry? (calls : List CallInfo) (s : String) : Option (Nat × Item) :=
  if s.startsWith "k" then
    match splitOnChar (s.drop 1).toString ':' with
    | [a, b] => do
      let sender ← a.toNat?; let seq ← b.toNat?
      pure (if sender ≥ 10 then 1 else 0, ⟨false, sender, seq⟩)
    | _ => none
  else if s.startsWith "c" || s.startsWith "h" then do
    let req ← (s.drop 1).toString.toNat?
    let c ← calls.find? (·.req == req)
    if c.hold != s.startsWith "h" then none
    pure (c.dir, ⟨true, 0, req⟩)
  else none

/-- the traffic of one proxy as it should appear in the probe's log -/
def sentOf (n : Net) : List Item := n.sent.map fun i => if i.isCall then { i with sender := 0 } else i

def showItems (l : List Item) : String :=
  if l.isEmpty then "-" else ",".intercalate (l.map fun i => if i.isCall then s!"c{i.payload}" else s!"k{i.sender}:{i.payload}")

def affect (e : E2E) (f : PX → Bool) : E2E :=
  if e.settled then e else { e with pxs := e.pxs.map fun p => if f p then { p with exact := false } else p }

def stepE2E (e : E2E) (w : List String) (impl : String) : Option (E2E × StepOut) :=
  match w with
  | ["cast", d, t, sender, seq] =>
    match parseDir? d, t.toNat?, sender.toNat?, seq.toNat? with
    | some d, some t, some sender, some seq =>
      let e := { e with settled := false }
      let p := e.px d t
      if e.starved d then some (e, { model := "noproxy" }) else
      match e.pstate t with
      | 3 => some (e, { model := "noproxy" })
      | 0 => some (e.setPx { p with net := p.net.step (.cast sender seq) }, { model := "ok", nontrivial := true })
      | 2 => some (e, { model := if impl == "noproxy" then impl else "err",
                        oracle := if impl == "ok" then
                            (if e.link == 0 && e.settled then ["send-to-reference-of-stopped-original-accepted"] else e.downClause 0 0 1)
                          else [] })
      | _ =>
        -- uncertain: the send may or may not be accepted, and may or may not arrive
        if impl == "ok" then some (e.setPx { p with net := p.net.step (.cast sender seq), exact := false }, { model := impl })
        else some (e.setPx { p with exact := false }, { model := if impl == "err" || impl == "noproxy" then impl else "ok|err" })
    | _, _, _, _ => none
  | ["advance", ms] =>
    ms.toNat?.map fun ms =>
      -- a quiet period longer than the ping period (1-5 s): the ping loop hands a frame to the
      -- session; a writer task whose transport fails stops its session (`Model/Link.lean`)
      let e := if e.link == 5 && ms ≥ 5000 then
          let io : Link.Ev Nat := if e.fault == some "write" then .writer .err .ok else .writer .ok .err
          { e with pxs := e.pxs.map fun (p : PX) => { p with net := p.net.step .cut, exact := p.exact && e.settled },
                   link := 1, lk := Link.run e.lk [.send 0, io] }
        else e
      let now := e.now + ms
      let e := { e with now := now, settled := false }
      -- callers whose timeout has come give up: their port closes
      let due := e.calls.filter fun c => !c.expired && !c.abandoned && (match c.deadline with | some d => d ≤ now | none => false)
      let e := due.foldl (fun (e : E2E) c =>
        let p := e.px c.dir c.t
        let sure := c.port.isSome && p.exact && e.pstate c.t == 0
        let net := match c.port with | some q => p.net.step (.abandon q) | none => p.net
        { (e.setPx { p with net := net }) with
            calls := e.calls.map fun c' => if c'.id == c.id then { c' with expired := true, timeoutSure := sure } else c' }) e
      (e, { model := "ok", nontrivial := !due.isEmpty })
  | ["holdt", d, t, id, req, ms] =>
    match parseDir? d, t.toNat?, id.toNat?, req.toNat?, ms.toNat? with
    | some d, some t, some id, some req, some ms =>
      let e := { e with settled := false }
      let p := e.px d t
      let dl := some (e.now + ms)
      if e.starved d then
        some ({ e with calls := e.calls ++ [{ id, dir := d, t, req, hold := true, port := none, nocall := true }] }, { model := "noproxy" })
      else
      match e.pstate t with
      | 3 => some ({ e with calls := e.calls ++ [{ id, dir := d, t, req, hold := true, port := none, nocall := true }] }, { model := "noproxy" })
      | 0 =>
        let port := p.net.nport
        some ({ (e.setPx { p with net := p.net.step (.call 0 req) }) with
                  calls := e.calls ++ [{ id, dir := d, t, req, hold := true, port := some port, deadline := dl }] },
              { model := "ok", nontrivial := true })
      | 2 => some ({ e with calls := e.calls ++ [{ id, dir := d, t, req, hold := true, port := none, down := true,
                                                   nocall := impl == "noproxy" }] },
                   { model := if impl == "noproxy" then impl else "ok" })
      | _ =>
        if impl == "noproxy" then
          some ({ e with calls := e.calls ++ [{ id, dir := d, t, req, hold := true, port := none, nocall := true }] }, { model := impl })
        else
        let port := p.net.nport
        some ({ (e.setPx { p with net := p.net.step (.call 0 req), exact := false }) with
                  calls := e.calls ++ [{ id, dir := d, t, req, hold := true, port := some port, deadline := dl }] },
              { model := "ok" })
    | _, _, _, _, _ => none
  | [kind, d, t, id, req] =>
    if kind != "call" && kind != "hold" then none else
    match parseDir? d, t.toNat?, id.toNat?, req.toNat? with
    | some d, some t, some id, some req =>
      let e := { e with settled := false }
      let p := e.px d t
      let hold := kind == "hold"
      if e.starved d then
        some ({ e with calls := e.calls ++ [{ id, dir := d, t, req, hold, port := none, nocall := true }] }, { model := "noproxy" })
      else
      match e.pstate t with
      | 3 => some ({ e with calls := e.calls ++ [{ id, dir := d, t, req, hold, port := none, nocall := true }] }, { model := "noproxy" })
      | 0 =>
        let port := p.net.nport
        some ({ (e.setPx { p with net := p.net.step (.call 0 req) }) with
                  calls := e.calls ++ [{ id, dir := d, t, req, hold, port := some port }] },
              { model := "ok", nontrivial := true })
      | 2 => some ({ e with calls := e.calls ++ [{ id, dir := d, t, req, hold, port := none, down := true,
                                                   nocall := impl == "noproxy" }] },
                   { model := if impl == "noproxy" then impl else "ok" })
      | _ =>
        if impl == "noproxy" then
          some ({ e with calls := e.calls ++ [{ id, dir := d, t, req, hold, port := none, nocall := true }] }, { model := impl })
        else
        let port := p.net.nport
        some ({ (e.setPx { p with net := p.net.step (.call 0 req), exact := false }) with
                  calls := e.calls ++ [{ id, dir := d, t, req, hold, port := some port }] },
              { model := "ok" })
    | _, _, _, _ => none
  | ["abandon", id] =>
    id.toNat?.map fun id =>
      let e := { e with settled := false }
      match e.calls.find? (·.id == id) with
      | none => (e, { model := "ok" })
      | some c =>
        let p := e.px c.dir c.t
        let net := match c.port with | some q => p.net.step (.abandon q) | none => p.net
        ({ (e.setPx { p with net := net }) with
            calls := e.calls.map fun c' =>
              if c'.id == id then
                { c' with abandoned := true,
                          abortSure := c'.abortSure || (!c'.abandoned && c.hold && c.port.isSome && p.exact && e.pstate c.t == 0) }
              else c' },
         { model := "ok" })
  | ["sched", _] => some (e, { model := "ok" })
  | ["holdsess", _] => some ({ e with sessHeld := true, settled := false }, { model := impl })
  | ["unholdsess", _] => some ({ e with sessHeld := false, settled := false }, { model := "ok", nontrivial := true })
  | ["settle"] =>
    -- while a session is held back the rest of the system comes to rest, the whole does not
    if e.sessHeld then some ({ e with settled := false }, { model := impl }) else
    if impl != "quiet" then some ({ e with settled := false }, { model := "quiet" }) else
    let probes := e.probes.map fun s => if s == 1 then 2 else if s == 3 then 0 else s
    let lk := Link.settle e.lk
    let link := if e.link == 1 && ((e.fault.isNone && !e.modelOnly) || !lk.sessUp) then 2 else e.link
    let e := { e with lk := lk }
    let stoppedNow := fun (t : Nat) => e.probes[t]? == some 1
    let e := { e with probes := probes, link := link, settled := true }
    let pxs := e.pxs.map fun (p : PX) =>
      let net := drainNet e.calls p.dir p.t 64 p.net
      -- `Terminate` reached the peer: the proxy stops
      { p with net := if stoppedNow p.t then net.step .cut else net }
    some ({ e with pxs := pxs }, { model := "quiet" })
  | ["recv", t] =>
    t.toNat?.map fun t =>
      if e.probes[t]?.isNone then (e, { model := "noprobe" }) else
      let entries := if impl == "-" then some [] else (splitOnChar impl ',').mapM (parseEntry? e.calls)
      match entries with
      | none => (e, { model := "unparsable", oracle := ["order"] })
      | some es =>
        let judge := fun (d : Nat) =>
          let got := (es.filter (·.1 == d)).map (·.2)
          let p := e.px d t
          let want := sentOf p.net
          -- `C20.ok` (in-order sub-sequence) and, stronger, FIFO loss only at the end
          let pre := C20.ok want got [] id && got.isPrefixOf want
          -- at rest, with both ends up the whole time, nothing may be missing
          let mustAll := p.exact && e.settled && e.pstate t == 0
          (pre, !mustAll || got == want, want)
        let (pa, ca, wa) := judge 0
        let (pb, cb, wb) := judge 1
        let exactNow := e.settled && e.pstate t == 0 && (e.px 0 t).exact && (e.px 1 t).exact
        let bad := (if pa && pb then [] else ["order"]) ++ (if ca && cb then [] else ["complete"])
        (e, { model := if bad.isEmpty then impl else s!"a=[{showItems wa}] b=[{showItems wb}]",
              oracle := bad, nontrivial := es.length > 2 && exactNow,
              key := some s!"recv {impl}" })
  | ["result", id] =>
    id.toNat?.map fun id =>
      match e.calls.find? (·.id == id) with
      | none => (e, { model := "nocall" })
      | some c =>
        let correct := s!"ok:{replyOf c.t c.req}"
        let p := e.px c.dir c.t
        -- safety: whatever arrives is the reply to this very request
        let gotV := if impl.startsWith "ok:" then (impl.drop 3).toString.toNat? else none
        let wired := if impl.startsWith "ok:" && (c.hold || !C20.ok [] [] [(c.req, gotV)] (replyOf c.t) || gotV.isNone)
          then ["reply-correlation"] else []
        let expect : Option String :=
          if c.nocall then some "nocall"
          else if c.timeoutSure && !c.abandoned then some "timeout"
          else if c.expired then none
          else if c.abandoned then (if c.abortSure then some "aborted" else none)
          else if c.port.isNone then (if c.down then some "senderr" else none)
          else if !(p.exact && e.settled) then none
          else
            let got := c.port.bind fun q => (p.net.delivered.find? (·.1 == q)).map (·.2)
            match got with
            | some d => some s!"ok:{d}"
            | none =>
              -- the proxy has stopped (its target exited or the session closed): its pending
              -- reply ports are dropped; while it is up an unanswered call stays pending
              if e.pstate c.t == 2 then some "dropped" else if e.pstate c.t == 0 then some "pending" else none
        let allowed := ["pending", "dropped", "senderr", "aborted", "nocall"] ++ (if c.hold then [] else [correct]) ++
          (if c.deadline.isSome then ["timeout"] else [])
        let model := match expect with
          | some x => x
          | none => if allowed.contains impl then impl else s!"one-of:{allowed}"
        let missing := match expect with
          | some x => if x != impl && x.startsWith "ok:" then ["reply-complete"] else []
          | none => []
        (e, { model := model, oracle := wired ++ missing, nontrivial := impl.startsWith "ok:" && expect.isSome,
              key := some s!"result {c.dir} {c.t} {c.hold} {impl}" })
  | "join" :: t :: g :: rest =>
    if rest.length > 1 then none else
    let sc := scopeOf (rest.headD "-")
    t.toNat?.map fun t =>
      if e.probes[t]?.isNone then (e, { model := "noprobe" }) else
      ({ e with evs := e.evs ++ [.join sc g [t]], settled := false }, { model := "ok" })
  | "leave" :: t :: g :: rest =>
    if rest.length > 1 then none else
    let sc := scopeOf (rest.headD "-")
    t.toNat?.map fun t =>
      if e.probes[t]?.isNone then (e, { model := "noprobe" }) else
      ({ e with evs := e.evs ++ [.leave sc g [t]], settled := false }, { model := "ok" })
  | "members" :: g :: rest =>
    if rest.length > 1 then none else
    let scName := rest.headD "-"
    let k : GKey := (scopeOf scName, g)
    let calm := e.settled && (e.link == 0 || e.link == 2)
    let up := fun (t : Nat) => e.probes[t]? == some 0
    -- the originals, and their image on each node (the model of the receiving session run over
    -- the model of what the sending session emits)
    let loc := ((e.localNow.filter (·.1 == k)).map (·.2)).filter up
    let rem := ((e.remoteNow.filter (·.1 == k)).map (·.2)).filter up
    let want := loc.map (fun t => s!"L{t}") ++
      (if e.link == 0 && !e.starved 0 then rem.map (fun t => s!"Ra{t}") else []) ++
      (if e.link == 0 && !e.starved 1 then rem.map (fun t => s!"Rb{t}") else [])
    let want := sortStrs want
    let wantS := if want.isEmpty then "-" else ",".intercalate want
    -- safety: no proxy of a stopped probe / over a closed link stays in a group
    let got := if impl == "-" then [] else splitOnChar impl ','
    let stale := got.any fun m =>
      m.startsWith "R" && (e.settled && (e.link == 2 ||
        (match (m.drop 2).toString.toNat? with | some t => e.probes[t]? == some 2 | none => true)))
    -- at rest every advertised live member must be mirrored by the proxies that exist
    let missing := calm && want.any fun m => m.startsWith "R" && !got.contains m
    -- on the implementation's own observation: at rest, on a node that has received the peer's
    -- state, the remote references in this scope AND group are those of the originals in it
    let idx := fun (pre : String) => sortStrs (got.filterMap fun m =>
      if m.startsWith pre then some (m.drop pre.length).toString else none)
    let differs := fun (d : Nat) (pre node : String) =>
      if calm && e.link == 0 && !e.starved d && idx pre != idx "L" then
        [s!"remote-membership-differs-from-original scope={scName} group={g} node={node} originals={idx "L"} remote={idx pre}"]
      else []
    some (e, { model := if calm then wantS else impl,
               oracle := differs 0 "Ra" "a" ++ differs 1 "Rb" "b" ++
                 (if stale && e.settled && e.link == 2 then e.downClause 0 (got.filter (·.startsWith "R")).length 0
                  else if stale || missing then ["mirror"] else []),
               nontrivial := got.length > 1, key := some s!"members {k.1 != ""} {impl}" })
  | ["stopproxy", d, t] =>
    match parseDir? d, t.toNat? with
    | some d, some t =>
      if e.starved d || e.pstate t == 3 || impl == "none" then some (e, { model := "none" }) else
      if e.pstate t != 0 then some ({ e with settled := false }, { model := impl }) else
      -- `Model/Link.lean`: the node session fails, every reference of that session stops
      let lk := Link.run e.lk [.ctl (.spawn [t]), .proxyStopped t]
      let e := affect e fun _ => true
      let pxs := e.pxs.map fun (p : PX) => { p with net := p.net.step .cut }
      some ({ e with pxs := pxs, lk := lk, link := if lk.nodeUp then e.link else 1, modelOnly := true, settled := false },
            { model := "ok", nontrivial := true })
    | _, _ => none
  | ["releaseheld", t] =>
    t.toNat?.map fun t =>
      if e.probes[t]?.isNone then (e, { model := "noprobe" }) else
      ({ e with settled := false }, { model := impl })
  | ["fault", d, kind] =>
    (parseDir? d).map fun _ =>
      let e := affect e fun _ => true
      if e.link != 0 then ({ e with settled := false }, { model := "ok" }) else
      if kind == "read" then
        -- the reader's next `read_network_message` fails: the faulty node's own proxies lose their
        -- session (`loseA`: frames under way may still arrive), the peer's proxies lose the link
        let dn := (parseDir? d).getD 0
        let pxs := e.pxs.map fun (p : PX) => { p with net := p.net.step (if p.dir == dn then .loseA else .cut) }
        ({ e with pxs := pxs, link := 1, fault := some kind, lk := Link.step e.lk (.read .err), settled := false },
         { model := "ok", nontrivial := true })
      else
        ({ e with link := 5, fault := some kind, settled := false }, { model := "ok", nontrivial := true })
  | ["faultseen", _] =>
    some (e, { model := if e.settled && e.link == 2 && e.fault.isSome then "reported" else impl })
  | ["spawn"] =>
    -- both nodes announce the new probe: a writer task whose transport fails stops its session
    let e := if e.link == 5 then
        -- the node session sends a Spawn frame; the writer task's batch meets the fault
        let io : Link.Ev Nat := if e.fault == some "write" then .writer .err .ok else .writer .ok .err
        { e with pxs := e.pxs.map fun (p : PX) => { p with net := p.net.step .cut, exact := p.exact && e.settled },
                 link := 1, lk := Link.run e.lk [.send 0, io] }
      else e
    some ({ e with probes := e.probes ++ [3], evs := e.evs ++ [.join "" s!"p{e.probes.length}" [e.probes.length]],
                                 settled := false }, { model := "ok" })
  | ["stop", t] =>
    t.toNat?.map fun t =>
      if e.probes[t]?.isNone then (e, { model := "noprobe" }) else
      let e := affect e fun p => p.t == t
      let pxs := e.pxs.map fun (p : PX) => if p.t == t then { p with net := p.net.step .targetExit } else p
      ({ e with pxs := pxs, probes := e.probes.set t (if e.probes[t]? == some 2 then 2 else 1), evs := e.evs ++ [.exit t],
                settled := false }, { model := "ok" })
  | ["status", d, t] =>
    match parseDir? d, t.toNat? with
    | some d, some t =>
      if e.starved d then some (e, { model := "none" }) else
      let st := e.pstate t
      let calm := e.settled
      let model := if calm && st == 0 then "Running" else if calm && st == 2 && impl != "none" then "Stopped" else impl
      some (e, { model := model,
                 oracle := if calm && st == 2 && impl != "none" && impl != "Stopped" then
                     -- the link is up, the original has stopped, everything is at rest: `Terminate` must have come
                     (if e.link == 0 then ["reference-outlives-stopped-original"] else e.downClause 1 0 0)
                   else [] })
    | _, _ => none
  | ["release"] => some ({ e with held := none, settled := false }, { model := "ok", nontrivial := e.held.isSome })
  | ["cutafter", _, _] =>
    let e := { e with pxs := e.pxs.map fun (p : PX) => { p with exact := false } }
    some ({ e with link := if e.link == 2 then 2 else 4, settled := false }, { model := "ok" })
  | ["cut"] =>
    let e := affect e fun _ => true
    let pxs := e.pxs.map fun (p : PX) => { p with net := p.net.step .cut }
    some ({ e with pxs := pxs, link := if e.link == 2 then 2 else 1, settled := false }, { model := "ok" })
  | _ => none

/-- the allow-list engine: the model state, messages delivered per actor, and the `Terminate`s the
implementation has put on the wire so far -/
structure ASt where
  s : Advert.S := {}
  recv : List Nat := []
  implTerms : List Nat := []

def showWire (w : List Advert.Wire) : String :=
  if w.isEmpty then "-" else ",".intercalate (w.map fun | .spawn i => s!"S{i}" | .term i => s!"T{i}")

def showNats (l : List Nat) : String := if l.isEmpty then "-" else ",".intercalate (l.map toString)

def stepAdv (a : ASt) (w : List String) (impl : String) : Option (ASt × StepOut) :=
  let op? : Option (Option Advert.Op) := match w with
    | ["spawn"] => some (some .spawn)
    | ["stop", i] => i.toNat?.map fun i => some (.stop i)
    | ["evt", i] => i.toNat?.map fun i => some (.evt i)
    | ["frame", i, _] => i.toNat?.map fun i => some (.frame i)
    | ["rest"] => some none
    | _ => none
  op?.map fun op =>
    let s' := match op with | some o => Advert.step a.s o | none => a.s
    let recv := match op with
      | some .spawn => a.recv ++ [0]
      | some (.frame i) => if Advert.delivers a.s i then a.recv.modify i (· + 1) else a.recv
      | _ => a.recv
    let delta := s'.wire.drop a.s.wire.length
    let model := s!"wire={showWire delta} adv={showNats ((s'.adv.toArray.qsort (· < ·)).toList)} recv={showNats recv}"
    -- what the implementation announced (its own words)
    let implWire : List String := match (splitOnChar impl ' ').head? with
      | some f => if f.startsWith "wire=" then splitOnChar (f.drop 5).toString ',' else []
      | none => []
    let implTerms := a.implTerms ++ implWire.filterMap fun (t : String) =>
      if t.startsWith "T" then (t.drop 1).toString.toNat? else none
    -- the peer's reference to an original stops only when the peer is told (`Remote.Mirror`):
    -- the session has handled the exit of `i` and said nothing
    let wellFormed := impl.startsWith "wire="
    let silent := wellFormed && match op with
      | some (.evt i) => a.s.pend.contains i && !implTerms.contains i
      | _ => false
    -- at rest: every actor that is gone was announced exactly once, no live one was
    let atRest := wellFormed && match op with
      | none => s'.pend.isEmpty && (List.range s'.next).any fun i =>
          implTerms.count i != (if s'.alive.contains i then 0 else 1)
      | _ => false
    ({ s := s', recv := recv, implTerms := implTerms },
     { model := model, nontrivial := op.isSome,
       oracle := (if silent then ["exit-of-advertised-original-not-announced"] else []) ++
                 (if atRest then ["reference-outlives-stopped-original"] else []) })

structure St where
  a : ASt := {}
  p : PSt := {}
  e : E2E := {}
  inE2E : Bool := false
def showOuts (outs : List Out) : String × String :=
  let frames := outs.filterMap fun
    | .call t p => some s!"c:{t}:{p}"
    | .cast p => some s!"k:{p}"
    | .deliver _ _ => none
  let got := outs.filterMap fun
    | .deliver q d => some s!"{q}:{d}"
    | _ => none
  let l := fun (v : List String) => if v.isEmpty then "-" else ",".intercalate v
  (l frames, l got)

def snap (px : Proxy) (outs : List Out) : String :=
  let (f, g) := showOuts outs
  let cur := match px.cursor with | some c => toString c | none => "-"
  s!"tag={px.tag} pending={showNats (px.pending.map (·.1))} cursor={cur} frames={f} got={g}"

/-- the field `key=` of an observation line -/
def field (impl key : String) : Option String :=
  (words impl).findSome? fun w => if w.startsWith (key ++ "=") then some (w.drop (key.length + 1)).toString else none

def pairs? (s : String) : Option (List (Nat × Nat)) :=
  if s == "-" then some [] else (splitOnChar s ',').mapM fun p =>
    match splitOnChar p ':' with
    | [a, b] => do pure (← a.toNat?, ← b.toNat?)
    | _ => none

/-- Oracle on the implementation's own observation of one handled message (independent of
the model's answer):
* `tag-fresh`: a `Call` frame carries a tag never used before (strictly larger than all earlier ones);
* `reply-to-caller`: a value `d` delivered to port `q` by `reply t d` means the implementation
  itself had announced tag `t` for the call of port `q`;
* `reply-once`: a port receives at most one reply; `reply-abandoned`: an abandoned caller none. -/
def oraclePure (st : PSt) (op : List String) (impl : String) : PSt × List String :=
  match field impl "frames", (field impl "got").bind pairs? with
  | some frames, some got =>
    -- new tag announced by a call frame
    let newTags := (if frames == "-" then [] else splitOnChar frames ',').filterMap fun f =>
      match splitOnChar f ':' with
      | ["c", t, _] => t.toNat?
      | _ => none
    let maxOld := st.tagOf.foldl (fun m e => max m e.1) 0
    let bad1 := if newTags.all (· > maxOld) then [] else ["tag-fresh"]
    let port := match op with | ["call", q, _] => q.toNat? | _ => none
    let st1 := match port, newTags with
      | some q, [t] => { st with tagOf := st.tagOf ++ [(t, q)] }
      | _, _ => st
    let bad2 := match op with
      | ["reply", t, d] =>
        match t.toNat?, d.toNat? with
        | some t, some d =>
          if got.all fun (q, d') => d' == d && st.tagOf.contains (t, q) then [] else ["reply-to-caller"]
        | _, _ => ["unparsable"]
      | _ => if got.isEmpty then [] else ["reply-to-caller"]
    let bad3 := if got.all fun (q, _) => !st.replied.contains q then [] else ["reply-once"]
    let bad4 := if got.all fun (q, _) => !st.closed.contains q then [] else ["reply-abandoned"]
    -- `cleanup-open`: a request whose caller still waits and whose reply has not come stays pending
    let resolved := match op with
      | ["reply", t, _] => (t.toNat?.map fun t => t :: st.resolved).getD st.resolved
      | _ => st.resolved
    let pendingImpl := ((field impl "pending").bind natList?).getD []
    let mustStay := st1.tagOf.filter fun (t, q) => !st.closed.contains q && !resolved.contains t
    let bad5 := if mustStay.all fun (t, _) => pendingImpl.contains t then [] else ["cleanup-open"]
    ({ st1 with replied := st1.replied ++ got.map (·.1), resolved := resolved }, bad1 ++ bad2 ++ bad3 ++ bad4 ++ bad5)
  | _, _ => (st, ["unparsable"])

/-- wave 2, `fcast <variant> <args> <meta|->` / `fcall <variant> <args> <meta|-> <timeout ms|->`:
the node message the real `handle_serialized` handed to its session, field by field
(`call=<0|1> to=<1 iff the proxy's own pid> tag=<t> what=<args> variant=<name> meta=<m|-> tmo=<ms|->`),
against `Fields.proxyMsg`. ORACLE (the property: the same variant, arguments and metadata reach
the original): what `Fields.deliver` would hand over from the implementation's frame must be what
was sent, addressed to the reference's own pid. -/
def fieldsStep (st : PSt) (isCall : Bool) (v args mta tmo impl : String) : Option (PSt × StepOut) :=
  match args.toNat? with
  | none => none
  | some a =>
    let md : Option Codec.Bytes := if mta == "-" then none else mta.toNat?.map (Codec.encodeBE 8)
    let tm : Option Nat := if tmo == "-" then none else tmo.toNat?
    let tag := st.ftag + 1
    let m := Fields.proxyMsg 1 tag tm ⟨isCall, "V" ++ v, Codec.encodeBE 8 a, md⟩
    let (to, got) := Fields.deliver m
    let b := fun (x : Bool) => if x then "1" else "0"
    let optB := fun (x : Option Codec.Bytes) => match x with | some y => toString (Codec.beVal y) | none => "-"
    let optN := fun (x : Option Nat) => match x with | some y => toString y | none => "-"
    let model := s!"call={b m.isCall} to={to} tag={m.tag} what={Codec.beVal got.args} variant={got.variant} meta={optB got.metadata} tmo={optN m.timeoutMs}"
    let want := s!" what={a} variant=V{v} meta={mta} "
    let bad := if (impl.splitOn want).length == 2 && impl.startsWith s!"call={b isCall} to=1 " then []
      else ["field-changed-between-proxy-and-wire"]
    some ({ st with ftag := if isCall then tag else st.ftag },
          { model := model, oracle := bad, nontrivial := true, key := some s!"f {isCall} {v} {mta == "-"} {tmo == "-"}" })

def stepPure (st : PSt) (w : List String) (impl : String) : Option (PSt × StepOut) :=
  let handle := fun (m : SerMsg) (nontrivial : Bool) =>
    let (px, outs) := st.px.handle (st.closed.contains ·) st.sessionUp m
    let (st', bad) := oraclePure st w impl
    some ({ st' with px := px }, { model := snap px outs, oracle := bad, nontrivial := nontrivial,
                                   key := some s!"{w} {snap px outs}" })
  match w with
  | ["proxy"] => some ({}, { model := "ok" })
  | ["call", port, payload] =>
    match port.toNat?, payload.toNat? with
    | some q, some p =>
      (handle (.call q p) (st.px.pending.length > 1)).map fun (s, o) => ({ s with calls := s.calls ++ [(q, p)] }, o)
    | _, _ => none
  | ["cast", payload] => payload.toNat?.bind fun p => handle (.cast p) (st.px.pending.length > 1)
  | ["reply", tag, data] =>
    match tag.toNat?, data.toNat? with
    | some t, some d => handle (.reply t d) ((st.px.pending.any (·.1 == t)) || st.px.pending.length > 1)
    | _, _ => none
  | ["abandon", port] => port.toNat?.map fun q => ({ st with closed := q :: st.closed }, { model := "ok" })
  | ["killsession"] => some ({ st with sessionUp := false }, { model := "ok" })
  | ["fcast", v, args, mta] => fieldsStep st false v args mta "-" impl
  | ["fcall", v, args, mta, tmo] => fieldsStep st true v args mta tmo impl
  | _ => none

def step (st : St) (op impl : String) : St × StepOut :=
  let w := words op
  match w with
  | "e2e" :: _ :: n :: rest =>
    -- rest: [a|b|-] [<t>:<s>:<g>,…  memberships before the nodes connect]
    let hold := rest.head?.bind parseDir?
    let pre : Option Memb := match rest with
      | [_, p] => (splitOnChar p ',').mapM fun e =>
          match splitOnChar e ':' with
          | [t, sc, g] => t.toNat?.map fun t => ((scopeOf sc, g), t)
          | _ => none
      | _ => some []
    match n.toNat?, pre, decide (rest.length ≤ 2) with
    | some n, some pre, true =>
      -- every probe sits in its own default-scope group `p<t>`
      let own : Memb := (List.range n).map fun t => (("", s!"p{t}"), t)
      let e : E2E := { probes := List.replicate n 0, l0 := own ++ pre.eraseDups, held := hold }
      -- the node that receives the held direction is still syncing, the other one is ready
      let model := match hold, rest.head? with
        | some d, some h => s!"ready a=1 b=0 held={h} {if d == 0 then "a=ready b=syncing" else "a=syncing b=ready"}"
        | _, _ => "ready a=1 b=0"
      ({ st with inE2E := true, e := e }, { model := model, nontrivial := true })
    | _, _, _ => (st, { model := "bad-op" })
  | ["proxy"] => ({ st with inE2E := false, p := {} }, { model := "ok" })
  | ["adv", "new"] => ({ st with inE2E := false, a := {} }, { model := "ok" })
  | "adv" :: rest =>
    match stepAdv st.a rest impl with
    | some (a, o) => ({ st with a := a }, o)
    | none => (st, { model := "bad-op" })
  | _ =>
    if st.inE2E then
      match stepE2E st.e w impl with
      | some (e, o) => ({ st with e := e }, o)
      | none => (st, { model := "bad-op" })
    else
      match stepPure st.p w impl with
      | some (p, o) => ({ st with p := p }, o)
      | none => (st, { model := "bad-op" })

def run (ops impl : Array String) : IO Tally := replay ({} : St) step ops impl

end Driver.C20
