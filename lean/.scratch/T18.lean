import RactorModel.Lemmas.GenElection
namespace C18
section XlateTie
open Generated.Election GenElection

theorem generated_elect_sessions_eq_model (this peer : String) (cs : List SessionElectionCandidate) :
    elect_sessions this peer cs = Election.elect (compare peer this) (cs.map absCand) := by
  unfold elect_sessions Election.elect Election.pipeline
  simp only [List.length_map, decide_eq_true_eq]
  split
  · simp [absCand, Function.comp_def]
  · rw [dir_abs, nonce_abs, tie_abs]
    simp only [List.map_map, Function.comp_def, absCand]
    rfl

theorem generated_elect_sessions_covers_model (this peer : String) (cs : List Election.Cand) :
    elect_sessions this peer (cs.map concCand) = Election.elect (compare peer this) cs := by
  rw [generated_elect_sessions_eq_model, map_abs_conc]
end XlateTie
end C18
