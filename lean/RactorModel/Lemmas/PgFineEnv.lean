import RactorModel.Model.PgFine
import RactorModel.Lemmas.PgSpec

/-! What every environment step guarantees about one fixed actor (no global invariant needed). -/

namespace Pg.Fine
open AList Pg

/-- what an environment step `st → st'` guarantees about actor `a` -/
structure EnvOK (a : Nat) (st st' : State) : Prop where
  dead : a ∈ st.dead → a ∈ st'.dead
  mem1 : (∀ k, a ∈ membersOf st k → k ∈ relMem st a) → ∀ k, a ∈ membersOf st' k → k ∈ relMem st' a
  g1 : (∀ k, a ∈ listenersOf st k → k ∈ relGmon st a) → ∀ k, a ∈ listenersOf st' k → k ∈ relGmon st' a
  w1 : (∀ s, a ∈ worldOf st s → s ∈ relWmon st a) → ∀ s, a ∈ worldOf st' s → s ∈ relWmon st' a
  shrinkM : a ∈ st.dead → ∀ k, a ∈ membersOf st' k → a ∈ membersOf st k
  shrinkL : a ∈ st.dead → ∀ k, a ∈ listenersOf st' k → a ∈ listenersOf st k
  shrinkW : a ∈ st.dead → ∀ s, a ∈ worldOf st' s → a ∈ worldOf st s

/-- the step changes none of the accessors (for any actor) -/
structure Same (st st' : State) : Prop where
  m : ∀ k, membersOf st' k = membersOf st k
  l : ∀ k, listenersOf st' k = listenersOf st k
  w : ∀ s, worldOf st' s = worldOf st s
  rm : ∀ x, relMem st' x = relMem st x
  rg : ∀ x, relGmon st' x = relGmon st x
  rw : ∀ x, relWmon st' x = relWmon st x
  d : ∀ x, x ∈ st.dead → x ∈ st'.dead

theorem envOK_of_same {a : Nat} {st st' : State} (h : Same st st') : EnvOK a st st' := by
  constructor
  · exact h.d a
  · intro h1 k; rw [h.m, h.rm]; exact h1 k
  · intro h1 k; rw [h.l, h.rg]; exact h1 k
  · intro h1 s; rw [h.w, h.rw]; exact h1 s
  · intro _ k; rw [h.m]; exact id
  · intro _ k; rw [h.l]; exact id
  · intro _ s; rw [h.w]; exact id

theorem same_refl (st : State) : Same st st :=
  ⟨fun _ => rfl, fun _ => rfl, fun _ => rfl, fun _ => rfl, fun _ => rfl, fun _ => rfl, fun _ h => h⟩

/-! ### `removeEmptyRel` and the clean-up regions change no accessor -/

theorem relOf_removeEmptyRel (rel : List (Nat × Rel)) (b x : Nat) :
    (get (removeEmptyRel rel b) x).getD Rel.empty = (get rel x).getD Rel.empty := by
  rw [removeEmptyRel_get]
  by_cases e : x = b
  · subst e
    rw [if_pos rfl]
    cases hr : get rel x with
    | none => rfl
    | some r =>
      simp only [Option.bind_some, Option.getD_some]
      by_cases c : r.isEmpty = true
      · rw [if_pos c]
        simp only [Option.getD_none]
        simp only [Rel.isEmpty, Bool.and_eq_true, List.isEmpty_iff] at c
        obtain ⟨⟨c1, c2⟩, c3⟩ := c
        cases r; simp_all [Rel.empty]
      · rw [if_neg c]; rfl
  · rw [if_neg e]

theorem gsNorm_bind_members (o : Option GS) :
    ((o.bind gsNorm).map (·.members)).getD [] = (o.map (·.members)).getD [] := by
  cases o with
  | none => rfl
  | some gs => simp only [Option.bind_some, members_gsNorm]; rfl

theorem gsNorm_bind_listeners (o : Option GS) :
    ((o.bind gsNorm).map (·.listeners)).getD [] = (o.map (·.listeners)).getD [] := by
  cases o with
  | none => rfl
  | some gs => simp only [Option.bind_some, listeners_gsNorm]; rfl

theorem nonempty_bind_getD (o : Option (List Nat)) :
    (o.bind (fun l => if l = [] then none else some l)).getD [] = o.getD [] := by
  cases o with
  | none => rfl
  | some l =>
    simp only [Option.bind_some, Option.getD_some]
    by_cases c : l = []
    · rw [if_pos c, c]; rfl
    · rw [if_neg c]; rfl

theorem same_monitorRecheck (st : State) (g b : Nat) : Same st (monitorRecheck st g b) := by
  unfold monitorRecheck
  by_cases hal : alive st b = true
  · rw [if_pos hal]; exact same_refl st
  · rw [if_neg hal]
    refine ⟨?_, ?_, fun _ => rfl, ?_, ?_, ?_, fun _ h => h⟩
    · intro k; unfold membersOf; simp only [get_alter]
      by_cases e : k = (defaultScope, g)
      · rw [if_pos e, gsNorm_bind_members, e]
      · rw [if_neg e]
    · intro k; unfold listenersOf; simp only [get_alter]
      by_cases e : k = (defaultScope, g)
      · rw [if_pos e, gsNorm_bind_listeners, e]
      · rw [if_neg e]
    · intro x; unfold relMem relOf; simp only [relOf_removeEmptyRel]
    · intro x; unfold relGmon relOf; simp only [relOf_removeEmptyRel]
    · intro x; unfold relWmon relOf; simp only [relOf_removeEmptyRel]

theorem same_monitorScopeRecheck (st : State) (s b : Nat) : Same st (monitorScopeRecheck st s b) := by
  unfold monitorScopeRecheck
  by_cases hal : alive st b = true
  · rw [if_pos hal]; exact same_refl st
  · rw [if_neg hal]
    refine ⟨fun _ => rfl, fun _ => rfl, ?_, ?_, ?_, ?_, fun _ h => h⟩
    · intro s'; unfold worldOf; simp only [get_alter]
      by_cases e : s' = s
      · rw [if_pos e, nonempty_bind_getD, e]
      · rw [if_neg e]
    · intro x; unfold relMem relOf; simp only [relOf_removeEmptyRel]
    · intro x; unfold relGmon relOf; simp only [relOf_removeEmptyRel]
    · intro x; unfold relWmon relOf; simp only [relOf_removeEmptyRel]

theorem relOf_foldl_removeEmptyRel (xs : List Nat) (rel : List (Nat × Rel)) (x : Nat) :
    (get (xs.foldl removeEmptyRel rel) x).getD Rel.empty = (get rel x).getD Rel.empty := by
  induction xs generalizing rel with
  | nil => rfl
  | cons y ys ih => rw [List.foldl_cons, ih, relOf_removeEmptyRel]

theorem same_joinCleanup (st : State) (s g : Nat) (as : List Nat) : Same st (joinCleanup st s g as) := by
  unfold joinCleanup
  refine ⟨?_, ?_, fun _ => rfl, ?_, ?_, ?_, fun _ h => h⟩
  · intro k; unfold membersOf; simp only [get_alter]
    by_cases e : k = (s, g)
    · rw [if_pos e, gsNorm_bind_members, e]
    · rw [if_neg e]
  · intro k; unfold listenersOf; simp only [get_alter]
    by_cases e : k = (s, g)
    · rw [if_pos e, gsNorm_bind_listeners, e]
    · rw [if_neg e]
  · intro x; unfold relMem relOf; simp only [relOf_foldl_removeEmptyRel]
  · intro x; unfold relGmon relOf; simp only [relOf_foldl_removeEmptyRel]
  · intro x; unfold relWmon relOf; simp only [relOf_foldl_removeEmptyRel]

end Pg.Fine

namespace Pg.Fine
open AList Pg

theorem relOf_relUpdate_id (rel : List (Nat × Rel)) (b x : Nat) :
    (get (relUpdate rel b id) x).getD Rel.empty = (get rel x).getD Rel.empty := by
  rw [relUpdate_id_get]
  by_cases e : x = b
  · rw [if_pos e, e]; rfl
  · rw [if_neg e]

theorem same_monitor_dead (st : State) (g b : Nat) (hd : b ∈ st.dead) : Same st (monitor st g b) := by
  have hal : alive st b = false := by simp [alive, hd]
  unfold monitor
  simp only [hal, Bool.false_eq_true, ↓reduceIte]
  refine ⟨?_, ?_, fun _ => rfl, ?_, ?_, ?_, fun _ h => h⟩
  · intro k; unfold membersOf; simp only [get_alter, get_set, ↓reduceIte]
    by_cases e : k = (defaultScope, g)
    · rw [if_pos e, gsNorm_bind_members, e]
      cases get st.map (defaultScope, g) <;> rfl
    · rw [if_neg e, if_neg e]
  · intro k; unfold listenersOf; simp only [get_alter, get_set, ↓reduceIte]
    by_cases e : k = (defaultScope, g)
    · rw [if_pos e, gsNorm_bind_listeners, e]
      cases get st.map (defaultScope, g) <;> rfl
    · rw [if_neg e, if_neg e]
  · intro x; unfold relMem relOf; simp only [relOf_removeEmptyRel, relOf_relUpdate_id]
  · intro x; unfold relGmon relOf; simp only [relOf_removeEmptyRel, relOf_relUpdate_id]
  · intro x; unfold relWmon relOf; simp only [relOf_removeEmptyRel, relOf_relUpdate_id]

theorem same_monitorScope_dead (st : State) (s b : Nat) (hd : b ∈ st.dead) : Same st (monitorScope st s b) := by
  have hal : alive st b = false := by simp [alive, hd]
  unfold monitorScope
  simp only [hal, Bool.false_eq_true, ↓reduceIte]
  refine ⟨fun _ => rfl, fun _ => rfl, ?_, ?_, ?_, ?_, fun _ h => h⟩
  · intro s'; unfold worldOf; simp only [get_alter, get_set, ↓reduceIte]
    by_cases e : s' = s
    · rw [if_pos e, e]
      cases get st.world s with
      | none => rfl
      | some l =>
        simp only [Option.getD_some, Option.bind_some]
        by_cases c : l = []
        · rw [if_pos c, c]; rfl
        · rw [if_neg c]; rfl
    · rw [if_neg e, if_neg e]
  · intro x; unfold relMem relOf; simp only [relOf_removeEmptyRel, relOf_relUpdate_id]
  · intro x; unfold relGmon relOf; simp only [relOf_removeEmptyRel, relOf_relUpdate_id]
  · intro x; unfold relWmon relOf; simp only [relOf_removeEmptyRel, relOf_relUpdate_id]

/-! ### the API-level ops -/

theorem envOK_join (a : Nat) (st : State) (s g : Nat) (as : List Nat) : EnvOK a st (join st s g as).1 := by
  constructor
  · intro h; rw [join_dead]; exact h
  · intro h1 k hk
    rw [join_members] at hk
    rw [join_relMem]
    rcases hk with hk | hk
    · exact Or.inl (h1 k hk)
    · exact Or.inr hk
  · intro h1 k hk
    rw [join_listeners] at hk
    rw [join_relGmon]; exact h1 k hk
  · intro h1 s' hs
    have h1' := h1 s'
    unfold worldOf at hs h1'
    rw [join_world] at hs
    rw [join_relWmon]; exact h1' hs
  · intro hd k hk
    rw [join_members] at hk
    rcases hk with hk | ⟨_, _, hk⟩
    · exact hk
    · exact absurd hd hk
  · intro _ k hk; rw [join_listeners] at hk; exact hk
  · intro _ s' hs; unfold worldOf at hs ⊢; rw [join_world] at hs; exact hs

theorem envOK_leave (a : Nat) (st : State) (s g : Nat) (as : List Nat) : EnvOK a st (leave st s g as).1 := by
  cases hg : get st.map (s, g) with
  | none => rw [leave_noop st s g as hg]; exact envOK_of_same (same_refl st)
  | some gs =>
    constructor
    · intro h; rw [leave_dead st s g as hg]; exact h
    · intro h1 k hk
      rw [leave_members st s g as hg] at hk
      rw [leave_relMem st s g as hg]
      exact ⟨h1 k hk.1, hk.2⟩
    · intro h1 k hk
      rw [leave_listeners st s g as hg] at hk
      rw [leave_relGmon st s g as hg]; exact h1 k hk
    · intro h1 s' hs
      have h1' := h1 s'
      unfold worldOf at hs h1'
      rw [leave_world st s g as hg] at hs
      rw [leave_relWmon st s g as hg]; exact h1' hs
    · intro _ k hk; rw [leave_members st s g as hg] at hk; exact hk.1
    · intro _ k hk; rw [leave_listeners st s g as hg] at hk; exact hk
    · intro _ s' hs; unfold worldOf at hs ⊢; rw [leave_world st s g as hg] at hs; exact hs

theorem envOK_monitor (a : Nat) (st : State) (g b : Nat) : EnvOK a st (monitor st g b) := by
  by_cases hd : b ∈ st.dead
  · exact envOK_of_same (same_monitor_dead st g b hd)
  · have hst := monitor_alive_state st g b hd
    have hrel := monitor_alive_rel_get st g b hd
    have hmap : ∀ k, get (monitor st g b).map k =
        if k = (defaultScope, g) then some ⟨membersOf st (defaultScope, g), ins b (listenersOf st (defaultScope, g))⟩
        else get st.map k := by
      intro k; rw [hst]; simp
    have hM : ∀ k, membersOf (monitor st g b) k = membersOf st k := by
      intro k; unfold membersOf; rw [hmap]
      by_cases e : k = (defaultScope, g)
      · rw [if_pos e, e]; rfl
      · rw [if_neg e]
    have hL : ∀ k m, m ∈ listenersOf (monitor st g b) k ↔ m ∈ listenersOf st k ∨ (k = (defaultScope, g) ∧ m = b) := by
      intro k m; unfold listenersOf; rw [hmap]
      by_cases e : k = (defaultScope, g)
      · rw [if_pos e, e]
        simp only [Option.map_some, Option.getD_some, mem_ins, true_and]
        constructor
        · rintro (x | x)
          · exact Or.inr x
          · exact Or.inl x
        · rintro (x | x)
          · exact Or.inr x
          · exact Or.inl x
      · rw [if_neg e]; simp [e]
    have hRM : ∀ x, relMem (monitor st g b) x = relMem st x := by
      intro x; unfold relMem relOf; rw [hrel]
      by_cases e : x = b
      · rw [if_pos e, e]; rfl
      · rw [if_neg e]
    have hRW : ∀ x, relWmon (monitor st g b) x = relWmon st x := by
      intro x; unfold relWmon relOf; rw [hrel]
      by_cases e : x = b
      · rw [if_pos e, e]; rfl
      · rw [if_neg e]
    have hRG : ∀ x k, k ∈ relGmon (monitor st g b) x ↔ k ∈ relGmon st x ∨ (k = (defaultScope, g) ∧ x = b) := by
      intro x k; unfold relGmon relOf; rw [hrel]
      by_cases e : x = b
      · rw [if_pos e, e]
        simp only [Option.getD_some, mem_ins, and_true, relGmon, relOf]
        constructor
        · rintro (y | y)
          · exact Or.inr y
          · exact Or.inl y
        · rintro (y | y)
          · exact Or.inr y
          · exact Or.inl y
      · rw [if_neg e]; simp [e]
    have hW : (monitor st g b).world = st.world := by rw [hst]
    have hD : (monitor st g b).dead = st.dead := by rw [hst]
    constructor
    · intro h; rw [hD]; exact h
    · intro h1 k hk; rw [hM] at hk; rw [hRM]; exact h1 k hk
    · intro h1 k hk
      rw [hL] at hk; rw [hRG]
      rcases hk with hk | ⟨rfl, rfl⟩
      · exact Or.inl (h1 k hk)
      · exact Or.inr ⟨rfl, rfl⟩
    · intro h1 s' hs
      have h1' := h1 s'
      unfold worldOf at hs h1'
      rw [hW] at hs; rw [hRW]; exact h1' hs
    · intro _ k hk; rw [hM] at hk; exact hk
    · intro hda k hk
      rw [hL] at hk
      rcases hk with hk | ⟨_, rfl⟩
      · exact hk
      · exact absurd hda hd
    · intro _ s' hs; unfold worldOf at hs ⊢; rw [hW] at hs; exact hs

theorem envOK_monitorScope (a : Nat) (st : State) (s b : Nat) : EnvOK a st (monitorScope st s b) := by
  by_cases hd : b ∈ st.dead
  · exact envOK_of_same (same_monitorScope_dead st s b hd)
  · have hst := monitorScope_alive_state st s b hd
    have hrel := monitorScope_alive_rel_get st s b hd
    have hworld : ∀ k, get (monitorScope st s b).world k =
        if k = s then some (ins b (worldOf st s)) else get st.world k := by
      intro k; rw [hst]; simp
    have hWm : ∀ k m, m ∈ worldOf (monitorScope st s b) k ↔ m ∈ worldOf st k ∨ (k = s ∧ m = b) := by
      intro k m; unfold worldOf; rw [hworld]
      by_cases e : k = s
      · rw [if_pos e, e]
        simp only [Option.getD_some, mem_ins, true_and, worldOf]
        constructor
        · rintro (x | x)
          · exact Or.inr x
          · exact Or.inl x
        · rintro (x | x)
          · exact Or.inr x
          · exact Or.inl x
      · rw [if_neg e]; simp [e]
    have hRM : ∀ x, relMem (monitorScope st s b) x = relMem st x := by
      intro x; unfold relMem relOf; rw [hrel]
      by_cases e : x = b
      · rw [if_pos e, e]; rfl
      · rw [if_neg e]
    have hRG : ∀ x, relGmon (monitorScope st s b) x = relGmon st x := by
      intro x; unfold relGmon relOf; rw [hrel]
      by_cases e : x = b
      · rw [if_pos e, e]; rfl
      · rw [if_neg e]
    have hRW : ∀ x k, k ∈ relWmon (monitorScope st s b) x ↔ k ∈ relWmon st x ∨ (k = s ∧ x = b) := by
      intro x k; unfold relWmon relOf; rw [hrel]
      by_cases e : x = b
      · rw [if_pos e, e]
        simp only [Option.getD_some, mem_ins, and_true, relWmon, relOf]
        constructor
        · rintro (y | y)
          · exact Or.inr y
          · exact Or.inl y
        · rintro (y | y)
          · exact Or.inr y
          · exact Or.inl y
      · rw [if_neg e]; simp [e]
    have hMp : (monitorScope st s b).map = st.map := by rw [hst]
    have hD : (monitorScope st s b).dead = st.dead := by rw [hst]
    have hM : ∀ k, membersOf (monitorScope st s b) k = membersOf st k := by
      intro k; unfold membersOf; rw [hMp]
    have hL : ∀ k, listenersOf (monitorScope st s b) k = listenersOf st k := by
      intro k; unfold listenersOf; rw [hMp]
    constructor
    · intro h; rw [hD]; exact h
    · intro h1 k hk; rw [hM] at hk; rw [hRM]; exact h1 k hk
    · intro h1 k hk; rw [hL] at hk; rw [hRG]; exact h1 k hk
    · intro h1 s' hs
      rw [hWm] at hs; rw [hRW]
      rcases hs with hs | ⟨rfl, rfl⟩
      · exact Or.inl (h1 s' hs)
      · exact Or.inr ⟨rfl, rfl⟩
    · intro _ k hk; rw [hM] at hk; exact hk
    · intro _ k hk; rw [hL] at hk; exact hk
    · intro hda s' hs
      rw [hWm] at hs
      rcases hs with hs | ⟨_, rfl⟩
      · exact hs
      · exact absurd hda hd

end Pg.Fine

namespace Pg.Fine
open AList Pg

theorem envOK_demonitor (a : Nat) (st : State) (g b : Nat) : EnvOK a st (demonitor st g b) := by
  have hmap : ∀ k, get (demonitor st g b).map k =
      if k = (defaultScope, g) then dropListener b (get st.map (defaultScope, g)) else get st.map k := by
    intro k; simp [demonitor]
  have hrel : ∀ x, get (demonitor st g b).rel x =
      if x = b then (get st.rel b).map (fun r => { r with gmon := del (defaultScope, g) r.gmon }) else get st.rel x := by
    intro x; simp [demonitor]
  have hM : ∀ k, membersOf (demonitor st g b) k = membersOf st k := demonitor_membersOf st g b
  have hL : ∀ k, listenersOf (demonitor st g b) k =
      if k = (defaultScope, g) then del b (listenersOf st k) else listenersOf st k := by
    intro k; unfold listenersOf; rw [hmap]
    by_cases e : k = (defaultScope, g)
    · rw [if_pos e, if_pos e, dropListener_listeners, e]
    · rw [if_neg e, if_neg e]
  have hRM : ∀ x, relMem (demonitor st g b) x = relMem st x := by
    intro x; unfold relMem relOf; rw [hrel]
    by_cases e : x = b
    · rw [if_pos e, e]; cases get st.rel b <;> rfl
    · rw [if_neg e]
  have hRW : ∀ x, relWmon (demonitor st g b) x = relWmon st x := by
    intro x; unfold relWmon relOf; rw [hrel]
    by_cases e : x = b
    · rw [if_pos e, e]; cases get st.rel b <;> rfl
    · rw [if_neg e]
  have hRG : ∀ x, relGmon (demonitor st g b) x =
      if x = b then del (defaultScope, g) (relGmon st x) else relGmon st x := by
    intro x; unfold relGmon relOf; rw [hrel]
    by_cases e : x = b
    · rw [if_pos e, if_pos e, e]; cases get st.rel b <;> rfl
    · rw [if_neg e, if_neg e]
  constructor
  · exact id
  · intro h1 k hk; rw [hM] at hk; rw [hRM]; exact h1 k hk
  · intro h1 k hk
    rw [hL] at hk; rw [hRG]
    by_cases e : k = (defaultScope, g)
    · rw [if_pos e] at hk
      have hk' := mem_del.mp hk
      rw [if_neg hk'.2]; exact h1 k hk'.1
    · rw [if_neg e] at hk
      split
      · exact mem_del.mpr ⟨h1 k hk, e⟩
      · exact h1 k hk
  · intro h1 s' hs; rw [hRW]; exact h1 s' hs
  · intro _ k hk; rw [hM] at hk; exact hk
  · intro _ k hk
    rw [hL] at hk
    split at hk
    · exact (mem_del.mp hk).1
    · exact hk
  · intro _ s' hs; exact hs

theorem envOK_demonitorScope (a : Nat) (st : State) (s b : Nat) : EnvOK a st (demonitorScope st s b) := by
  have hworld : ∀ k, get (demonitorScope st s b).world k =
      if k = s then dropWorldListener b (get st.world s) else get st.world k := by
    intro k; simp [demonitorScope]
  have hrel : ∀ x, get (demonitorScope st s b).rel x =
      if x = b then (get st.rel b).map (fun r => { r with wmon := del s r.wmon }) else get st.rel x := by
    intro x; simp [demonitorScope]
  have hWl : ∀ k, worldOf (demonitorScope st s b) k = if k = s then del b (worldOf st k) else worldOf st k := by
    intro k; unfold worldOf; rw [hworld]
    by_cases e : k = s
    · rw [if_pos e, if_pos e, dropWorld_list, e]
    · rw [if_neg e, if_neg e]
  have hRM : ∀ x, relMem (demonitorScope st s b) x = relMem st x := by
    intro x; unfold relMem relOf; rw [hrel]
    by_cases e : x = b
    · rw [if_pos e, e]; cases get st.rel b <;> rfl
    · rw [if_neg e]
  have hRG : ∀ x, relGmon (demonitorScope st s b) x = relGmon st x := by
    intro x; unfold relGmon relOf; rw [hrel]
    by_cases e : x = b
    · rw [if_pos e, e]; cases get st.rel b <;> rfl
    · rw [if_neg e]
  have hRW : ∀ x, relWmon (demonitorScope st s b) x = if x = b then del s (relWmon st x) else relWmon st x := by
    intro x; unfold relWmon relOf; rw [hrel]
    by_cases e : x = b
    · rw [if_pos e, if_pos e, e]; cases get st.rel b <;> rfl
    · rw [if_neg e, if_neg e]
  constructor
  · exact id
  · intro h1 k hk; rw [hRM]; exact h1 k hk
  · intro h1 k hk; rw [hRG]; exact h1 k hk
  · intro h1 s' hs
    rw [hWl] at hs; rw [hRW]
    by_cases e : s' = s
    · rw [if_pos e] at hs
      have hs' := mem_del.mp hs
      rw [if_neg hs'.2]; exact h1 s' hs'.1
    · rw [if_neg e] at hs
      split
      · exact mem_del.mpr ⟨h1 s' hs, e⟩
      · exact h1 s' hs
  · intro _ k hk; exact hk
  · intro _ k hk; exact hk
  · intro _ s' hs
    rw [hWl] at hs
    split at hs
    · exact (mem_del.mp hs).1
    · exact hs

/-! ### a whole exit of another actor only removes things -/

theorem dropMember_members_sub (b : Nat) (o : Option GS) (x : Nat)
    (h : x ∈ ((dropMember b o).map (·.members)).getD []) : x ∈ (o.map (·.members)).getD [] := by
  cases o with
  | none => exact h
  | some gs =>
    simp only [dropMember, Option.bind_some] at h
    by_cases c : b ∈ gs.members
    · rw [if_pos c, members_gsNorm] at h
      exact (mem_del.mp h).1
    · rw [if_neg c] at h; exact h

theorem dropMember_listeners (b : Nat) (o : Option GS) :
    ((dropMember b o).map (·.listeners)).getD [] = (o.map (·.listeners)).getD [] := by
  cases o with
  | none => rfl
  | some gs =>
    simp only [dropMember, Option.bind_some]
    by_cases c : b ∈ gs.members
    · rw [if_pos c, listeners_gsNorm]; rfl
    · rw [if_neg c]

theorem envOK_exit (a : Nat) (st : State) (b : Nat) (hab : b ≠ a) : EnvOK a st (exit st b).1 := by
  by_cases hd : b ∈ st.dead
  · rw [exit_dead_noop st b hd]; exact envOK_of_same (same_refl st)
  cases hr : get st.rel b with
  | none =>
    rw [exit_norel st b hd hr]
    exact envOK_of_same ⟨fun _ => rfl, fun _ => rfl, fun _ => rfl, fun _ => rfl, fun _ => rfl, fun _ => rfl,
      fun _ h => List.mem_append_left _ h⟩
  | some r =>
    have hst : (exit st b).1 = (leaveAll (afterDemon st b r) b).1 := by rw [exit_rel st b hd hr]
    have hmapget : ∀ k, get (exit st b).1.map k =
        (if k ∈ r.mem then dropMember b else id)
          ((if k ∈ r.gmon then dropListener b else id) (get st.map k)) := by
      intro k
      rw [hst]; unfold leaveAll; rw [afterDemon_rel_get]
      simp only [afterDemon]
      rw [get_alterMany _ _ _ (dropMember_idem b), get_alterMany _ _ _ (dropListener_idem b)]
      by_cases c1 : k ∈ r.mem <;> by_cases c2 : k ∈ r.gmon <;> simp [c1, c2]
    have hMsub : ∀ k x, x ∈ membersOf (exit st b).1 k → x ∈ membersOf st k := by
      intro k x hx
      unfold membersOf at hx ⊢
      rw [hmapget] at hx
      by_cases c1 : k ∈ r.mem <;> by_cases c2 : k ∈ r.gmon
      · simp only [c1, c2, ↓reduceIte] at hx
        have := dropMember_members_sub b _ x hx
        rw [dropListener_members] at this; exact this
      · simp only [c1, c2, ↓reduceIte, id] at hx
        exact dropMember_members_sub b _ x hx
      · simp only [c1, c2, ↓reduceIte, id] at hx
        rw [dropListener_members] at hx; exact hx
      · simp only [c1, c2, ↓reduceIte, id] at hx; exact hx
    have hLsub : ∀ k x, x ∈ listenersOf (exit st b).1 k → x ∈ listenersOf st k := by
      intro k x hx
      unfold listenersOf at hx ⊢
      rw [hmapget] at hx
      by_cases c1 : k ∈ r.mem <;> by_cases c2 : k ∈ r.gmon
      · simp only [c1, c2, ↓reduceIte] at hx
        rw [dropMember_listeners, dropListener_listeners] at hx
        exact (mem_del.mp hx).1
      · simp only [c1, c2, ↓reduceIte, id] at hx
        rw [dropMember_listeners] at hx; exact hx
      · simp only [c1, c2, ↓reduceIte, id] at hx
        rw [dropListener_listeners] at hx
        exact (mem_del.mp hx).1
      · simp only [c1, c2, ↓reduceIte, id] at hx; exact hx
    have hWsub : ∀ s x, x ∈ worldOf (exit st b).1 s → x ∈ worldOf st s := by
      intro s x hx
      unfold worldOf at hx ⊢
      rw [hst] at hx; unfold leaveAll at hx; rw [afterDemon_rel_get] at hx
      simp only [afterDemon] at hx
      rw [get_alterMany _ _ _ (dropWorldListener_idem b)] at hx
      by_cases c : s ∈ r.wmon
      · rw [if_pos c, dropWorld_list] at hx; exact (mem_del.mp hx).1
      · rw [if_neg c] at hx; exact hx
    have hrel : ∀ x, x ≠ b → get (exit st b).1.rel x = get st.rel x := by
      intro x hx
      rw [hst]; unfold leaveAll; rw [afterDemon_rel_get]
      simp only [removeEmptyRel_get, get_set, afterDemon, hx, ↓reduceIte]
    have hra : relOf (exit st b).1 a = relOf st a := by
      unfold relOf; rw [hrel a (fun e => hab e.symm)]
    have hdead : ∀ x, x ∈ st.dead → x ∈ (exit st b).1.dead := by
      intro x hx
      rw [hst]; unfold leaveAll; rw [afterDemon_rel_get]
      exact List.mem_append_left _ hx
    constructor
    · exact hdead a
    · intro h1 k hk
      unfold relMem; rw [hra]; exact h1 k (hMsub k a hk)
    · intro h1 k hk
      unfold relGmon; rw [hra]; exact h1 k (hLsub k a hk)
    · intro h1 s hs
      unfold relWmon; rw [hra]; exact h1 s (hWsub s a hs)
    · intro _ k hk; exact hMsub k a hk
    · intro _ k hk; exact hLsub k a hk
    · intro _ s hs; exact hWsub s a hs

/-- every environment API call (anything but the stepped actor's own exit) -/
theorem envOK_api (a : Nat) (st : State) (op : Op) (h : op ≠ .exit a) : EnvOK a st (step st op).1 := by
  cases op with
  | join s g as => exact envOK_join a st s g as
  | leave s g as => exact envOK_leave a st s g as
  | monitor g b => exact envOK_monitor a st g b
  | monitorScope s b => exact envOK_monitorScope a st s b
  | demonitor g b => exact envOK_demonitor a st g b
  | demonitorScope s b => exact envOK_demonitorScope a st s b
  | exit b => exact envOK_exit a st b (fun e => h (by rw [e]))
  | newRemote b =>
    exact envOK_of_same ⟨fun _ => rfl, fun _ => rfl, fun _ => rfl, fun _ => rfl, fun _ => rfl, fun _ => rfl,
      fun _ h => h⟩
  | drain b => exact envOK_of_same (same_refl st)

end Pg.Fine
