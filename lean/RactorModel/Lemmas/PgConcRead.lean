import RactorModel.Model.PgConcRead
import RactorModel.Lemmas.PgConcLin
import RactorModel.Lemmas.PgConcGlob

/-!
# Readers: every region of a reader reads the writers' state of ITS instant (wave 2)
-/

namespace Pg.Conc
open AList Pg Pg.Fine

/-- an iteration in progress: every visit happened at an instant of the run so far, and a key was
collected iff it had members at the instant its shard was read -/
def IterOk (S : Nat → State) (len : Nat) (vis : List (Key × Nat)) (acc : List Key) : Prop :=
  (∀ p ∈ vis, p.2 ≤ len) ∧ (∀ k, k ∈ acc ↔ ∃ n, (k, n) ∈ vis ∧ membersOf (S n) k ≠ [])

def RdOk (S : Nat → State) (len : Nat) : RPc → Prop
  | .call _ => True
  | .iter q vis acc => isIter q = true ∧ IterOk S len vis acc
  | .ret q ans acc vis =>
    (isIter q = true ∧ IterOk S len vis acc ∧ ans = iterProj q acc) ∨
    (isIter q = false ∧ ∃ n, n ≤ len ∧ vis = [(qKey q, n)] ∧ ans = singleAns (S n) q)

theorem iterOk_mono {S S' : Nat → State} {len len' : Nat} {vis acc} (h : IterOk S len vis acc)
    (hS : ∀ n, n ≤ len → S' n = S n) (hl : len ≤ len') : IterOk S' len' vis acc := by
  refine ⟨fun p hp => Nat.le_trans (h.1 p hp) hl, fun k => ?_⟩
  rw [h.2 k]
  constructor
  · rintro ⟨n, hn, hm⟩; exact ⟨n, hn, by rw [hS n (h.1 _ hn)]; exact hm⟩
  · rintro ⟨n, hn, hm⟩; exact ⟨n, hn, by rw [← hS n (h.1 _ hn)]; exact hm⟩

theorem rdOk_mono {S S' : Nat → State} {len len' : Nat} {pc : RPc} (h : RdOk S len pc)
    (hS : ∀ n, n ≤ len → S' n = S n) (hl : len ≤ len') : RdOk S' len' pc := by
  cases pc with
  | call q => trivial
  | iter q vis acc => exact ⟨h.1, iterOk_mono h.2 hS hl⟩
  | ret q ans acc vis =>
    rcases h with ⟨hi, hok, ha⟩ | ⟨hi, n, hn, hv, ha⟩
    · exact Or.inl ⟨hi, iterOk_mono hok hS hl, ha⟩
    · exact Or.inr ⟨hi, n, Nat.le_trans hn hl, hv, by rw [hS n hn]; exact ha⟩

/-- one region of a reader keeps its record truthful: what it reads is the state of the instant `len` -/
theorem rdOk_readerStep {S : Nat → State} {len : Nat} (g : G) (hg : S len = g.st) (sh : Option (List Key))
    {pc : RPc} (h : RdOk S len pc) : RdOk S len (readerStep g len sh pc) := by
  cases pc with
  | call q =>
    simp only [readerStep]
    by_cases hi : isIter q = true
    · rw [if_pos hi]
      refine ⟨hi, ?_, ?_⟩
      · intro p hp; cases hp
      · intro k
        constructor
        · intro hk; cases hk
        · rintro ⟨n, hn, _⟩; cases hn
    · rw [if_neg hi]
      by_cases hb : singleBlocked g q = true
      · rw [if_pos hb]; trivial
      · rw [if_neg hb]
        exact Or.inr ⟨by simpa using hi, len, Nat.le_refl _, rfl, by rw [hg]⟩
  | iter q vis acc =>
    obtain ⟨hi, hok⟩ := h
    cases sh with
    | none => exact Or.inl ⟨hi, hok, rfl⟩
    | some ks =>
      simp only [readerStep]
      split
      · exact ⟨hi, hok⟩
      · refine ⟨hi, ?_, ?_⟩
        · intro p hp
          rw [List.mem_append] at hp
          rcases hp with hp | hp
          · exact hok.1 p hp
          · rw [List.mem_map] at hp
            obtain ⟨k, _, rfl⟩ := hp
            exact Nat.le_refl _
        · intro k
          rw [List.mem_append, hok.2 k, List.mem_filter]
          constructor
          · rintro (⟨n, hn, hm⟩ | ⟨hk, hm⟩)
            · exact ⟨n, List.mem_append_left _ hn, hm⟩
            · refine ⟨len, List.mem_append_right _ (List.mem_map.mpr ⟨k, hk, rfl⟩), ?_⟩
              rw [hg]
              intro he
              rw [he] at hm
              simp at hm
          · rintro ⟨n, hn, hm⟩
            rw [List.mem_append] at hn
            rcases hn with hn | hn
            · exact Or.inl ⟨n, hn, hm⟩
            · rw [List.mem_map] at hn
              obtain ⟨k', hk', he⟩ := hn
              simp only [Prod.mk.injEq] at he
              obtain ⟨rfl, rfl⟩ := he
              refine Or.inr ⟨hk', ?_⟩
              rw [hg] at hm
              cases hx : membersOf g.st k' with
              | nil => exact absurd hx hm
              | cons a l => rfl
  | ret q a c v => exact h

theorem stAtH_append (g0 : G) (hist l : List Tid) (n : Nat) (hn : n ≤ hist.length) :
    stAtH g0 (hist ++ l) n = stAtH g0 hist n := by
  unfold stAtH
  rw [List.take_append_of_le_length hn]

theorem stAtH_length (g0 : G) (hist : List Tid) : stAtH g0 hist hist.length = (run g0 hist).st := by
  unfold stAtH
  rw [List.take_length]

/-- the invariant of a run with readers -/
def RInv (g0 : G) (rg : RG) : Prop :=
  rg.g = run g0 rg.hist ∧ ∀ pc ∈ rg.rd, RdOk (stAtH g0 rg.hist) rg.hist.length pc

theorem rinv_start (g0 : G) (qs : List Query) : RInv g0 (rstart g0 qs) := by
  refine ⟨rfl, fun pc hpc => ?_⟩
  simp only [rstart, List.mem_map] at hpc
  obtain ⟨q, _, rfl⟩ := hpc
  trivial

theorem rinv_step {g0 : G} {rg : RG} (h : RInv g0 rg) (t : RTid) : RInv g0 (rstep rg t) := by
  cases t with
  | w t =>
    refine ⟨?_, fun pc hpc => ?_⟩
    · show step rg.g t = run g0 (rg.hist ++ [t])
      rw [h.1]; unfold run; rw [List.foldl_append]; rfl
    · refine rdOk_mono (h.2 pc hpc) (fun n hn => stAtH_append g0 rg.hist [t] n hn) ?_
      show rg.hist.length ≤ (rg.hist ++ [t]).length
      simp
  | r i sh =>
    simp only [rstep]
    split
    · exact h
    · next pc hpc =>
      refine ⟨h.1, fun pc' hpc' => ?_⟩
      rcases List.mem_or_eq_of_mem_set hpc' with hm | rfl
      · exact h.2 pc' hm
      · exact rdOk_readerStep rg.g (by rw [stAtH_length, ← h.1]) sh (h.2 pc (List.mem_of_getElem? hpc))

theorem rinv_run {g0 : G} {rg : RG} (h : RInv g0 rg) (sched : List RTid) : RInv g0 (rrun rg sched) := by
  unfold rrun
  induction sched generalizing rg with
  | nil => exact h
  | cons t ts ih => exact ih (rinv_step h t)

/-- readers do not disturb the writers: the writers' part of a run with readers is the `Pg.Conc` run of
the writer regions of the schedule, in their order -/
def writersOf : List RTid → List Tid
  | [] => []
  | .w t :: ts => t :: writersOf ts
  | .r _ _ :: ts => writersOf ts

theorem hist_run (rg : RG) (sched : List RTid) : (rrun rg sched).hist = rg.hist ++ writersOf sched := by
  unfold rrun
  induction sched generalizing rg with
  | nil => simp [writersOf]
  | cons t ts ih =>
    rw [List.foldl_cons, ih]
    cases t with
    | w t => simp [rstep, writersOf]
    | r i sh =>
      simp only [writersOf]
      simp only [rstep]
      split <;> rfl

theorem ne_nil_iff_mem {l : List Nat} : l ≠ [] ↔ ∃ a, a ∈ l :=
  ⟨List.exists_mem_of_ne_nil l, fun ⟨_, ha⟩ => List.ne_nil_of_mem ha⟩

/-- what a returned iterating query has established -/
theorem ret_iter_spec {S : Nat → State} {len : Nat} {q ans acc vis} (h : RdOk S len (.ret q ans acc vis))
    (hq : isIter q = true) :
    (∀ p ∈ vis, p.2 ≤ len) ∧ (∀ k, k ∈ acc ↔ ∃ n, (k, n) ∈ vis ∧ ∃ a, a ∈ membersOf (S n) k) ∧
      ans = iterProj q acc := by
  rcases h with ⟨_, hok, ha⟩ | ⟨hi, _⟩
  · refine ⟨hok.1, fun k => ?_, ha⟩
    rw [hok.2 k]
    constructor
    · rintro ⟨n, hn, hm⟩; exact ⟨n, hn, ne_nil_iff_mem.mp hm⟩
    · rintro ⟨n, hn, hm⟩; exact ⟨n, hn, ne_nil_iff_mem.mpr hm⟩
  · rw [hq] at hi; cases hi

/-- what a returned one-region query has established -/
theorem ret_single_spec {S : Nat → State} {len : Nat} {q ans acc vis} (h : RdOk S len (.ret q ans acc vis))
    (hq : isIter q = false) : ∃ n, n ≤ len ∧ vis = [(qKey q, n)] ∧ ans = singleAns (S n) q := by
  rcases h with ⟨hi, _⟩ | ⟨_, h⟩
  · rw [hq] at hi; cases hi
  · exact h

end Pg.Conc
