import RactorModel.Model.RegistryThreads
import RactorModel.Lemmas.RegistryConc

/-! Invariants of `Model/RegistryThreads.lean` (`Reg3`: several publisher threads per cell). -/

namespace Reg3

open Reg2 (Stmt blockProg upd stopping stopped upd_apply)

theorem upd2_apply {α : Type} (f : Nat → Nat → α) (i j x y : Nat) (v : α) :
    upd2 f i j v x y = if x = i ∧ y = j then v else f x y := rfl

/-- for every interleaving, whatever the callers do -/
structure TInv (s : State) : Prop where
  unborn : ∀ a, (s.cell a).born = false →
    (s.cell a).status = 0 ∧ (s.cell a).el = none ∧ (s.cell a).remote = false ∧ (s.cell a).cons ≠ .done
  owner : ∀ n a, s.names n = some a →
    (s.cell a).name = some n ∧ (s.cell a).remote = false ∧ (s.cell a).cons.holds = true ∧
    (stopping ≤ (s.cell a).status → ∀ t, (s.cell a).el = some t → (s.thr a t).hasName = true)
  pidOwner : ∀ a, s.pids a = true →
    (s.cell a).remote = false ∧ (s.cell a).born = true ∧
    (stopping ≤ (s.cell a).status → ∀ t, (s.cell a).el = some t → (s.thr a t).hasPid = true)
  elected : ∀ a, (stopping ≤ (s.cell a).status ↔ (s.cell a).el ≠ none)
  blkEl : ∀ a t rest st, s.thr a t = .blk rest st → (s.cell a).el = some t ∧ st ≤ (s.cell a).status
  doneLe : ∀ a t, s.done a t ≤ (s.cell a).status
  le6 : ∀ a, (s.cell a).status ≤ stopped
  bornCons : ∀ a, (s.cell a).born = true → (s.cell a).cons = .done

theorem bp_name (st : Nat) : (TPc.blk blockProg st).hasName = true := by simp [TPc.hasName, blockProg]
theorem bp_pid (st : Nat) : (TPc.blk blockProg st).hasPid = true := by simp [TPc.hasPid, blockProg]

theorem hasName_cons (stmt : Stmt) (rest : List Stmt) (st : Nat) (h : stmt ≠ .unregName) :
    (TPc.blk (stmt :: rest) st).hasName = (TPc.blk rest st).hasName := by
  cases stmt <;> simp_all [TPc.hasName]

theorem hasPid_cons (stmt : Stmt) (rest : List Stmt) (st : Nat) (h : stmt ≠ .unregPid) :
    (TPc.blk (stmt :: rest) st).hasPid = (TPc.blk rest st).hasPid := by
  cases stmt <;> simp_all [TPc.hasPid]

theorem hasName_idle : TPc.idle.hasName = false := rfl
theorem hasPid_idle : TPc.idle.hasPid = false := rfl
theorem hasName_nil : (TPc.blk [] st).hasName = false := rfl
theorem hasPid_nil : (TPc.blk [] st).hasPid = false := rfl

macro "thr_auto" : tactic =>
  `(tactic| ((try simp only [upd_apply, upd2_apply] at *)
             grind [CPc.holds, stopping, stopped, bp_name, bp_pid, hasName_idle, hasPid_idle, hasName_nil, hasPid_nil]))

theorem TInv.init : TInv init :=
  { unborn := by intro a _; simp [Reg3.init]
    owner := by intro n a h; simp [Reg3.init] at h
    pidOwner := by intro a h; simp [Reg3.init] at h
    elected := by intro a; simp [Reg3.init, stopping]
    blkEl := by intro a t rest st h; simp [Reg3.init] at h
    doneLe := by intro a t; simp [Reg3.init]
    le6 := by intro a; simp [Reg3.init]
    bornCons := by intro a h; simp [Reg3.init] at h }

macro "thr_inv" h:ident : tactic => `(tactic| (
  have hu := ($h).unborn; have ho := ($h).owner; have hp := ($h).pidOwner; have he := ($h).elected
  have hb := ($h).blkEl; have hd := ($h).doneLe; have h6 := ($h).le6; have hbc := ($h).bornCons
  refine ⟨?_, ?_, ?_, ?_, ?_, ?_, ?_, ?_⟩ <;> intros <;> thr_auto))

theorem TInv.new {s : State} (h : TInv s) (a : Nat) (name : Option Nat) : TInv (step s (.new a name)) := by
  simp only [step]
  split
  · thr_inv h
  · exact h

theorem TInv.regName {s : State} (h : TInv s) (a : Nat) : TInv (step s (.regName a)) := by
  simp only [step]
  split
  · split
    · thr_inv h
    · thr_inv h
  · exact h

theorem TInv.regPid {s : State} (h : TInv s) (a : Nat) : TInv (step s (.regPid a)) := by
  simp only [step]
  split
  · thr_inv h
  · exact h

theorem TInv.regPidFail {s : State} (h : TInv s) (a : Nat) : TInv (step s (.regPidFail a)) := by
  simp only [step]
  split
  · thr_inv h
  · exact h

theorem TInv.rollback {s : State} (h : TInv s) (a : Nat) : TInv (step s (.rollback a)) := by
  simp only [step]
  split
  · thr_inv h
  · exact h

theorem TInv.spawnRemote {s : State} (h : TInv s) (a : Nat) (name : Option Nat) :
    TInv (step s (.spawnRemote a name)) := by
  simp only [step]
  split
  · thr_inv h
  · exact h

theorem TInv.publish {s : State} (h : TInv s) (a t st : Nat) : TInv (step s (.publish a t st)) := by
  simp only [step]
  split
  · split
    · thr_inv h
    · thr_inv h
  · exact h

theorem TInv.bstep {s : State} (h : TInv s) (a t : Nat) : TInv (step s (.bstep a t)) := by
  simp only [step]
  split
  · next stmt rest st hpc =>
    have hn := hasName_cons stmt rest st
    have hq := hasPid_cons stmt rest st
    cases stmt with
    | demonitor => simp only [exec]; thr_inv h
    | unregPid => simp only [exec]; split <;> thr_inv h
    | unregName => simp only [exec]; split <;> (try split) <;> thr_inv h
  · thr_inv h
  · exact h

theorem TInv.step {s : State} (h : TInv s) (op : Op) : TInv (step s op) := by
  cases op with
  | new a name => exact h.new a name
  | regName a => exact h.regName a
  | regPid a => exact h.regPid a
  | regPidFail a => exact h.regPidFail a
  | rollback a => exact h.rollback a
  | spawnRemote a name => exact h.spawnRemote a name
  | publish a t st => exact h.publish a t st
  | bstep a t => exact h.bstep a t

theorem TInv.run {s : State} (h : TInv s) (ops : List Op) : TInv (run s ops) := by
  induction ops generalizing s with
  | nil => exact h
  | cons op ops ih => exact ih (h.step op)

/-- under the code's discipline: once a local cell is Stopped, the elected caller has left `set_status` -/
def DInv (s : State) : Prop :=
  ∀ a t, (s.cell a).status = stopped → (s.cell a).remote = false → (s.cell a).el = some t → s.thr a t = .idle

theorem DInv.init : DInv init := by intro a t h; simp [Reg3.init, stopped] at h

theorem DInv.step {s : State} (h : TInv s) (hd : DInv s) (op : Op) (hdisc : disc s op = true) :
    DInv (step s op) := by
  have hu := h.unborn; have he := h.elected; have hb := h.blkEl; have hdl := h.doneLe; have hbc := h.bornCons
  unfold DInv at hd ⊢
  cases op with
  | new a name => simp only [Reg3.step]; split <;> first | exact hd | (intros; thr_auto)
  | regName a => simp only [Reg3.step]; split <;> (try split) <;> first | exact hd | (intros; thr_auto)
  | regPid a => simp only [Reg3.step]; split <;> first | exact hd | (intros; thr_auto)
  | regPidFail a => simp only [Reg3.step]; split <;> first | exact hd | (intros; thr_auto)
  | rollback a => simp only [Reg3.step]; split <;> first | exact hd | (intros; thr_auto)
  | spawnRemote a name => simp only [Reg3.step]; split <;> first | exact hd | (intros; thr_auto)
  | publish a t st =>
    simp only [disc, Bool.or_eq_true, decide_eq_true_eq, Bool.not_eq_eq_eq_not, Bool.not_true] at hdisc
    simp only [Reg3.step]
    split
    · split
      · intros; thr_auto
      · intros; thr_auto
    · exact hd
  | bstep a t =>
    simp only [Reg3.step]
    split
    · next stmt rest st hpc =>
      cases stmt with
      | demonitor => simp only [exec]; intros; thr_auto
      | unregPid => simp only [exec]; split <;> intros <;> thr_auto
      | unregName => simp only [exec]; split <;> (try split) <;> intros <;> thr_auto
    · intros; thr_auto
    · exact hd

theorem DInv.run {s : State} (h : TInv s) (hd : DInv s) (ops : List Op) (hdisc : Disc s ops = true) :
    DInv (run s ops) := by
  induction ops generalizing s with
  | nil => exact hd
  | cons op ops ih =>
    simp only [Disc, All, Bool.and_eq_true] at hdisc
    exact ih (h.step op) (hd.step h op hdisc.1) hdisc.2

/-! ### soundness of the lookups under the discipline, and the weakest hypothesis -/

theorem sound_of_dinv {s : State} (h : TInv s) (hd : DInv s) : Sound s := by
  intro n a hn hs
  obtain ⟨_, hl, _, hb⟩ := h.owner n a hn
  have he := (h.elected a).1 (by rw [hs]; decide)
  cases hel : (s.cell a).el with
  | none => exact he hel
  | some t =>
    have h1 := hb (by rw [hs]; decide) t hel
    rw [hd a t hs hl hel] at h1
    cases h1

/-- same for the pid table: under the discipline a Stopped local cell is not in it -/
theorem pid_sound_of_dinv {s : State} (h : TInv s) (hd : DInv s) (a : Nat) (hp : s.pids a = true) :
    (s.cell a).status ≠ stopped := by
  intro hs
  obtain ⟨hl, _, hb⟩ := h.pidOwner a hp
  have he := (h.elected a).1 (by rw [hs]; decide)
  cases hel : (s.cell a).el with
  | none => exact he hel
  | some t =>
    have h1 := hb (by rw [hs]; decide) t hel
    rw [hd a t hs hl hel] at h1
    cases h1

theorem SoundAlong.head {s : State} {ops : List Op} (h : SoundAlong s ops) : Sound s := by
  cases ops with
  | nil => exact h
  | cons op ops => exact h.1

/-- one step keeps `Sound` iff (for a `set_status(Stopped)` that takes effect) the entry is already gone -/
theorem Sound.step {s : State} (h : TInv s) (hs : Sound s) (op : Op) (hw : weakest s op) : Sound (step s op) := by
  have hu := h.unborn; have ho := h.owner; have hbc := h.bornCons
  unfold Sound at hs ⊢
  cases op with
  | new a name => simp only [Reg3.step]; split <;> first | exact hs | (intros; thr_auto)
  | regName a => simp only [Reg3.step]; split <;> (try split) <;> first | exact hs | (intros; thr_auto)
  | regPid a => simp only [Reg3.step]; split <;> first | exact hs | (intros; thr_auto)
  | regPidFail a => simp only [Reg3.step]; split <;> first | exact hs | (intros; thr_auto)
  | rollback a => simp only [Reg3.step]; split <;> first | exact hs | (intros; thr_auto)
  | spawnRemote a name => simp only [Reg3.step]; split <;> first | exact hs | (intros; thr_auto)
  | publish a t st =>
    simp only [weakest] at hw
    simp only [Reg3.step]
    split
    · split
      · intros; thr_auto
      · intros; thr_auto
    · exact hs
  | bstep a t =>
    simp only [Reg3.step]
    split
    · next stmt rest st hpc =>
      cases stmt with
      | demonitor => simp only [exec]; intros; thr_auto
      | unregPid => simp only [exec]; split <;> intros <;> thr_auto
      | unregName => simp only [exec]; split <;> (try split) <;> intros <;> thr_auto
    · intros; thr_auto
    · exact hs

theorem publish_names (s : State) (a t st : Nat) : (step s (.publish a t st)).names = s.names := by
  simp only [Reg3.step]; split <;> (try split) <;> rfl

theorem publish_status (s : State) (a t st : Nat) (hb : (s.cell a).born = true) (hi : s.thr a t = .idle)
    (hst : st ≤ stopped) : ((step s (.publish a t st)).cell a).status = max (s.cell a).status st := by
  simp only [Reg3.step, hb, hi, hst, and_self, if_true]
  split <;> simp [upd_apply]

theorem weakest_of_sound_step {s : State} (h : TInv s) (op : Op) (hs : Sound (step s op)) : weakest s op := by
  cases op with
  | new a name => trivial
  | regName a => trivial
  | regPid a => trivial
  | regPidFail a => trivial
  | rollback a => trivial
  | spawnRemote a name => trivial
  | bstep a t => trivial
  | publish a t st =>
    intro hst hb hi n hn
    subst hst
    have h1 := hs n a (by rw [publish_names]; exact hn)
    rw [publish_status s a t stopped hb hi (Nat.le_refl _)] at h1
    exact h1 (Nat.max_eq_right (h.le6 a))

theorem soundAlong_of_weakest {s : State} (h : TInv s) (hs : Sound s) (ops : List Op) (hw : Weakest s ops) :
    SoundAlong s ops := by
  induction ops generalizing s with
  | nil => exact hs
  | cons op ops ih => exact ⟨hs, ih (h.step op) (hs.step h op hw.1) hw.2⟩

theorem weakest_of_soundAlong {s : State} (h : TInv s) (ops : List Op) (hs : SoundAlong s ops) : Weakest s ops := by
  induction ops generalizing s with
  | nil => trivial
  | cons op ops ih => exact ⟨weakest_of_sound_step h op hs.2.head, ih (h.step op) hs.2⟩

/-! ### one caller per cell (the structural assumption of `Reg2`): the caller's own order is the discipline -/

/-- every `set_status` call of the run is made by thread 0 of the cell -/
def single : Op → Bool
  | .publish _ t _ => t == 0
  | .bstep _ t => t == 0
  | _ => true

def SInv (s : State) : Prop := ∀ a t, (s.cell a).el = some t → t = 0

theorem SInv.init : SInv init := by intro a t h; simp [Reg3.init] at h

theorem SInv.step {s : State} (h : SInv s) (op : Op) (hs : single op = true) : SInv (step s op) := by
  unfold SInv at h ⊢
  cases op with
  | new a name => simp only [Reg3.step]; split <;> first | exact h | (intros; thr_auto)
  | regName a => simp only [Reg3.step]; split <;> (try split) <;> first | exact h | (intros; thr_auto)
  | regPid a => simp only [Reg3.step]; split <;> first | exact h | (intros; thr_auto)
  | regPidFail a => simp only [Reg3.step]; split <;> first | exact h | (intros; thr_auto)
  | rollback a => simp only [Reg3.step]; split <;> first | exact h | (intros; thr_auto)
  | spawnRemote a name => simp only [Reg3.step]; split <;> first | exact h | (intros; thr_auto)
  | publish a t st =>
    simp only [single, beq_iff_eq] at hs
    simp only [Reg3.step]; split
    · split <;> intros <;> thr_auto
    · exact h
  | bstep a t =>
    simp only [Reg3.step]
    split
    · next stmt rest st hpc =>
      cases stmt with
      | demonitor => simp only [exec]; intros; thr_auto
      | unregPid => simp only [exec]; split <;> intros <;> thr_auto
      | unregName => simp only [exec]; split <;> (try split) <;> intros <;> thr_auto
    · intros; thr_auto
    · exact h

theorem disc_of_single {s : State} (h : SInv s) (op : Op) (hs : single op = true) (ho : ownOrdered s op = true) :
    disc s op = true := by
  cases op with
  | new a name => rfl
  | regName a => rfl
  | regPid a => rfl
  | regPidFail a => rfl
  | rollback a => rfl
  | spawnRemote a name => rfl
  | bstep a t => rfl
  | publish a t st =>
    simp only [single, beq_iff_eq] at hs
    simp only [ownOrdered, decide_eq_true_eq] at ho
    simp only [disc, Bool.or_eq_true, decide_eq_true_eq]
    right
    intro _
    refine ⟨?_, ho⟩
    cases hel : (s.cell a).el with
    | none => exact .inl rfl
    | some t' => right; rw [h a t' hel, hs]

theorem disc_of_single_run {s : State} (h : SInv s) (ops : List Op) (hs : ops.all single = true)
    (ho : All ownOrdered s ops = true) : Disc s ops = true := by
  induction ops generalizing s with
  | nil => rfl
  | cons op ops ih =>
    simp only [List.all_cons, Bool.and_eq_true] at hs
    simp only [All, Bool.and_eq_true] at ho
    simp only [Disc, All, Bool.and_eq_true]
    exact ⟨disc_of_single h op hs.1 ho.1, ih (h.step op hs.1) hs.2 ho.2⟩

end Reg3
