import RactorModel.Model.CallResult

/-!
Lemmas about `CallResult` and its combinators (`Model/CallResult.lean`): exactly one variant
flag, `unwrap`/`expect` panic iff not `Success`, the defaulting forms are total and lazy, `map`
is a functor that keeps the variant, the `*_or` forms factor through `map` + `unwrap_or`, the
error conversion panics iff `Success`, and the run-time oracle `check` accepts the model.
-/

namespace CallRes
variable {α β γ ε : Type}

theorem flags_exactly_one (r : CR α) :
    (isSuccess r = true ∧ isTimeout r = false ∧ isSendError r = false) ∨
    (isSuccess r = false ∧ isTimeout r = true ∧ isSendError r = false) ∨
    (isSuccess r = false ∧ isTimeout r = false ∧ isSendError r = true) := by
  cases r <;> simp [isSuccess, isTimeout, isSendError]

theorem isSuccess_iff (r : CR α) : isSuccess r = true ↔ ∃ v, r = .success v := by
  cases r <;> simp [isSuccess]

theorem unwrap_ok_iff (r : CR α) (v : α) : unwrap r = .ok v ↔ r = .success v := by
  cases r <;> simp [unwrap]

theorem unwrap_panics_iff (r : CR α) : (∃ m, unwrap r = .error m) ↔ isSuccess r = false := by
  cases r <;> simp [unwrap, isSuccess]

theorem expect_ok_iff (r : CR α) (msg : String) (v : α) : expect r msg = .ok v ↔ r = .success v := by
  cases r <;> simp [expect]

theorem expect_panics_iff (r : CR α) (msg : String) :
    (∃ m, expect r msg = .error m) ↔ isSuccess r = false := by
  cases r <;> simp [expect, isSuccess]

/-- the caller's message is the prefix of the panic text -/
theorem expect_message (r : CR α) (msg m : String) (h : expect r msg = .error m) :
    ∃ tail, m = msg ++ tail := by
  cases r with
  | success v => simp [expect] at h
  | timeout => simp only [expect, Except.error.injEq] at h; exact ⟨_, h.symm⟩
  | senderError => simp only [expect, Except.error.injEq] at h; exact ⟨_, h.symm⟩

theorem unwrapOr_eq (r : CR α) (d : α) :
    unwrapOr r d = match r with | .success v => v | _ => d := by
  cases r <;> rfl

/-- `unwrap_or_else` is `unwrap_or` of the closure's value, and calls the closure exactly
once iff the result is not a `Success` (never otherwise) -/
theorem unwrapOrElse_eq (r : CR α) (f : Unit → α) :
    unwrapOrElse r f = (unwrapOr r (f ()), if isSuccess r then 0 else 1) := by
  cases r <;> rfl

theorem successOr_eq (r : CR α) (e : ε) :
    successOr r e = match r with | .success v => .ok v | _ => .error e := by
  cases r <;> rfl

theorem successOr_ok_iff (r : CR α) (e : ε) (v : α) : successOr r e = .ok v ↔ r = .success v := by
  cases r <;> simp [successOr]

theorem successOrElse_eq (r : CR α) (e : Unit → ε) :
    successOrElse r e = (successOr r (e ()), if isSuccess r then 0 else 1) := by
  cases r <;> rfl

theorem map_id (r : CR α) : map r id = r := by cases r <;> rfl

theorem map_comp (r : CR α) (f : α → β) (g : β → γ) : map (map r f) g = map r (g ∘ f) := by
  cases r <;> rfl

theorem map_flags (r : CR α) (f : α → β) :
    isSuccess (map r f) = isSuccess r ∧ isTimeout (map r f) = isTimeout r ∧
      isSendError (map r f) = isSendError r := by
  cases r <;> simp [map, isSuccess, isTimeout, isSendError]

theorem map_success_iff (r : CR α) (f : α → β) (w : β) :
    map r f = .success w ↔ ∃ v, r = .success v ∧ f v = w := by
  cases r <;> simp [map]

theorem mapOr_eq (r : CR α) (d : β) (f : α → β) : mapOr r d f = unwrapOr (map r f) d := by
  cases r <;> rfl

theorem mapOrElse_eq (r : CR α) (d : Unit → β) (f : α → β) :
    mapOrElse r d f = (unwrapOr (map r f) (d ()), (if isSuccess r then 0 else 1), mapCalls r) := by
  cases r <;> rfl

theorem mapCalls_eq (r : CR α) : mapCalls r = if isSuccess r then 1 else 0 := rfl

theorem unwrap_map (r : CR α) (f : α → β) : unwrap (map r f) = (unwrap r).map f := by
  cases r <;> rfl

theorem toErr_panics_iff (r : CR α) : (∃ m, toErr r = .error m) ↔ isSuccess r = true := by
  cases r <;> simp [toErr, isSuccess]

theorem toErr_ok (r : CR α) :
    (toErr r = .ok .timeout ↔ isTimeout r = true) ∧
      (toErr r = .ok .channelClosed ↔ isSendError r = true) := by
  cases r <;> simp [toErr, isTimeout, isSendError]

/-- the run-time oracle accepts what the model computes -/
theorem check_observe (r : CR Nat) (d : Nat) (f : Nat → Nat) (e : Nat) (msg : String) :
    check r d f e (observe r d f e msg) = [] := by
  cases r <;>
    simp [check, observe, isSuccess, isTimeout, isSendError, unwrap, expect, unwrapOr, unwrapOrElse,
      successOr, successOrElse, map, mapCalls, mapOr, mapOrElse, toErr, exceptVal, exceptErr]

end CallRes
