import RactorModel.Model.Life

/-! Generic lemmas about the `Life` model: traces of sequential composition, acceptance of an
appended trace, the simulation combinator `Sim`. -/

namespace Life

@[simp] theorem evs_nil : evs [] = [] := rfl
@[simp] theorem evs_cons_ev (e : Ev) (l : List Out) : evs (.ev e :: l) = e :: evs l := rfl
@[simp] theorem evs_cons_note (s : String) (l : List Out) : evs (.note s :: l) = evs l := rfl
@[simp] theorem evs_cons_eff (x : Eff) (l : List Out) : evs (.eff x :: l) = evs l := rfl

@[simp] theorem evs_append (l1 l2 : List Out) : evs (l1 ++ l2) = evs l1 ++ evs l2 := by
  induction l1 with
  | nil => rfl
  | cons o l ih => cases o <;> simp [ih]

@[simp] theorem evs_ite_note (c : Prop) [Decidable c] (t : String) :
    evs (if c then [Out.note t] else []) = [] := by split <;> rfl

@[simp] theorem doLink_fst (a : Actor) (p : Nat) : (doLink a p).1 = { a with sup := some p } := rfl

@[simp] theorem evs_doLink (a : Actor) (p : Nat) : evs (doLink a p).2 = [] := by
  unfold doLink
  cases a.sup with
  | none => rfl
  | some q => simp only [evs_cons_eff]; split <;> rfl

theorem apiKill_ok_sigVal (a : Actor) (h : (apiKill a).2 = true) : (apiKill a).1.sigVal = true := by
  unfold apiKill at h ⊢
  split
  · rename_i h1; simp [h1] at h
  · split
    · rename_i h1 h2; simp [h1, h2] at h
    · rfl

@[simp] theorem evs_map_monSend (l : List Nat) (e : SupEv) :
    evs (l.map (fun x => Out.eff (.monSend x e))) = [] := by
  induction l with
  | nil => rfl
  | cons x l ih => simpa using ih

@[simp] theorem andThen_fst (x : M) (f : Actor → M) : (andThen x f).1 = (f x.1).1 := rfl
@[simp] theorem andThen_snd (x : M) (f : Actor → M) : (andThen x f).2 = x.2 ++ (f x.1).2 := rfl

/-! ### the events `Actor.step` appends to `stepCore` -/

def supTail (a a' : Actor) : List Out := if a'.sup = a.sup then [] else [.ev (.supIs a'.sup)]
def snapTail (a' : Actor) : List Out := if a'.phase = .fresh then [] else [.ev (.snap a'.snap)]

theorem step_eq (a : Actor) (op : AOp) :
    a.step op = ((a.stepCore op).1,
      (a.stepCore op).2 ++ supTail a (a.stepCore op).1 ++ snapTail (a.stepCore op).1) := rfl

/-! ### exit paths only emit supervision events and the join / spawn result -/

def Ev.isExitNoise : Ev → Bool
  | .emit _ _ | .join _ | .spawnRet _ | .monFan _ _ _ => true
  | _ => false

theorem cleanup_noise (a : Actor) (e : Option SupEv) : ∀ x ∈ evs (cleanup a e).2, x.isExitNoise = true := by
  unfold cleanup
  split
  · simp
  · cases e <;> cases hs : a.sup <;> cases hm : a.mons <;>
      simp [Actor.setStatus, hs, hm, notifyOuts, Ev.isExitNoise, evs_map_monSend]

theorem finish_noise (a : Actor) (e : SupEv) : ∀ x ∈ evs (finish a e).2, x.isExitNoise = true := by
  intro x hx
  simp only [finish, andThen_snd, evs_append, List.mem_append] at hx
  rcases hx with hx | hx
  · exact cleanup_noise _ _ x hx
  · simp at hx; subst hx; rfl

theorem finish_phase (a : Actor) (e : SupEv) : (finish a e).1.phase = .done := by
  simp [finish, Actor.dropPorts]

theorem killedInLoop_noise (a : Actor) : ∀ x ∈ evs (killedInLoop a).2, x.isExitNoise = true := by
  intro x hx
  simp only [killedInLoop, handleSignal, andThen_snd, evs_append, List.mem_append, evs_cons_eff, evs_nil] at hx
  rcases hx with hx | hx
  · simp at hx
  · exact finish_noise _ _ x hx

theorem killedOutsideLoop_noise (a : Actor) : ∀ x ∈ evs (killedOutsideLoop a).2, x.isExitNoise = true := by
  intro x hx
  simp only [killedOutsideLoop, handleSignal, andThen_snd, evs_append, List.mem_append, evs_cons_eff, evs_nil] at hx
  rcases hx with hx | hx
  · simp at hx
  · exact finish_noise _ _ x hx

theorem killedInLoop_phase (a : Actor) : (killedInLoop a).1.phase = .done := by
  simp [killedInLoop, finish_phase]

theorem killedOutsideLoop_phase (a : Actor) : (killedOutsideLoop a).1.phase = .done := by
  simp [killedOutsideLoop, finish_phase]

section accepts
variable {σ : Type} (next : σ → Ev → Except String σ)

@[simp] theorem accepts_nil (s : σ) : accepts next s [] = .ok s := rfl

theorem accepts_cons (s : σ) (e : Ev) (es : List Ev) :
    accepts next s (e :: es) = match next s e with
      | .ok s' => accepts next s' es
      | .error c => .error c := rfl

theorem accepts_cons_ok {s s' : σ} {e : Ev} (es : List Ev) (h : next s e = .ok s') :
    accepts next s (e :: es) = accepts next s' es := by
  simp [accepts_cons, h]

theorem accepts_append {s s' : σ} {l1 : List Ev} (l2 : List Ev)
    (h : accepts next s l1 = .ok s') : accepts next s (l1 ++ l2) = accepts next s' l2 := by
  induction l1 generalizing s with
  | nil => simp at h; subst h; rfl
  | cons e es ih =>
    rw [List.cons_append, accepts_cons]
    rw [accepts_cons] at h
    cases hn : next s e with
    | ok s1 => simp only [hn] at h ⊢; exact ih h
    | error c => simp [hn] at h

/-- `x` produces a trace accepted from `s`, ending in a state related to the new actor state. -/
def Sim (R : Actor → σ → Prop) (s : σ) (x : M) : Prop :=
  ∃ s', accepts next s (evs x.2) = .ok s' ∧ R x.1 s'

theorem Sim.andThen {R1 R2 : Actor → σ → Prop} {s : σ} {x : M} {f : Actor → M}
    (h1 : Sim next R1 s x) (h2 : ∀ a s1, R1 a s1 → Sim next R2 s1 (f a)) :
    Sim next R2 s (andThen x f) := by
  obtain ⟨s1, ha, hr⟩ := h1
  obtain ⟨s2, hb, hr2⟩ := h2 _ _ hr
  exact ⟨s2, by simp [accepts_append next _ ha, hb], hr2⟩

/-- `Sim.andThen` whose continuation also learns that the first part's trace was accepted. -/
theorem Sim.andThen' {R1 R2 : Actor → σ → Prop} {s : σ} {x : M} {f : Actor → M}
    (h1 : Sim next R1 s x)
    (h2 : ∀ a s1, R1 a s1 → accepts next s (evs x.2) = .ok s1 → Sim next R2 s1 (f a)) :
    Sim next R2 s (Life.andThen x f) := by
  obtain ⟨s1, ha, hr⟩ := h1
  obtain ⟨s2, hb, hr2⟩ := h2 _ _ hr ha
  exact ⟨s2, by simp [accepts_append next _ ha, hb], hr2⟩

theorem Sim.pure {R : Actor → σ → Prop} {s : σ} {a : Actor} (h : R a s) :
    Sim next R s (a, []) := ⟨s, rfl, h⟩

theorem Sim.mono {R1 R2 : Actor → σ → Prop} {s : σ} {x : M}
    (h : Sim next R1 s x) (hm : ∀ a s, R1 a s → R2 a s) : Sim next R2 s x := by
  obtain ⟨s1, ha, hr⟩ := h
  exact ⟨s1, ha, hm _ _ hr⟩

theorem accepts_snapTail (hsnap : ∀ s sn, next s (.snap sn) = .ok s) (s : σ) (a' : Actor) :
    accepts next s (evs (snapTail a')) = .ok s := by
  unfold snapTail; split <;> simp [accepts_cons, hsnap]

theorem accepts_supTail (hsup : ∀ s p, next s (.supIs p) = .ok s) (s : σ) (a a' : Actor) :
    accepts next s (evs (supTail a a')) = .ok s := by
  unfold supTail; split <;> simp [accepts_cons, hsup]

/-- Lifting a simulation of `stepCore` to `step` when the appended events are neutral. -/
theorem step_sim_of_core {R : Actor → σ → Prop} (hsup : ∀ s p, next s (.supIs p) = .ok s)
    (hsnap : ∀ s sn, next s (.snap sn) = .ok s) {a : Actor} {s : σ} {op : AOp}
    (h : Sim next R s (a.stepCore op)) : Sim next R s (a.step op) := by
  obtain ⟨s1, hacc, hr⟩ := h
  refine ⟨s1, ?_, hr⟩
  rw [step_eq]
  simp only [evs_append]
  rw [accepts_append next _ (by rw [accepts_append next _ hacc]; exact accepts_supTail next hsup s1 a _)]
  exact accepts_snapTail next hsnap s1 _

/-- `pollMark` appends one event that is neutral for the automaton. -/
theorem Sim.pollMark {R : Actor → σ → Prop} (hp : ∀ s, next s .polled = .ok s) {s : σ} {a : Actor} {x : M}
    (h : Sim next R s x) : Sim next R s (pollMark a x) := by
  unfold Life.pollMark
  split
  · obtain ⟨s1, hacc, hr⟩ := h
    exact ⟨s1, by simp only [evs_append]; rw [accepts_append next _ hacc]; simp [accepts_cons, hp], hr⟩
  · exact h

end accepts

end Life
