import RactorModel.Lemmas.FactoryHooks

/-!
Per-slot invariants of the factory's bookkeeping: any predicate on a `WorkerProperties` record
that is kept by `enqueue_job`, `worker_complete`, `replace_worker` and the flag/settings updates,
and that holds of a fresh record, holds of every record of the pool after every sequence of
operations.  Instances: at most one job in flight per slot; `pending_key_counts` tracks exactly the
queued and in-flight jobs.
-/

namespace Factory

structure SlotInv (P : WP → Prop) : Prop where
  enqueue : ∀ p e j, P p → P (p.enqueueJob e j).1
  complete : ∀ p e k, P p → P (p.workerComplete e k).1
  replace : ∀ p e a, P p → P (p.replaceWorker e a).1
  draining : ∀ (p : WP) (b : Bool), P p → P { p with draining := b }
  disc : ∀ (p : WP) (d : Option (Nat × Mode)), P p → P { p with disc := d }
  handler : ∀ (p : WP) (h : Option Nat), P p → P { p with handler := h }
  fresh : ∀ (wid aid : Nat) (d : Option (Nat × Mode)) (h : Option Nat), P { wid := wid, actor := aid, disc := d, handler := h }

def PoolAll (P : WP → Prop) (w : W) : Prop := ∀ p ∈ w.pool, P p

variable {P : WP → Prop}

theorem PoolAll.of_pool {w w' : W} (h : PoolAll P w) (hp : w'.pool = w.pool) : PoolAll P w' := by
  unfold PoolAll; rw [hp]; exact h

theorem PoolAll.setW {w w' : W} (h : PoolAll P w) {wid : Nat} {p' : WP} (hp' : P p')
    (hp : w'.pool = Factory.setW w.pool wid p') : PoolAll P w' := by
  intro x hx
  rw [hp] at hx
  rcases mem_setW hx with h1 | h1
  · rw [h1]; exact hp'
  · exact h x h1

theorem PoolAll.removeW {w w' : W} (h : PoolAll P w) {wid : Nat} (hp : w'.pool = Factory.removeW w.pool wid) :
    PoolAll P w' := by
  intro x hx
  rw [hp] at hx
  exact h x (mem_removeW hx)

theorem slot_routeInner (s : SlotInv P) (w : W) (j : Job) (hint : Option Nat) (h : PoolAll P w) :
    PoolAll P (w.routeInner j hint).2 := by
  unfold W.routeInner
  have hs := chooseTargetWorker_frame w j hint
  cases hc : w.chooseTargetWorker j hint with
  | mk t w1 =>
    rw [hc] at hs
    simp only at hs ⊢
    have h1 : PoolAll P w1 := h.of_pool hs.pool
    cases t with
    | none => exact h1
    | some wid =>
      simp only
      cases hg : getW w1.pool wid with
      | none => exact h1
      | some p => exact h1.setW (s.enqueue p w1.env j (h1 p (getW_mem hg))) rfl

theorem slot_routeLimited (s : SlotInv P) (w : W) (j : Job) (hint : Option Nat) (h : PoolAll P w) :
    PoolAll P (w.routeLimited j hint).2 := by
  unfold W.routeLimited
  split
  · exact slot_routeInner s w j hint h
  · rename_i c lb _
    simp only
    have h0 : PoolAll P { w with rl := some (c, (LeakyBucket.check c lb w.env.now).1) } := h.of_pool rfl
    split
    · split
      · split
        · rename_i hh _
          exact h0.of_pool (availChange_frame { w with rl := some (c, (LeakyBucket.check c lb w.env.now).1) } hh true).pool
        · exact h0
      · exact h0
    · have hi := slot_routeInner s _ j hint h0
      cases hr : W.routeInner { w with rl := some (c, (LeakyBucket.check c lb w.env.now).1) } j hint with
      | mk r w2 =>
        rw [hr] at hi
        simp only at hi ⊢
        split
        · exact hi.of_pool rfl
        · exact hi

theorem slot_routeMessage (s : SlotInv P) (w : W) (j : Job) (hint : Option Nat) (h : PoolAll P w) :
    PoolAll P (w.routeMessage j hint).2 := by
  unfold W.routeMessage
  have hi := slot_routeLimited s w j hint h
  cases hr : w.routeLimited j hint with
  | mk r w2 => rw [hr] at hi; exact hi.of_pool rfl

theorem slot_dropExpiredHead (fuel : Nat) (w : W) (h : PoolAll P w) : PoolAll P (W.dropExpiredHead fuel w) :=
  h.of_pool (dropExpiredHead_samePool fuel w).1.pool

theorem slot_routeLoop (s : SlotInv P) (hint : Option Nat) (fuel : Nat) (w : W) (h : PoolAll P w) :
    PoolAll P (W.routeLoop hint fuel w) := by
  induction fuel generalizing w with
  | zero => exact h
  | succ fuel ih =>
    unfold W.routeLoop
    split
    · exact h
    · rename_i j _
      have hs := chooseTargetWorker_frame w j hint
      cases hc : w.chooseTargetWorker j hint with
      | mk t w1 =>
        rw [hc] at hs
        simp only at hs ⊢
        have h1 : PoolAll P w1 := h.of_pool hs.pool
        cases t with
        | none => exact h1
        | some worker =>
          simp only
          cases hp : qPopFront w1.cfg w1.queue with
          | none => exact h1
          | some jq =>
            obtain ⟨j', q⟩ := jq
            simp only
            have hr := slot_routeMessage s { w1 with queue := q } j' (some worker) (h1.of_pool rfl)
            cases hrm : W.routeMessage { w1 with queue := q } j' (some worker) with
            | mk r w2 =>
              rw [hrm] at hr
              cases r with
              | handled => exact hr
              | rateLimited => exact ih _ (hr.of_pool rfl)
              | backlog => exact hr.of_pool rfl

theorem slot_tryRoute (s : SlotInv P) (w : W) (hint : Option Nat) (h : PoolAll P w) :
    PoolAll P (w.tryRouteNextActiveJob hint) := by
  unfold W.tryRouteNextActiveJob
  exact slot_routeLoop s _ _ _ (slot_dropExpiredHead _ _ h)

theorem slot_maybeEnqueue (w : W) (j : Job) (h : PoolAll P w) : PoolAll P (w.maybeEnqueue j) :=
  h.of_pool (maybeEnqueue_samePool w j).pool

theorem slot_growOne (s : SlotInv P) (w : W) (wid : Nat) (h : PoolAll P w) : PoolAll P (w.growOne wid) := by
  unfold W.growOne
  split
  · rename_i p hg
    dsimp only
    have h1 : PoolAll P { w with pool := Factory.setW w.pool wid { p with draining := false } } :=
      h.setW (s.draining p false (h p (getW_mem hg))) rfl
    split
    · exact h1.of_pool (availChange_frame _ _ _).pool
    · exact h1
  · dsimp only
    refine PoolAll.of_pool (w := { w with pool := w.pool ++ [({ wid := wid, actor := w.nextAid, disc := w.workerDiscard w.disc, handler := w.handler } : WP)] }) ?_
      (availChange_frame _ _ _).pool
    intro x hx
    rcases List.mem_append.mp hx with hm | hm
    · exact h x hm
    · simp only [List.mem_singleton] at hm; subst hm
      exact s.fresh _ _ _ _

theorem slot_foldl {f : W → Nat → W} (hf : ∀ w k, PoolAll P w → PoolAll P (f w k)) (l : List Nat) (w : W)
    (h : PoolAll P w) : PoolAll P (l.foldl f w) := by
  induction l generalizing w with
  | nil => exact h
  | cons a l ih => exact ih _ (hf _ _ h)

theorem slot_growPool (s : SlotInv P) (w : W) (n : Nat) (h : PoolAll P w) : PoolAll P (w.growPool n) := by
  unfold W.growPool
  exact slot_foldl (fun w k hw => slot_growOne s w _ hw) _ w h

theorem slot_shrinkOne (s : SlotInv P) (w : W) (wid : Nat) (h : PoolAll P w) : PoolAll P (w.shrinkOne wid) := by
  unfold W.shrinkOne
  split
  · rename_i p hg
    split
    · exact h.setW (s.draining p true (h p (getW_mem hg))) rfl
    · exact (h.of_pool (availChange_frame w wid false).pool).removeW rfl
  · exact h

theorem slot_shrinkPool (s : SlotInv P) (w : W) (n : Nat) (h : PoolAll P w) : PoolAll P (w.shrinkPool n) := by
  unfold W.shrinkPool
  exact slot_foldl (fun w k hw => slot_shrinkOne s w _ hw) _ w h

theorem slot_flushAfterGrow (s : SlotInv P) (fuel : Nat) (w : W) (h : PoolAll P w) : PoolAll P (W.flushAfterGrow fuel w) := by
  induction fuel generalizing w with
  | zero => exact h
  | succ fuel ih =>
    unfold W.flushAfterGrow
    simp only
    split
    · exact h
    · split
      · exact slot_tryRoute s w none h
      · exact ih _ (slot_tryRoute s w none h)

theorem slot_resizePool (s : SlotInv P) (w : W) (n : Nat) (h : PoolAll P w) : PoolAll P (w.resizePool n) := by
  unfold W.resizePool
  split
  · exact h
  · simp only
    split
    · exact slot_flushAfterGrow s _ _ ((slot_growPool s w _ h).of_pool rfl)
    · split
      · exact (slot_shrinkPool s w _ h).of_pool rfl
      · exact h.of_pool rfl

theorem slot_dispatch (s : SlotInv P) (w : W) (j : Job) (h : PoolAll P w) : PoolAll P (w.dispatch j) := by
  unfold W.dispatch
  split
  · exact h.of_pool rfl
  · split
    · have hr := slot_routeMessage s w j none h
      cases hrm : w.routeMessage j none with
      | mk r w2 =>
        rw [hrm] at hr
        cases r with
        | handled => exact hr
        | rateLimited => exact hr.of_pool rfl
        | backlog => exact slot_maybeEnqueue w2 j hr
    · exact h.of_pool rfl

theorem slot_ite (c : Prop) [Decidable c] (a b : W) (ha : PoolAll P a) (hb : PoolAll P b) : PoolAll P (if c then a else b) := by
  split <;> assumption

theorem slot_workerFinishedJob (s : SlotInv P) (w : W) (who key : Nat) (h : PoolAll P w) :
    PoolAll P (w.workerFinishedJob who key) := by
  unfold W.workerFinishedJob
  split
  · rename_i p hg
    have hp := s.complete p w.env key (h p (getW_mem hg))
    cases hwc : p.workerComplete w.env key with
    | mk p' e' =>
      rw [hwc] at hp
      simp only at hp ⊢
      have h1 : PoolAll P { w with pool := Factory.setW w.pool who p', env := e' } := h.setW hp rfl
      split
      · split
        · exact h1.removeW rfl
        · exact h1
      · apply slot_ite
        · exact (slot_tryRoute s _ _ h1).of_pool (availChange_frame _ _ _).pool
        · exact slot_tryRoute s _ _ h1
  · exact slot_tryRoute s w _ h

theorem slot_removeExpired (w : W) (h : PoolAll P w) : PoolAll P w.removeExpired := by
  unfold W.removeExpired
  split
  · exact h.of_pool rfl
  · exact h

theorem slot_calcRest (w : W) (h : PoolAll P w) : PoolAll P w.calcRest := by
  unfold W.calcRest
  exact (slot_removeExpired w h).of_pool rfl

theorem slot_updateSettings (s : SlotInv P) (w : W) (d : Option (Option (Nat × Mode))) (n : Option Nat) (h : PoolAll P w) :
    PoolAll P (w.updateSettings d n) := by
  unfold W.updateSettings
  have h1 : PoolAll P (match d with
      | some d => { w with pool := w.pool.map (fun p => { p with disc := w.workerDiscard d }), disc := d }
      | none => w) := by
    cases d with
    | none => exact h
    | some d =>
      intro x hx
      obtain ⟨y, hy, rfl⟩ := List.mem_map.mp hx
      exact s.disc y _ (h y hy)
  cases n with
  | none => exact h1
  | some n => exact slot_resizePool s _ n h1

theorem slot_afterReplace (s : SlotInv P) (w : W) (wid : Nat) (h : PoolAll P w) : PoolAll P (w.afterReplace wid) := by
  unfold W.afterReplace
  cases hret : w.retireIdleDrainingWorker wid with
  | some w2 =>
    simp only
    unfold W.retireIdleDrainingWorker at hret
    split at hret
    · split at hret
      · simp only [Option.some.injEq] at hret; subst hret
        exact h.removeW rfl
      · simp at hret
    · simp at hret
  | none =>
    simp only
    apply slot_ite
    · exact (slot_tryRoute s _ _ h).of_pool (availChange_frame _ _ _).pool
    · exact slot_tryRoute s _ _ h

theorem slot_handleSupervisorEvt (s : SlotInv P) (w : W) (who : Nat) (h : PoolAll P w) :
    PoolAll P (w.handleSupervisorEvt who) := by
  unfold W.handleSupervisorEvt
  split
  · exact h
  · rename_i wid _
    split
    · exact h
    · rename_i p hg
      simp only
      have hp := s.replace p (w.env.spawn wid w.nextAid) w.nextAid (h p (getW_mem hg))
      cases hrw : p.replaceWorker (w.env.spawn wid w.nextAid) w.nextAid with
      | mk p' e' =>
        rw [hrw] at hp
        simp only at hp ⊢
        apply slot_afterReplace s
        exact h.setW hp rfl

theorem slot_postStop (w : W) : PoolAll P w.postStop := by
  unfold W.postStop
  simp only
  intro p hp
  cases hp

theorem slot_handleMsg (s : SlotInv P) (w : W) (m : FMsg) (h : PoolAll P w) : PoolAll P (w.handleMsg m) := by
  cases m with
  | dispatch j => exact slot_dispatch s w j h
  | finished who key => exact slot_workerFinishedJob s w who key h
  | adjust n => exact slot_resizePool s w n h
  | updateSettings d n => exact slot_updateSettings s w d n h
  | setHandler hd =>
    intro x hx
    obtain ⟨y, hy, rfl⟩ := List.mem_map.mp hx
    exact s.handler y _ (h y hy)
  | drainRequests => exact h.of_pool rfl
  | calculate =>
    show PoolAll P (if w.cfg.hasCC && w.armed then { w with armed := false, blocked := true } else w.calcRest)
    split
    · exact h.of_pool rfl
    · exact slot_calcRest w h
  | getQueueDepth => exact h.of_pool rfl
  | getNumActiveWorkers => exact h.of_pool rfl
  | getAvailableCapacity => exact h.of_pool rfl

theorem slot_afterHandle (w : W) (h : PoolAll P w) : PoolAll P w.afterHandle := by
  unfold W.afterHandle
  split
  · exact h
  · obtain ⟨_, _, f3, _, _, _⟩ := isDrained_fields w
    cases hd : w.isDrained with
    | mk d w2 =>
      rw [hd] at f3
      simp only at f3 ⊢
      have h2 : PoolAll P w2 := h.of_pool f3
      split
      · exact h2.of_pool rfl
      · exact h2

theorem slot_loopStep (s : SlotInv P) (w w' : W) (h : PoolAll P w) (hl : w.loopStep = some w') : PoolAll P w' := by
  unfold W.loopStep at hl
  split at hl
  · simp at hl
  · split at hl
    · simp only [Option.some.injEq] at hl; subst hl; exact slot_postStop w
    · split at hl
      · rename_i who rest _
        simp only [Option.some.injEq] at hl; subst hl
        have h1 : PoolAll P { w with env := { w.env with sup := rest } } := h.of_pool rfl
        exact slot_handleSupervisorEvt s _ _ h1
      · split at hl
        · rename_i m rest _
          simp only [Option.some.injEq] at hl; subst hl
          have h1 : PoolAll P { w with inbox := rest } := h.of_pool rfl
          exact slot_afterHandle _ (slot_handleMsg s _ m h1)
        · simp at hl

theorem slot_runQ (s : SlotInv P) (fuel : Nat) (w : W) (h : PoolAll P w) : PoolAll P (W.runQ fuel w) := by
  induction fuel generalizing w with
  | zero => exact h
  | succ fuel ih =>
    unfold W.runQ
    cases hl : w.loopStep with
    | some w' => simp only; exact ih _ (slot_loopStep s w w' h hl)
    | none =>
      simp only
      have hs : PoolAll P (W.tryFinishStop { w with env := w.env.settle }) := by
        unfold W.tryFinishStop
        split
        · exact h.of_pool rfl
        · exact h.of_pool rfl
      split
      · exact hs
      · exact ih _ hs

theorem slot_send (w : W) (m : FMsg) (h : PoolAll P w) : PoolAll P (w.send m) := by
  unfold W.send; split
  · exact h
  · exact h.of_pool rfl

theorem slot_advanceTo (s : SlotInv P) (t fuel : Nat) (w : W) (h : PoolAll P w) : PoolAll P (W.advanceTo t fuel w) := by
  induction fuel generalizing w with
  | zero => exact h.of_pool rfl
  | succ fuel ih =>
    unfold W.advanceTo
    split
    · simp only
      apply ih
      apply slot_runQ s
      have h1 : PoolAll P { w.setNow w.nextCalc with nextCalc := t + CALCULATE_FREQUENCY * 1000000 } := h.of_pool rfl
      exact slot_send _ _ h1
    · exact h.of_pool rfl

theorem slot_finish (w : W) (aid : Nat) (ok : Bool) (h : PoolAll P w) : PoolAll P (w.finish aid ok) := by
  unfold W.finish
  cases ha : w.env.getActor aid with
  | none => exact h
  | some a =>
    simp only
    cases hr : a.running with
    | none => exact h
    | some j =>
      simp only
      split
      · exact h
      · split
        · exact h.of_pool rfl
        · have h1 : PoolAll P (W.send { w with env := (w.env.emit (.finishOk aid)).emit (.handled aid j.id) } (.finished a.wid j.key)) :=
            slot_send _ _ (h.of_pool rfl)
          exact h1.of_pool rfl

theorem slot_applyOp (s : SlotInv P) (w : W) (op : Op) (h : PoolAll P w) : PoolAll P (w.applyOp op) := by
  cases op with
  | dispatch id key hash ttl acc =>
    simp only [W.applyOp]
    split
    · exact h
    · exact slot_send _ _ (h.of_pool rfl)
  | finish aid ok => exact slot_finish w aid ok h
  | kill aid => exact h.of_pool rfl
  | resize n => exact slot_send _ _ (h.of_pool rfl)
  | settings d n =>
    simp only [W.applyOp]
    apply slot_send
    cases d with
    | none => cases n with
      | none => exact h
      | some n => exact h.of_pool rfl
    | some d => cases n with
      | none => exact h.of_pool rfl
      | some n => exact h.of_pool rfl
  | drain => exact slot_send _ _ (h.of_pool rfl)
  | setHandler hd => exact slot_send _ _ (h.of_pool rfl)
  | advance => exact h
  | block => exact h.of_pool rfl
  | release n =>
    simp only [W.applyOp]
    split
    · apply slot_afterHandle
      apply slot_calcRest
      split
      · exact slot_resizePool s _ _ (h.of_pool rfl)
      · exact h.of_pool rfl
    · exact h
  | nop => exact h

theorem slot_ask (s : SlotInv P) (w : W) (m : FMsg) (h : PoolAll P w) : PoolAll P (w.ask m) := by
  unfold W.ask
  split
  · exact h.of_pool rfl
  · simp only
    have h1 := slot_runQ s RUN_FUEL _ (slot_send w m h)
    split
    · exact h1.of_pool rfl
    · exact h1

theorem slot_queries (s : SlotInv P) (w : W) (h : PoolAll P w) : PoolAll P w.queries := by
  unfold W.queries
  split
  · exact h.of_pool rfl
  · exact slot_ask s _ _ (slot_ask s _ _ (slot_ask s _ _ (h.of_pool rfl)))

theorem slot_stepOp (s : SlotInv P) (w : W) (op : Op) (t0 tq te : Nat) (h : PoolAll P w) :
    PoolAll P (w.stepOp op t0 tq te) := by
  unfold W.stepOp
  simp only
  generalize hw1 : W.advanceTo t0 (advanceFuel w t0) w = w1
  have h1 : PoolAll P w1 := by rw [← hw1]; exact slot_advanceTo s _ _ _ h
  generalize hw2 : W.runQ RUN_FUEL (w1.applyOp op) = w2
  have h2 : PoolAll P w2 := by rw [← hw2]; exact slot_runQ s _ _ (slot_applyOp s _ _ h1)
  generalize hw3 : W.advanceTo tq (advanceFuel w2 tq) w2 = w3
  have h3 : PoolAll P w3 := by rw [← hw3]; exact slot_advanceTo s _ _ _ h2
  generalize hw4 : w3.queries = w4
  have h4 : PoolAll P w4 := by rw [← hw4]; exact slot_queries s _ h3
  generalize hw5 : W.advanceTo te (advanceFuel w4 te) w4 = w5
  have h5 : PoolAll P w5 := by rw [← hw5]; exact slot_advanceTo s _ _ _ h4
  exact h5.of_pool rfl

theorem slot_runSteps (s : SlotInv P) (w : W) (steps : List Step) (h : PoolAll P w) : PoolAll P (w.runSteps steps) := by
  induction steps generalizing w with
  | nil => exact h
  | cons st rest ih => exact ih _ (slot_stepOp s w st.op st.t0 st.tq st.te h)

theorem slot_init (s : SlotInv P) (c : CaseCfg) : PoolAll P (init c) := by
  unfold init
  simp only
  refine PoolAll.of_pool (w := W.growPool _ c.n) ?_ rfl
  apply slot_growPool s
  intro p hp
  cases hp

/-- any per-slot invariant holds of every slot after every sequence of operations -/
theorem slot_always (s : SlotInv P) (c : CaseCfg) (steps : List Step) : PoolAll P ((init c).runSteps steps) :=
  slot_runSteps s _ steps (slot_init s c)

end Factory
