import RactorModel.Generated.Routing
import RactorModel.Model.Factory

/-!
# GenRouting — list facts connecting the worker-choice definitions `rs2lean` generates from
`ractor/src/factory/routing.rs` to `Factory.W.chooseTargetWorker`.
-/

namespace GenRouting
open Factory

/-- `pool.iter().find_map(|(wid, w)| f(w).then_some(*wid))` = `find?` then the slot id -/
theorem findSome_pairs (pool : List WP) (f : WP → Bool) :
    List.findSome? (fun (x : Nat × WP) => match x with | (a, b) => if f b then some a else none)
        (pool.map fun p => (p.wid, p))
      = (pool.find? f).map (·.wid) := by
  induction pool with
  | nil => rfl
  | cons p ps ih =>
    simp only [List.map_cons, List.findSome?_cons, List.find?_cons]
    cases hf : f p <;> simp [ih]

theorem findSome_pairs' (pool : List WP) (f : WP → Bool) :
    List.findSome? (fun (x : Nat × WP) => if f x.2 = true then some x.1 else none)
        (pool.map fun p => (p.wid, p))
      = (pool.find? f).map (·.wid) := by
  induction pool with
  | nil => rfl
  | cons p ps ih =>
    simp only [List.map_cons, List.findSome?_cons, List.find?_cons]
    cases hf : f p <;> simp [ih]

theorem hintAvailable_eq (pool : List WP) (hint : Option Nat) :
    hintAvailable pool hint = match hint.bind (fun x => getW pool x) with
      | some p => p.isAvailable
      | _ => false := by
  unfold hintAvailable
  cases hint with
  | none => rfl
  | some h => simp only [Option.bind_some]; cases getW pool h <;> rfl

theorem hintProcessing_eq (pool : List WP) (hint : Option Nat) (key : Nat) :
    hintProcessing pool hint key = match hint.bind (fun x => getW pool x) with
      | some p => p.isProcessingKey key
      | _ => false := by
  unfold hintProcessing
  cases hint with
  | none => rfl
  | some h => simp only [Option.bind_some]; cases getW pool h <;> rfl

theorem hintPending_eq (pool : List WP) (hint : Option Nat) (key : Nat) :
    hintPending pool hint key = match hint.bind (fun x => getW pool x) with
      | some p => p.hasPendingKey key
      | _ => false := by
  unfold hintPending
  cases hint with
  | none => rfl
  | some h => simp only [Option.bind_some]; cases getW pool h <;> rfl

/-- round-robin (F10, fixed): the hint is the router's own last pick, and that slot exists -/
theorem hintLast_eq (pool : List WP) (last : Nat) (hint : Option Nat) :
    hintLast pool last hint = match hint.bind (fun x => getW pool x) with
      | some _ => decide (hint = some last)
      | _ => false := by
  unfold hintLast
  cases hint with
  | none => rfl
  | some h =>
    simp only [Option.bind_some]
    have hw : hasW pool h = (getW pool h).isSome := by
      unfold hasW getW
      induction pool with
      | nil => rfl
      | cons x xs ih =>
        simp only [List.any_cons, List.find?_cons]
        cases hx : (x.wid == h) <;> simp [ih]
    rw [hw]
    cases getW pool h with
    | none => rfl
    | some p =>
      simp only [Option.isSome_some, Bool.true_and, Option.some.injEq]
      by_cases hl : h = last <;> simp [hl]

/-- `pool.iter().find(|(_, w)| f(w)).map(|(a, _)| *a)` = `find?` then the slot id -/
theorem find_pairs (pool : List WP) (f : WP → Bool) :
    Option.map (fun (x : Nat × WP) => x.1) (List.find? (fun (x : Nat × WP) => f x.2) (pool.map fun p => (p.wid, p)))
      = (pool.find? f).map (·.wid) := by
  induction pool with
  | nil => rfl
  | cons p ps ih =>
    simp only [List.map_cons, List.find?_cons]
    cases hf : f p
    · simpa [hf] using ih
    · simp [hf]

end GenRouting
