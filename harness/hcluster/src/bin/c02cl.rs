//! C02 (cluster builds): what `Message::box_message` lets through.
//! A send must be rejected with `InvalidActorType` — and nothing enqueued, the target undisturbed —
//! when the message type is wrong for a LOCAL actor, or when it is NOT serializable and the target
//! is a REMOTE actor id (the TypeId check is skipped for remote ids by design, so boxing is the only
//! guard). Serializable messages to a remote id are delivered serialized.
//!
//! ops:  `send <target: local|remote> <msg: right|wrong|ser|nonser> <via: cell|ref>`
//! impl: `<ok|invalid-type|send-err> handled=<n> serialized=<n> alive=<bool>`
//!
//! usage: c02cl --seed S --cases N --out DIR

use std::sync::atomic::{AtomicU64, Ordering};
use std::sync::Arc;

use hutil::{Args, Log, Rng, Stats};
use ractor::message::SerializedMessage;
use ractor::{Actor, ActorProcessingErr, ActorRef, ActorStatus, MessagingErr};

/// the message type of the local actor and of the proxy: local-only
struct Right(u64);
impl ractor::Message for Right {}
/// a different local-only type
struct Wrong;
impl ractor::Message for Wrong {}
/// a serializable type (u64: `BytesConvertable`, blanket `Message` impl)
type Ser = u64;

struct Target {
    handled: Arc<AtomicU64>,
    serialized: Arc<AtomicU64>,
}
impl Actor for Target {
    type Msg = Right;
    type State = ();
    type Arguments = ();
    async fn pre_start(&self, _: ActorRef<Right>, _: ()) -> Result<(), ActorProcessingErr> {
        Ok(())
    }
    async fn handle(&self, _: ActorRef<Right>, m: Right, _: &mut ()) -> Result<(), ActorProcessingErr> {
        let _ = m.0;
        self.handled.fetch_add(1, Ordering::SeqCst);
        Ok(())
    }
    async fn handle_serialized(&self, _: ActorRef<Right>, _: SerializedMessage, _: &mut ()) -> Result<(), ActorProcessingErr> {
        self.serialized.fetch_add(1, Ordering::SeqCst);
        Ok(())
    }
}

struct Sup;
impl Actor for Sup {
    type Msg = ();
    type State = ();
    type Arguments = ();
    async fn pre_start(&self, _: ActorRef<()>, _: ()) -> Result<(), ActorProcessingErr> {
        Ok(())
    }
    async fn handle_supervisor_evt(&self, _: ActorRef<()>, _: ractor::SupervisionEvent, _: &mut ()) -> Result<(), ActorProcessingErr> {
        Ok(())
    }
}

async fn quiesce() {
    for _ in 0..60 {
        tokio::task::yield_now().await;
    }
}

fn show<T>(r: Result<(), MessagingErr<T>>) -> &'static str {
    match r {
        Ok(()) => "ok",
        Err(MessagingErr::InvalidActorType) => "invalid-type",
        Err(MessagingErr::SendErr(_)) => "send-err",
        Err(MessagingErr::ChannelClosed) => "closed",
    }
}

#[tokio::main(flavor = "current_thread", start_paused = true)]
async fn main() {
    std::panic::set_hook(Box::new(|_| {}));
    let args = Args::parse();
    let seed = args.u64("seed", 1);
    let cases = args.u64("cases", 200);
    let out = args.str("out", "/tmp/c02cl");
    let mut rng = Rng::new(seed);
    let mut log = Log::create(std::path::Path::new(&out)).unwrap();
    let mut st = Stats::default();
    let (sup, _) = Actor::spawn(None, Sup, ()).await.unwrap();
    for c in 0..cases {
        let (lh, ls) = (Arc::new(AtomicU64::new(0)), Arc::new(AtomicU64::new(0)));
        let (rh, rs) = (Arc::new(AtomicU64::new(0)), Arc::new(AtomicU64::new(0)));
        let (local, _) = Actor::spawn(None, Target { handled: lh.clone(), serialized: ls.clone() }, ()).await.unwrap();
        let id = ractor::ActorId::Remote { node_id: 9, pid: 5000 + c };
        let (remote, _) = ractor::ActorRuntime::spawn_linked_remote(None, Target { handled: rh.clone(), serialized: rs.clone() }, id, (), sup.get_cell())
            .await
            .unwrap();
        log.rec("case", "ok");
        for _ in 0..rng.range(3, 10) {
            let tgt = *rng.pick(&["local", "remote"]);
            let msg = *rng.pick(&["right", "wrong", "ser", "nonser"]);
            let via = *rng.pick(&["cell", "ref"]);
            let (cell, h, s) = if tgt == "local" { (local.get_cell(), &lh, &ls) } else { (remote.get_cell(), &rh, &rs) };
            let res = match (msg, via) {
                ("right", "cell") | ("nonser", "cell") => show(cell.send_message(Right(1))),
                ("right", _) | ("nonser", _) => show(ActorRef::<Right>::from(cell.clone()).cast(Right(1))),
                ("wrong", "cell") => show(cell.send_message(Wrong)),
                ("wrong", _) => show(ActorRef::<Wrong>::from(cell.clone()).cast(Wrong)),
                (_, "cell") => show(cell.send_message::<Ser>(7)),
                _ => show(ActorRef::<Ser>::from(cell.clone()).cast(7)),
            };
            quiesce().await;
            st.bump(&format!("{tgt}_{msg}_{res}"));
            log.rec(
                format!("send {tgt} {msg} {via}"),
                format!(
                    "{res} handled={} serialized={} alive={}",
                    h.load(Ordering::SeqCst),
                    s.load(Ordering::SeqCst),
                    cell.get_status() == ActorStatus::Running
                ),
            );
        }
        local.kill();
        remote.kill();
        quiesce().await;
    }
    st.add("lines", log.lines);
    st.write_json(&std::path::Path::new(&out).join("stats.json"));
    log.finish();
}
