import RactorModel.Lemmas.LifeC01

/-! Trace-level meaning of the C01 automaton, stated without the automaton's own vocabulary:
what an accepted trace looks like (used by the `Props/C01.lean` spec-validation theorems). -/

namespace Life.C01

/-- Inversion of `accepts` over an append. -/
theorem accepts_append_inv {σ : Type} (next : σ → Ev → Except String σ) {s s' : σ} (l1 l2 : List Ev)
    (h : accepts next s (l1 ++ l2) = .ok s') :
    ∃ s1, accepts next s l1 = .ok s1 ∧ accepts next s1 l2 = .ok s' := by
  induction l1 generalizing s with
  | nil => exact ⟨s, rfl, h⟩
  | cons e es ih =>
    rw [List.cons_append, accepts_cons] at h
    rw [accepts_cons]
    cases hn : next s e with
    | error c => simp [hn] at h
    | ok s1 => simp only [hn] at h ⊢; exact ih h

/-! ### which callback is open, read off the trace alone -/

/-- The callback that is open after an event, given the one open before it. -/
def openStep (o : Option Cb) : Ev → Option Cb
  | .enter cb _ => some cb
  | .exit _ _ => none
  | .cancelled _ => none
  | .join _ => none
  | .spawnRet .ok => o
  | .spawnRet .registered => o
  | .spawnRet _ => none
  | _ => o

def openFrom (o : Option Cb) : List Ev → Option Cb
  | [] => o
  | e :: es => openFrom (openStep o e) es

/-- The callback open at the end of a trace (`none`: no callback future exists). -/
def openAfter (tr : List Ev) : Option Cb := openFrom none tr

theorem next_open_step {s s1 : St} {e : Ev} {o : Option Cb} (h : next s e = .ok s1)
    (ho : s.stage.isOpen = o.isSome) : s1.stage.isOpen = (openStep o e).isSome := by
  cases e with
  | enter cb a => simpa [openStep] using next_enter_isOpen h
  | exit cb r =>
    simp only [next] at h
    (repeat' split at h) <;> first
      | (cases h; done)
      | (cases h; simp [openStep, Stage.isOpen]; done)
      | (cases h; simp only [openStep, Option.isSome]; split <;> rfl)
  | cancelled cb =>
    simp only [next] at h
    (repeat' split at h) <;> first
      | (cases h; done)
      | (cases h; simp [openStep, Stage.isOpen]; done)
  | tick cb =>
    simp only [next] at h
    (repeat' split at h) <;> first
      | (cases h; done)
      | (cases h; simpa [openStep] using ho)
  | join r => cases h; simp [openStep, Stage.isOpen]
  | aborted =>
    simp only [next] at h; cases h
    split <;> simp_all [openStep, Stage.isOpen]
  | dropped =>
    simp only [next] at h; cases h
    split <;> simp_all [openStep, Stage.isOpen]
  | spawnRet r =>
    cases r <;> simp only [next] at h <;> cases h <;> first
      | (simpa [openStep] using ho)
      | (simp [openStep, Stage.isOpen]; done)
      | (simp only [openStep, Option.isSome]; split <;> simp_all [Stage.isOpen])
  | stopRet b r ok => cases ok <;> (cases h; simpa [openStep] using ho)
  | killRet b ok => cases ok <;> (cases h; simpa [openStep] using ho)
  | drainRet ok => cases ok <;> (cases h; simpa [openStep] using ho)
  | treeKill => cases h; simpa [openStep] using ho
  | _ => cases h; simpa [openStep] using ho

theorem accepts_open {tr : List Ev} {s s' : St} {o : Option Cb} (h : accepts next s tr = .ok s')
    (ho : s.stage.isOpen = o.isSome) : s'.stage.isOpen = (openFrom o tr).isSome := by
  induction tr generalizing s o with
  | nil => simp only [accepts_nil] at h; cases h; exact ho
  | cons e es ih =>
    rw [accepts_cons] at h
    cases hn : next s e with
    | error c => simp [hn] at h
    | ok s1 => simp only [hn] at h; exact ih h (next_open_step hn ho)

/-! ### `post_stop` only on a graceful exit -/

/-- Events after which `post_stop` must never run. -/
def isFatal : Ev → Bool
  | .exit _ (.err _) | .exit _ (.panic _) => true
  | .cancelled _ => true
  | .killRet _ true => true
  | .treeKill => true
  | .join _ => true
  | _ => false

/-- Events that request a graceful exit. -/
def isStopReq : Ev → Bool
  | .stopRet _ _ true => true
  | .drainRet true => true
  | _ => false

def Doomed (s : St) : Prop := s.stage = .dead ∨ s.killed = true

theorem next_doomed {s s1 : St} {e : Ev} (h : next s e = .ok s1) (hd : Doomed s ∨ isFatal e = true) :
    Doomed s1 := by
  unfold Doomed at *
  cases e <;> simp only [next] at h <;> (repeat' split at h) <;>
    first
      | (cases h; done)
      | (cases h; simp_all [isFatal]; done)
      | (cases h; rcases hd with hd | hd <;> simp_all [isFatal, Stage.isOpen]; done)

theorem next_stopReq {s s1 : St} {e : Ev} (h : next s e = .ok s1) :
    s1.stopReq = true → s.stopReq = true ∨ isStopReq e = true := by
  cases e <;> simp only [next] at h <;> (repeat' split at h) <;>
    first
      | (cases h; done)
      | (cases h; simp_all [isStopReq]; done)

theorem accepts_doomed {tr : List Ev} {s s' : St} (h : accepts next s tr = .ok s')
    (hd : Doomed s ∨ ∃ e ∈ tr, isFatal e = true) : Doomed s' := by
  induction tr generalizing s with
  | nil =>
    simp only [accepts_nil] at h; cases h
    rcases hd with hd | ⟨e, he, _⟩
    · exact hd
    · cases he
  | cons e es ih =>
    rw [accepts_cons] at h
    cases hn : next s e with
    | error c => simp [hn] at h
    | ok s1 =>
      simp only [hn] at h
      refine ih h ?_
      rcases hd with hd | ⟨x, hx, hf⟩
      · exact Or.inl (next_doomed hn (Or.inl hd))
      · rcases List.mem_cons.mp hx with rfl | hx
        · exact Or.inl (next_doomed hn (Or.inr hf))
        · exact Or.inr ⟨x, hx, hf⟩

theorem accepts_stopReq {tr : List Ev} {s s' : St} (h : accepts next s tr = .ok s') (hs : s'.stopReq = true) :
    s.stopReq = true ∨ ∃ e ∈ tr, isStopReq e = true := by
  induction tr generalizing s with
  | nil => simp only [accepts_nil] at h; cases h; exact Or.inl hs
  | cons e es ih =>
    rw [accepts_cons] at h
    cases hn : next s e with
    | error c => simp [hn] at h
    | ok s1 =>
      simp only [hn] at h
      rcases ih h with h1 | ⟨x, hx, hf⟩
      · rcases next_stopReq hn h1 with h2 | h2
        · exact Or.inl h2
        · exact Or.inr ⟨e, by simp, h2⟩
      · exact Or.inr ⟨x, by simp [hx], hf⟩

theorem next_enter_postStop {s s1 : St} {a : Arg} (h : next s (.enter .postStop a) = .ok s1) :
    ¬ Doomed s ∧ s.stopReq = true := by
  unfold Doomed
  simp only [next] at h
  (repeat' split at h) <;> first | (cases h; done) | (simp_all; done)

/-! ### exactly once -/

def isEnter (cb : Cb) : Ev → Bool
  | .enter c _ => c == cb
  | _ => false

/-- Number of times callback `cb` was entered. -/
def entered (cb : Cb) (tr : List Ev) : Nat := tr.countP (isEnter cb)

/-- Stage ↔ how often `pre_start` / `post_start` were entered so far. -/
def cntOk : Stage → Nat → Nat → Prop
  | .init, n1, n2 => n1 = 0 ∧ n2 = 0
  | .preOpen, n1, n2 | .preOk, n1, n2 => n1 = 1 ∧ n2 = 0
  | .psOpen, n1, n2 | .run, n1, n2 | .hOpen _, n1, n2 | .stopOpen, n1, n2 => n1 = 1 ∧ n2 = 1
  | .dead, n1, n2 => n1 ≤ 1 ∧ n2 ≤ n1

theorem cntOk_dead {st : Stage} {n1 n2 : Nat} (h : cntOk st n1 n2) : cntOk .dead n1 n2 := by
  cases st <;> simp_all [cntOk]

theorem next_cnt {s s1 : St} {e : Ev} {n1 n2 : Nat} (h : next s e = .ok s1) (hc : cntOk s.stage n1 n2) :
    cntOk s1.stage (n1 + (if isEnter .preStart e then 1 else 0)) (n2 + (if isEnter .postStart e then 1 else 0)) := by
  cases e <;> simp only [next] at h <;> (repeat' split at h) <;>
    first
      | (cases h; done)
      | (cases h; simp only [isEnter, Bool.false_eq_true, ↓reduceIte, Nat.add_zero]; first | exact hc | exact cntOk_dead hc)
      | (cases h; simp_all [isEnter, cntOk]; done)
      | (cases h; simp_all [isEnter, cntOk]; omega)

theorem accepts_cnt {tr : List Ev} {s s' : St} {n1 n2 : Nat} (h : accepts next s tr = .ok s')
    (hc : cntOk s.stage n1 n2) :
    cntOk s'.stage (n1 + entered .preStart tr) (n2 + entered .postStart tr) := by
  induction tr generalizing s n1 n2 with
  | nil => simp only [accepts_nil] at h; cases h; simpa [entered] using hc
  | cons e es ih =>
    rw [accepts_cons] at h
    cases hn : next s e with
    | error c => simp [hn] at h
    | ok s1 =>
      simp only [hn] at h
      have := ih h (next_cnt hn hc)
      simp only [entered, List.countP_cons] at this ⊢
      rw [show n1 + (List.countP (isEnter Cb.preStart) es + if isEnter Cb.preStart e = true then 1 else 0) =
            n1 + (if isEnter Cb.preStart e = true then 1 else 0) + List.countP (isEnter Cb.preStart) es by omega,
          show n2 + (List.countP (isEnter Cb.postStart) es + if isEnter Cb.postStart e = true then 1 else 0) =
            n2 + (if isEnter Cb.postStart e = true then 1 else 0) + List.countP (isEnter Cb.postStart) es by omega]
      exact this

/-- The stage right after a handler / `post_stop` was entered has both start-up callbacks behind it. -/
theorem next_enter_late {s s1 : St} {cb : Cb} {a : Arg} (h : next s (.enter cb a) = .ok s1)
    (hcb : cb = .handle ∨ cb = .sup ∨ cb = .postStop) : s.stage = .run := by
  simp only [next] at h
  (repeat' split at h) <;> first | (cases h; done) | assumption | (rcases hcb with h' | h' | h' <;> cases h')

end Life.C01

namespace Life.C01

/-- `dead` is absorbing and accepts no `enter`. -/
theorem next_dead {s s1 : St} {e : Ev} (h : next s e = .ok s1) (hd : s.stage = .dead) :
    s1.stage = .dead ∧ ∀ cb a, e ≠ .enter cb a := by
  cases e <;> simp only [next] at h <;> (repeat' split at h) <;>
    first
      | (cases h; done)
      | (cases h; simp_all [Stage.isOpen]; done)

theorem accepts_dead {tr : List Ev} {s s' : St} (h : accepts next s tr = .ok s') (hd : s.stage = .dead) :
    ∀ cb a, Ev.enter cb a ∉ tr := by
  induction tr generalizing s with
  | nil => intro cb a hm; cases hm
  | cons e es ih =>
    rw [accepts_cons] at h
    cases hn : next s e with
    | error c => simp [hn] at h
    | ok s1 =>
      simp only [hn] at h
      obtain ⟨h1, h2⟩ := next_dead hn hd
      intro cb a hm
      rcases List.mem_cons.mp hm with hm | hm
      · exact h2 cb a hm.symm
      · exact ih h h1 cb a hm

theorem ok_iff {tr : List Ev} : ok tr = true ↔ ∃ s, accepts next {} tr = .ok s := by
  unfold ok
  cases h : accepts next {} tr with
  | ok s => simp [Except.isOk, Except.toBool]
  | error c => simp [Except.isOk, Except.toBool]

end Life.C01
