/-!
# LeakyBucket — model of `ractor/src/factory/ratelim.rs::LeakyBucketRateLimiter`

Times are `Nat` nanoseconds on the monotonic clock (offsets from an arbitrary origin),
durations are `Nat` nanoseconds.  The Rust code works on `usize` (64 bit), `u128`
(`Duration::as_nanos`) and `Instant` (whose `checked_add` fails beyond a platform limit);
every saturation of the source is reproduced:

* `new`:      `balance = initial.unwrap_or(max).min(max)`, `deadline = now.checked_add(interval)`
* `refresh`:  no deadline → nothing; `now < deadline` → nothing;
              `interval == 0` → `balance = balance.saturating_add(refill).min(max)`, `deadline = now`;
              otherwise `periods = usize::try_from(since / interval saturating_add 1).unwrap_or(MAX)`,
              `tokens = periods.saturating_mul(refill).min(MAX_LB_BALANCE)`,
              `deadline = now.checked_add(interval - since % interval)`,
              `balance = balance.saturating_add(tokens).min(max)`
* `check`:    `refresh(now); balance > 0`
* `bump`:     `if balance > 0 { balance -= 1 }`
-/

namespace LeakyBucket

def USIZE_MAX : Nat := 2 ^ 64 - 1
/-- `MAX_LB_BALANCE = isize::MAX as usize` -/
def MAX_LB_BALANCE : Nat := 2 ^ 63 - 1

/-- Static configuration. `instLim` is the largest representable `Instant` (ns offset):
`Instant::checked_add` returns `None` beyond it. -/
structure Cfg where
  refill : Nat
  interval : Nat
  max : Nat
  instLim : Nat
  deriving Repr, DecidableEq

structure LB where
  balance : Nat
  deadline : Option Nat
  deriving Repr, DecidableEq

def satAdd (a b : Nat) : Nat := min (a + b) USIZE_MAX
def satMul (a b : Nat) : Nat := min (a * b) USIZE_MAX

/-- `Instant::checked_add` -/
def checkedAdd (lim t d : Nat) : Option Nat := if t + d ≤ lim then some (t + d) else none

def new (c : Cfg) (initial : Option Nat) (now : Nat) : LB :=
  { balance := min (initial.getD c.max) c.max
    deadline := checkedAdd c.instLim now c.interval }

/-- number of whole periods elapsed at `now ≥ d`, as the code computes it (`usize` saturation) -/
def periods (c : Cfg) (d now : Nat) : Nat := min ((now - d) / c.interval + 1) USIZE_MAX

def tokens (c : Cfg) (d now : Nat) : Nat := min (satMul (periods c d now) c.refill) MAX_LB_BALANCE

def refresh (c : Cfg) (s : LB) (now : Nat) : LB :=
  match s.deadline with
  | none => s
  | some d =>
    if now < d then s
    else if c.interval = 0 then
      { balance := min (satAdd s.balance c.refill) c.max, deadline := some now }
    else
      { balance := min (satAdd s.balance (tokens c d now)) c.max
        deadline := checkedAdd c.instLim now (c.interval - (now - d) % c.interval) }

def check (c : Cfg) (s : LB) (now : Nat) : LB × Bool :=
  let s' := refresh c s now
  (s', decide (s'.balance > 0))

def bump (s : LB) : LB := if s.balance > 0 then { s with balance := s.balance - 1 } else s

/-- One call of the public interface. -/
inductive Call where
  | check (now : Nat)
  | bump
  deriving Repr, DecidableEq

def step (c : Cfg) (s : LB) : Call → LB
  | .check now => (check c s now).1
  | .bump => bump s

def run (c : Cfg) (s : LB) (calls : List Call) : LB := calls.foldl (step c) s

/-- A `bump` that really takes a token (the job it stands for was admitted). -/
def effective (s : LB) : Call → Bool
  | .check _ => false
  | .bump => decide (s.balance > 0)

/-- Number of admitted jobs (token-taking bumps) over a call sequence. -/
def admitted (c : Cfg) : LB → List Call → Nat
  | _, [] => 0
  | s, call :: rest => (if effective s call then 1 else 0) + admitted c (step c s call) rest

/-- All `check` calls happen no later than `t1`. -/
def timesLe (t1 : Nat) (calls : List Call) : Bool :=
  calls.all fun | .check now => decide (now ≤ t1) | .bump => true

/-- Number of refill boundaries `d, d+I, d+2I, …` that are `≤ t1`
(the interval boundaries a limiter whose next deadline is `d` crosses up to `t1`). -/
def boundaries (c : Cfg) (deadline : Option Nat) (t1 : Nat) : Nat :=
  match deadline with
  | none => 0
  | some d => if d ≤ t1 then (t1 - d) / c.interval + 1 else 0

/-- The window bound of C15 (bucket clause): what may at most be admitted up to `t1` from
state `s`.  The same function is evaluated by the driver on the implementation's
observations. -/
def budget (c : Cfg) (s : LB) (t1 : Nat) : Nat := s.balance + c.refill * boundaries c s.deadline t1

/-- Oracle on observed values: `n` jobs admitted since the snapshot `s`, now at `t1`. -/
def admitOk (c : Cfg) (s : LB) (n t1 : Nat) : Bool :=
  c.interval = 0 || decide (n ≤ budget c s t1)

def balanceOk (c : Cfg) (s : LB) : Bool := decide (s.balance ≤ c.max)

end LeakyBucket
