import RactorModel.Model.Admission

/-!
# The ranking measure of the admission protocol (definitions only)

`mu g = (T+1)·phi g + stale g`: the well-founded measure that every effective step of `Model/Admission`
decreases (`Lemmas/AdmissionProgress.lean`, `Props/C07.lean`). Used by the theorems and — as the step
budget of a case — by the driver. Core Lean only.
-/

namespace Admission

mutual
/-- upper bound on the non-failing steps an op can take (an enqueue counts 3: it also gives the
receiver two steps of work) -/
def opW : Op → Nat
  | .send nested _ _ => 15 + opsW nested
  | .drain => 8
  | .bad => 2
def opsW : List Op → Nat
  | [] => 0
  | op :: ops => opW op + opsW ops
end

def pcW : Pc → Nat
  | .run => 0 | .sStatus => 14 | .aLoad => 13 | .aCas _ => 12 | .box => 11 | .boxing => 10
  | .enq => 9 | .rel _ => 6 | .dClose => 7 | .dStatus => 6 | .mLoad _ => 5 | .mCas _ _ => 4
  | .mEnq _ => 3 | .bad => 1

/-- remaining work of a frame: its own program counter plus the ops it still has to start -/
def Frame.w (f : Frame) : Nat := pcW f.pc + opsW f.ops

def stackW (st : List Frame) : Nat := (st.map Frame.w).sum

/-- remaining work of the receiver: two steps per queued item (dequeue, start the handler), one for
a taken message, close and flush -/
def rho (s : Shared) : Nat :=
  if s.rxOpen then 2 * s.queue.length + (if s.taken.isSome then 1 else 0) + 2
  else if s.queue.isEmpty then 0 else 1

/-- the thread is parked at a CAS whose remembered word is no longer the current word -/
def staleTop (w : Word) : List Frame → Nat
  | f :: _ =>
    match f.pc with
    | .aCas seen => if seen = w then 0 else 1
    | .mCas seen _ => if seen = w then 0 else 1
    | _ => 0
  | [] => 0

def totalW (g : G) : Nat := (g.threads.map stackW).sum

/-- the progress measure: remaining work of all threads and of the receiver -/
def phi (g : G) : Nat := totalW g + rho g.sh

/-- number of threads parked at a CAS that is bound to fail -/
def stale (g : G) : Nat := (g.threads.map (staleTop g.sh.word)).sum

/-- the well-founded measure of the whole system: lexicographic (`phi`, `stale`) packed into one
number (`stale ≤ number of threads`) -/
def mu (g : G) : Nat := (g.threads.length + 1) * phi g + stale g

end Admission
