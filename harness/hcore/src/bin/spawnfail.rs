//! C08 correspondence harness: spawns that do not produce a running actor.
//! Real `Actor::spawn` / `spawn_linked` / `spawn_instant` / `spawn_linked_instant` with a
//! `pre_start` that is driven step by step by the harness (side effects, then ok / err / panic,
//! or cut at its await point), on a paused `current_thread` runtime; after every op the world
//! is observed through public APIs (`where_is`, `pg::get_members`, `get_children`, status,
//! supervision events seen by supervisors, completion of queued calls).
//!
//! usage: spawnfail --seed S --cases N --out DIR [--replay-ops f1,f2] [--only-replay 1]

use std::sync::{Arc, Mutex};

use hutil::{Args, Log, Rng, Stats};
use ractor::rpc::CallResult;
use ractor::{Actor, ActorCell, ActorProcessingErr, ActorRef, ActorStatus, RpcReplyPort, SupervisionEvent};
use tokio::sync::mpsc;
use tokio::task::JoinHandle;

enum Msg {
    Ping,
    Call(RpcReplyPort<u64>),
}

#[cfg(feature = "cluster")]
impl ractor::Message for Msg {}

enum Cmd {
    Join(String),
    Monitor(String),
    SelfSend,
    /// `myself.get_cell().link(w)`: pre_start links the new actor to some other actor
    SelfLink(ActorCell),
    SpawnChild,
    Finish(u8), // 0 ok, 1 err, 2 panic
}

#[derive(Default)]
struct Shared {
    events: Vec<(u64, u64, char)>, // (supervisor pid, child pid, kind)
    handled: Vec<u64>,             // pids whose handlers (handle/post_start/post_stop) ran a user message
    cells: Vec<(usize, ActorCell)>, // (spawn index, cell) reported by pre_start
    children: Vec<(usize, ActorCell)>, // (parent index, child cell)
}

struct Starter {
    idx: usize,
    shared: Arc<Mutex<Shared>>,
}

struct StarterArgs {
    gate: mpsc::UnboundedReceiver<Cmd>,
}

impl Actor for Starter {
    type Msg = Msg;
    type State = ();
    type Arguments = StarterArgs;

    async fn pre_start(&self, myself: ActorRef<Msg>, mut args: StarterArgs) -> Result<(), ActorProcessingErr> {
        self.shared.lock().unwrap().cells.push((self.idx, myself.get_cell()));
        while let Some(cmd) = args.gate.recv().await {
            match cmd {
                Cmd::Join(g) => ractor::pg::join(g, vec![myself.get_cell()]),
                Cmd::Monitor(g) => ractor::pg::monitor(g, myself.get_cell()),
                Cmd::SelfSend => {
                    let _ = myself.cast(Msg::Ping);
                }
                Cmd::SelfLink(w) => myself.get_cell().link(w),
                Cmd::SpawnChild => {
                    let (tx, rx) = mpsc::unbounded_channel();
                    let _ = tx.send(Cmd::Finish(0));
                    let child = Starter { idx: usize::MAX, shared: self.shared.clone() };
                    if let Ok((c, _)) = Actor::spawn_linked(None, child, StarterArgs { gate: rx }, myself.get_cell()).await {
                        self.shared.lock().unwrap().children.push((self.idx, c.get_cell()));
                    }
                }
                Cmd::Finish(0) => return Ok(()),
                Cmd::Finish(1) => return Err("pre_start failed".into()),
                Cmd::Finish(_) => panic!("pre_start panicked"),
            }
        }
        // gate closed without a verdict: stay pending forever (the spawn will be cut)
        std::future::pending::<()>().await;
        Ok(())
    }

    async fn handle(&self, myself: ActorRef<Msg>, msg: Msg, _: &mut ()) -> Result<(), ActorProcessingErr> {
        self.shared.lock().unwrap().handled.push(myself.get_id().pid());
        if let Msg::Call(p) = msg {
            let _ = p.send(1);
        }
        Ok(())
    }

    async fn handle_supervisor_evt(&self, myself: ActorRef<Msg>, evt: SupervisionEvent, _: &mut ()) -> Result<(), ActorProcessingErr> {
        let me = myself.get_id().pid();
        let mut sh = self.shared.lock().unwrap();
        match evt {
            SupervisionEvent::ActorStarted(c) => sh.events.push((me, c.get_id().pid(), 'S')),
            SupervisionEvent::ActorTerminated(c, _, _) => sh.events.push((me, c.get_id().pid(), 'T')),
            SupervisionEvent::ActorFailed(c, _) => sh.events.push((me, c.get_id().pid(), 'F')),
            _ => {}
        }
        Ok(())
    }
}

struct Slot {
    /// the spawn call's own result as the implementation reported it: `ok` / `err` (spawn or the
    /// instant start task returned Err) / `cut` (the harness dropped the future / aborted the task);
    /// empty while pending
    result: Arc<Mutex<Option<&'static str>>>,
    gate: Option<mpsc::UnboundedSender<Cmd>>,
    task: Option<tokio::task::AbortHandle>, // aborts the task driving the spawn future (plain) / the instant start task
    cell: Option<ActorCell>,
    name: Option<u64>,
}

struct World {
    case_no: u64,
    shared: Arc<Mutex<Shared>>,
    slots: Vec<Slot>,
    ports: Vec<Option<JoinHandle<char>>>,
    port_done: Vec<char>,
    groups_used: Vec<u64>,
    names_used: Vec<u64>,
}

async fn quiesce() {
    for _ in 0..80 {
        tokio::task::yield_now().await;
    }
}

impl World {
    fn new(case_no: u64) -> Self {
        World { case_no, shared: Default::default(), slots: vec![], ports: vec![], port_done: vec![], groups_used: vec![], names_used: vec![] }
    }
    fn gname(&self, g: u64) -> String {
        format!("c08g-{}-{g}", self.case_no)
    }
    fn aname(&self, n: u64) -> String {
        format!("c08n-{}-{n}", self.case_no)
    }

    fn refresh_cells(&mut self) {
        let sh = self.shared.lock().unwrap();
        for (idx, cell) in sh.cells.iter() {
            if *idx < self.slots.len() && self.slots[*idx].cell.is_none() {
                self.slots[*idx].cell = Some(cell.clone());
            }
        }
    }

    async fn begin(&mut self, name: Option<u64>, sup: Option<usize>, instant: bool) -> String {
        let idx = self.slots.len();
        let (tx, rx) = mpsc::unbounded_channel();
        let actor = Starter { idx, shared: self.shared.clone() };
        let args = StarterArgs { gate: rx };
        let nm = name.map(|n| self.aname(n));
        if let Some(n) = name {
            if !self.names_used.contains(&n) {
                self.names_used.push(n);
            }
        }
        let sup_cell = sup.and_then(|p| self.slots.get(p).and_then(|s| s.cell.clone()));
        let mut slot = Slot { result: Default::default(), gate: Some(tx), task: None, cell: None, name };
        let res = slot.result.clone();
        let result;
        if instant {
            let r = match sup_cell {
                Some(p) => ractor::ActorRuntime::<Starter>::spawn_linked_instant(nm, actor, args, p),
                None => ractor::ActorRuntime::<Starter>::spawn_instant(nm, actor, args),
            };
            match r {
                Ok((aref, jh)) => {
                    slot.cell = Some(aref.get_cell());
                    // aborting the start task drops the start future at its await point
                    slot.task = Some(jh.abort_handle());
                    // what the start task itself reports to whoever joins it
                    tokio::spawn(async move {
                        let r = match jh.await {
                            Ok(Ok(_)) => "ok",
                            Ok(Err(_)) => "err",
                            Err(_) => "cut",
                        };
                        *res.lock().unwrap() = Some(r);
                    });
                    result = "ok".to_string();
                }
                Err(_) => {
                    slot.gate = None;
                    *res.lock().unwrap() = Some("err");
                    result = "err-name".to_string();
                }
            }
            self.slots.push(slot);
            quiesce().await;
        } else {
            let errflag = Arc::new(Mutex::new(None::<String>));
            let ef = errflag.clone();
            let fut = async move {
                let r = match sup_cell {
                    Some(p) => Actor::spawn_linked(nm, actor, args, p).await,
                    None => Actor::spawn(nm, actor, args).await,
                };
                *res.lock().unwrap() = Some(if r.is_ok() { "ok" } else { "err" });
                if let Err(e) = r {
                    *ef.lock().unwrap() = Some(format!("{e:?}"));
                }
            };
            slot.task = Some(tokio::spawn(fut).abort_handle());
            self.slots.push(slot);
            quiesce().await;
            let e = errflag.lock().unwrap().clone();
            result = match e {
                Some(s) if s.contains("AlreadyRegistered") || s.contains("ActorAlreadyRegistered") => {
                    self.slots[idx].gate = None;
                    "err-name".into()
                }
                _ => "ok".into(),
            };
        }
        self.refresh_cells();
        result
    }

    async fn cmd(&mut self, a: usize, c: Cmd) -> String {
        if let Some(Some(g)) = self.slots.get(a).map(|s| s.gate.as_ref()) {
            let _ = g.send(c);
        }
        quiesce().await;
        self.refresh_cells();
        "ok".into()
    }

    async fn cut(&mut self, a: usize) -> String {
        if let Some(s) = self.slots.get_mut(a) {
            if let Some(t) = s.task.take() {
                t.abort();
            }
        }
        quiesce().await;
        if let Some(s) = self.slots.get(a) {
            // the future is gone without having produced a result
            let mut r = s.result.lock().unwrap();
            if r.is_none() {
                *r = Some("cut");
            }
        }
        "ok".into()
    }

    fn aref(&self, a: usize) -> Option<ActorRef<Msg>> {
        self.slots.get(a).and_then(|s| s.cell.clone()).map(ActorRef::<Msg>::from)
    }

    async fn cast(&mut self, a: usize) -> String {
        if let Some(r) = self.aref(a) {
            let _ = r.cast(Msg::Ping);
        }
        quiesce().await;
        "ok".into()
    }

    async fn call(&mut self, a: usize) -> String {
        let r = self.aref(a);
        let h = tokio::spawn(async move {
            match r {
                None => 'E',
                Some(r) => match r.call(Msg::Call, None).await {
                    Err(_) => 'E',
                    Ok(CallResult::Success(_)) => 'R',
                    Ok(CallResult::SenderError) => 'S',
                    Ok(CallResult::Timeout) => 'T',
                },
            }
        });
        self.ports.push(Some(h));
        self.port_done.push('W');
        quiesce().await;
        "ok".into()
    }

    async fn kill(&mut self, a: usize) -> String {
        if let Some(Some(c)) = self.slots.get(a).map(|s| s.cell.clone()) {
            c.kill();
        }
        quiesce().await;
        "ok".into()
    }

    /// the kill signal and the command that lets `pre_start` return Ok are both pending when the
    /// start future is polled next: the kill must win (signal port is polled first)
    async fn killrace(&mut self, a: usize) -> String {
        if let Some(Some(c)) = self.slots.get(a).map(|s| s.cell.clone()) {
            c.kill();
        }
        if let Some(Some(g)) = self.slots.get(a).map(|s| s.gate.as_ref()) {
            let _ = g.send(Cmd::Finish(0));
        }
        quiesce().await;
        self.refresh_cells();
        "ok".into()
    }

    async fn stop(&mut self, a: usize) -> String {
        if let Some(Some(c)) = self.slots.get(a).map(|s| s.cell.clone()) {
            c.stop(None);
        }
        quiesce().await;
        "ok".into()
    }

    fn idx_of_pid(&self, pid: u64) -> Option<usize> {
        self.slots.iter().position(|s| s.cell.as_ref().is_some_and(|c| c.get_id().pid() == pid))
    }

    /// children spawned by pre_start get their own slots (in spawn order) so that ids line up with the model
    fn adopt_children(&mut self, parent: usize) {
        let kids: Vec<ActorCell> = {
            let sh = self.shared.lock().unwrap();
            sh.children.iter().filter(|(p, _)| *p == parent).map(|(_, c)| c.clone()).collect()
        };
        for k in kids {
            if self.idx_of_pid(k.get_id().pid()).is_none() {
                self.slots.push(Slot { result: Arc::new(Mutex::new(Some("ok"))), gate: None, task: None, cell: Some(k), name: None });
            }
        }
    }

    async fn obs(&mut self) -> String {
        quiesce().await;
        for i in 0..self.ports.len() {
            if self.ports[i].as_ref().is_some_and(|h| h.is_finished()) {
                let h = self.ports[i].take().unwrap();
                self.port_done[i] = h.await.unwrap_or('?');
            }
        }
        // names
        let mut names: Vec<(u64, usize)> = vec![];
        for n in self.names_used.clone() {
            if let Some(c) = ractor::registry::where_is(self.aname(n)) {
                if let Some(i) = self.idx_of_pid(c.get_id().pid()) {
                    names.push((n, i));
                } else {
                    names.push((n, 99999));
                }
            }
        }
        names.sort();
        let n = names.iter().map(|(k, v)| format!("{k}>{v}")).collect::<Vec<_>>().join(",");
        // actors
        let sh_handled: Vec<u64> = self.shared.lock().unwrap().handled.clone();
        let mut rows = vec![];
        for (i, s) in self.slots.iter().enumerate() {
            let (phase, groups, children, handled) = match &s.cell {
                None => ("stopped".to_string(), vec![], vec![], 0),
                Some(c) => {
                    let phase = match c.get_status() {
                        ActorStatus::Unstarted | ActorStatus::Starting => "starting",
                        ActorStatus::Running | ActorStatus::Upgrading | ActorStatus::Draining => "running",
                        ActorStatus::Stopping => "stopping",
                        ActorStatus::Stopped => "stopped",
                    };
                    let mut gs: Vec<u64> = self
                        .groups_used
                        .iter()
                        .filter(|g| ractor::pg::get_members(&self.gname(**g)).iter().any(|m| m.get_id() == c.get_id()))
                        .cloned()
                        .collect();
                    gs.sort();
                    let mut ch: Vec<usize> = c.get_children().iter().filter_map(|k| self.idx_of_pid(k.get_id().pid())).collect();
                    ch.sort();
                    let h = sh_handled.iter().filter(|p| **p == c.get_id().pid()).count();
                    (phase.to_string(), gs, ch, h)
                }
            };
            let d = |v: Vec<String>| if v.is_empty() { "-".to_string() } else { v.join(".") };
            rows.push(format!(
                "{i}:{phase}:{}:{}:{handled}",
                d(groups.iter().map(|g| g.to_string()).collect()),
                d(children.iter().map(|g| g.to_string()).collect())
            ));
        }
        // events
        let mut evs: Vec<String> = self
            .shared
            .lock()
            .unwrap()
            .events
            .iter()
            .map(|(p, c, k)| {
                format!(
                    "{}>{}:{k}",
                    self.idx_of_pid(*p).map(|x| x.to_string()).unwrap_or("?".into()),
                    self.idx_of_pid(*c).map(|x| x.to_string()).unwrap_or("?".into())
                )
            })
            .collect();
        evs.sort();
        let p: String = self.port_done.iter().collect();
        let r: Vec<String> = self.slots.iter().enumerate().map(|(i, s)| format!("{i}:{}", s.result.lock().unwrap().unwrap_or("pending"))).collect();
        format!("N[{n}] A[{}] E[{}] P[{p}] R[{}]", rows.join("|"), evs.join(","), r.join(","))
    }

    async fn teardown(&mut self) {
        for s in self.slots.iter_mut() {
            if let Some(t) = s.task.take() {
                t.abort();
            }
            if let Some(c) = &s.cell {
                c.kill();
            }
        }
        quiesce().await;
        for h in self.ports.drain(..).flatten() {
            h.abort();
        }
        quiesce().await;
    }

    async fn exec(&mut self, line: &str) -> String {
        let w: Vec<&str> = line.split_whitespace().collect();
        let us = |s: &str| s.parse::<usize>().unwrap_or(9999);
        match w.as_slice() {
            ["begin", name, sup, kind] => {
                let nm = if *name == "-" { None } else { name.parse().ok() };
                let sp = if *sup == "-" { None } else { sup.parse().ok() };
                self.begin(nm, sp, *kind == "instant").await
            }
            ["join", a, g] => {
                let g: u64 = g.parse().unwrap_or(0);
                if !self.groups_used.contains(&g) {
                    self.groups_used.push(g);
                }
                let gn = self.gname(g);
                self.cmd(us(a), Cmd::Join(gn)).await
            }
            ["monitor", a, g] => {
                let gn = self.gname(g.parse().unwrap_or(0));
                self.cmd(us(a), Cmd::Monitor(gn)).await
            }
            ["selfsend", a] => self.cmd(us(a), Cmd::SelfSend).await,
            ["selflink", a, w] => match self.slots.get(us(w)).and_then(|s| s.cell.clone()) {
                Some(wc) => self.cmd(us(a), Cmd::SelfLink(wc)).await,
                None => "ok".into(),
            },
            ["spawnchild", a] => {
                let r = self.cmd(us(a), Cmd::SpawnChild).await;
                self.adopt_children(us(a));
                r
            }
            ["cast", a] => self.cast(us(a)).await,
            ["call", a] => self.call(us(a)).await,
            ["finish", a, o] => {
                let k = match *o {
                    "ok" => 0,
                    "err" => 1,
                    _ => 2,
                };
                self.cmd(us(a), Cmd::Finish(k)).await
            }
            ["cut", a] => self.cut(us(a)).await,
            ["kill", a] => self.kill(us(a)).await,
            ["killrace", a] => self.killrace(us(a)).await,
            ["stop", a] => self.stop(us(a)).await,
            ["obs"] => self.obs().await,
            _ => "bad-op".into(),
        }
    }
}

async fn gen_case(log: &mut Log, st: &mut Stats, rng: &mut Rng, case_no: u64) {
    let mut w = World::new(case_no);
    log.rec("case", "ok");
    // model-side bookkeeping of who is starting / running so that the generator stays in the
    // part of the op space the model covers (supervisors are RUNNING actors, stop only on running)
    #[derive(Clone, Copy, PartialEq)]
    enum Ph {
        Starting,
        Running,
        Stopped,
    }
    let mut ph: Vec<Ph> = vec![];
    let steps = rng.range(6, 28);
    for _ in 0..steps {
        let starting: Vec<usize> = (0..ph.len()).filter(|i| ph[*i] == Ph::Starting).collect();
        let running: Vec<usize> = (0..ph.len()).filter(|i| ph[*i] == Ph::Running).collect();
        let k = rng.below(100);
        let line = if starting.is_empty() || k < 22 {
            let name = if rng.chance(1, 2) { rng.below(3).to_string() } else { "-".into() };
            let sup = if !running.is_empty() && rng.chance(1, 2) { rng.pick(&running).to_string() } else { "-".into() };
            let kind = if rng.chance(1, 2) { "plain" } else { "instant" };
            format!("begin {name} {sup} {kind}")
        } else {
            let a = *rng.pick(&starting);
            match k {
                22..=31 => format!("join {a} {}", rng.below(3)),
                32..=36 => format!("monitor {a} {}", rng.below(3)),
                37..=39 => format!("selfsend {a}"),
                40..=41 if !running.is_empty() => format!("selflink {a} {}", rng.pick(&running)),
                40..=41 => format!("selfsend {a}"),
                42..=47 => format!("spawnchild {a}"),
                48..=52 => format!("cast {a}"),
                53..=59 => format!("call {a}"),
                60..=69 => format!("finish {a} ok"),
                70..=76 => format!("finish {a} {}", if rng.chance(1, 2) { "err" } else { "panic" }),
                77..=85 => format!("cut {a}"),
                86..=88 => format!("kill {a}"),
                89..=91 => format!("killrace {a}"),
                92..=96 if !running.is_empty() => format!("stop {}", rng.pick(&running)),
                _ if !running.is_empty() => format!("kill {}", rng.pick(&running)),
                _ => format!("cut {a}"),
            }
        };
        st.bump(line.split(' ').next().unwrap());
        let obs = w.exec(&line).await;
        // update bookkeeping
        let t: Vec<&str> = line.split(' ').collect();
        match t[0] {
            "begin" => ph.push(if obs == "ok" { Ph::Starting } else { Ph::Stopped }),
            "spawnchild" => {
                while ph.len() < w.slots.len() {
                    ph.push(Ph::Running);
                }
            }
            _ => {}
        }
        log.rec(&line, obs);
        let snap = w.exec("obs").await;
        // derive phases from the real world for the generator's next choice
        if let Some(a_part) = snap.split("A[").nth(1).and_then(|s| s.split(']').next()) {
            for (i, row) in a_part.split('|').enumerate() {
                if i < ph.len() {
                    let p = row.split(':').nth(1).unwrap_or("");
                    ph[i] = match p {
                        "starting" => Ph::Starting,
                        "running" => Ph::Running,
                        _ => Ph::Stopped,
                    };
                }
            }
        }
        if snap.contains(":stopped:") {
            st.bump("obs_with_stopped_actor");
        }
        log.rec("obs", snap);
    }
    w.teardown().await;
}

async fn replay_file(log: &mut Log, st: &mut Stats, path: &str, case_base: u64) {
    let text = std::fs::read_to_string(path).unwrap_or_default();
    let mut n = case_base;
    let mut w = World::new(n);
    for line in text.lines() {
        st.bump("replayed_ops");
        if line.trim() == "case" {
            w.teardown().await;
            n += 1;
            w = World::new(n);
            log.rec("case", "ok");
            continue;
        }
        let obs = w.exec(line).await;
        log.rec(line, obs);
    }
    w.teardown().await;
}

#[tokio::main(flavor = "current_thread", start_paused = true)]
async fn main() {
    std::panic::set_hook(Box::new(|_| {}));
    let args = Args::parse();
    let seed = args.u64("seed", 1);
    let cases = args.u64("cases", 100);
    let out = args.str("out", "/tmp/spawnfail");
    let mut rng = Rng::new(seed);
    let mut log = Log::create(std::path::Path::new(&out)).unwrap();
    let mut st = Stats::default();
    let mut base = 1_000_000;
    for f in args.str("replay-ops", "").split(',').filter(|f| !f.is_empty()) {
        replay_file(&mut log, &mut st, f, base).await;
        base += 1000;
    }
    if args.u64("only-replay", 0) != 1 {
        for c in 0..cases {
            gen_case(&mut log, &mut st, &mut rng, c).await;
        }
    }
    st.add("lines", log.lines);
    st.write_json(&std::path::Path::new(&out).join("stats.json"));
    log.finish();
}
