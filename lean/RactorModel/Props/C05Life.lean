import RactorModel.Lemmas.LifeRest
import RactorModel.Lemmas.LifeWorld
import RactorModel.Model.TreeConc
import RactorModel.Props.C05

/-!
# C05 ∘ Life — where `TreeConc.Rest` comes from (wave 2)

`Props/C05.lean` (`conc_exit_takes_subtree`, `conc_link_under_exiting`) concludes "`status = Stopped` at rest"
under the hypothesis `Tree.Rest g`: no exit machine is in flight and EVERY ACTOR THAT WAS SENT THE KILL SIGNAL OR
HAS PUBLISHED `Stopping` HAS FINISHED `cleanup` (`pc = done`). The tree model cannot prove that: whether a task
that was sent a kill / sits in `post_stop` ever runs `ActorLifecycleGuard::cleanup` is the business of the
actor-task model `Life` (C01/C03). This file states that liveness fact in the tree model's vocabulary.

## The abstraction `Life ↦ TreeConc`

One `Life.Actor` per tree node `x` (`w : Nat → Actor`):

| `Tree.CState`            | `Life.Actor`                                                                          |
|--------------------------|---------------------------------------------------------------------------------------|
| `t.status x`             | `absStatus (w x).status` (same seven constructors, `toNat = rank`)                    |
| `t.sup x`, `t.kids x`    | `(w x).sup`, `(w x).kids` (`none` = closed set)                                        |
| `t.killed x` (ghost)     | `(w x).sigVal`: `Signal::Kill` is in the signal port (an accepted kill that has been consumed has ended the actor: `Liveness.kill_event_pending`) |
| `pc x`                   | `done` if `(w x).phase = done`, else `idle`: between two `Life` ops no exit is in flight — `Life` runs `handle_signal`/`terminate`/`cleanup` (the `term … publishStopped` states of `CPc`) inside the ONE poll / abort / drop op that starts it; the interleaving of those statements with other actors is what `TreeConc` adds |

## What is proved

* `exiting_finishes_kill` / `exiting_finishes_stopping` — per actor, all environments: a `TreeConc`-exiting
  actor (kill flag, resp. status `>= Stopping`) has `pc = done` and `status = Stopped` after ONE poll of its task
  (resp. one *effective* poll: `post_stop` returns), and keeps them.
* `kill_obligation_discharged` — whatever the environment does meanwhile, one op (the task poll) ends a killed actor.
* `rest_of_quiet` — the abstraction of a family of reachable `Life` actors satisfies `Tree.Rest` as soon as no
  actor has a kill in its signal port and none is inside `post_stop`.
* `rest_of_fair_polls` — hence `Rest` holds at the end of every family of runs that is *fair*: every pending kill
  is followed by a poll of that actor's task and every open `post_stop` by an effective poll (`Fair`).
* `rest_of_world` — the same for the composed `Life.World` (what the E-LTS driver replays).
* `exit_takes_subtree_under_fair_polls`, `link_under_exiting_under_fair_polls` — `C05.conc_exit_takes_subtree` /
  `C05.conc_link_under_exiting` with `Rest` REPLACED by: the final `pc` / kill-flag / status fields of the tree run
  agree (`Agree`) with a family of `Life` actors at the end of fair runs. `Agree` is the explicit, un-proved link.

NOT proved (the two models are not composed step by step): that the tree fields `sup`/`kids` of the `Life` world
evolve as `Tree.cstep` prescribes; the bridge is about the status / pc / kill-flag fields `Rest` talks about.
-/

namespace C05Life
open Life Life.Liveness

/-- `ActorStatus` of the two models. -/
def absStatus : Life.Status → Tree.Status
  | .unstarted => .unstarted | .starting => .starting | .running => .running | .upgrading => .upgrading
  | .draining => .draining | .stopping => .stopping | .stopped => .stopped

theorem absStatus_toNat (s : Life.Status) : (absStatus s).toNat = s.rank := by cases s <;> rfl

/-- Between two `Life` ops no exit is in flight. -/
def absPc (a : Actor) : Tree.CPc := if a.phase = .done then .done else .idle

/-- The `TreeConc` state a family of `Life` actors stands for. -/
def absState (n : Nat) (w : Nat → Actor) : Tree.CState :=
  { t := { n := n, sup := fun x => (w x).sup, kids := fun x => (w x).kids,
           status := fun x => absStatus (w x).status, killed := fun x => (w x).sigVal },
    pc := fun x => absPc (w x) }

/-- `Dead` is exactly the tree model's finished exit: `pc = done`, `Stopped`, child set closed, no supervisor
(the conclusion of `conc_exit_takes_subtree`, cf. `conc_stopped_closed`). -/
theorem absPc_dead {a : Actor} (h : Dead a) :
    absPc a = .done ∧ absStatus a.status = .stopped ∧ a.kids = none ∧ a.sup = none := by
  simp [absPc, h.1, h.2.1, absStatus, h.2.2.2.2.2.1, h.2.2.2.2.2.2]

/-- Reachable, with the status invariant. -/
structure Ok (a : Actor) : Prop where
  reach : Reach a
  si : SI a

theorem ok_run (id : Nat) (ops : List AOp) : Ok ((Actor.init id).run ops).1 :=
  ⟨reach_run ops _ (reach_init id), SI_run ops _ (reach_init id) (SI_init id)⟩

theorem Ok.run {a : Actor} (h : Ok a) (ops : List AOp) : Ok (a.run ops).1 :=
  ⟨reach_run ops a h.reach, SI_run ops a h.reach h.si⟩

/-- **A killed actor finishes `cleanup`.** `t.killed x` (kill in the signal port): after any continuation with at
least one poll of the actor's task — the environment doing anything in between — `pc x = done`,
`status x = Stopped`, the child set is closed and the supervisor link is gone. -/
theorem exiting_finishes_kill (a : Actor) (h : Ok a) (hk : a.sigVal = true) (ops : List AOp)
    (hp : 1 ≤ pollCount a ops) :
    absPc (a.run ops).1 = .done ∧ absStatus (a.run ops).1.status = .stopped ∧
    (a.run ops).1.kids = none ∧ (a.run ops).1.sup = none :=
  absPc_dead ((kill_run ops a (h.reach.alive_of_sig hk) hk).2.1 hp)

/-- **An actor that published `Stopping` finishes `cleanup`.** It is `Dead` already or inside `post_stop`; one
effective poll (the script lets `post_stop` return, or a kill / abort intervenes) ends it. -/
theorem exiting_finishes_stopping (a : Actor) (h : Ok a)
    (hs : Tree.Status.stopping.toNat ≤ (absStatus a.status).toNat) (ops : List AOp)
    (hp : 1 ≤ effCount a ops) :
    absPc (a.run ops).1 = .done ∧ absStatus (a.run ops).1.status = .stopped ∧
    (a.run ops).1.kids = none ∧ (a.run ops).1.sup = none := by
  rw [absStatus_toNat] at hs
  rcases stopping_dead_or_post_stop h.reach h.si hs with hd | ⟨hal, r, hr⟩
  · exact absPc_dead (dead_run ops a hd).1
  · rcases stop_run ops a hal (Or.inr ⟨r, hr⟩) with hd | ⟨h1, _, h3⟩
    · exact absPc_dead hd
    · have e1 := rank_postStop hr
      have e2 := rank_pos h1
      omega

/-- The obligation `Rest` puts on a killed actor is discharged by ONE op, whatever happened in between. -/
theorem kill_obligation_discharged (a : Actor) (h : Ok a) (hk : a.sigVal = true) (env : List AOp) :
    ∃ op, Dead (((a.run env).1).step op).1 := by
  rcases (kill_run env a (h.reach.alive_of_sig hk) hk).1 with hd | ⟨hal, hs⟩
  · exact ⟨.poll, (dead_step _ .poll hd).1⟩
  · obtain ⟨h1, h2, _⟩ := hal
    by_cases hp : (a.run env).1.phase = .cell ∨ (a.run env).1.phase = .pre
    · exact ⟨.pollSpawn true, (kill_step _ _ ⟨h1, h2, ‹_›⟩ hs).2.1 (by simpa [taskPoll] using hp)⟩
    · refine ⟨.poll, (kill_step _ _ ⟨h1, h2, ‹_›⟩ hs).2.1 ?_⟩
      cases hph : (a.run env).1.phase <;> simp_all [taskPoll, Phase.isTask]

/-- No kill in the signal port, not inside `post_stop`. -/
def Quiet (a : Actor) : Prop := a.sigVal = false ∧ ∀ r, a.phase ≠ .postStop r

theorem dead_quiet {a : Actor} (h : Dead a) : Quiet a :=
  ⟨h.2.2.2.1, fun r hr => by rw [h.1] at hr; cases hr⟩

/-- **`Rest` of a family of `Life` actors.** If no actor has a kill in its signal port and none is inside
`post_stop`, the abstraction is at rest: every kill-flagged or `>= Stopping` actor has `pc = done`. -/
theorem rest_of_quiet (n : Nat) (w : Nat → Actor) (hok : ∀ x, Ok (w x)) (hq : ∀ x, Quiet (w x)) :
    Tree.Rest (absState n w) := by
  intro x
  refine ⟨?_, fun h => ?_⟩
  · show absPc (w x) = .idle ∨ absPc (w x) = .done
    unfold absPc; split <;> simp
  · show absPc (w x) = .done
    rcases h with h | h
    · have : (w x).sigVal = true := h
      rw [(hq x).1] at this; cases this
    · have h' : Tree.Status.stopping.toNat ≤ (absStatus (w x).status).toNat := h
      rw [absStatus_toNat] at h'
      rcases stopping_dead_or_post_stop (hok x).reach (hok x).si h' with hd | ⟨_, r, hr⟩
      · exact (absPc_dead hd).1
      · exact absurd hr ((hq x).2 r)

/-- A fair continuation for one actor: every kill that is pending at some point is followed by a poll of the
actor's task, every `post_stop` that is open at some point by an effective poll. (By `exiting_finishes_*` one
such poll discharges the obligation for good: the actor is `Dead`, and `Dead` is absorbing.) -/
def Fair (a : Actor) (ops : List AOp) : Prop :=
  ∀ pre post, ops = pre ++ post →
    ((a.run pre).1.sigVal = true → 1 ≤ pollCount (a.run pre).1 post) ∧
    ((∃ r, (a.run pre).1.phase = .postStop r) → 1 ≤ effCount (a.run pre).1 post)

theorem run_append (a : Actor) (l1 l2 : List AOp) : ((a.run l1).1.run l2).1 = (a.run (l1 ++ l2)).1 := by
  induction l1 generalizing a with
  | nil => rfl
  | cons op l1 ih => simp only [List.cons_append, Actor.run]; exact ih _

theorem quiet_of_fair (a : Actor) (ops : List AOp) (hf : Fair a ops) : Quiet (a.run ops).1 := by
  obtain ⟨h1, h2⟩ := hf ops [] (by simp)
  constructor
  · cases hs : (a.run ops).1.sigVal with
    | false => rfl
    | true => have := h1 hs; simp [pollCount] at this
  · intro r hr
    have := h2 ⟨r, hr⟩
    simp [effCount] at this

/-- **`Rest` is implied by fair polling.** Any family of actors, each reachable (`ops0 x`), each continued by
its own op sequence `opsOf x` (every behaviour of the rest of the system): if every continuation is fair, the
final family is at rest in the sense of `TreeConc`. -/
theorem rest_of_fair_polls (n : Nat) (ops0 opsOf : Nat → List AOp)
    (hf : ∀ x, Fair ((Actor.init x).run (ops0 x)).1 (opsOf x)) :
    Tree.Rest (absState n fun x => (((Actor.init x).run (ops0 x)).1.run (opsOf x)).1) :=
  rest_of_quiet n _ (fun x => (ok_run x (ops0 x)).run (opsOf x)) (fun x => quiet_of_fair _ _ (hf x))

/-- … and fairness asks for nothing unbounded: a pending kill at `pre` followed by a task poll anywhere in `post`
leaves the actor `Dead` — quiet for ever, with nothing more to poll. -/
theorem fair_kill_is_final (a : Actor) (h : Ok a) (pre post : List AOp)
    (hs : (a.run pre).1.sigVal = true) (hp : 1 ≤ pollCount (a.run pre).1 post) (more : List AOp) :
    Dead ((a.run (pre ++ post)).1.run more).1 := by
  have h1 := (kill_run post _ ((h.run pre).reach.alive_of_sig hs) hs).2.1 hp
  rw [run_append] at h1
  exact (dead_run more _ h1).1

/-- **The composed world** (`Life.World`, what the E-LTS driver replays against the real runtime): in every
run from the empty world, if no actor has a kill pending and none is inside `post_stop`, the world's
abstraction is at rest. -/
theorem rest_of_world (ops : List Op) (h : ∀ op ∈ ops, op ≠ .case)
    (hq : ∀ i, Quiet ((({} : World).run ops).1.get i)) :
    Tree.Rest (absState (({} : World).run ops).1.actors.length fun i => (({} : World).run ops).1.get i) := by
  refine rest_of_quiet _ _ (fun i => ?_) hq
  obtain ⟨aops, e⟩ := world_actor_run ops h i
  have := ok_run i aops
  rw [e] at this
  exact this


/-! ### The composed statement: C05's conclusion without the hypothesis `Rest`

`Rest g` reads only three fields of the tree state: `pc`, the ghost `killed`, `status`. If those agree with the
abstraction of a family of `Life` actors at the end of fair runs (`Agree`: the un-proved link between the two models,
stated as a hypothesis), `conc_exit_takes_subtree` / `conc_link_under_exiting` hold with fairness of polling in
place of `Rest`. -/

/-- the three fields `Rest` reads agree with the abstraction of the family `w` (the ghost `killed` of the tree
model is sticky, the signal port of a finished actor is empty: a kill flag means "kill in the port, or done") -/
def Agree (g : Tree.CState) (w : Nat → Actor) : Prop :=
  ∀ x, g.pc x = absPc (w x) ∧ (g.t.killed x = true → (w x).sigVal = true ∨ (w x).phase = .done) ∧
    g.t.status x = absStatus (w x).status

theorem rest_transfer {g : Tree.CState} {n : Nat} {w : Nat → Actor} (h : Agree g w)
    (hr : Tree.Rest (absState n w)) : Tree.Rest g := by
  intro x
  obtain ⟨h1, h2, h3⟩ := h x
  obtain ⟨r1, r2⟩ := hr x
  refine ⟨?_, fun hk => ?_⟩
  · rw [h1]; exact r1
  · rw [h1]
    rcases hk with hk | hk
    · rcases h2 hk with hs | hd
      · exact r2 (Or.inl hs)
      · simp [absState, absPc, hd]
    · exact r2 (Or.inr (by rw [h3] at hk; exact hk))

/-- **C05 (1)+(2) under fair polling.** `a` on its way out at `ops0`, `z` beneath it; ANY continuation `ops` of the
tree schedule whose final `pc` / kill flag / status fields are those of a family of `Life` actors at the end of FAIR
runs (every pending kill followed by a poll of that actor's task, every open `post_stop` by an effective poll): `z`
is Stopped, closed and detached, unless it (or an actor between) was unlinked / handed over by an outside thread. -/
theorem exit_takes_subtree_under_fair_polls (ops0 ops : List Tree.COp) (a z : Nat)
    (ha : Tree.Exiting (Tree.crun Tree.cinit ops0) a) (hd : Tree.Desc (Tree.crun Tree.cinit ops0).t a z)
    (l0 lOf : Nat → List AOp) (hf : ∀ x, Fair ((Actor.init x).run (l0 x)).1 (lOf x))
    (hag : Agree (Tree.crun (Tree.crun Tree.cinit ops0) ops)
      (fun x => (((Actor.init x).run (l0 x)).1.run (lOf x)).1)) :
    ((Tree.crun (Tree.crun Tree.cinit ops0) ops).t.status z = .stopped ∧
      (Tree.crun (Tree.crun Tree.cinit ops0) ops).t.kids z = none ∧
      (Tree.crun (Tree.crun Tree.cinit ops0) ops).t.sup z = none) ∨
    ∃ y, Tree.DescP (Tree.crun Tree.cinit ops0).t a y ∧ Tree.Desc (Tree.crun Tree.cinit ops0).t y z ∧
      Tree.escRun (Tree.crun Tree.cinit ops0) ops y = true :=
  C05.conc_exit_takes_subtree ops0 ops a z ha hd (rest_transfer hag (rest_of_fair_polls 0 l0 lOf hf))

/-- **C05 (4)/(5) under fair polling**: an accepted `link` / start link under an exiting target. -/
theorem link_under_exiting_under_fair_polls (ops0 ops : List Tree.COp) (c p : Nat) (start : Bool)
    (hp : Tree.Exiting (Tree.crun Tree.cinit ops0) p)
    (hacc : (if start then Tree.linkStart (Tree.crun Tree.cinit ops0).t c p
             else Tree.link (Tree.crun Tree.cinit ops0).t c p).2 = true)
    (l0 lOf : Nat → List AOp) (hf : ∀ x, Fair ((Actor.init x).run (l0 x)).1 (lOf x))
    (hag : Agree (Tree.crun (Tree.crun Tree.cinit ops0) ((if start then Tree.COp.linkStart c p else .link c p) :: ops))
      (fun x => (((Actor.init x).run (l0 x)).1.run (lOf x)).1))
    (hne : Tree.escRun (Tree.cstep (Tree.crun Tree.cinit ops0) (if start then .linkStart c p else .link c p)) ops c
      = false) :
    (Tree.crun (Tree.crun Tree.cinit ops0) ((if start then Tree.COp.linkStart c p else .link c p) :: ops)).t.status c
      = .stopped :=
  C05.conc_link_under_exiting ops0 ops c p start hp hacc (rest_transfer hag (rest_of_fair_polls 0 l0 lOf hf)) hne

-- the agreement on a killed actor that finished: tree model `pc = done`, sticky kill flag, `Stopped` /
-- `Life`: `Dead` after one poll
example :
    let g := Tree.crun Tree.cinit [.spawn, .begin 0 true, .xstep 0, .xstep 0, .xstep 0, .xstep 0, .xstep 0, .xstep 0,
      .xstep 0, .xstep 0, .xstep 0, .xstep 0]
    let w := ((Actor.init 0).run [.spawn none none true false true, .resume ⟨[], .ok⟩, .pollSpawn true, .kill, .poll]).1
    g.pc 0 = absPc w ∧ g.t.killed 0 = true ∧ w.phase = .done ∧ g.t.status 0 = absStatus w.status := by decide

/-! Non-vacuity: a parent killed, its child reached by `terminate()`; not at rest before the child's task is
polled, at rest (both `Stopped`) after one poll each. -/

example : ¬ Quiet ((Actor.init 1).run [.spawn (some 0) none true false true, .resume ⟨[], .ok⟩, .pollSpawn true,
    .poll, .treeTaken]).1 := fun h => absurd h.1 (by decide)
example : Fair ((Actor.init 1).run [.spawn (some 0) none true false true, .resume ⟨[], .ok⟩, .pollSpawn true,
    .poll, .treeTaken]).1 [] → False := fun h => by
  have := (h [] [] rfl).1 (by decide)
  simp [pollCount] at this
example : (((Actor.init 1).run [.spawn (some 0) none true false true, .resume ⟨[], .ok⟩, .pollSpawn true,
    .poll, .treeTaken]).1.run [.send 3, .poll]).1.status = .stopped := by decide
example : pollCount ((Actor.init 1).run [.spawn (some 0) none true false true, .resume ⟨[], .ok⟩, .pollSpawn true,
    .poll, .treeTaken]).1 [.send 3, .poll] = 1 := by decide

end C05Life

#print axioms C05Life.absStatus_toNat
#print axioms C05Life.exiting_finishes_kill
#print axioms C05Life.exiting_finishes_stopping
#print axioms C05Life.kill_obligation_discharged
#print axioms C05Life.rest_of_quiet
#print axioms C05Life.quiet_of_fair
#print axioms C05Life.rest_of_fair_polls
#print axioms C05Life.fair_kill_is_final
#print axioms C05Life.rest_of_world
#print axioms C05Life.rest_transfer
#print axioms C05Life.exit_takes_subtree_under_fair_polls
#print axioms C05Life.link_under_exiting_under_fair_polls
#print axioms C05Life.absPc_dead
#print axioms C05Life.ok_run
#print axioms C05Life.Ok.run
#print axioms C05Life.dead_quiet
#print axioms C05Life.run_append
