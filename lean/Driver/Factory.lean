import RactorModel.Model.FactoryOracle
import Driver.Common

/-! Driver for the `Factory` model (C13, C14, C15). Op / observation format: see
`harness/hcore/src/bin/factory.rs`. -/

namespace Driver.Factory
open _root_.Factory Driver

def parseDisc? (s : String) : Option (Option (Nat × Mode)) :=
  if s == "none" then some none
  else match s.splitOn ":" with
    | ["newest", l] => l.toNat?.map fun l => some (l, Mode.newest)
    | ["oldest", l] => l.toNat?.map fun l => some (l, Mode.oldest)
    | _ => none

def parseRouter? : String → Option RouterKind
  | "kp" => some .kp | "q" => some .q | "sq" => some .sq | "rr" => some .rr | "cu" => some .cu
  | _ => none

def kv (ws : List String) (k : String) : Option String :=
  ws.findSome? fun w => match w.splitOn "=" with
    | [a, b] => if a == k then some b else none
    | _ => none

def parseTimes? (ws : List String) : Option (Nat × Nat × Nat) := do
  let t ← kv ws "t"
  match t.splitOn "," with
  | [a, b, c] => pure (← a.toNat?, ← b.toNat?, ← c.toNat?)
  | _ => none

def parseCase? (ws : List String) : Option CaseCfg := do
  let r ← parseRouter? (← kv ws "r")
  let q ← kv ws "q"
  let n ← (← kv ws "n").toNat?
  let disc ← parseDisc? (← kv ws "disc")
  let dh ← kv ws "dh"
  let rl ← kv ws "rl"
  let hash ← natList? (← kv ws "hash")
  let cc ← kv ws "cc"
  let rl ← if rl == "none" then pure none else
    match (rl.splitOn ":").mapM (·.toNat?) with
    | some [a, b, c, d] => pure (some (a, b, c, d))
    | _ => none
  pure { cfg := { router := r, prioQueue := q == "prio", hasHandler := dh == "1", table := hash, hasCC := cc == "1" },
         n, disc, rl }

def showReason : Reason → String
  | .ttlExpired => "TtlExpired" | .loadshed => "Loadshed" | .shutdown => "Shutdown" | .rateLimited => "RateLimited"

def showHook : Hook → String
  | .started => "started" | .draining => "draining" | .stopped => "stopped"

def sortBy {α : Type} (lt : α → α → Bool) (l : List α) : List α := (l.toArray.qsort lt).toList

def showOptNat (blocked : Bool) : Option Nat → String
  | some n => toString n
  | none => if blocked then "?" else "x"

def joinC (l : List String) : String := ",".intercalate l

/-- canonical observation from the events logged since `from` -/
def render (w : W) (start : Nat) : String :=
  let evs := w.env.log.drop start
  let builds := evs.filterMap fun | .build wid aid => some s!"{wid}.{aid}" | _ => none
  let starts := evs.filterMap fun | .start aid id key => some (aid, id, key) | _ => none
  let starts := sortBy (fun (a b : Nat × Nat × Nat) => a.1 < b.1 || (a.1 == b.1 && a.2.1 < b.2.1)) starts
  let discs := evs.filterMap fun | .discard r id (some h) => some s!"{showReason r}:{id}@{h}" | _ => none
  let hooks := evs.filterMap fun | .hook h => some (showHook h) | _ => none
  let accs := evs.filterMap fun
    | .reply id back => some (id, if back then "b" else "a") | .portClosed id => some (id, "x") | _ => none
  let accs := sortBy (fun (a b : Nat × String) => a.1 < b.1) accs
  let panic := if evs.any (fun | .panicked => true | _ => false) then " PANIC" else ""
  match evs.getLast? with
  | some (.snap up q act cap live wq) =>
    let wqs := match wq with
      | some l => "[" ++ joinC ((sortBy (fun (a b : Nat × Nat) => a.1 < b.1) l).map fun (x : Nat × Nat) => s!"{x.1}:{x.2}") ++ "]"
      | none => "-" 
    s!"build=[{joinC builds}] start=[{joinC (starts.map fun (a, i, k) => s!"{a}:{i}:{k}")}] disc=[{joinC discs}] hook=[{joinC hooks}] acc=[{joinC (accs.map fun (i, b) => s!"{i}:{b}")}] up={if up then 1 else 0} q={showOptNat w.blocked q} act={showOptNat w.blocked act} cap={showOptNat w.blocked cap} live=[{joinC (live.map toString)}] wq={wqs}{panic}"
  | _ => "no-snap"

def parseOp? (ws : List String) : Option Op :=
  match ws with
  | "dispatch" :: id :: key :: h :: ttl :: acc :: _ => do
    let ttl ← if ttl == "-" then pure none else (ttl.toNat?.map fun ms => some (ms * 1000000))
    pure (.dispatch (← id.toNat?) (← key.toNat?) (← h.toNat?) ttl (acc == "1"))
  | "finish" :: aid :: how :: _ => do pure (.finish (← aid.toNat?) (how == "ok"))
  | "kill" :: aid :: _ => do pure (.kill (← aid.toNat?))
  | "resize" :: n :: _ => do pure (.resize (← n.toNat?))
  | "settings" :: d :: n :: _ => do
    let d ← if d == "-" then pure none else (parseDisc? d).map some
    pure (.settings d n.toNat?)
  | "drain" :: _ => some .drain
  | "sethandler" :: h :: _ => some (.setHandler h.toNat?)
  | "advance" :: _ => some .advance
  | "block" :: _ => some .block
  | "release" :: n :: _ => do pure (.release (← n.toNat?))
  | "nop" :: _ => some .nop
  | _ => none

structure St where
  w : Option W := none
  o : Option OSt := none
  /-- clause prefix enabled for this run ("" = all) -/
  only : String := ""
  /-- (job id, absolute expiry in ns) of the jobs dispatched with a TTL in this case -/
  expiry : List (Nat × Nat) := []
  /-- the case runs with `DiscardSettings::Dynamic` (`dyn=1`) -/
  dyn : Bool := false

def bracket? (ws : List String) (k : String) : Option (List String) := do
  let v ← kv ws k
  if v.startsWith "[" && v.endsWith "]" then
    let inner := ((v.drop 1).dropEnd 1).toString
    pure (if inner == "" then [] else inner.splitOn ",")
  else none

def parseReason? : String → Option Reason
  | "TtlExpired" => some .ttlExpired | "Loadshed" => some .loadshed
  | "Shutdown" => some .shutdown | "RateLimited" => some .rateLimited | _ => none

def parseHook? : String → Option Hook
  | "started" => some .started | "draining" => some .draining | "stopped" => some .stopped | _ => none

def optQ? (s : String) : Option (Option Nat) := if s == "x" || s == "?" then some none else s.toNat?.map some

/-- events observed from the implementation in one step -/
def parseObs? (impl : String) : Option (List Ev) := do
  let ws := words impl
  let builds ← (← bracket? ws "build").mapM fun b => match b.splitOn "." with
    | [w, a] => do pure (Ev.build (← w.toNat?) (← a.toNat?)) | _ => none
  let starts ← (← bracket? ws "start").mapM fun b => match b.splitOn ":" with
    | [a, i, k] => do pure (Ev.start (← a.toNat?) (← i.toNat?) (← k.toNat?)) | _ => none
  let discs ← (← bracket? ws "disc").mapM fun b => match b.splitOn ":" with
    | [r, ih] => (match ih.splitOn "@" with
      | [i, h] => do pure (Ev.discard (← parseReason? r) (← i.toNat?) (some (← h.toNat?)))
      | _ => none)
    | _ => none
  let hooks ← (← bracket? ws "hook").mapM fun b => (parseHook? b).map Ev.hook
  let accs ← (← bracket? ws "acc").mapM fun b => match b.splitOn ":" with
    | [i, r] => do
      let i ← i.toNat?
      pure (if r == "x" then Ev.portClosed i else Ev.reply i (r != "a"))
    | _ => none
  let live ← (← bracket? ws "live").mapM (·.toNat?)
  let wq ← match kv ws "wq" with
    | some "-" => pure none
    | some _ => do
      let l ← (← bracket? ws "wq").mapM fun b => match b.splitOn ":" with
        | [w, n] => do pure ((← w.toNat?), (← n.toNat?)) | _ => none
      pure (some l)
    | none => none
  let up ← kv ws "up"
  let q ← optQ? (← kv ws "q"); let act ← optQ? (← kv ws "act"); let cap ← optQ? (← kv ws "cap")
  -- discards first: a job is rejected before anything else can happen to it in the same step
  pure (builds ++ discs ++ accs ++ starts ++ hooks ++ [Ev.snap (up == "1") q act cap live wq])

def opEvents : Op → List Ev
  | .dispatch id key _ _ acc => [.dispatched id key acc]
  | .finish aid ok => [if ok then .finishOk aid else .died aid]
  | .kill aid => [.died aid]
  | .resize n => [.requested n]
  | .settings d n => (match d with | some d => [.settings d] | none => []) ++ (match n with | some n => [.requested n] | none => [])
  | .drain => [.drainReq]
  | .setHandler h => [.handlerSet h]
  | .release n => [.released n]
  | _ => []

/-- feed one step of the implementation's history to the oracle; returns the newly violated clauses -/
def judge (st : St) (evs : List Ev) (t0 te : Nat) : St × List String :=
  match st.o with
  | none => (st, [])
  | some o =>
    let n := o.bad.length
    let o' := evs.foldl oStep o
    let o' := if rlOk o'.info o'.startsTotal te then o' else o'.flag "c15-ratelimit-window"
    -- C13 (time-dependent, judged here): a job whose TTL had run out before this step began is never handed to a
    -- worker — both dequeue points (`get_next_non_expired_job`, the head loop of `try_route_next_active_job`) and
    -- `dispatch` discard it as TtlExpired instead
    let o' := if evs.any (fun | .start _ id _ => (st.expiry.find? (·.1 == id)).any (fun x => x.2 < t0) | _ => false)
      then o'.flag "c13-expired-job-started" else o'
    let fresh := (o'.bad.drop n).filter (·.startsWith st.only)
    ({ st with o := some o' }, fresh.eraseDups)

def needsFactory : Op → Bool
  | .dispatch .. | .resize _ | .settings .. | .drain | .setHandler _ => true
  | _ => false

def step (st : St) (op impl : String) : St × StepOut :=
  let ws := words op
  match parseTimes? ws with
  | none => (st, { model := "bad-op" })
  | some (t0, tq, te) =>
    match ws with
    | "case" :: _ =>
      match parseCase? ws with
      | none => (st, { model := "bad-case" })
      | some c =>
        let w := (init c).stepOp .nop t0 tq te
        let info : Info := { router := c.cfg.router, prioQueue := c.cfg.prioQueue, hasHandler := c.cfg.hasHandler,
                             n := c.n, disc := c.disc, rl := c.rl }
        let st := { st with w := some w, o := some (oInit info), dyn := kv ws "dyn" == some "1" }
        match parseObs? impl with
        | some evs =>
          let (st, bad) := judge { st with expiry := [] } evs t0 te
          (st, { model := render w 0, oracle := bad })
        | none => (st, { model := render w 0, oracle := ["unparsable"] })
    | _ =>
      -- `ping <limit>` = `FactoryMessage::DoPings`. With `DiscardSettings::Dynamic` the controller's answer becomes the
      -- limit (mode unchanged, nothing is shed at that moment); for the routers that queue at the factory — the only
      -- ones the generator gives Dynamic settings — that is exactly what `UpdateSettings` with `Static{limit, mode}`
      -- does to the factory's bookkeeping (the workers' own settings are `None` either way), so the model replays it
      -- as that message. Without Dynamic settings (or with `disc = None`) a ping changes nothing the model tracks.
      let ping? : Option Nat := match ws with | "ping" :: nl :: _ => nl.toNat? | _ => none
      -- behind a held-busy factory the settings in force when the ping is handled are not known at the time of the
      -- op: the harness does not perform it (`noping`)
      let noping : Bool := ping?.isSome && (st.w.any fun w => (W.advanceTo t0 (advanceFuel w t0) w).blocked)
      let pop : Option Op := match st.w, ping? with
        | some w, some nl =>
          (match st.dyn && !noping, w.disc with
            | true, some (_, m) => some (Op.settings (some (some (nl, m))) none)
            | _, _ => some Op.nop)
        | _, _ => parseOp? ws
      match st.w, pop with
      | some w, some o =>
        let n := w.env.log.length
        let sendfail := w.stopped && (needsFactory o || (ping?.isSome && !noping))
        let w' := w.stepOp o t0 tq te
        let noblock := (match o with | .block => true | _ => false) && !w'.blocked
        let wAt := W.advanceTo t0 (advanceFuel w t0) w
        let nogate : Bool := match o with
          | .finish aid _ => !((wAt.env.getActor aid).any fun a => a.alive && a.running.isSome)
          | .release _ => !wAt.blocked
          | _ => false
        let nochild : Bool := match o with
          | .kill aid => !(!wAt.exited && (wAt.env.getActor aid).any (·.alive))
          | _ => false
        let m := render w' n ++ (if sendfail then " sendfail" else "") ++ (if noblock then " noblock" else "") ++ (if nogate then " nogate" else "") ++ (if nochild then " nochild" else "") ++ (if noping then " noping" else "")
        let nt := (w'.env.log.drop n).any fun
          | .discard .. => true | .build .. => true | .lost .. => true | .hook _ => true | _ => false
        let st := { st with w := some w' }
        let st := match o with
          | .dispatch id _ _ (some ttl) _ => { st with expiry := (id, t0 + ttl) :: st.expiry }
          | _ => st
        match parseObs? impl with
        | some evs =>
          let (st, bad) := judge st (opEvents o ++ evs) t0 te
          -- the hypothesis of the `_partial` theorems (`noStaleRun`, evaluated on the model state) against the
          -- oracle's own classifier (evaluated on the implementation's history): every step the model calls a
          -- stale kill must have been classified stale by the oracle, so that whatever the oracle judges under
          -- `noStaleCompletion` lies inside the theorems' hypothesis
          let bad := if o.isStaleAt wAt && !(st.o.any (·.stale)) && "c13-stale-classifier-misses-model-stale-kill".startsWith st.only
            then bad ++ ["c13-stale-classifier-misses-model-stale-kill"] else bad
          (st, { model := m, oracle := bad, nontrivial := nt })
        | none => (st, { model := m, oracle := ["unparsable"], nontrivial := nt })
      | _, _ => (st, { model := "bad-op" })

def run (only : String) (ops impl : Array String) : IO Tally := replay ({ only } : St) step ops impl

end Driver.Factory
