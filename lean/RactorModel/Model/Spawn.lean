/-
Model for C08: what a spawn that does NOT produce a running actor leaves behind.

Granularity: API calls between quiescent points. The start sequence of
`ActorRuntime::{spawn, spawn_linked, spawn_instant, spawn_linked_instant}` (`actor.rs`):

  ActorCell::new        register the name (or fail `AlreadyRegistered`: nothing else happened)
  ActorLifecycleGuard   armed, `notify_on_cancel = false`
  start: status Starting; `pre_start` under `run_with_signal` — the ONLY await point of `start`;
         pre_start may perform side effects through `myself` (join / monitor process groups, send
         to itself, spawn linked children) and other parties may already send to the new cell;
         then: Ok  → `try_link(supervisor)` (refused if either side is ≥ Draining) → `mark_running`,
                     loop task spawned;
               Err / panic / kill signal / refused link / the future (or the `spawn_instant`
               task) dropped at the await point → the guard's `Drop` runs `cleanup(None)`:
               status Stopping (unregister name, leave + demonitor all groups), terminate children,
               NO supervisor event (`notify_on_cancel` is false), unlink, status Stopped, waiters
               notified; the port set is dropped, which closes and flushes the mailbox.

Thread-local flavour (`thread_local/inner.rs`, `ThreadLocalActorRuntime::{spawn, spawn_linked,
spawn_instant, spawn_linked_instant}`): the same `ActorLifecycleGuard`, but `start` links to the
supervisor SYNCHRONOUSLY, before the builder is handed to the spawner thread and long before
`pre_start` runs: a refused link fails the spawn at once (pre_start never runs), and while the
actor is starting it already sits in the supervisor's child set — so a supervisor that exits
kills it ("Actor killed during startup": a failed start). There are two await points in
`start` (`spawner.spawn(builder)`: the request still queued in the spawner, or `pre_start`
running on the spawner's thread); dropping the spawn future at either aborts the start-up task
(`AbortOnDropHandle`) and runs the same guard cleanup. The successful path is as before (the
link already exists).

Import-free.
-/

namespace Spawn

inductive Phase | starting | running | stopped
  deriving Repr, DecidableEq

inductive Ev | started | terminated | failed
  deriving Repr, DecidableEq

/-- state of a reply port queued at an actor -/
inductive PortSt | waiting | senderError | sendErr | replied
  deriving Repr, DecidableEq

structure Actor where
  name : Option Nat
  sup : Option Nat              -- the supervisor slot: whom it is (or, while `linked` is false, will be) linked to
  linked : Bool                 -- link established (appears in `sup`'s child set)
  phase : Phase
  failedStart : Bool            -- the spawn did not produce a running actor
  groups : List Nat             -- process groups it is a member of
  monitors : List Nat           -- process groups it monitors
  mailbox : List Nat            -- queued items: port ids of queued calls (casts are `0`-less: see `casts`)
  casts : Nat                   -- queued one-way messages
  handled : Nat                 -- messages handled by its handlers (must stay 0 for a failed start)
  child : Bool                  -- was spawned by another actor's pre_start (a linked child)
  pending : List (Nat × Ev)     -- lifecycle events queued on its supervision port while it is starting
  req : Option Nat := none      -- supervisor requested at spawn whose link is still to be made after pre_start
  deriving Repr, DecidableEq

structure S where
  actors : List Actor
  names : List (Nat × Nat)      -- name ↦ actor id
  ports : List PortSt
  events : List (Nat × Nat × Ev) -- lifecycle events delivered: (supervisor, child, event)
  deriving Repr

def init : S := { actors := [], names := [], ports := [], events := [] }

inductive Outcome | ok | err | panic
  deriving Repr, DecidableEq

inductive Op where
  | begin (name : Option Nat) (sup : Option Nat)     -- start a spawn; runs up to pre_start's first gate
  | beginTL (name : Option Nat) (sup : Option Nat)   -- the same for a thread-local actor: links at once
  | join (a g : Nat) | monitor (a g : Nat)           -- side effects of a's pre_start
  | selfsend (a : Nat)                               -- pre_start casts to itself
  | selflink (a w : Nat)                             -- pre_start links itself to another actor: `myself.get_cell().link(w)`
  | spawnChild (a : Nat)                             -- pre_start spawns a linked child (which starts at once)
  | cast (a : Nat) | call (a : Nat)                  -- somebody else sends to the starting actor
  | finish (a : Nat) (o : Outcome)                   -- pre_start returns
  | cut (a : Nat)                                    -- the start future / start task is dropped
  | kill (a : Nat)                                   -- kill signal
  | stop (a : Nat)                                   -- graceful stop (used on supervisors)
  deriving Repr

def lookupName (s : S) (n : Nat) : Option Nat := (s.names.find? (·.1 == n)).map (·.2)

def setActor (s : S) (a : Nat) (f : Actor → Actor) : S := { s with actors := s.actors.modify a f }

/-- a lifecycle event reaches a supervisor: handled (logged) if it is running, queued on its
supervision port while it is still starting, lost if it has stopped -/
def pushEvent (s : S) (sup : Nat) (child : Nat) (e : Ev) : S :=
  match s.actors[sup]? with
  | some x =>
    if x.phase == .running then { s with events := s.events ++ [(sup, child, e)] }
    else if x.phase == .starting then setActor s sup (fun x => { x with pending := x.pending ++ [(child, e)] })
    else s
  | none => s

/-- Everything an exiting cell gives back, in one step (the model is at quiescent-point
granularity): its name, its group memberships and monitors, its queued mail (ports answered
`SenderError`), its link. -/
def release (s : S) (a : Nat) : S :=
  match s.actors[a]? with
  | some x =>
    let s1 : S := { s with
      names := s.names.filter (fun nv => nv.2 != a),
      ports := (List.zip (List.range s.ports.length) s.ports).map (fun ip =>
        if x.mailbox.contains ip.1 && ip.2 == .waiting then PortSt.senderError else ip.2) }
    setActor s1 a (fun x => { x with phase := .stopped, groups := [], monitors := [], mailbox := [],
                                     casts := 0, linked := false, pending := [] })
  | none => s

/-- children linked under `a` (at this moment) -/
def childrenOf (s : S) (a : Nat) : List Nat :=
  (List.range s.actors.length).filter (fun c =>
    match s.actors[c]? with | some x => x.linked && x.sup == some a | none => false)

def isStarting (s : S) (a : Nat) : Bool :=
  match s.actors[a]? with | some x => x.phase == .starting | none => false

/-- a killed child: a running one just exits; one that was still starting (only thread-local
actors are linked that early) has failed its start -/
def killChild (s : S) (c : Nat) : S :=
  if isStarting s c then setActor (release s c) c (fun x => { x with failedStart := true })
  else release s c

/-- the children taken from one cell are killed — and thereby detached: a released cell is
linked nowhere -/
def killChildren (s : S) (kids : List Nat) : S := kids.foldl killChild s

/-- `ActorCell::terminate`: a worklist (`pending`) of cells whose child set is still to be taken.
Popping `c` takes its children (`take_children`: the set is emptied, the children detached), kills
them and pushes them. Killed running descendants report `ActorTerminated` ("killed") to their
supervisor — which is exiting and no longer records anything; killed starting descendants report
nothing at all. Fuel: see `Lemmas/Spawn.lean` `killSubtree_fuel` — `#linked actors + |worklist|`
steps always suffice, so the callers' `actors.length + 1` does. -/
def killSubtree : Nat → S → List Nat → S
  | 0, s, _ => s
  | _, s, [] => s
  | fuel + 1, s, c :: rest =>
    let kids := childrenOf s c
    killSubtree fuel (killChildren s kids) (kids ++ rest)

/-- the failed-start path: guard cleanup without a supervisor event -/
def failStart (s : S) (a : Nat) : S :=
  let s1 := killSubtree (s.actors.length + 1) s [a]
  setActor (release s1 a) a (fun x => { x with failedStart := true })

/-- exit of a RUNNING actor (kill / stop / failure): cleanup with the terminal event to the supervisor -/
def exitRunning (s : S) (a : Nat) (e : Ev) : S :=
  match s.actors[a]? with
  | some x =>
    let s1 := killSubtree (s.actors.length + 1) s [a]
    let s2 := match x.sup, x.linked with
      | some p, true => pushEvent s1 p a e
      | _, _ => s1
    release s2 a
  | none => s

/-- the start succeeded: the actor runs its loop — it handles the supervision events and the
messages queued while it was starting (queued calls are answered) -/
def becomeRunning (s : S) (a : Nat) (linked : Bool) : S :=
  match s.actors[a]? with
  | some x =>
    let s1 : S := { s with
      events := s.events ++ x.pending.map (fun ce => (a, ce.1, ce.2)),
      ports := (List.zip (List.range s.ports.length) s.ports).map (fun ip =>
        if x.mailbox.contains ip.1 && ip.2 == .waiting then PortSt.replied else ip.2) }
    setActor s1 a (fun x => { x with phase := .running, linked := linked, pending := [],
                                     handled := x.handled + x.casts + x.mailbox.length, casts := 0, mailbox := [] })
  | none => s

def supAccepts (s : S) (p : Nat) : Bool :=
  match s.actors[p]? with
  | some x => x.phase != .stopped     -- running or starting (`< Draining`)
  | none => false

/-- the requested name is taken -/
def clashes (s : S) (name : Option Nat) : Bool :=
  match name with | some n => (lookupName s n).isSome | none => false

/-- the requested supervisor refuses the link (it is shutting down) -/
def refusedBy (s : S) (sup : Option Nat) : Bool :=
  match sup with | some p => !supAccepts s p | none => false

def step (s : S) : Op → S
  | .begin name sup =>
    let a := s.actors.length
    let clash := match name with | some n => (lookupName s n).isSome | none => false
    if clash then
      -- AlreadyRegistered: a cell that never existed for anybody else; nothing changes
      -- (an id is burnt: the model keeps a tombstone so that ids stay aligned with the code)
      { s with actors := s.actors ++ [⟨none, none, false, .stopped, true, [], [], [], 0, 0, false, [], none⟩] }
    else
      { s with actors := s.actors ++ [⟨name, sup, false, .starting, false, [], [], [], 0, 0, false, [], sup⟩],
               names := match name with | some n => s.names ++ [(n, a)] | none => s.names }
  | .beginTL name sup =>
    let a := s.actors.length
    if clashes s name then
      { s with actors := s.actors ++ [⟨none, none, false, .stopped, true, [], [], [], 0, 0, false, [], none⟩] }
    else if refusedBy s sup then
      -- "Supervisor is shutting down": the guard cleans up before `pre_start` ever ran
      { s with actors := s.actors ++ [⟨name, sup, false, .stopped, true, [], [], [], 0, 0, false, [], none⟩] }
    else
      { s with actors := s.actors ++ [⟨name, sup, sup.isSome, .starting, false, [], [], [], 0, 0, false, [], none⟩],
               names := match name with | some n => s.names ++ [(n, a)] | none => s.names }
  | .join a g => if isStarting s a then setActor s a (fun x => if x.groups.contains g then x else { x with groups := x.groups ++ [g] }) else s
  | .monitor a g => if isStarting s a then setActor s a (fun x => if x.monitors.contains g then x else { x with monitors := x.monitors ++ [g] }) else s
  | .selfsend a => if isStarting s a then setActor s a (fun x => { x with casts := x.casts + 1 }) else s
  | .selflink a w =>
    -- `SupervisionTree::link`: refused if `w` is shutting down; otherwise `w` takes the (single)
    -- supervisor slot — a link made earlier (thread-local early link) moves to `w`
    if isStarting s a && supAccepts s w && a != w then setActor s a (fun x => { x with sup := some w, linked := true }) else s
  | .spawnChild a =>
    if isStarting s a then
      -- the child's own pre_start succeeds at once and it links to `a` (Starting < Draining: accepted)
      pushEvent { s with actors := s.actors ++ [⟨none, some a, true, .running, false, [], [], [], 0, 0, true, [], none⟩] }
        a s.actors.length .started
    else s
  | .cast a => if isStarting s a then setActor s a (fun x => { x with casts := x.casts + 1 }) else s
  | .call a =>
    let p := s.ports.length
    if isStarting s a then
      setActor { s with ports := s.ports ++ [.waiting] } a (fun x => { x with mailbox := x.mailbox ++ [p] })
    else
      match s.actors[a]? with
      | some x => if x.phase == .running then
                    setActor { s with ports := s.ports ++ [.replied] } a (fun x => { x with handled := x.handled + 1 })
                  else { s with ports := s.ports ++ [.sendErr] }
      | none => { s with ports := s.ports ++ [.sendErr] }
  | .finish a o =>
    if !isStarting s a then s else
    match o with
    | .ok =>
      match s.actors[a]? with
      | some x =>
        (match x.req with
         | some p =>
           -- `try_link(requested supervisor)`: on success it replaces whatever link pre_start made
           if supAccepts s p then
             pushEvent (becomeRunning (setActor s a (fun x => { x with sup := some p })) a true) p a .started
           else failStart s a                      -- "Supervisor is shutting down"
         | none =>
           -- nothing (more) to link: the actor runs under whatever link exists (none, the
           -- thread-local early link, or one pre_start made itself)
           if x.linked then
             (match x.sup with
              | some w => pushEvent (becomeRunning s a true) w a .started
              | none => becomeRunning s a true)
           else becomeRunning s a false)
      | none => s
    | _ => failStart s a
  | .cut a => if isStarting s a then failStart s a else s
  | .kill a =>
    match s.actors[a]? with
    | some x =>
      (match x.phase with
       | .starting => failStart s a                -- "Actor killed during startup"
       | .running => exitRunning s a .terminated
       | .stopped => s)
    | none => s
  | .stop a =>
    match s.actors[a]? with
    | some x => if x.phase == .running then exitRunning s a .terminated else s
    | none => s

def run (ops : List Op) : S := ops.foldl step init

/-! ### the property predicate -/

/-- what "leaves nothing behind" means for one actor record of a failed start -/
def cleanActor (s : S) (a : Nat) (x : Actor) : Bool :=
  x.phase == .stopped && x.groups.isEmpty && x.monitors.isEmpty && !x.linked &&
  x.mailbox.isEmpty && x.casts == 0 && x.handled == 0 && x.pending.isEmpty &&
  s.names.all (fun nv => nv.2 != a) &&
  s.events.all (fun pce => pce.2.1 != a)

def ok (s : S) : Bool :=
  (List.zip (List.range s.actors.length) s.actors).all (fun ax =>
    !ax.2.failedStart || cleanActor s ax.1 ax.2)

end Spawn
