import RactorModel.Lemmas.FactoryStop
import RactorModel.Lemmas.FactoryNoPanic

/-! Run-level discard limit (C15): apart from `maybe_enqueue` no function of the factory lengthens the factory
queue — every other function leaves a sublist (same order) — and nothing but `UpdateSettings` touches the limit.
Hence with settings that are never changed the bound of `maybe_enqueue` holds after EVERY operation sequence. -/

namespace Factory

/-- the factory queue only lost jobs (in order); limit settings and configuration untouched -/
structure QSub (w w' : W) : Prop where
  queue : w'.queue.Sublist w.queue
  disc : w'.disc = w.disc
  cfg : w'.cfg = w.cfg

theorem QSub.refl (w : W) : QSub w w := ⟨List.Sublist.refl _, rfl, rfl⟩
theorem QSub.trans {a b c : W} (h1 : QSub a b) (h2 : QSub b c) : QSub a c :=
  ⟨h2.queue.trans h1.queue, h2.disc.trans h1.disc, h2.cfg.trans h1.cfg⟩

theorem qsub_availChange (w : W) (wid : Nat) (b : Bool) : QSub w (w.availChange wid b) := by
  unfold W.availChange; split
  · split <;> exact ⟨List.Sublist.refl _, rfl, rfl⟩
  · exact ⟨List.Sublist.refl _, rfl, rfl⟩

theorem qsub_choose (w : W) (j : Job) (hint : Option Nat) : QSub w (w.chooseTargetWorker j hint).2 := by
  unfold W.chooseTargetWorker
  split
  · split
    · exact ⟨List.Sublist.refl _, rfl, rfl⟩
    · split
      · exact ⟨List.Sublist.refl _, rfl, rfl⟩
      · split <;> exact ⟨List.Sublist.refl _, rfl, rfl⟩
  · split <;> exact ⟨List.Sublist.refl _, rfl, rfl⟩
  · split
    · exact ⟨List.Sublist.refl _, rfl, rfl⟩
    · split
      · exact ⟨List.Sublist.refl _, rfl, rfl⟩
      · split <;> exact ⟨List.Sublist.refl _, rfl, rfl⟩
  · split
    · exact ⟨List.Sublist.refl _, rfl, rfl⟩
    · split <;> exact ⟨List.Sublist.refl _, rfl, rfl⟩
  · split <;> exact ⟨List.Sublist.refl _, rfl, rfl⟩

theorem qsub_routeInner (w : W) (j : Job) (hint : Option Nat) : QSub w (w.routeInner j hint).2 := by
  unfold W.routeInner
  have hs := qsub_choose w j hint
  cases hc : w.chooseTargetWorker j hint with
  | mk t w1 =>
    rw [hc] at hs
    simp only at hs ⊢
    cases t with
    | none => exact hs
    | some wid =>
      simp only
      cases hg : getW w1.pool wid with
      | none => exact hs
      | some p => exact hs.trans ⟨List.Sublist.refl _, rfl, rfl⟩

theorem qsub_routeLimited (w : W) (j : Job) (hint : Option Nat) : QSub w (w.routeLimited j hint).2 := by
  unfold W.routeLimited
  split
  · exact qsub_routeInner w j hint
  · rename_i c lb _
    simp only
    have h0 : QSub w { w with rl := some (c, (LeakyBucket.check c lb w.env.now).1) } := ⟨List.Sublist.refl _, rfl, rfl⟩
    split
    · split
      · split
        · rename_i hh _
          exact h0.trans (qsub_availChange _ hh true)
        · exact h0
      · exact h0
    · have hi := qsub_routeInner { w with rl := some (c, (LeakyBucket.check c lb w.env.now).1) } j hint
      cases hr : W.routeInner { w with rl := some (c, (LeakyBucket.check c lb w.env.now).1) } j hint with
      | mk r w2 =>
        rw [hr] at hi
        simp only at hi ⊢
        split
        · exact h0.trans (hi.trans ⟨List.Sublist.refl _, rfl, rfl⟩)
        · exact h0.trans hi

theorem qsub_routeMessage (w : W) (j : Job) (hint : Option Nat) : QSub w (w.routeMessage j hint).2 := by
  unfold W.routeMessage
  have hi := qsub_routeLimited w j hint
  cases hr : w.routeLimited j hint with
  | mk r w2 => rw [hr] at hi; exact hi.trans ⟨List.Sublist.refl _, rfl, rfl⟩

theorem qsub_dropExpiredHead (fuel : Nat) (w : W) : QSub w (W.dropExpiredHead fuel w) := by
  induction fuel generalizing w with
  | zero => exact QSub.refl w
  | succ fuel ih =>
    unfold W.dropExpiredHead
    split
    · split
      · split
        · refine QSub.trans ?_ (ih _)
          exact ⟨List.Sublist.refl _, rfl, rfl⟩
        · exact QSub.refl w
      · exact QSub.refl w
    · exact QSub.refl w

theorem qsub_routeLoop (hint : Option Nat) (fuel : Nat) (w : W) : QSub w (W.routeLoop hint fuel w) := by
  induction fuel generalizing w with
  | zero => exact QSub.refl w
  | succ fuel ih =>
    unfold W.routeLoop
    split
    · exact QSub.refl w
    · rename_i j _
      have hs := qsub_choose w j hint
      cases hc : w.chooseTargetWorker j hint with
      | mk t w1 =>
        rw [hc] at hs
        simp only at hs ⊢
        cases t with
        | none => exact hs
        | some worker =>
          simp only
          cases hp : qPopFront w1.cfg w1.queue with
          | none => exact hs
          | some jq =>
            obtain ⟨j', q⟩ := jq
            simp only
            have h1 : QSub w { w1 with queue := q } := hs.trans ⟨List.Sublist.refl _, rfl, rfl⟩
            have hr := qsub_routeMessage { w1 with queue := q } j' (some worker)
            cases hrm : W.routeMessage { w1 with queue := q } j' (some worker) with
            | mk r w2 =>
              rw [hrm] at hr
              cases r with
              | handled => exact h1.trans hr
              | rateLimited =>
                simp only
                refine (h1.trans hr).trans (QSub.trans ?_ (ih _))
                exact ⟨List.Sublist.refl _, rfl, rfl⟩
              | backlog =>
                simp only
                exact (h1.trans hr).trans ⟨List.Sublist.refl _, rfl, rfl⟩

theorem qsub_tryRoute (w : W) (hint : Option Nat) : QSub w (w.tryRouteNextActiveJob hint) := by
  unfold W.tryRouteNextActiveJob
  exact (qsub_dropExpiredHead _ w).trans (qsub_routeLoop _ _ _)

theorem qsub_growOne (w : W) (wid : Nat) : QSub w (w.growOne wid) := by
  unfold W.growOne
  split
  · dsimp only
    split
    · apply QSub.trans _ (qsub_availChange _ _ _)
      exact ⟨List.Sublist.refl _, rfl, rfl⟩
    · exact ⟨List.Sublist.refl _, rfl, rfl⟩
  · dsimp only
    apply QSub.trans _ (qsub_availChange _ _ _)
    exact ⟨List.Sublist.refl _, rfl, rfl⟩

theorem qsub_foldl {f : W → Nat → W} (hf : ∀ w k, QSub w (f w k)) (l : List Nat) (w : W) : QSub w (l.foldl f w) := by
  induction l generalizing w with
  | nil => exact QSub.refl w
  | cons a l ih => exact (hf w a).trans (ih _)

theorem qsub_growPool (w : W) (n : Nat) : QSub w (w.growPool n) := by
  unfold W.growPool; exact qsub_foldl (fun w k => qsub_growOne w _) _ w

theorem qsub_shrinkOne (w : W) (wid : Nat) : QSub w (w.shrinkOne wid) := by
  unfold W.shrinkOne
  split
  · split
    · exact ⟨List.Sublist.refl _, rfl, rfl⟩
    · exact (qsub_availChange w wid false).trans ⟨List.Sublist.refl _, rfl, rfl⟩
  · exact QSub.refl w

theorem qsub_shrinkPool (w : W) (n : Nat) : QSub w (w.shrinkPool n) := by
  unfold W.shrinkPool; exact qsub_foldl (fun w k => qsub_shrinkOne w _) _ w

theorem qsub_flushAfterGrow (fuel : Nat) (w : W) : QSub w (W.flushAfterGrow fuel w) := by
  induction fuel generalizing w with
  | zero => exact QSub.refl w
  | succ fuel ih =>
    unfold W.flushAfterGrow
    simp only
    split
    · exact QSub.refl w
    · split
      · exact qsub_tryRoute w none
      · exact (qsub_tryRoute w none).trans (ih _)

theorem qsub_resizePool (w : W) (n : Nat) : QSub w (w.resizePool n) := by
  unfold W.resizePool
  split
  · exact QSub.refl w
  · simp only
    split
    · apply QSub.trans _ (qsub_flushAfterGrow _ _)
      exact (qsub_growPool w _).trans ⟨List.Sublist.refl _, rfl, rfl⟩
    · split
      · exact (qsub_shrinkPool w _).trans ⟨List.Sublist.refl _, rfl, rfl⟩
      · exact ⟨List.Sublist.refl _, rfl, rfl⟩

theorem qsub_ite (c : Prop) [Decidable c] (w a b : W) (ha : QSub w a) (hb : QSub w b) : QSub w (if c then a else b) := by
  split <;> assumption

theorem qsub_workerFinishedJob (w : W) (who key : Nat) : QSub w (w.workerFinishedJob who key) := by
  unfold W.workerFinishedJob
  split
  · rename_i p _
    cases hwc : p.workerComplete w.env key with
    | mk p' e' =>
      simp only
      have h1 : QSub w { w with pool := setW w.pool who p', env := e' } := ⟨List.Sublist.refl _, rfl, rfl⟩
      split
      · split
        · exact ⟨List.Sublist.refl _, rfl, rfl⟩
        · exact h1
      · apply qsub_ite
        · exact (h1.trans (qsub_tryRoute _ _)).trans (qsub_availChange _ _ _)
        · exact h1.trans (qsub_tryRoute _ _)
  · exact qsub_tryRoute w _

theorem qsub_removeExpired (w : W) : QSub w w.removeExpired := by
  unfold W.removeExpired
  split
  · exact ⟨List.Sublist.refl _, rfl, rfl⟩
  · exact QSub.refl w

theorem qsub_calcRest (w : W) : QSub w w.calcRest := by
  unfold W.calcRest
  exact (qsub_removeExpired w).trans ⟨List.Sublist.refl _, rfl, rfl⟩

theorem qsub_afterReplace (w : W) (wid : Nat) : QSub w (w.afterReplace wid) := by
  unfold W.afterReplace
  cases hret : w.retireIdleDrainingWorker wid with
  | some w2 =>
    simp only
    unfold W.retireIdleDrainingWorker at hret
    split at hret
    · split at hret
      · simp only [Option.some.injEq] at hret; subst hret
        exact ⟨List.Sublist.refl _, rfl, rfl⟩
      · simp at hret
    · simp at hret
  | none =>
    simp only
    apply qsub_ite
    · exact (qsub_tryRoute _ _).trans (qsub_availChange _ _ _)
    · exact qsub_tryRoute _ _

theorem qsub_handleSupervisorEvt (w : W) (who : Nat) : QSub w (w.handleSupervisorEvt who) := by
  unfold W.handleSupervisorEvt
  split
  · exact QSub.refl w
  · rename_i wid _
    split
    · exact QSub.refl w
    · rename_i p _
      simp only
      cases hrw : p.replaceWorker (w.env.spawn wid w.nextAid) w.nextAid with
      | mk p' e' =>
        simp only
        refine QSub.trans ?_ (qsub_afterReplace _ wid)
        exact ⟨List.Sublist.refl _, rfl, rfl⟩


end Factory
