/-!
# Model `Timers` (C12) — `ractor/src/time.rs` on tokio's paused clock

Core Lean only. One target actor, any number of timer tasks, a virtual clock in **µs**; periods
and clock advances are arbitrary numbers of microseconds.

Runtime axiom (tokio's timer wheel, stated explicitly as `wheelDeadline`): the wheel has 1 ms
granularity and rounds deadlines UP — a `Sleep` with exact deadline `x` (µs since the runtime
started) is registered at tick `deadline_to_tick(x) = ⌈x / 1 ms⌉` and completes in the first
driver turn whose clock has reached that tick, i.e. as soon as `now ≥ ceilMs x`. `Interval` re-arms
its `Sleep` at the exact instants `armed + k·p` (no accumulated rounding), each rounded up the same
way, so several ticks of a sub-millisecond period complete back to back in one poll.

What is modelled, line by line from `time.rs`:

* `send_after(p)`  : `spawn(async { sleep(p).await; actor.send_message(msg()) })` — the `Sleep`
  is created at the task's **first poll** (`armed`), the deadline is `armed + p`, the message
  builder is called once, the send result is the task's output (`ok` / `err`).
* `send_interval(p)`: `interval(p)` created at the first poll, the first tick (deadline = that
  very instant, rounded up by the wheel: immediately on the millisecond grid) is skipped, then `while ACTIVE_STATES.contains(status) { tick().await;
  if send(msg()).is_err() { break } }`.  tokio's `Interval` (default `Burst`) ticks at
  `armed + k·p`, so the deadline of the next tick is `armed + (attempts+1)·p`.
* `exit_after(p)` / `kill_after(p)`: `sleep(p)` then
  `stop(Some(format!("Exit after {}ms", p.as_millis())))` (the millisecond count TRUNCATES) / `kill()`.
* `JoinHandle::abort` : a pending task never runs again (`cancelled`).
* dropping the `JoinHandle` (`dropHandle i`) DETACHES the task: it runs on exactly as if the handle
  were held; only the handle's own answer can no longer be read (`State.dropped`, a ghost set that no
  step reads). An `AbortHandle` taken before the drop still aborts.
* `send_interval(Duration::ZERO)`: `tokio::time::interval` asserts `period > 0` — the assertion is
  the first thing the spawned task does, so the task PANICS at its first poll: nothing is ever sent, the
  `JoinHandle` yields a `JoinError` that `is_panic` (`Res.panicked`). The API call itself returns normally.
* the free functions take an `ActorCell` and a caller-chosen message type: if it is not the target's
  (`createX`, `Timer.typed = false`), `send_message` fails with `InvalidActorType` whatever the status
  (`Timer.canSend`): `send_after` calls the builder once and reports the error, `send_interval`
  ticks once, calls the builder, and leaves its loop through the `break` (the only way the `break`
  is reached while the target is still active).
* huge periods (`Duration::MAX`, `u64::MAX` µs): the model's deadline is the exact `armed + p`. tokio
  saturates (`sleep`: `Instant::far_future()` ≈ now + 30 years when `now + p` overflows; `Interval`:
  `timeout.checked_add(period).unwrap_or_else(far_future)`), which differs from the exact deadline only
  beyond 30 years of virtual time — never reached by the tie (`C12.beyond_horizon`).
* target: `send_message` is refused once the status is ≥ Draining (`closedAt`); `stop` and `kill`
  go to one-shot ports (the first request wins) and are acted on when the target's task next runs,
  kill before stop before messages (`Target.run`); `drain()` closes admission at once, the
  backlog is still handled, then the actor exits with reason `"Drained"`.
* target FAILURE (`fail`, `Reason.failed`): the harness casts a message on which the handler returns `Err`
  (`Target.poison` = its position in the mailbox). When the target's task reaches it — kill and stop
  requests come first — the messages ahead of it have been handled, the rest of the mailbox is dropped,
  the status becomes `Stopping` then `Stopped` WITHOUT `post_stop` (a gate does not hold it), and the
  supervisor gets `ActorFailed`. From then on the target refuses every send like any stopped target.
* `post_stop`: when the message loop ends by a stop or a drain the status becomes `Stopping`
  (`closedAt`) and `post_stop` runs; the actor is gone — its supervisor is told, `exit` — only when
  `post_stop` returns. The harness can gate `post_stop` (`hold` arms the gate, `psrelease` opens
  it), so that timers expire, are created and tick while the target sits in `post_stop`
  (`Target.stopping`); a kill skips `post_stop`, and a kill that arrives during `post_stop` cancels it.

Small steps (`Op`): `tick d` moves the clock, `fire i` polls timer task `i` once, `target` lets the
target's task run until idle, `abort i`, `stop/kill/drain` are API calls on the target from outside,
`create`.  Theorems in `Props/C12.lean` quantify over all lists of small steps.  The harness
executes *macro* ops (`MOp`) at quiescent points of a `current_thread` runtime; `expand` gives
their small-step schedule (checked against the real code op by op).
-/

namespace Timers

inductive Kind | sendAfter | interval | exitAfter | killAfter
  deriving DecidableEq, Repr

/-- Outcome of the timer's `JoinHandle`. -/
inductive Res | pending | ok | err | cancelled
  /-- the task panicked (`JoinError::is_panic`): `tokio::time::interval` asserts `period > 0` -/
  | panicked
  deriving DecidableEq, Repr

inductive Reason | manual | drained | killed | exitAfter (ms : Nat)
  /-- the actor FAILED: its message handler returned `Err` (the supervisor gets `ActorFailed`) -/
  | failed
  deriving DecidableEq, Repr

/-- The reason string the supervisor sees. `exitAfter` is the documented
`format!("Exit after {}ms", period.as_millis())`. -/
def Reason.render : Reason → String
  | .manual => "manual"
  | .drained => "Drained"
  | .killed => "killed"
  | .exitAfter ms => "Exit after " ++ toString ms ++ "ms"
  | .failed => "<failed> poison"

structure Timer where
  kind : Kind
  period : Nat
  /-- clock value when the API call was made -/
  created : Nat
  /-- clock value at the first poll of the task (where `sleep`/`interval` is created) -/
  armed : Option Nat := none
  /-- clock values at which the task acted: called the message builder and tried to send
  (`sendAfter`, `interval`), called `stop` (`exitAfter`) or `kill` (`killAfter`); oldest first -/
  sentAt : List Nat := []
  res : Res := .pending
  /-- clock value at which the task ended (returned or was aborted) -/
  finAt : Option Nat := none
  /-- `interval` only: the first, "immediate" tick of `interval(period)` has completed. Its `Sleep`
  is asked for the instant of the first poll itself and is rounded up by the wheel like any other:
  an interval created off the millisecond grid reaches its loop head only at the next boundary. -/
  primed : Bool := false
  /-- `false`: created through the free functions `ractor::time::{send_after, send_interval}` with an
  `ActorCell` and a message type that is NOT the target's: `ActorCell::send_message` answers
  `MessagingErr::InvalidActorType` before it even looks at the status — every send fails -/
  typed : Bool := true
  deriving DecidableEq, Repr

/-- `x` µs rounded up to a whole number of milliseconds -/
def ceilMs (x : Nat) : Nat := (x + 999) / 1000 * 1000

/-- RUNTIME AXIOM (tokio timer wheel, 1 ms granularity, deadlines rounded up): a sleep created at
`armed` for `p` µs completes as soon as the clock has reached `wheelDeadline armed p`. -/
def wheelDeadline (armed p : Nat) : Nat := ceilMs (armed + p)

/-- the exact instant the task's current `Sleep` was asked for, given the instant `a` of its first
poll: `a + p` for the one-shot timers, `a + (k+1)·p` for the k+1-st tick of an interval -/
def Timer.exact (τ : Timer) (a : Nat) : Nat := a + (τ.sentAt.length + 1) * τ.period

/-- Deadline at which the wheel completes that `Sleep`. -/
def Timer.deadline (τ : Timer) (a : Nat) : Nat := wheelDeadline a ((τ.sentAt.length + 1) * τ.period)

/-- `Duration::as_millis` of a period in µs -/
def asMillis (p : Nat) : Nat := p / 1000

def Kind.oneShot : Kind → Bool
  | .interval => false
  | _ => true

def Kind.sends : Kind → Bool
  | .sendAfter | .interval => true
  | _ => false

structure Target where
  killReq : Bool := false
  stopReq : Option Reason := none
  draining : Bool := false
  /-- since when `send_message` is refused (status ≥ Draining) -/
  closedAt : Option Nat := none
  exit : Option (Reason × Nat) := none
  /-- accepted, not yet handled: (timer id, k) -/
  mbox : List (Nat × Nat) := []
  /-- handled: (timer id, k, time) -/
  handled : List (Nat × Nat × Nat) := []
  /-- ghost: `stop`/`kill` was called from outside (not by a timer) -/
  manualStop : Bool := false
  manualKill : Bool := false
  /-- harness: `post_stop` waits for `psrelease` -/
  psGate : Bool := false
  /-- the message loop has ended (status `Stopping`) and `post_stop` is running: the exit
  reason to come and the instant the loop ended -/
  stopping : Option (Reason × Nat) := none
  /-- the target is still `Starting`: it sits in (a gated) `post_start`, its message loop has not begun.
  Sends are accepted and queue up (`Starting < Draining`, and `ACTIVE_STATES` contains `Starting`), a stop
  request waits in its port, only the kill signal is looked at (`run_with_signal`) -/
  starting : Bool := false
  /-- harness: a message on which the handler returns `Err` is in the mailbox, behind this many messages -/
  poison : Option Nat := none
  /-- ghost: the harness sent such a message -/
  manualFail : Bool := false
  deriving DecidableEq, Repr

/-- `send_message` succeeds (status < Draining and admission open). -/
def Target.accepts (T : Target) : Bool := T.closedAt.isNone
/-- `ACTIVE_STATES.contains(&actor.get_status())` -/
def Target.active (T : Target) : Bool := T.closedAt.isNone

/-- `actor.send_message::<TMessage>(msg)` of this timer succeeds: right message type, status < Draining -/
def Timer.canSend (τ : Timer) (T : Target) : Bool := T.accepts && τ.typed

def Target.push (T : Target) (m : Nat × Nat) : Target := { T with mbox := T.mbox ++ [m] }

/-- `actor.stop(Some(reason))`: one-shot port, the first request wins, ignored when gone. -/
def Target.stop (T : Target) (r : Reason) : Target :=
  if T.exit.isSome || T.stopReq.isSome then T else { T with stopReq := some r }

/-- `actor.kill()` -/
def Target.kill (T : Target) : Target :=
  if T.exit.isSome then T else { T with killReq := true }

/-- `actor.drain()`: closes admission and publishes Draining synchronously. -/
def Target.drain (T : Target) (now : Nat) : Target :=
  if T.exit.isSome then T
  else { T with draining := true, closedAt := some (T.closedAt.getD now) }

def Target.exitWith (T : Target) (r : Reason) (now : Nat) : Target :=
  { T with exit := some (r, now), closedAt := some (T.closedAt.getD now), mbox := [], stopping := none,
           poison := none }

/-- the message loop ends with reason `r`: status `Stopping`, the mailbox is never looked at again,
`post_stop` starts — and returns at once unless the harness gates it -/
def Target.endLoop (T : Target) (r : Reason) (now : Nat) : Target :=
  if T.psGate then { T with stopping := some (r, now), closedAt := some (T.closedAt.getD now), mbox := [],
                            poison := none }
  else T.exitWith r now

/-- harness: `cast` of a message the handler fails on (accepted like any message) -/
def Target.poisonMsg (T : Target) : Target :=
  if T.accepts && T.poison.isNone then { T with poison := some T.mbox.length, manualFail := true } else T

/-- The target's task runs until idle: kill > stop > messages (> drain marker); inside a gated
`post_stop` only a kill is looked at. -/
def Target.run (T : Target) (now : Nat) : Target :=
  if T.exit.isSome then T
  else if T.killReq then T.exitWith .killed now
  else if T.starting then T
  else if T.stopping.isSome then T
  else match T.stopReq with
    | some r => T.endLoop r now
    | none =>
      match T.poison with
      | some n =>
        -- the handler returns `Err` on the poison message: what was ahead of it has been handled, the
        -- rest is dropped, `post_stop` is NOT run, the supervisor gets `ActorFailed`
        ({ T with handled := T.handled ++ (T.mbox.take n).map (fun (m : Nat × Nat) => (m.1, m.2, now)), mbox := [] }).exitWith .failed now
      | none =>
        let T' := { T with handled := T.handled ++ T.mbox.map (fun m => (m.1, m.2, now)), mbox := [] }
        if T.draining then T'.endLoop .drained now else T'

/-- harness: `post_stop` may return; if the target sits in it, the actor exits now -/
def Target.release (T : Target) (now : Nat) : Target :=
  match T.stopping with
  | some (r, _) => { T with psGate := false }.exitWith r now
  | none => { T with psGate := false }

def Timer.finish (τ : Timer) (r : Res) (now : Nat) : Timer := { τ with res := r, finAt := some now }

/-- the task acts at `now` (calls the message builder and tries to send, or calls stop / kill) -/
def Timer.attempt (τ : Timer) (now : Nat) : Timer := { τ with sentAt := τ.sentAt ++ [now] }

/-- The interval task is inside `timer.tick().await` of the loop body with first-poll instant `a`.
`fuel` bounds the number of burst ticks delivered in one poll (see `Lemmas`: `now + 1` suffices). -/
def ivAwait (now id a : Nat) : Nat → Timer → Target → Timer × Target
  | fuel, τ, T =>
    if τ.deadline a ≤ now then
      -- tick completed; `msg()` is called, then `send_message`
      let k := τ.sentAt.length + 1
      let τ' := τ.attempt now
      if τ.canSend T then
        let T' := T.push (id, k)
        -- loop head: `while ACTIVE_STATES.contains(&actor.get_status())`
        if !T'.active then (τ'.finish .ok now, T')
        else match fuel with
          | 0 => (τ', T')
          | f + 1 => ivAwait now id a f τ' T'
      else (τ'.finish .ok now, T)   -- `break`
    else (τ, T)

/-- at the first poll `sleep(period)` / `interval(period)` is created: the timer is armed -/
def Timer.arm (τ : Timer) (now : Nat) : Timer :=
  { τ with armed := some (τ.armed.getD now), primed := τ.armed.isSome && τ.primed }

def Timer.prime (τ : Timer) : Timer := { τ with primed := true }

/-- One poll of an armed, pending timer task (`a` = instant of its first poll). -/
def fireArmed (now id a : Nat) (τ : Timer) (T : Target) : Timer × Target :=
  match τ.kind with
  | .interval =>
    if τ.primed then ivAwait now id a (now + 1) τ T
    else if wheelDeadline a 0 ≤ now then
      -- the first tick completes and is skipped; loop head
      if !T.active then (τ.prime.finish .ok now, T) else ivAwait now id a (now + 1) τ.prime T
    else (τ, T)
  | .sendAfter =>
    if τ.deadline a ≤ now then
      if τ.canSend T then ((τ.attempt now).finish .ok now, T.push (id, τ.sentAt.length + 1))
      else ((τ.attempt now).finish .err now, T)
    else (τ, T)
  | .exitAfter =>
    if τ.deadline a ≤ now then
      ((τ.attempt now).finish .ok now, T.stop (.exitAfter (asMillis τ.period)))
    else (τ, T)
  | .killAfter =>
    if τ.deadline a ≤ now then ((τ.attempt now).finish .ok now, T.kill)
    else (τ, T)

/-- One poll of timer task `id`. -/
def fireOne (now id : Nat) (τ : Timer) (T : Target) : Timer × Target :=
  if τ.res ≠ .pending then (τ, T)
  -- `interval(Duration::ZERO)`: "`period` must be non-zero." — the task panics at its first poll
  else if τ.kind = .interval ∧ τ.period = 0 then (τ.finish .panicked now, T)
  else fireArmed now id (τ.armed.getD now) (τ.arm now) T

structure State where
  now : Nat := 0
  target : Target := {}
  timers : List Timer := []
  /-- ghost: clock values at the quiescent points of a macro run -/
  visits : List Nat := []
  /-- ghost: timers whose `JoinHandle` was dropped (the task is detached). No step reads it. -/
  dropped : List Nat := []
  deriving DecidableEq, Repr

inductive Op
  | create (k : Kind) (p : Nat)
  /-- the free function called with a message type that is not the target's -/
  | createX (k : Kind) (p : Nat)
  | tick (d : Nat)
  | fire (i : Nat)
  | abort (i : Nat)
  | stop | kill | drain
  | target
  | mark
  /-- harness: gate `post_stop` / open the gate -/
  | hold | psrelease
  /-- the `JoinHandle` of timer `i` is dropped -/
  | dropHandle (i : Nat)
  /-- harness: a message on which the target's handler fails is cast to the target -/
  | fail
  /-- harness: the target is (still) in its gated `post_start` / the gate opens, the message loop begins -/
  | startHold | started
  deriving DecidableEq, Repr

def step (s : State) : Op → State
  | .create k p => { s with timers := s.timers ++ [{ kind := k, period := p, created := s.now }] }
  | .createX k p => { s with timers := s.timers ++ [{ kind := k, period := p, created := s.now, typed := false }] }
  | .tick d => { s with now := s.now + d }
  | .fire i =>
    match s.timers[i]? with
    | none => s
    | some τ =>
      let r := fireOne s.now i τ s.target
      { s with timers := s.timers.set i r.1, target := r.2 }
  | .abort i =>
    match s.timers[i]? with
    | none => s
    | some τ =>
      if τ.res = .pending then { s with timers := s.timers.set i (τ.finish .cancelled s.now) } else s
  | .stop => { s with target := { s.target.stop .manual with manualStop := true } }
  | .kill => { s with target := { s.target.kill with manualKill := true } }
  | .drain => { s with target := s.target.drain s.now }
  | .target => { s with target := s.target.run s.now }
  | .mark => { s with visits := s.visits ++ [s.now] }
  | .hold => { s with target := { s.target with psGate := true } }
  | .psrelease => { s with target := s.target.release s.now }
  | .dropHandle i => { s with dropped := s.dropped ++ [i] }
  | .fail => { s with target := s.target.poisonMsg }
  | .startHold => { s with target := { s.target with starting := true } }
  | .started => { s with target := { s.target with starting := false } }

/-- everything but the ownership of the handles: clock, target, timers, quiescent points -/
def State.seen (s : State) : State := { s with dropped := [] }

def Op.isDrop : Op → Bool
  | .dropHandle _ => true
  | _ => false

def steps (s : State) (ops : List Op) : State := ops.foldl step s

def init : State := {}

/-! ### Macro operations executed by the harness at quiescent points -/

inductive MOp
  | create (k : Kind) (p : Nat)
  | createX (k : Kind) (p : Nat)
  | adv (d : Nat)
  | advAbort (d i : Nat)
  | advStop (d : Nat) | advKill (d : Nat) | advDrain (d : Nat)
  | abort (i : Nat)
  | stop | kill | drain
  | hold | psrelease
  /-- drop the `JoinHandle` of timer `i` (at a quiescent point / after moving the clock, before the
  time driver runs) -/
  | dropHandle (i : Nat)
  | advDrop (d i : Nat)
  | fail
  | advFail (d : Nat)
  | startHold | started
  deriving DecidableEq, Repr

def fireAll (n : Nat) : List Op := (List.range n).map Op.fire

/-- The small-step schedule of a macro op (see the scheduler analysis in `notes/C12.md`):
timer tasks woken by the time driver run before the target reacts; a task made runnable by the
harness itself (`abort`, `stop`, `kill`) runs before the time driver is polled. -/
def expand (s : State) : MOp → List Op
  | .create k p => [.create k p, .fire s.timers.length, .target, .mark]
  | .createX k p => [.createX k p, .fire s.timers.length, .target, .mark]
  | .adv d => [.tick d] ++ fireAll s.timers.length ++ [.target, .mark]
  | .advAbort d i => [.tick d, .abort i] ++ fireAll s.timers.length ++ [.target, .mark]
  | .advStop d => [.tick d, .stop, .target] ++ fireAll s.timers.length ++ [.target, .mark]
  | .advKill d => [.tick d, .kill, .target] ++ fireAll s.timers.length ++ [.target, .mark]
  | .advDrain d => [.tick d, .drain, .target] ++ fireAll s.timers.length ++ [.target, .mark]
  | .abort i => [.abort i, .mark]
  | .stop => [.stop, .target, .mark]
  | .kill => [.kill, .target, .mark]
  | .drain => [.drain, .target, .mark]
  | .hold => [.hold, .mark]
  | .psrelease => [.psrelease, .target, .mark]
  | .dropHandle i => [.dropHandle i, .mark]
  | .advDrop d i => [.tick d, .dropHandle i] ++ fireAll s.timers.length ++ [.target, .mark]
  | .fail => [.fail, .target, .mark]
  | .startHold => [.startHold, .mark]
  | .started => [.started, .target, .mark]
  | .advFail d => [.tick d, .fail, .target] ++ fireAll s.timers.length ++ [.target, .mark]

def mstep (s : State) (m : MOp) : State := steps s (expand s m)
def mrun (s : State) (ms : List MOp) : State := ms.foldl mstep s

/-! ### The property predicate `ok` (small-step) and `okPrompt` (quiescent runs)

Both are evaluated by the driver on a `State` reconstructed from what the *implementation*
reported, and are proved of every model run in `Props/C12.lean`. -/

/-- never early: the k-th action (1-based) happens no earlier than `base + k·p`. -/
def earlyOk (base p : Nat) : Nat → List Nat → Bool
  | _, [] => true
  | k, t :: ts => decide (base + (k + 1) * p ≤ t) && earlyOk base p (k + 1) ts

/-- no quiescent point `c` at or after the wheel deadline `ceilMs (base + k·p)` precedes the k-th
action: the k-th action happens at the first quiescent point that reaches its deadline. -/
def promptOk (base p : Nat) (visits : List Nat) : Nat → List Nat → Bool
  | _, [] => true
  | k, t :: ts =>
    visits.all (fun c => !decide (c < t) || decide (c < ceilMs (base + (k + 1) * p))) && promptOk base p visits (k + 1) ts

/-- one-shot timers act at most once; the handle tells what happened -/
def shotOk (τ : Timer) : Bool :=
  !τ.kind.oneShot ||
    (match τ.res with
     | .pending => τ.sentAt.isEmpty
     | .cancelled => τ.sentAt.isEmpty
     | .ok => τ.sentAt.length == 1
     | .err => τ.sentAt.length == 1 && τ.kind == .sendAfter
     | .panicked => false)

/-- a finished task acted for the last time no later than it finished -/
def finOk (now : Nat) (τ : Timer) : Bool :=
  match τ.finAt with
  | some tf => τ.res != .pending && decide (tf ≤ now) && τ.sentAt.all (fun t => decide (t ≤ tf))
  | none => τ.res == .pending

/-- dies with its target: at most one (failing) attempt after the target stopped accepting -/
def closedOk (cl : Option Nat) (τ : Timer) : Bool :=
  match cl with
  | some tc => !τ.kind.sends || decide ((τ.sentAt.filter (fun t => decide (tc < t))).length ≤ 1)
  | none => true

/-- the handle of `send_after` tells whether the message was accepted: `Ok` ⇒ the send happened no
later than the instant the target stopped accepting, `Err` ⇒ the target had stopped accepting -/
def acceptOk (cl : Option Nat) (τ : Timer) : Bool :=
  τ.kind != .sendAfter || !τ.typed ||
    (match τ.res with
     | .ok => (match cl with | some tc => τ.sentAt.all (fun t => decide (t ≤ tc)) | none => true)
     | .err => (match cl with | some tc => τ.sentAt.all (fun t => decide (tc ≤ t)) | none => false)
     | _ => true)

/-- only `send_interval(Duration::ZERO)` panics, and it never sends anything -/
def panicOk (τ : Timer) : Bool :=
  (τ.res != .panicked || (τ.kind == .interval && τ.period == 0)) &&
  (!(τ.kind == .interval && τ.period == 0) || τ.sentAt.isEmpty)

/-- a timer with the wrong message type tries once (the message builder runs), fails, and is done:
`send_after` never answers `Ok`, `send_interval` leaves its loop through the `break` -/
def mistypedOk (τ : Timer) : Bool :=
  τ.typed || !τ.kind.sends ||
    (decide (τ.sentAt.length ≤ 1) && (τ.res != .pending || τ.sentAt.isEmpty) &&
      !(τ.kind == .sendAfter && τ.res == .ok))

def timerOk (s : State) (τ : Timer) : Bool :=
  -- never early, measured from the API call
  earlyOk τ.created τ.period 0 τ.sentAt
  -- nothing in the future
  && τ.sentAt.all (fun t => decide (t ≤ s.now))
  && shotOk τ
  && (τ.kind.oneShot || τ.res != .err)
  && finOk s.now τ
  && closedOk s.target.closedAt τ
  && acceptOk s.target.closedAt τ
  && panicOk τ
  && mistypedOk τ

/-- Where an exit reason can come from. -/
def reasonOk (s : State) (r : Reason) (te : Nat) : Bool :=
  match r with
  | .manual => s.target.manualStop
  | .drained => true
  | .failed => true
  | .killed => s.target.manualKill ||
      s.timers.any (fun τ => τ.kind == .killAfter && τ.sentAt.any (fun t => decide (t ≤ te)))
  | .exitAfter ms =>
      s.timers.any (fun τ => τ.kind == .exitAfter && asMillis τ.period == ms && τ.sentAt.any (fun t => decide (t ≤ te)))

def handledOk (s : State) (h : Nat × Nat × Nat) : Bool :=
  match s.timers[h.1]? with
  | none => false
  | some τ => τ.kind.sends && decide (1 ≤ h.2.1) &&
      (match τ.sentAt[h.2.1 - 1]? with
       | some t => decide (t ≤ h.2.2)
       | none => false)

def exitOk (s : State) : Bool :=
  match s.target.exit with
  | some (r, te) => reasonOk s r te && decide (te ≤ s.now) &&
      (match s.target.closedAt with | some tc => decide (tc ≤ te) | none => false)
  | none => true

def closedLeOk (s : State) : Bool :=
  match s.target.closedAt with | some tc => decide (tc ≤ s.now) | none => true

def targetOk (s : State) : Bool :=
  exitOk s && closedLeOk s && s.target.handled.all (handledOk s)

def nodupB : List (Nat × Nat) → Bool
  | [] => true
  | x :: xs => !xs.contains x && nodupB xs

/-- DELIVERY level: no message — identified by (timer id, k), k = the number of the message-builder
call that made it — is handled twice (together with `handledOk`: every handled message is the one
made by the k-th attempt of a sending timer, handled no earlier than that attempt; so a one-shot's
message is handled at most once), and nothing is left in the mailbox of an actor that is gone. -/
def deliveredOk (s : State) : Bool :=
  nodupB (s.target.handled.map fun h => (h.1, h.2.1)) && (s.target.exit.isNone || s.target.mbox.isEmpty)

/-- the per-timer and target clauses -/
def ok1 (s : State) : Bool := s.timers.all (timerOk s) && targetOk s

/-- DELIVERY after the close: every handled message was SENT no later than the instant the target
stopped accepting — a timer whose target is no longer running delivers nothing -/
def sentBeforeCloseOk (s : State) : Bool :=
  match s.target.closedAt with
  | none => true
  | some tc => s.target.handled.all (fun h =>
      match s.timers[h.1]? with
      | some τ => (match τ.sentAt[h.2.1 - 1]? with | some t => decide (t ≤ tc) | none => true)
      | none => true)

def ok2 (s : State) : Bool := ok1 s && deliveredOk s

/-- the remaining exit reasons have a source too: `"Drained"` ⇒ `drain()` was called, `<failed>` ⇒ a
message the handler fails on was sent -/
def reasonSrcOk (s : State) : Bool :=
  match s.target.exit with
  | some (.failed, _) => s.target.manualFail
  | some (.drained, _) => s.target.draining
  | _ => true

/-- C12, clauses that hold for every schedule of the small steps. -/
def ok (s : State) : Bool := ok2 s && sentBeforeCloseOk s && reasonSrcOk s

/-- an interval whose target left the active states is gone within one period (wheel deadline) —
or, if it was created after that off the millisecond grid, at the next millisecond boundary -/
def diesOk (s : State) (τ : Timer) : Bool :=
  match s.target.closedAt with
  | some tc => !(τ.kind == .interval && τ.res == .pending) ||
      decide (s.now < ceilMs (tc + τ.period)) || decide (s.now < ceilMs τ.created)
  | none => true

def timerPromptOk (s : State) (τ : Timer) : Bool :=
  -- closed form, no drift: action k at the first quiescent point ≥ ceilMs (created + k·period)
  promptOk τ.created τ.period s.visits 0 τ.sentAt
  && diesOk s τ
  -- at a quiescent point every pending one-shot timer is strictly before its deadline
  && (!(τ.kind.oneShot && τ.res == .pending) || decide (s.now < ceilMs (τ.created + τ.period)))
  -- a zero-period interval is gone (panicked, or aborted) by the first quiescent point
  && !(τ.kind == .interval && τ.period == 0 && τ.res == .pending)

/-- POSITIVE half of `exit_after` / `kill_after` (quiescent points): once a `kill_after` has acted the
actor is gone; once an `exit_after` has acted it has at least stopped accepting (it is gone, or its
message loop has ended and it sits in `post_stop`) — unless it is still `Starting`: there the stop
request waits until the message loop begins -/
def stopsOk (s : State) (τ : Timer) : Bool :=
  (!(τ.kind == .killAfter && !τ.sentAt.isEmpty) || s.target.exit.isSome) &&
  (!(τ.kind == .exitAfter && !τ.sentAt.isEmpty) || s.target.closedAt.isSome || s.target.starting)

/-- DELIVERY, the positive half (quiescent points): as long as the target has never stopped
accepting and its message loop runs (it is not still `Starting`), every attempt made so far by a
(well-typed) sending timer has been handled -/
def allHandledOk (s : State) : Bool :=
  s.target.closedAt.isSome || s.target.starting ||
    s.timers.zipIdx.all (fun x => !x.1.kind.sends || !x.1.typed ||
      (List.range x.1.sentAt.length).all (fun j =>
        (s.target.handled.map (fun h => (h.1, h.2.1))).contains (x.2, j + 1)))

def okPrompt1 (s : State) : Bool := s.timers.all (timerPromptOk s)

/-- C12, clauses that hold at the quiescent points of a macro run. -/
def okPrompt (s : State) : Bool := okPrompt1 s && s.timers.all (stopsOk s) && allHandledOk s

end Timers
