import RactorModel.Lemmas.AdmissionIds

/-!
Invariant behind C02 (b) in oracle form: if the send of `m₂` started after the send of `m₁` had
returned `Ok` (`m₁ ∈ seenOk`, recorded by `m₂`'s first step), then `m₁ ≠ m₂`, `m₁` is in the channel
history, and — once `m₂` is there too — before `m₂`.
-/

namespace Admission

/-- some occurrence of `msg a` is followed by an occurrence of `msg b` -/
def beforeB (a b : Nat) : List Item → Bool
  | [] => false
  | x :: l => (x == .msg a && l.contains (.msg b)) || beforeB a b l

theorem beforeB_append (a b : Nat) (l r : List Item) (h : beforeB a b l = true) :
    beforeB a b (l ++ r) = true := by
  induction l with
  | nil => simp [beforeB] at h
  | cons x l ih =>
    simp only [beforeB, List.cons_append, Bool.or_eq_true, Bool.and_eq_true] at h ⊢
    rcases h with ⟨h1, h2⟩ | h
    · left; exact ⟨h1, by simp only [List.contains_eq_mem, List.mem_append, decide_eq_true_eq] at h2 ⊢; exact Or.inl h2⟩
    · right; exact ih h

theorem beforeB_snoc (a b : Nat) (l : List Item) (h : 0 < l.count (.msg a)) :
    beforeB a b (l ++ [.msg b]) = true := by
  induction l with
  | nil => simp at h
  | cons x l ih =>
    simp only [beforeB, List.cons_append, Bool.or_eq_true, Bool.and_eq_true]
    by_cases hx : x = .msg a
    · left; exact ⟨by simp [hx], by simp⟩
    · right
      apply ih
      have : (x == Item.msg a) = false := by simpa using hx
      simpa [List.count_cons, this] using h

/-- one append to the channel history keeps "`m₁` before `m₂` as soon as `m₂` is there" -/
theorem beforeB_step (l : List Item) (m1 m2 : Nat) (x : Item)
    (ih : 0 < l.count (.msg m2) → beforeB m1 m2 l = true) (h1 : 0 < l.count (.msg m1))
    (h2 : 0 < (l ++ [x]).count (.msg m2)) : beforeB m1 m2 (l ++ [x]) = true := by
  by_cases hc : 0 < l.count (.msg m2)
  · exact beforeB_append _ _ _ _ (ih hc)
  · have hx : x = .msg m2 := by
      by_cases hx : x = .msg m2
      · exact hx
      · exfalso
        have hb : (x == Item.msg m2) = false := by simpa using hx
        have : (l ++ [x]).count (.msg m2) = l.count (.msg m2) := by
          simp [List.count_cons, hb]
        omega
    subst hx
    exact beforeB_snoc _ _ _ h1

theorem okIds_contains (rets : List Ret) (m : Nat) (h : (okIds rets).contains m = true) :
    0 < rets.countP (Ret.okFor m) := by
  induction rets with
  | nil => simp [okIds] at h
  | cons r l ih =>
    simp only [okIds, List.contains_eq_mem, List.mem_append, decide_eq_true_eq] at h
    simp only [List.countP_cons]
    rcases h with h | h
    · have : Ret.okFor m r = true := by
        unfold Ret.okFor
        split at h <;> simp_all
      simp [this]
    · have := ih (by simpa using h)
      omega

theorem okIds_append (a b : List Ret) : okIds (a ++ b) = okIds a ++ okIds b := by
  induction a with
  | nil => rfl
  | cons r l ih => simp [okIds, ih, List.append_assoc]

def Frame.pastFirst (f : Frame) : Bool :=
  match f.pc with
  | .aLoad | .aCas _ | .box | .boxing | .enq | .rel _ | .mLoad (some _) | .mCas _ (some _)
  | .mEnq (some _) => true
  | _ => false

/-- a send frame of `m₂` that took its first step after `m₁` had returned `Ok` -/
def Frame.after (m1 m2 : Nat) (f : Frame) : Bool :=
  f.id == m2 && f.pastFirst && f.seenOk.contains m1

/-- a logged return of the send of `m₂` that started after `m₁` had returned `Ok` -/
def Ret.after (m1 m2 : Nat) (r : Ret) : Bool :=
  (match r.kind with | .send => true | _ => false) && r.id == m2 && r.seenOk.contains m1

structure OrdN (m1 m2 : Nat) (s : Shared) (A : Nat) : Prop where
  ne : 0 < A + s.rets.countP (Ret.after m1 m2) → m1 ≠ m2
  has1 : 0 < A + s.rets.countP (Ret.after m1 m2) → 0 < s.enq.count (.msg m1)
  ord : 0 < A + s.rets.countP (Ret.after m1 m2) → 0 < s.enq.count (.msg m2) →
    beforeB m1 m2 s.enq = true

set_option hygiene false in
macro "admission_ord_case" : tactic => `(tactic| (
  obtain ⟨h1, h2, h3⟩ := h
  obtain ⟨i1, i2⟩ := hid1
  obtain ⟨j1, j2⟩ := hid2
  obtain ⟨e1, l1⟩ := d1
  have hk := okIds_contains s.rets m1
  (try (cases ops <;> try (rename_i op ops'; cases op))) <;>
  (try (cases r)) <;> (try (cases ret <;> try (rename_i r; cases r))) <;>
  simp only [stepThread, finish, startOp, mRet, Option.getD] at hs <;> (repeat' (split at hs)) <;>
  (try (simp only [Option.some.injEq, Prod.mk.injEq, reduceCtorEq] at hs)) <;>
  (try (obtain ⟨rfl, rfl⟩ := hs)) <;>
  simp only [List.countP_cons, List.countP_append, List.countP_nil, Frame.after, Frame.pastFirst, Frame.pre,
    kindOf] at * <;>
  generalize List.countP (Frame.after m1 m2) rest = a at * <;>
  (try (simp only [Bool.false_eq_true, ↓reduceIte, Nat.add_zero, Bool.and_true, Bool.and_false,
    Bool.true_and, Bool.false_and] at *)) <;>
  (constructor <;>
    (try (simp only [List.countP_cons, List.countP_append, List.countP_nil, List.count_append,
      List.count_cons, List.count_nil, Ret.after])) <;>
    grind [beforeB_step, beforeB_append])))

section
variable {s s' : Shared} {rest stack' : List Frame} {id : Nat} {late bf : Bool} {ops : List Op}
  {sk : List Nat} {A A' P1 O1 E1 P2 O2 E2 : Nat} {seen : Word} {r : Res} {ret : Option Res} {m1 m2 : Nat}

set_option hygiene false in
macro "ord_lemma " n:ident pc:term : command => `(
  theorem $n (hs : stepThread s (⟨$pc, id, late, ops, bf, sk⟩ :: rest) = some (s', stack'))
    (d1 : Delta (Frame.after m1 m2) (⟨$pc, id, late, ops, bf, sk⟩ :: rest) stack' A A')
    (hid1 : IdN m1 s P1 O1 E1)
    (lp1 : List.countP (Frame.pre m1) (⟨$pc, id, late, ops, bf, sk⟩ :: rest) ≤ P1)
    (hid2 : IdN m2 s P2 O2 E2)
    (lp2 : List.countP (Frame.pre m2) (⟨$pc, id, late, ops, bf, sk⟩ :: rest) ≤ P2)
    (h : OrdN m1 m2 s A) : OrdN m1 m2 s' A' := by
  admission_ord_case)

ord_lemma ord_run Pc.run
ord_lemma ord_sStatus Pc.sStatus
ord_lemma ord_aLoad Pc.aLoad
ord_lemma ord_aCas (Pc.aCas seen)
ord_lemma ord_box Pc.box
ord_lemma ord_boxing Pc.boxing
ord_lemma ord_enq Pc.enq
ord_lemma ord_rel (Pc.rel r)
ord_lemma ord_dClose Pc.dClose
ord_lemma ord_dStatus Pc.dStatus
ord_lemma ord_mLoad (Pc.mLoad ret)
ord_lemma ord_mCas (Pc.mCas seen ret)
ord_lemma ord_mEnq (Pc.mEnq ret)
ord_lemma ord_bad Pc.bad
end

theorem ordN_stepThread {m1 m2 : Nat} {s s' : Shared} {stack stack' : List Frame}
    (hs : stepThread s stack = some (s', stack')) {A A' P1 O1 E1 P2 O2 E2 : Nat}
    (d1 : Delta (Frame.after m1 m2) stack stack' A A')
    (hid1 : IdN m1 s P1 O1 E1) (lp1 : stack.countP (Frame.pre m1) ≤ P1)
    (hid2 : IdN m2 s P2 O2 E2) (lp2 : stack.countP (Frame.pre m2) ≤ P2)
    (h : OrdN m1 m2 s A) : OrdN m1 m2 s' A' := by
  cases stack with
  | nil => simp [stepThread] at hs
  | cons f rest =>
    obtain ⟨pc, id, late, ops, bf, sk⟩ := f
    cases pc
    · exact ord_run hs d1 hid1 lp1 hid2 lp2 h
    · exact ord_sStatus hs d1 hid1 lp1 hid2 lp2 h
    · exact ord_aLoad hs d1 hid1 lp1 hid2 lp2 h
    · exact ord_aCas hs d1 hid1 lp1 hid2 lp2 h
    · exact ord_box hs d1 hid1 lp1 hid2 lp2 h
    · exact ord_boxing hs d1 hid1 lp1 hid2 lp2 h
    · exact ord_enq hs d1 hid1 lp1 hid2 lp2 h
    · exact ord_rel hs d1 hid1 lp1 hid2 lp2 h
    · exact ord_dClose hs d1 hid1 lp1 hid2 lp2 h
    · exact ord_dStatus hs d1 hid1 lp1 hid2 lp2 h
    · exact ord_mLoad hs d1 hid1 lp1 hid2 lp2 h
    · exact ord_mCas hs d1 hid1 lp1 hid2 lp2 h
    · exact ord_mEnq hs d1 hid1 lp1 hid2 lp2 h
    · exact ord_bad hs d1 hid1 lp1 hid2 lp2 h

theorem ordN_rx {m1 m2 : Nat} {s : Shared} {A : Nat} (tid : Tid) (h : OrdN m1 m2 s A) :
    OrdN m1 m2 (stepRx s tid) A := by
  obtain ⟨h1, h2, h3⟩ := h
  cases tid <;> simp only [stepRx] <;> (repeat' split) <;> constructor <;> simp_all

def OrdInv (m1 m2 : Nat) (g : G) : Prop := OrdN m1 m2 g.sh (cnt (Frame.after m1 m2) g)

theorem ordInv_init (m1 m2 : Nat) (progs : List (List Op)) : OrdInv m1 m2 (init progs) := by
  unfold OrdInv
  rw [cnt_init (Frame.after m1 m2) (fun _ => by simp [Frame.after, Frame.pastFirst])]
  constructor <;> simp [init]

theorem ordInv_step (m1 m2 : Nat) (g : G) (tid : Tid) (h1 : IdInv m1 g) (h2 : IdInv m2 g)
    (h : OrdInv m1 m2 g) : OrdInv m1 m2 (step g tid) := by
  cases tid with
  | t k =>
    simp only [step]
    split
    · exact h
    · rename_i stack hi
      split
      · exact h
      · rename_i s' stack' hs
        exact ordN_stepThread hs (delta_of_set _ g k s' stack stack' hi) h1 (cnt_ge _ g k stack hi)
          h2 (cnt_ge _ g k stack hi) h
  | recv => exact ordN_rx .recv h
  | rxStop => exact ordN_rx .rxStop h
  | rxClose => exact ordN_rx .rxClose h
  | rxFlush => exact ordN_rx .rxFlush h
  | setStatus st => exact ordN_rx (.setStatus st) h

theorem ordInv_run (m1 m2 : Nat) (g : G) (sched : List Tid) (h1 : IdInv m1 g) (h2 : IdInv m2 g)
    (h : OrdInv m1 m2 g) : OrdInv m1 m2 (run g sched) := by
  induction sched generalizing g with
  | nil => exact h
  | cons t l ih =>
    exact ih _ (idInv_step m1 g t h1) (idInv_step m2 g t h2) (ordInv_step m1 m2 g t h1 h2 h)

/-! ### From the channel order to the handling order -/

theorem indexOf?_none_iff (l : List Nat) (x : Nat) : indexOf? l x = none ↔ x ∉ l := by
  induction l with
  | nil => simp [indexOf?]
  | cons y l ih =>
    simp only [indexOf?]
    split
    · rename_i h; simp only [beq_iff_eq] at h; simp [h]
    · rename_i h
      simp only [beq_iff_eq] at h
      simp only [Option.map_eq_none_iff, ih, List.mem_cons, not_or]
      exact ⟨fun hn => ⟨h, hn⟩, fun hn => hn.2⟩

/-- In a prefix `d` of a list `d ++ r` in which `b` occurs at most once: if `a` occurs before `b`
in the whole list and `b` is in the prefix, then `a` is before `b` in the prefix's message ids. -/
theorem orderedIn_of_before (a b : Nat) (hab : a ≠ b) (d r : List Item)
    (hb : (d ++ r).count (.msg b) ≤ 1) (hbef : beforeB a b (d ++ r) = true) :
    orderedIn a b (msgIds d) = true := by
  induction d with
  | nil => simp [orderedIn, msgIds, indexOf?]
  | cons x d ih =>
    simp only [List.cons_append, beforeB, Bool.or_eq_true, Bool.and_eq_true] at hbef
    simp only [List.cons_append, List.count_cons] at hb
    cases x with
    | drain =>
      simp only [msgIds]
      apply ih
      · simpa using hb
      · rcases hbef with ⟨h, _⟩ | h
        · simp at h
        · exact h
    | msg i =>
      simp only [msgIds]
      by_cases hia : i = a
      · subst hia
        -- `a` is the head: its index is 0, `b`'s index (if any) is positive
        simp only [orderedIn, indexOf?, beq_self_eq_true, ↓reduceIte]
        have : (b == i) = false := by simpa using fun h => hab h.symm
        simp only [this, Bool.false_eq_true, ↓reduceIte]
        cases indexOf? (msgIds d) b <;> simp
      · have hne : (Item.msg i == Item.msg a) = false := by simpa using hia
        have hbef' : beforeB a b (d ++ r) = true := by
          rcases hbef with ⟨h, _⟩ | h
          · simp [hne] at h
          · exact h
        by_cases hib : i = b
        · -- `b` is the head and occurs once: it cannot occur again after `a`
          subst hib
          exfalso
          have hc : (d ++ r).count (.msg i) = 0 := by
            have : (Item.msg i == Item.msg i) = true := by simp
            simp only [this, ↓reduceIte] at hb
            omega
          -- beforeB a i l implies msg i ∈ l
          have hmem : ∀ l : List Item, beforeB a i l = true → 0 < l.count (.msg i) := by
            intro l
            induction l with
            | nil => simp [beforeB]
            | cons y l ihl =>
              simp only [beforeB, Bool.or_eq_true, Bool.and_eq_true, List.count_cons]
              rintro (⟨_, h⟩ | h)
              · have : 0 < l.count (.msg i) := List.count_pos_iff.mpr (by simpa using h)
                omega
              · have := ihl h; omega
          have := hmem _ hbef'
          omega
        · have hcb : (d ++ r).count (.msg b) ≤ 1 := by
            have : (Item.msg i == Item.msg b) = false := by simpa using hib
            simpa [this] using hb
          have := ih hcb hbef'
          simp only [orderedIn, indexOf?] at this ⊢
          have e1 : (a == i) = false := by simpa using fun h => hia h.symm
          have e2 : (b == i) = false := by simpa using fun h => hib h.symm
          simp only [e1, e2, Bool.false_eq_true, ↓reduceIte]
          cases h1 : indexOf? (msgIds d) a <;> cases h2 : indexOf? (msgIds d) b <;> simp_all

end Admission
