import RactorModel.Generated.Election
import RactorModel.Model.Election

/-!
# GenElection — abstraction from the `SessionElectionCandidate` structure and the
`elect_sessions` definition that `rs2lean` generates from `ractor_cluster/src/node.rs` to
`Model/Election.lean` (`Cand`, `elect`), stage by stage.
-/

namespace GenElection
open Generated.Election

def absCand (c : SessionElectionCandidate) : Election.Cand := ⟨c.actor_id, c.is_server, c.connection_id⟩
def concCand (c : Election.Cand) : SessionElectionCandidate := ⟨c.id, c.isServer, c.conn⟩

theorem absCand_concCand (c : Election.Cand) : absCand (concCand c) = c := rfl

theorem map_abs_conc (cs : List Election.Cand) : (cs.map concCand).map absCand = cs := by
  induction cs with
  | nil => rfl
  | cons c cs ih => simpa [absCand_concCand] using ih

theorem filter_abs (p : Election.Cand → Bool) (q : SessionElectionCandidate → Bool)
    (cs : List SessionElectionCandidate) (h : ∀ c, q c = p (absCand c)) :
    (cs.filter q).map absCand = (cs.map absCand).filter p := by
  induction cs with
  | nil => rfl
  | cons c cs ih => simp [List.filter_cons, h, ← ih]; split <;> simp

theorem dir_abs (ord : Ordering) (cs : List SessionElectionCandidate) :
    Election.dirFilter ord (cs.map absCand) =
      (if (cs.any (fun c => c.is_server) && cs.any (fun c => !c.is_server)) then
        match (match ord with
               | .lt => some false
               | .gt => some true
               | .eq => none : Option Bool) with
        | some b => cs.filter (fun c => decide (c.is_server = b))
        | _ => cs
       else cs).map absCand := by
  unfold Election.dirFilter
  simp only [List.any_map, Function.comp_def, absCand]
  split
  · cases ord <;> simp only []
    · exact (filter_abs _ _ cs (fun c => by cases h : c.is_server <;> simp [absCand, h])).symm
    · exact (filter_abs _ _ cs (fun c => by cases h : c.is_server <;> simp [absCand, h])).symm
  · rfl

theorem nonce_abs (cs : List SessionElectionCandidate) :
    Election.nonceFilter (cs.map absCand) =
      (match (cs.filterMap (fun (c : SessionElectionCandidate) => c.connection_id)).min? with
       | some m => cs.filter (fun (c : SessionElectionCandidate) => decide (c.connection_id = some m))
       | _ => cs).map absCand := by
  unfold Election.nonceFilter Election.minConn
  simp only [List.filterMap_map, Function.comp_def, absCand]
  split
  · rename_i m h
    simp only [h]
    exact (filter_abs _ _ cs (fun c => by cases h : decide (c.connection_id = some m) <;> simp_all [absCand])).symm
  · rename_i h
    simp only [h]

theorem tie_abs (cs : List SessionElectionCandidate) :
    Election.tieBreak (cs.map absCand) =
      (if (decide (cs.length > 1) && cs.all (fun c => c.is_server)) then
        cs.filter (fun c => decide (c.actor_id = Rust.unwrap ((cs.map (fun c => c.actor_id)).min?)))
       else cs).map absCand := by
  unfold Election.tieBreak
  simp only [List.all_map, List.length_map, List.map_map, Function.comp_def, absCand]
  split
  · rename_i hc
    have hne : cs.map (fun c => c.actor_id) ≠ [] := by
      intro h
      have : cs = [] := by simpa using h
      subst this
      simp at hc
    cases hm : (cs.map (fun c => c.actor_id)).min? with
    | none => exact absurd (List.min?_eq_none_iff.mp hm) hne
    | some w =>
      simp only [Rust.unwrap, Option.getD_some]
      exact (filter_abs _ _ cs (fun c => by cases h : decide (c.actor_id = w) <;> simp_all [absCand])).symm
  · rfl

end GenElection
