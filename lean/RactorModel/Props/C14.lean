import RactorModel.Lemmas.GenRouting
import RactorModel.Lemmas.FactoryRouters
import RactorModel.Lemmas.FactoryAffinity
import RactorModel.Lemmas.FactoryQueuer
import RactorModel.Lemmas.FactorySlotInst
import RactorModel.Lemmas.FactoryActors
import RactorModel.Lemmas.FactoryNoPanic
import RactorModel.Lemmas.FactoryNoBacklog
import RactorModel.Lemmas.FactoryKeyOrder
import RactorModel.Lemmas.FactoryStartOrder

/-!
# C14 — Factory routing keeps its promises about where a job runs

Property theorems only. Model: `Model/Factory.lean` (the five routers as `W.chooseTargetWorker`),
oracles: `Model/FactoryOracle.lean`, helper lemmas: `Lemmas/FactoryRouters.lean`, `Lemmas/Factory*.lean`.
-/

namespace C14
open Factory

/-! ## Custom hashing -/

/-- (custom) whatever the user's hash function returns — out of range, `usize::MAX` — the
chosen slot lies inside the current pool, for every key and every pool size `n > 0`. -/
theorem custom_in_range (h : Nat → Nat → Nat) (key n : Nat) (hn : 0 < n) : chooseCustom h key n < n :=
  Nat.mod_lt _ hn

/-- The custom router of the factory model only ever targets a slot `< pool_size`, in every
state, for every job and hint and every hash table. -/
theorem custom_router_in_range (w : W) (j : Job) (hint : Option Nat) (wid : Nat)
    (hr : w.cfg.router = .cu) (h : (w.chooseTargetWorker j hint).1 = some wid) : wid < w.poolSize := by
  unfold W.chooseTargetWorker at h
  simp only [hr] at h
  split at h
  · simp at h
  · rename_i hz
    have hn : 0 < w.poolSize := by
      apply Nat.pos_of_ne_zero; intro h0; simp [h0] at hz
    split at h
    · simp only [Option.some.injEq] at h
      rw [← h]; exact custom_in_range _ _ _ hn
    · simp at h

/-! ## Round-robin -/

/-- (round-robin) over any `n` consecutive jobs routed without a hint in a pool of `n`
workers, starting from ANY router state `last`, every worker `w < n` is chosen exactly once. -/
theorem rr_spread (n last w : Nat) (hn : 0 < n) (hw : w < n) :
    ∃ i, i < n ∧ (rrSeq n n last)[i]? = some w ∧ ∀ j, j < n → (rrSeq n n last)[j]? = some w → j = i := by
  have h0 := rrNext_lt last n hn
  obtain ⟨i, hi, hiw, huniq⟩ := rot_unique n (rrNext last n) w h0 hw
  rw [rrSeq_eq n hn]
  refine ⟨i, hi, ?_, ?_⟩
  · simp [List.getElem?_map, List.getElem?_range hi, hiw]
  · intro j hj hjw
    simp only [List.getElem?_map, List.getElem?_range hj, Option.map_some, Option.some.injEq] at hjw
    exact huniq j hj hjw

/-- the slot is always inside the pool -/
theorem rr_in_range (last n : Nat) (hn : 0 < n) : rrNext last n < n := rrNext_lt last n hn

/-- The round-robin router of the factory model, asked without a hint, answers the next slot
of `rrSeq` and remembers it: consecutive un-hinted routings walk `rrSeq`. -/
theorem rr_router_step (w : W) (j : Job) (hr : w.cfg.router = .rr) (hn : w.poolSize ≠ 0) :
    (w.chooseTargetWorker j none).2.last = rrNext w.last w.poolSize ∧
    (w.chooseTargetWorker j none).1 =
      (if hasW w.pool (rrNext w.last w.poolSize) then some (rrNext w.last w.poolSize) else none) := by
  unfold W.chooseTargetWorker
  simp [hr, hn, hintAvailable, hintLast]

/-- the round-robin router as one expression -/
theorem rr_choose_eq (w : W) (j : Job) (hint : Option Nat) (hr : w.cfg.router = .rr) :
    w.chooseTargetWorker j hint =
      if w.poolSize == 0 then (none, w)
      else if hintAvailable w.pool hint || hintLast w.pool w.last hint then (hint, w)
      else (if hasW w.pool (rrNext w.last w.poolSize) then some (rrNext w.last w.poolSize) else none,
            { w with last := rrNext w.last w.poolSize }) := by
  unfold W.chooseTargetWorker
  simp only [hr]

/-- (round-robin, backlog path — finding F10, fixed) `try_route_next_active_job` asks the router for a target and
then routes the job with that target as the hint, so the router is consulted twice for one job. The second
consultation returns the slot picked by the first and does NOT advance the rotation again — whatever hint the
first consultation had and whether or not the picked worker is busy: one advance per routed job. (Before the fix a
busy pick was rejected as a hint and the pointer advanced twice: with 2 workers every backlog job after the first
two landed on the same worker, witness `corpus/C14/e-lts-f10_round_robin_backlog_uneven.ops`.) -/
theorem rr_backlog_single_advance (w : W) (j j' : Job) (hint : Option Nat) (k : Nat) (hr : w.cfg.router = .rr)
    (h1 : (w.chooseTargetWorker j hint).1 = some k) :
    (w.chooseTargetWorker j hint).2.chooseTargetWorker j' (some k) = (some k, (w.chooseTargetWorker j hint).2) := by
  rw [rr_choose_eq w j hint hr] at h1 ⊢
  by_cases hz : (w.poolSize == 0) = true
  · simp [hz] at h1
  · simp only [hz, Bool.false_eq_true, if_false] at h1 ⊢
    by_cases hh : (hintAvailable w.pool hint || hintLast w.pool w.last hint) = true
    · simp only [hh, if_true] at h1 ⊢
      subst h1
      rw [rr_choose_eq w j' _ hr]
      simp only [hz, Bool.false_eq_true, if_false, hh, if_true]
    · simp only [hh, Bool.false_eq_true, if_false] at h1 ⊢
      by_cases hw : hasW w.pool (rrNext w.last w.poolSize) = true
      · simp only [hw, if_true, Option.some.injEq] at h1
        subst h1
        rw [rr_choose_eq _ j' _ (by exact hr)]
        have : hintLast w.pool (rrNext w.last w.poolSize) (some (rrNext w.last w.poolSize)) = true := by
          simp only [hintLast, hw, beq_self_eq_true, Bool.and_self]
        simp only [hz, Bool.false_eq_true, if_false, this, Bool.or_true, if_true, hw]
      · simp [hw] at h1

/-- (round-robin over whole dispatches) For ANY state with the pool shape of a reachable one (`C15.pool_shape`), `n > 0`
workers, no rate limiter, the factory not draining: handling the dispatch of a non-expired job hands it to the slot
AFTER the one chosen last (`rrNext last n`), whether that worker is busy or not, and moves the rotation there — so `n`
consecutive dispatches visit the `n` slots of `rr_spread`, one each. -/
theorem rr_dispatch_takes_next_slot (w : W) (j : Job) (hr : w.cfg.router = .rr) (hrl : w.rl = none)
    (hne : j.expired w.env.now = false) (hd : w.drain = .notDraining) (hs : Shape w.poolSize w.pool) (hn : w.poolSize ≠ 0) :
    (w.dispatch j).last = rrNext w.last w.poolSize ∧
    ∃ p, getW w.pool (rrNext w.last w.poolSize) = some p ∧
      getW (w.dispatch j).pool (rrNext w.last w.poolSize) = some (p.enqueueJob w.env j).1 := by
  have hpos : 0 < w.poolSize := Nat.pos_of_ne_zero hn
  have hw := hs.full (rrNext w.last w.poolSize) (rrNext_lt _ _ hpos)
  obtain ⟨p, hg⟩ := hasW_getW hw
  have hz : (w.poolSize == 0) = false := by simpa using hn
  have hch : w.chooseTargetWorker j none = (some (rrNext w.last w.poolSize), { w with last := rrNext w.last w.poolSize }) := by
    rw [rr_choose_eq w j none hr]
    simp only [hz, Bool.false_eq_true, if_false, hintAvailable, hintLast, Bool.or_self, hw, if_true]
  have hri : w.routeInner j none = (.handled, { w with
      last := rrNext w.last w.poolSize
      pool := setW w.pool (rrNext w.last w.poolSize) (p.enqueueJob w.env j).1
      env := (p.enqueueJob w.env j).2 }) := by
    unfold W.routeInner
    rw [hch]
    simp only [hg]
  have hdn : (w.drain == Drain.notDraining) = true := by rw [hd]; rfl
  unfold W.dispatch W.routeMessage W.routeLimited
  simp only [hne, Bool.false_eq_true, if_false, hdn, if_true, hrl, hri]
  exact ⟨trivial, p, hg, getW_setW_same hg (by rw [enqueueJob_wid]; exact getW_wid hg)⟩

/-! ## Affinity (key-persistent routing) -/

/-- (affinity, the part that is true of the code — `_partial`) With key-persistent routing (and, since the F13 fix,
sticky routing: `hr` is `kp ∨ sq`), for
every configuration and EVERY sequence of operations (dispatches, completions, expiry, shedding,
worker failures and kills at any point incl. stale completions, pool growth and shrinkage,
settings updates, drain, a factory held busy): at any time at most ONE worker slot has a given
key pending (queued or believed in flight, `pending_key_counts`), and slots are unique. This is
the invariant that makes jobs of a key follow each other onto the same slot across resize and
replacement. What it does NOT give is that the ACTORS agree with the bookkeeping: after a stale
completion (finding F4) the slot's record says the key is no longer in flight while the worker
still runs it — see the witness below. -/
theorem affinity_partial (c : CaseCfg) (hr : c.cfg.router = .kp ∨ c.cfg.router = .sq) (steps : List Step) (k : Nat) :
    pendCount k ((init c).runSteps steps).pool ≤ 1 ∧ NodupW ((init c).runSteps steps).pool := by
  have h := affInv_runSteps (init c) steps (affInv_init c hr)
  exact ⟨h.aff k, h.nodup⟩

/-- two slots with the same key pending are the same slot -/
theorem affinity_unique_slot (c : CaseCfg) (hr : c.cfg.router = .kp ∨ c.cfg.router = .sq) (steps : List Step) (k : Nat)
    (p1 p2 : WP) (h1 : p1 ∈ ((init c).runSteps steps).pool) (h2 : p2 ∈ ((init c).runSteps steps).pool)
    (hk1 : p1.hasPendingKey k = true) (hk2 : p2.hasPendingKey k = true) : p1 = p2 := by
  have h := (affinity_partial c hr steps k).1
  generalize ((init c).runSteps steps).pool = pool at *
  induction pool with
  | nil => cases h1
  | cons x xs ih =>
    simp only [pendCount, List.countP_cons] at h ih
    cases h1 with
    | head =>
      cases h2 with
      | head => rfl
      | tail _ h2' =>
        have : 0 < xs.countP (·.hasPendingKey k) := List.countP_pos_iff.mpr ⟨p2, h2', hk2⟩
        simp only [hk1, if_true] at h; omega
    | tail _ h1' =>
      cases h2 with
      | head =>
        have : 0 < xs.countP (·.hasPendingKey k) := List.countP_pos_iff.mpr ⟨p1, h1', hk1⟩
        simp only [hk2, if_true] at h; omega
      | tail _ h2' =>
        exact ih h1' h2' (by split at h <;> omega)

/-- a job whose key is pending on a slot is routed to that slot, whatever the hint and the hash -/
theorem kp_routes_to_holder (w : W) (j : Job) (hint : Option Nat) (p0 : WP) (hr : w.cfg.router = .kp)
    (hf : w.pool.find? (·.hasPendingKey j.key) = some p0) :
    (w.chooseTargetWorker j hint).1 = some p0.wid := by
  unfold W.chooseTargetWorker
  simp only [hr, hf]

/-- (one at a time, the factory's side) for every router and EVERY sequence of operations —
stale completions included — every slot has at most one job in flight (`curr_jobs`): the factory
hands a worker its next job only when the previous one is no longer booked as in flight. -/
theorem one_job_in_flight_per_slot (c : CaseCfg) (steps : List Step) :
    ∀ p ∈ ((init c).runSteps steps).pool, p.curr.length ≤ 1 :=
  fun p hp => (slot_always slotOk_inv c steps p hp).one

/-- `pending_key_counts` is exact: for every slot and key it counts the jobs of that key queued
for the slot plus the one in flight — after every sequence of operations (expiry, shedding,
completion, replacement included). -/
theorem pending_tracks_jobs (c : CaseCfg) (steps : List Step) :
    ∀ p ∈ ((init c).runSteps steps).pool, ∀ k,
      p.pending.count k = (keysCurr p).count k + (keysMq p).count k :=
  fun p hp => (slot_always slotOk_inv c steps p hp).tracks

/-- (affinity in terms of jobs) with key-persistent routing, jobs of one key — queued for a slot
or booked as in flight on it — are never spread over two slots. -/
theorem affinity_jobs_partial (c : CaseCfg) (hr : c.cfg.router = .kp ∨ c.cfg.router = .sq) (steps : List Step) (k : Nat) (p1 p2 : WP)
    (h1 : p1 ∈ ((init c).runSteps steps).pool) (h2 : p2 ∈ ((init c).runSteps steps).pool)
    (hk1 : k ∈ keysCurr p1 ++ keysMq p1) (hk2 : k ∈ keysCurr p2 ++ keysMq p2) : p1 = p2 := by
  have t1 := pending_tracks_jobs c steps p1 h1 k
  have t2 := pending_tracks_jobs c steps p2 h2 k
  have c1 : 0 < (keysCurr p1 ++ keysMq p1).count k := List.count_pos_iff.mpr hk1
  have c2 : 0 < (keysCurr p2 ++ keysMq p2).count k := List.count_pos_iff.mpr hk2
  rw [List.count_append] at c1 c2
  apply affinity_unique_slot c hr steps k p1 p2 h1 h2
  · rw [hasPending_iff]; exact List.count_pos_iff.mp (by omega)
  · rw [hasPending_iff]; exact List.count_pos_iff.mp (by omega)

/-! ## Queuer routing never idles a worker while a job waits -/

/-- (queuer) With queuer routing — with or without a rate limiter in front of the router — for every
configuration and EVERY sequence of operations (dispatches, completions, worker failures and kills, TTL
expiry, discard limits, pool growth and shrinkage, settings updates, drain, a factory held busy), after every
step: if a job waits in the factory queue then no worker of the pool is available. A rate limiter does not
weaken this: a job the limiter refuses is never left waiting (`dispatch` and the routing loop of
`try_route_next_active_job` hand it to the discard handler as `RateLimited` and go on with the next one), and the
worker that the loop had already taken out of the router's deque for it is announced as available again
(`RateLimitedRouter::route_message`: `on_worker_availability_change(wid, true)`). The proof carries the
soundness of the router's lazy available-workers deque (every available worker is flagged, every flagged
worker is in the deque) through every function (`Lemmas/FactoryQueuer.lean`; the loop goes round once per
refused job). -/
theorem queuer_never_idles (c : CaseCfg) (hr : c.cfg.router = .q) (steps : List Step) :
    ((init c).runSteps steps).queue ≠ [] → ∀ p ∈ ((init c).runSteps steps).pool, p.isAvailable = false := by
  intro hq p hp
  exact (qd_runSteps (init c) steps (qd_init c hr)).q hq p hp (by simp)

/-- … and whenever a worker is available the router knows it: it is flagged and in the deque,
so the next dispatch finds it — also right after the limiter refused a job that was about to go to it. -/
theorem queuer_deque_sound (c : CaseCfg) (hr : c.cfg.router = .q) (steps : List Step) :
    ∀ p ∈ ((init c).runSteps steps).pool, p.isAvailable = true →
      p.wid ∈ ((init c).runSteps steps).inQ ∧ p.wid ∈ ((init c).runSteps steps).avail := by
  intro p hp ha
  have d := (qd_runSteps (init c) steps (qd_init c hr)).d
  have h1 := d.d1 p hp (by simp) ha
  exact ⟨h1, d.sub _ h1⟩

/-! ## The priority queue: which job leaves the factory queue -/

theorem sorted_split_le {ps1 ps2 : List Nat} {p z : Nat} {l : List Nat} (hl : l = ps1 ++ p :: ps2)
    (hs : l.Pairwise (· < ·)) (hz : z ∈ l) (hn : z ∉ ps1) : p ≤ z := by
  subst hl
  rcases List.mem_append.mp hz with h | h
  · exact absurd h hn
  · rcases List.mem_cons.mp h with h | h
    · omega
    · have := (List.pairwise_append.mp hs).2.1
      have := (List.pairwise_cons.mp this).1 z h
      omega

theorem sorted_split_ge {ps1 ps2 : List Nat} {p z : Nat} {l : List Nat} (hl : l = ps1 ++ p :: ps2)
    (hs : l.Pairwise (· > ·)) (hz : z ∈ l) (hn : z ∉ ps1) : z ≤ p := by
  subst hl
  rcases List.mem_append.mp hz with h | h
  · exact absurd h hn
  · rcases List.mem_cons.mp h with h | h
    · omega
    · have := (List.pairwise_append.mp hs).2.1
      have := (List.pairwise_cons.mp this).1 z h
      omega

theorem prioOf_mem_up (cfg : Cfg) (j : Job) : prioOf cfg j ∈ prioUp := by
  have := prioOf_lt cfg j
  unfold NUM_PRIORITIES at this
  unfold prioUp
  generalize prioOf cfg j = n at this
  match n, this with
  | 0, _ | 1, _ | 2, _ | 3, _ | 4, _ => simp

theorem prioOf_mem_down (cfg : Cfg) (j : Job) : prioOf cfg j ∈ prioDown := by
  have := prioOf_mem_up cfg j
  unfold prioUp at this; unfold prioDown
  simp only [List.mem_cons, List.not_mem_nil, or_false] at this ⊢
  omega

/-- (`PriorityQueue::pop_front`, `DefaultQueue::pop_front` as the one-class case) for EVERY queue content: the
job that leaves the factory queue has the most urgent priority present (lowest index), it is the OLDEST job of
that priority, and all other jobs keep their relative order. -/
theorem queue_pop_is_most_urgent_oldest (cfg : Cfg) (q r : List Job) (x : Job) (h : qPopFront cfg q = some (x, r)) :
    (∀ y ∈ q, prioOf cfg x ≤ prioOf cfg y) ∧
    ∃ pre post, q = pre ++ x :: post ∧ r = pre ++ post ∧ ∀ y ∈ pre, prioOf cfg y ≠ prioOf cfg x := by
  obtain ⟨ps1, ps2, e1, e2, e3⟩ := popByPrio_spec (show popByPrio cfg prioUp q = some (x, r) from h)
  refine ⟨?_, e3⟩
  intro y hy
  exact sorted_split_le e1 (by decide) (prioOf_mem_up cfg y) (fun hin => e2 _ hin y hy rfl)

/-- (`discard_oldest`, load shedding in `Oldest` mode) the job that is shed has the LEAST urgent priority present
(highest index) and is the oldest of that priority; the others keep their order. -/
theorem queue_discard_oldest_is_least_urgent (cfg : Cfg) (q r : List Job) (x : Job) (h : qDiscardOldest cfg q = some (x, r)) :
    (∀ y ∈ q, prioOf cfg y ≤ prioOf cfg x) ∧
    ∃ pre post, q = pre ++ x :: post ∧ r = pre ++ post ∧ ∀ y ∈ pre, prioOf cfg y ≠ prioOf cfg x := by
  obtain ⟨ps1, ps2, e1, e2, e3⟩ := popByPrio_spec (show popByPrio cfg prioDown q = some (x, r) from h)
  refine ⟨?_, e3⟩
  intro y hy
  exact sorted_split_ge e1 (by decide) (prioOf_mem_down cfg y) (fun hin => e2 _ hin y hy rfl)

/-- … and `peek` shows exactly the job `pop_front` will take (the routing loop asks the router about the job it
then pops). -/
theorem queue_peek_is_pop (cfg : Cfg) (q r : List Job) (x : Job) (h : qPopFront cfg q = some (x, r)) :
    qPeek cfg q = some x :=
  popByPrio_peek (show popByPrio cfg prioUp q = some (x, r) from h)

example : (qPopFront { router := .q, prioQueue := true, hasHandler := true, table := [], hasCC := false }
    [⟨1, 3, 0, none, false⟩, ⟨2, 8, 0, none, false⟩, ⟨3, 1, 0, none, false⟩, ⟨4, 15, 0, none, false⟩]).map (·.1.id) = some 2 := by
  decide

/-! ## One job at a time -/

/-- (one at a time) a worker actor that is handling a job does not start another one: its task
takes the next message only when no handler is running (this is the actor framework's C01, which
the model takes as given: `running : Option Job`). Whatever the factory sends meanwhile waits in
the actor's mailbox. -/
theorem busy_worker_starts_nothing (e : Env) (aid : Nat) (a : Actor) (j : Job)
    (ha : e.getActor aid = some a) (hr : a.running = some j) : e.settleOne aid = e := by
  unfold Env.settleOne
  simp [ha, hr]

/-- … and a hand-over to a busy worker only lengthens its mailbox -/
theorem cast_to_busy_queues (e e' : Env) (aid : Nat) (j : Job) (h : e.cast aid j = some e') :
    e'.log = e.log ∧ ∃ a, e.getActor aid = some a ∧ a.alive = true := by
  unfold Env.cast at h
  cases ha : e.getActor aid with
  | none => simp [ha] at h
  | some a =>
    simp only [ha] at h
    split at h
    · simp at h
    · rename_i hal
      simp only [Option.some.injEq] at h; subst h
      exact ⟨rfl, a, rfl, by simpa using hal⟩

/-! ## The worker ACTORS (under `noStaleRun`: finding F4 excluded)

`noStaleRun (init c) steps`: no step kills a live pool worker while one of its `Finished` reports
still waits in the factory's mailbox — the exact model-level form of the oracle's classifier
`noStaleCompletion`. The unconditional statements are FALSE of the code (F4, witness below); under
this hypothesis they are theorems for every configuration and EVERY sequence of operations, as long
as the factory has not entered `post_stop` (from then on it hands out nothing, `C15.drained_factory_stops`).
Proof: the coupling invariant `Factory.Core` (`Lemmas/FactoryActors.lean`) between every slot's
`curr_jobs` and what its actor holds (handler + mailbox) plus the pending `Finished` reports, carried
through every function of the model. -/

/-- (one job at a time, actor level — `_partial`) a live worker actor never holds more than one job:
the one its handler runs, or one waiting in its mailbox, never both and never two — the factory hands
a worker its next job only after that worker's completion report. Holds at every quiescent point and
at every instant `t` at which an operation is applied. -/
theorem worker_one_job_at_a_time_partial (c : CaseCfg) (steps : List Step) (t : Nat)
    (hns : noStaleRun (init c) steps = true) :
    let w := W.advanceTo t (advanceFuel ((init c).runSteps steps) t) ((init c).runSteps steps)
    w.stopped = false → ∀ aid a, w.env.getActor aid = some a → a.alive = true → a.heldJobs.length ≤ 1 := by
  intro w hs aid a g hal
  exact ((j_at c steps t hns).core hs).held_le_one g hal

/-- … and the job a live worker holds is the one its slot books as in flight (same key), with no
completion report of that slot pending: actors and bookkeeping agree. -/
theorem worker_job_is_booked_partial (c : CaseCfg) (steps : List Step) (hns : noStaleRun (init c) steps = true) :
    let w := (init c).runSteps steps
    w.stopped = false → ∀ aid a j, w.env.getActor aid = some a → a.alive = true → j ∈ a.heldJobs →
      a.heldJobs = [j] ∧ ∃ p ∈ w.pool, p.actor = aid ∧ p.wid = a.wid ∧ keysCurr p = [j.key] := by
  intro w hs aid a j g hal hj
  obtain ⟨h1, p, hp, h2, h3, h4, _⟩ := ((j_always c steps hns).core hs).held_booked g hal hj
  exact ⟨h1, p, hp, h2, h3, h4⟩

/-- (affinity, actor level — `_partial`) With key-persistent routing — and, since the F13 fix, with STICKY routing —,
for every configuration and
EVERY sequence of operations without a stale completion: two live worker actors never hold (run, or
have in their mailbox) jobs of the same key at the same time — across pool growth and shrinkage,
worker replacement, expiry, shedding, drain and a factory held busy. -/
theorem key_never_on_two_workers_partial (c : CaseCfg) (hr : c.cfg.router = .kp ∨ c.cfg.router = .sq) (steps : List Step)
    (hns : noStaleRun (init c) steps = true) :
    let w := (init c).runSteps steps
    w.stopped = false → ∀ aid1 aid2 a1 a2 j1 j2, w.env.getActor aid1 = some a1 → w.env.getActor aid2 = some a2 →
      a1.alive = true → a2.alive = true → j1 ∈ a1.heldJobs → j2 ∈ a2.heldJobs → j1.key = j2.key → aid1 = aid2 := by
  intro w hs aid1 aid2 a1 a2 j1 j2 g1 g2 hal1 hal2 hj1 hj2 hk
  have hc := (j_always c steps hns).core hs
  obtain ⟨_, p1, hp1, hpa1, _, hc1, _⟩ := hc.held_booked g1 hal1 hj1
  obtain ⟨_, p2, hp2, hpa2, _, hc2, _⟩ := hc.held_booked g2 hal2 hj2
  have : p1 = p2 := by
    apply affinity_jobs_partial c hr steps j1.key p1 p2 hp1 hp2
    · simp only [keysCurr, hc1, List.mem_append, List.mem_singleton, true_or]
    · simp only [keysCurr, hc2, hk, List.mem_append, List.mem_singleton, true_or]
  subst this
  exact hpa1.symm.trans hpa2

/-! ### Findings on their concrete witnesses (the model replays them exactly: DIFF = 0 on every run)

F4 — the full affinity statement ("never in progress on two workers") is FALSE of the code. -/

def f4Case : CaseCfg :=
  { cfg := { router := .sq, prioQueue := false, hasHandler := true, table := [], hasCC := true }, n := 2, disc := none, rl := none }
def f4Info : Info := { router := .sq, prioQueue := false, hasHandler := true, n := 2, disc := none, rl := none }
def key7Hash : Nat := 7364705619221056123
/-- `corpus/C14/e-lts-f4_stale_completion_sticky.ops` with the instants of the real run -/
def f4Steps : List Step :=
  [⟨.nop, 0, 2000000, 3000000⟩,
   ⟨.dispatch 1 7 key7Hash none false, 3000000, 4000000, 5000000⟩,
   ⟨.dispatch 2 7 key7Hash none false, 5000000, 6000000, 7000000⟩,
   ⟨.block, 7000000, 101000000, 101000000⟩,
   ⟨.finish 0 true, 101000000, 102000000, 102000000⟩,
   ⟨.kill 0, 102000000, 103000000, 103000000⟩,
   ⟨.release 2, 103000000, 104000000, 105000000⟩,
   ⟨.dispatch 3 7 key7Hash none false, 105000000, 106000000, 107000000⟩]
/-- (alive actor, key it is running) -/
def runningKeys (w : W) : List (Nat × Nat) :=
  (w.env.actors.filter (·.alive)).filterMap fun a => a.running.map fun j => (a.aid, j.key)
/-- negation on the witness: actors 1 and 2 (slots 1 and 0) run key 7 at the same time -/
example : runningKeys ((init f4Case).runSteps f4Steps) = [(1, 7), (2, 7)] := by decide +kernel
example : C14.routingOk f4Info ((init f4Case).runSteps f4Steps).env.log = false := by decide +kernel
/-- … and the history is classified by the finding's classifier -/
example : noStaleCompletion f4Info ((init f4Case).runSteps f4Steps).env.log = false := by decide +kernel
/-- … and by the model-level hypothesis of the `_partial` theorems: the kill of actor 0 (step 6) is stale -/
example : noStaleRun (init f4Case) f4Steps = false := by decide +kernel
/-- the prefix before the kill is a run the theorems speak about -/
example : noStaleRun (init f4Case) (f4Steps.take 5) = true := by decide +kernel

/-! F13 (fixed, repo b8c72a3): sticky routing put one key on two workers WITHOUT a stale completion. An idle worker is
killed while the factory is held busy; the flush at the release hands job 5 (key 6) to it — the hand-over fails,
the job is parked at the head of its queue, the slot has nothing in flight —, the router (which looked at the key
IN FLIGHT only) sends job 6 (key 6) to another worker, then the replacement starts job 5. Real output before the fix:
`release 3 → build=[2.2,1.3] start=[2:6:6,3:5:6]` (`corpus/C14/e-lts-f13_sticky_handover_to_dead_idle_worker.ops`,
oracle clause `c14-key-on-two-workers`, not classified stale). Fix: the sticky router keeps a key with the worker that
has it PENDING (in flight or queued). On the fixed model the witness satisfies the oracle, only the replacement runs
key 6, job 6 waits behind it — and `key_never_on_two_workers_partial` now covers the sticky router. -/
def f13Case : CaseCfg :=
  { cfg := { router := .sq, prioQueue := false, hasHandler := true, table := [], hasCC := true }, n := 2, disc := none, rl := none }
def f13Info : Info := { router := .sq, prioQueue := false, hasHandler := true, n := 2, disc := none, rl := none }
def f13Steps : List Step :=
  [⟨.nop, 0, 2000000, 3000000⟩,
   ⟨.dispatch 1 1 0 none false, 3000000, 4000000, 5000000⟩, ⟨.dispatch 2 2 0 none false, 5000000, 6000000, 7000000⟩,
   ⟨.dispatch 3 5 0 none false, 7000000, 8000000, 9000000⟩, ⟨.dispatch 4 5 0 none false, 9000000, 10000000, 11000000⟩,
   ⟨.dispatch 5 6 0 none false, 11000000, 12000000, 13000000⟩, ⟨.dispatch 6 6 0 none false, 13000000, 14000000, 15000000⟩,
   ⟨.finish 0 true, 15000000, 16000000, 17000000⟩, ⟨.finish 1 true, 17000000, 18000000, 19000000⟩,
   ⟨.block, 19000000, 101000000, 101000000⟩, ⟨.kill 1, 101000000, 102000000, 102000000⟩,
   ⟨.release 3, 102000000, 103000000, 104000000⟩]
example : runningKeys ((init f13Case).runSteps f13Steps) = [(0, 5), (3, 6)] := by decide +kernel
example : C14.routingOk f13Info ((init f13Case).runSteps f13Steps).env.log = true := by decide +kernel
example : noStaleRun (init f13Case) f13Steps = true := by decide +kernel
/-- the sticky worker's idle neighbour: after `finish 1 ok` two jobs wait in the factory queue while worker 1 is
idle — sticky routing hands ONE job per completion to a worker (here to worker 0, which runs its key); C14 claims
"no idle worker while a job waits" for the plain queuer only -/
example : ((init f13Case).runSteps (f13Steps.take 9)).queue.length = 2 ∧
    (((init f13Case).runSteps (f13Steps.take 9)).pool.map (·.isAvailable)) = [false, true] := by decide +kernel

/-! F3 (fixed): key-persistent order after growing the pool from 0. On the fixed code the witness
is handled in dispatch order and satisfies the oracle. -/
def f3Case : CaseCfg :=
  { cfg := { router := .kp, prioQueue := false, hasHandler := true, table := [], hasCC := false }, n := 0, disc := none, rl := none }
def f3Info : Info := { router := .kp, prioQueue := false, hasHandler := true, n := 0, disc := none, rl := none }
def f3Steps : List Step :=
  [⟨.nop, 0, 2000000, 3000000⟩,
   ⟨.dispatch 1 7 key7Hash none false, 3000000, 4000000, 5000000⟩,
   ⟨.dispatch 2 7 key7Hash none false, 5000000, 6000000, 7000000⟩,
   ⟨.resize 1, 7000000, 8000000, 9000000⟩,
   ⟨.dispatch 3 7 key7Hash none false, 9000000, 10000000, 11000000⟩,
   ⟨.finish 0 true, 11000000, 12000000, 13000000⟩,
   ⟨.finish 0 true, 13000000, 14000000, 15000000⟩,
   ⟨.finish 0 true, 15000000, 16000000, 17000000⟩]
def startOrder (w : W) : List Nat := w.env.log.filterMap fun | .start _ id _ => some id | _ => none
example : startOrder ((init f3Case).runSteps f3Steps) = [1, 2, 3] := by decide +kernel
example : C14.routingOk f3Info ((init f3Case).runSteps f3Steps).env.log = true := by decide +kernel

/-! ## Worker-queueing routers never leave a backlog -/

/-- (key-persistent, round-robin, custom hash) For every configuration and EVERY sequence of operations — with
and without a rate limiter, both queue types, any resize sequence incl. growth from an empty pool (the F3 flush),
worker deaths, drain, a factory held busy —: a job waits in the FACTORY queue only while the pool has no workers
at all (`pool_size = 0`). As soon as the pool has workers every job is in some worker's own queue (or handed over),
which is what "jobs are pushed to the workers' queues" promises for these routers. This was oracle clause
`c14-worker-router-backlog` only. Proof (`Lemmas/FactoryNoBacklog.lean`): with workers in the pool the router
always names a slot that exists (`pool_shape`), so `dispatch` never backlogs; a growing `resize_pool` flushes the
whole backlog (one job per `try_route_next_active_job`, until none is left); nothing else lengthens the queue. -/
theorem worker_router_never_backlogs (c : CaseCfg) (hq : isFactoryQueueing c.cfg.router = false) (steps : List Step) :
    ((init c).runSteps steps).queue ≠ [] → ((init c).runSteps steps).poolSize = 0 :=
  no_backlog_run c hq steps

/-- … and with workers in the pool the router asked without a hint always names a slot that exists, for ANY state
with the pool shape of a reachable one -/
theorem worker_router_always_has_target (w : W) (j : Job) (hq : isFactoryQueueing w.cfg.router = false)
    (hs : Shape w.poolSize w.pool) (hn : w.poolSize ≠ 0) :
    ∃ x, (w.chooseTargetWorker j none).1 = some x ∧ hasW w.pool x = true :=
  choose_some_of_pool w j hq hs hn

/-- non-vacuity: the F3 witness (key-persistent, pool grown from 0 with a backlog of 2): queue empty afterwards -/
example : ((init f3Case).runSteps (f3Steps.take 3)).queue.length = 2 ∧ ((init f3Case).runSteps (f3Steps.take 3)).poolSize = 0 ∧
    ((init f3Case).runSteps (f3Steps.take 4)).queue.length = 0 ∧ ((init f3Case).runSteps (f3Steps.take 4)).poolSize = 1 := by
  decide +kernel

/-! ## Jobs of one key are handed to the workers in submission order -/

/-- (order along the pipeline) For every worker-queueing router (key-persistent, round-robin, custom), every
configuration and EVERY sequence of operations in which the submitter numbers its jobs in increasing order
(`idsIncreasing`; "same key ⇒ smaller id" = "submitted earlier", `KO`): at every quiescent point, jobs of the same key
are in submission order
* inside the factory's mailbox, inside the factory queue (arrival order) and inside every worker's own queue, and
* ACROSS them: every job in a worker's queue is older than every same-key job in the factory queue or still in the
  factory's mailbox, and every job in the factory queue is older than every same-key job in the mailbox —
across TTL expiry, load shedding in both modes, rate limiting, worker failures and replacement, pool growth (the
F3 flush) and shrinkage, drain and a factory held busy. (`Lemmas/FactoryKeyOrder.lean`; freshness of a new id comes
from `C13.conservation`: a job id that was never submitted is nowhere.) -/
theorem key_order_pipeline (c : CaseCfg) (hq : isFactoryQueueing c.cfg.router = false) (steps : List Step)
    (hinc : idsIncreasing steps) :
    let w := (init c).runSteps steps
    (inboxJobs w.inbox).Pairwise KO ∧ w.queue.Pairwise KO ∧ (∀ p ∈ w.pool, p.mq.Pairwise KO) ∧
    (∀ x ∈ w.queue, ∀ y ∈ inboxJobs w.inbox, KO x y) ∧
    (∀ p ∈ w.pool, ∀ x ∈ p.mq, (∀ y ∈ w.queue, KO x y) ∧ (∀ y ∈ inboxJobs w.inbox, KO x y)) := by
  intro w
  have h := ki_always c hq steps hinc
  exact ⟨h.i, h.k.ord.q, h.k.ord.m, h.k.ord.qi,
    fun p hp x hx => ⟨h.k.ord.mq p hp x hx, h.k.ord.mi p hp x hx⟩⟩

/-- (no overtaking, key-persistent) With key-persistent routing the job at the head of a worker's queue — the next
one `worker_complete` / `replace_worker` hands to the worker — is the OLDEST waiting job of its key in the whole
factory: no job of that key waits anywhere else with a smaller id (not further back in this queue, not in another
worker's queue — affinity —, not in the factory queue, not in the factory's mailbox). With
`C13.worker_dequeue_skips_expired` (the hand-over takes the first non-expired job from the head, everything it skips
is discarded) and `worker_one_job_at_a_time_partial` this is "jobs of one key are handled in submission order". -/
theorem kp_next_job_is_oldest_of_its_key (c : CaseCfg) (hr : c.cfg.router = .kp) (steps : List Step)
    (hinc : idsIncreasing steps) :
    let w := (init c).runSteps steps
    ∀ p ∈ w.pool, ∀ x rest, p.mq = x :: rest → ∀ y ∈ waiting w, y.key = x.key → x.id ≤ y.id := by
  intro w p hp x rest hmq y hy hk
  have hq : isFactoryQueueing c.cfg.router = false := by rw [hr]; rfl
  have h := ki_always c hq steps hinc
  have hxm : x ∈ p.mq := by rw [hmq]; exact List.mem_cons_self ..
  unfold waiting at hy
  rcases List.mem_append.mp hy with hy | hy
  · rcases List.mem_append.mp hy with hy | hy
    · exact Nat.le_of_lt (h.k.ord.mi p hp x hxm y hy hk.symm)
    · exact Nat.le_of_lt (h.k.ord.mq p hp x hxm y hy hk.symm)
  · obtain ⟨p', hp', hy'⟩ := List.mem_flatMap.mp hy
    -- affinity: all queued jobs of a key sit in one worker's queue
    have hpp : p = p' := by
      apply affinity_jobs_partial c (Or.inl hr) steps x.key p p' hp hp'
      · exact List.mem_append_right _ (List.mem_map.mpr ⟨x, hxm, rfl⟩)
      · exact List.mem_append_right _ (List.mem_map.mpr ⟨y, hy', hk⟩)
    subst hpp
    rw [hmq] at hy'
    rcases List.mem_cons.mp hy' with hy' | hy'
    · rw [hy']; exact Nat.le_refl _
    · have hpw := h.k.ord.m p hp
      rw [hmq] at hpw
      exact Nat.le_of_lt ((List.pairwise_cons.mp hpw).1 y hy' hk.symm)

/-- (jobs of one key are HANDLED in submission order — `_partial`: finding F4 excluded by `noStaleRun`) With
key-persistent routing, for every configuration (both queue types, discard limits, rate limiter, any pool size incl.
0) and EVERY sequence of operations in which the submitter numbers its jobs in increasing order (`idsAscending`) and no
worker is killed while a completion report of its slot is unprocessed — dispatches with any keys/TTLs, completions,
failures, kills, resizes incl. growth from an empty pool, settings, drain, a factory held busy —, as long as the factory
has not entered `post_stop`: for every key `k`, the `start` events of the jobs of key `k` appear in the history in
increasing order of their ids, i.e. in submission order. (`startedIds log k` = the ids of the `start _ id k` events in
log order.) Proof (`Lemmas/FactoryStartOrder.lean`, ~2000 lines): the worker pipeline `wq p e` = mailbox of the slot's
actor ++ the slot's queue joins the order invariant of `key_order_pipeline`; every started id of key `k` stays below
every waiting id of key `k`; a start takes the head of a pipeline, and by affinity (through the coupling invariant) no
other pipeline holds the key; ids not yet handed out are nowhere (`C13.conservation`). -/
theorem kp_jobs_start_in_submission_order_partial (c : CaseCfg) (hr : c.cfg.router = .kp) (steps : List Step)
    (hasc : idsAscending 0 steps = true) (hns : noStaleRun (init c) steps = true)
    (hst : ((init c).runSteps steps).stopped = false) (k : Nat) :
    (startedIds ((init c).runSteps steps).env.log k).Pairwise (· < ·) :=
  starts_in_order c hr steps hasc hns hst k

/-- non-vacuity on the F3 witness (pool grown from 0 with a backlog, then 3 completions): the hypotheses hold and the
jobs of key 7 started in the order 1, 2, 3 -/
example : idsAscending 0 f3Steps = true ∧ noStaleRun (init f3Case) f3Steps = true ∧
    ((init f3Case).runSteps f3Steps).stopped = false ∧
    startedIds ((init f3Case).runSteps f3Steps).env.log 7 = [1, 2, 3] := by decide +kernel

/-- non-vacuity: the F3 witness numbers its jobs 1, 2, 3 and leaves jobs 2 and 3 (key 7) in worker 0's queue, in order -/
example : ((init f3Case).runSteps (f3Steps.take 5)).pool.map (fun p => p.mq.map (·.id)) = [[2, 3]] := by decide +kernel
example : idsIncreasing f3Steps := by
  unfold idsIncreasing f3Steps
  simp [Step.dispatchId]

/-! ### Non-vacuity -/
def qCase : CaseCfg :=
  { cfg := { router := .q, prioQueue := false, hasHandler := true, table := [], hasCC := false }, n := 1, disc := none, rl := none }
def qSteps : List Step :=
  [⟨.nop, 0, 2000000, 3000000⟩, ⟨.dispatch 1 7 0 none false, 3000000, 4000000, 5000000⟩,
   ⟨.dispatch 2 8 0 none false, 5000000, 6000000, 7000000⟩]
/-- a job waits and the only worker is busy -/
example : ((init qCase).runSteps qSteps).queue.length = 1 ∧
    ((init qCase).runSteps qSteps).pool.map (·.isAvailable) = [false] := by decide +kernel
/-- the hypotheses of the actor-level theorems are satisfiable by a run in which a worker holds a job -/
example : noStaleRun (init qCase) qSteps = true ∧ ((init qCase).runSteps qSteps).stopped = false ∧
    (((init qCase).runSteps qSteps).env.actors.map fun a => (a.alive, a.heldJobs.map (·.id))) = [(true, [1])] := by decide +kernel
/-- queuer behind an empty leaky bucket (refill 0): every job is refused and reported `RateLimited`, none waits,
and the worker stays available and known to the router -/
def qrlCase : CaseCfg :=
  { cfg := { router := .q, prioQueue := false, hasHandler := true, table := [], hasCC := false }, n := 1, disc := none,
    rl := some (0, 1000000, 1, 0) }
example : ((init qrlCase).runSteps qSteps).queue = [] ∧
    ((init qrlCase).runSteps qSteps).pool.map (·.isAvailable) = [true] ∧
    ((init qrlCase).runSteps qSteps).inQ = [0] ∧
    (((init qrlCase).runSteps qSteps).env.log.filterMap fun | .discard r id _ => some (r, id) | _ => none)
      = [(.rateLimited, 1), (.rateLimited, 2)] := by decide +kernel
example : rrSeq 3 3 7 = [0, 1, 2] := by decide
example : rrSeq 4 4 1 = [2, 3, 0, 1] := by decide
example : chooseCustom (fun _ _ => 2 ^ 64 - 1) 5 3 = 0 := by decide


/-! ### Translator tie (rs2lean): kernel-checked equivalence between the definitions that
`extract/rs2lean.py` regenerates from the CURRENT Rust source on every run
(`RactorModel/Generated/*.lean`) and the hand-written model functions the theorems above are
about. A semantic change of the Rust function changes the generated text and these stop checking. -/

section XlateTie
open Generated.Routing GenRouting

theorem generated_hash_with_max_eq_model (sip : Option Nat → Nat) (h : Nat → Nat → Nat) (key n : Nat) :
    hash_with_max sip h key n = sip (some key) % n := rfl

/-- key-persistent router: pending-key worker (first in pool order), else a valid hint, else
`hash % pool_size`; `sip (some key)` is the job's `DefaultHasher` value. The router has no state. -/
theorem generated_key_persistent_choice_eq_model (sip : Option Nat → Nat) (h : Nat → Nat → Nat)
    (w : Factory.W) (j : Factory.Job) (hint : Option Nat)
    (hr : w.cfg.router = .kp) (hh : sip (some j.key) = j.hash) :
    (KeyPersistentRouting.choose_target_worker sip h ⟨⟩ j w.poolSize hint w.pool).2
      = (w.chooseTargetWorker j hint).1 ∧ (w.chooseTargetWorker j hint).2 = w := by
  unfold KeyPersistentRouting.choose_target_worker Factory.W.chooseTargetWorker
  simp only [hr, hash_with_max, hh, findSome_pairs' w.pool (fun x => x.hasPendingKey j.key)]
  cases hp : w.pool.find? (fun x => x.hasPendingKey j.key) with
  | some p => simp
  | none =>
    simp only [Option.map_none]
    cases hf : Option.filter (fun x => Factory.hasW w.pool x) hint with
    | some x =>
      have hx : Factory.hasW w.pool x = true := by
        have := Option.filter_eq_some_iff.mp hf
        exact this.2
      simp [hx]
    | none =>
      by_cases h0 : w.poolSize = 0 <;> simp [h0]

/-- round-robin router: an available hint — or (F10 fix) a hint that is the router's own last pick — is honoured,
otherwise the next slot after `last_worker` (wrapping at `pool_size`), stored back. -/
theorem generated_round_robin_choice_eq_model (sip : Option Nat → Nat) (h : Nat → Nat → Nat)
    (w : Factory.W) (j : Factory.Job) (hint : Option Nat)
    (hr : w.cfg.router = .rr) (hl : w.last + 1 < 2 ^ 64) :
    let r := RoundRobinRouting.choose_target_worker sip h ⟨w.last⟩ j w.poolSize hint w.pool
    (r.2, r.1.last_worker) = ((w.chooseTargetWorker j hint).1, (w.chooseTargetWorker j hint).2.last) := by
  have hadd : Rust.wAdd 64 w.last 1 = w.last + 1 := by unfold Rust.wAdd; omega
  unfold RoundRobinRouting.choose_target_worker Factory.W.chooseTargetWorker
  simp only [hr, hintAvailable_eq, hintLast_eq, hadd, Factory.rrNext]
  by_cases h0 : w.poolSize = 0
  · simp [h0]
  · cases hb : Option.bind hint (fun x => Factory.getW w.pool x) with
    | none => simp [h0]
    | some p =>
      cases ha : p.isAvailable
      · by_cases hh : hint = some w.last <;> simp [h0, ha, hh]
      · simp [h0, ha]

/-- custom router: `hasher.hash(key, pool_size) % pool_size`. The router has no state. -/
theorem generated_custom_choice_eq_model (sip : Option Nat → Nat)
    (w : Factory.W) (j : Factory.Job) (hint : Option Nat) (hr : w.cfg.router = .cu) :
    (CustomRouting.choose_target_worker sip (Factory.customHash w.cfg.table) ⟨()⟩ j w.poolSize hint w.pool).2
      = (w.chooseTargetWorker j hint).1 ∧ (w.chooseTargetWorker j hint).2 = w := by
  unfold CustomRouting.choose_target_worker Factory.W.chooseTargetWorker
  simp only [hr, Factory.chooseCustom]
  by_cases h0 : w.poolSize = 0
  · simp [h0]
  · simp only [h0, decide_false, Bool.false_eq_true, ↓reduceIte, beq_iff_eq, and_true]
    first | rfl | (split <;> simp_all)
end XlateTie

section XlateTieQ
open Generated.Routing GenRouting

/-- queuer router: the early-return prefix (an available hinted worker) is the model's; when the
prefix falls through the model continues with `popAvail` (the `while let` loop, not translated). -/
theorem generated_queuer_prefix_eq_model (sip : Option Nat → Nat) (h : Nat → Nat → Nat)
    (w : Factory.W) (j : Factory.Job) (hint : Option Nat) (hr : w.cfg.router = .q) :
    w.chooseTargetWorker j hint =
      match QueuerRouting.choose_before_deque sip h ⟨⟩ j w.poolSize hint w.pool with
      | some r => (r, w)
      | none =>
        let (r, avail, inQ) := Factory.popAvail w.pool w.avail w.inQ
        (r, { w with avail := avail, inQ := inQ }) := by
  unfold QueuerRouting.choose_before_deque Factory.W.chooseTargetWorker
  simp only [hr, hintAvailable_eq]
  cases hb : Option.bind hint (fun x => Factory.getW w.pool x) with
  | none => simp
  | some p => cases ha : p.isAvailable <;> simp [ha]

/-- sticky queuer router (since the F13 fix: `has_pending_key`, in flight or queued): hinted worker with the key pending,
else any worker with the key pending (first in pool order), else an available hinted worker, else the deque loop (`popAvail`). -/
theorem generated_sticky_queuer_prefix_eq_model (sip : Option Nat → Nat) (h : Nat → Nat → Nat)
    (w : Factory.W) (j : Factory.Job) (hint : Option Nat) (hr : w.cfg.router = .sq) :
    w.chooseTargetWorker j hint =
      match StickyQueuerRouting.choose_before_deque sip h ⟨⟩ j w.poolSize hint w.pool with
      | some r => (r, w)
      | none =>
        let (r, avail, inQ) := Factory.popAvail w.pool w.avail w.inQ
        (r, { w with avail := avail, inQ := inQ }) := by
  unfold StickyQueuerRouting.choose_before_deque Factory.W.chooseTargetWorker
  simp only [hr, hintAvailable_eq, hintPending_eq]
  have hfind := find_pairs w.pool (fun x => x.hasPendingKey j.key)
  cases hb : Option.bind hint (fun x => Factory.getW w.pool x) with
  | none =>
    simp only [hfind]
    cases hf : w.pool.find? (fun x => x.hasPendingKey j.key) <;> simp
  | some p =>
    cases hp : p.hasPendingKey j.key
    · simp only [hfind, hp]
      cases hf : w.pool.find? (fun x => x.hasPendingKey j.key)
      · by_cases ha : p.isAvailable = true <;> simp [ha]
      · simp
    · simp [hp]
end XlateTieQ

/-! ## Round 4, wave 2: round-robin spread over consecutive dispatches from reachable states -/

/-- the slots chosen for a list of dispatches handled one after the other -/
def rrPicks (w : W) : List Job → List Nat
  | [] => []
  | j :: js => (w.dispatch j).last :: rrPicks (w.dispatch j) js

/-- what one round-robin dispatch keeps: router kind, limiter, drain state, pool size, clock, pool shape -/
theorem rr_dispatch_keeps (w : W) (j : Job) (hr : w.cfg.router = .rr) (hrl : w.rl = none)
    (hne : j.expired w.env.now = false) (hd : w.drain = .notDraining) (hs : Shape w.poolSize w.pool) (hn : w.poolSize ≠ 0) :
    (w.dispatch j).cfg = w.cfg ∧ (w.dispatch j).rl = w.rl ∧ (w.dispatch j).drain = w.drain ∧
    (w.dispatch j).poolSize = w.poolSize ∧ (w.dispatch j).env.now = w.env.now := by
  have hpos : 0 < w.poolSize := Nat.pos_of_ne_zero hn
  have hw := hs.full (rrNext w.last w.poolSize) (rrNext_lt _ _ hpos)
  obtain ⟨p, hg⟩ := hasW_getW hw
  have hz : (w.poolSize == 0) = false := by simpa using hn
  have hch : w.chooseTargetWorker j none = (some (rrNext w.last w.poolSize), { w with last := rrNext w.last w.poolSize }) := by
    rw [rr_choose_eq w j none hr]
    simp only [hz, Bool.false_eq_true, if_false, hintAvailable, hintLast, Bool.or_self, hw, if_true]
  have hri : w.routeInner j none = (.handled, { w with
      last := rrNext w.last w.poolSize
      pool := setW w.pool (rrNext w.last w.poolSize) (p.enqueueJob w.env j).1
      env := (p.enqueueJob w.env j).2 }) := by
    unfold W.routeInner
    rw [hch]
    simp only [hg]
  have hdn : (w.drain == Drain.notDraining) = true := by rw [hd]; rfl
  unfold W.dispatch W.routeMessage W.routeLimited
  simp only [hne, Bool.false_eq_true, if_false, hdn, if_true, hrl, hri]
  refine ⟨?_, ?_, ?_, ?_, ?_⟩ <;> first | trivial | rfl | exact (envConst_enqueueJob p w.env j).now

/-- (round-robin spread from reachable states) For ANY state with the pool shape of a reachable one (`C15.pool_shape`),
`n > 0` workers, the fixed (F10) round-robin router, no limiter, not draining: handling any list of dispatches of
non-expired jobs one after the other picks the slots `rrSeq n k last` — the rotation goes on from where the router state
stood, one step per job, whatever the workers' load. -/
theorem rr_picks_walk (js : List Job) : ∀ (w : W), w.cfg.router = .rr → w.rl = none → w.drain = .notDraining →
    Shape w.poolSize w.pool → w.poolSize ≠ 0 → (∀ j ∈ js, j.expired w.env.now = false) →
    rrPicks w js = rrSeq w.poolSize js.length w.last := by
  induction js with
  | nil => intros; rfl
  | cons j js ih =>
    intro w hr hrl hd hs hn hne
    have hj := hne j (List.mem_cons_self ..)
    obtain ⟨hl, _⟩ := rr_dispatch_takes_next_slot w j hr hrl hj hd hs hn
    obtain ⟨kc, kr, kd, kp, kn⟩ := rr_dispatch_keeps w j hr hrl hj hd hs hn
    have hs' : Shape (w.dispatch j).poolSize (w.dispatch j).pool := shapeInv_dispatch w j hs
    have ih' := ih (w.dispatch j) (by rw [kc]; exact hr) (by rw [kr]; exact hrl) (by rw [kd]; exact hd) hs'
      (by rw [kp]; exact hn) (fun x hx => by rw [kn]; exact hne x (List.mem_cons_of_mem _ hx))
    show (w.dispatch j).last :: rrPicks (w.dispatch j) js = rrSeq w.poolSize (js.length + 1) w.last
    rw [ih', kp, hl]
    rfl

/-- (run-level round-robin spread) After ANY run of a round-robin factory without limiter that is not draining and has
`n > 0` workers, the next `n` dispatches of non-expired jobs go to `n` different slots: every worker `k < n` is picked
exactly once among them. -/
theorem rr_spread_after_any_run (c : CaseCfg) (steps : List Step) (js : List Job) (k : Nat)
    (hr : ((init c).runSteps steps).cfg.router = .rr) (hrl : ((init c).runSteps steps).rl = none)
    (hd : ((init c).runSteps steps).drain = .notDraining) (hn : ((init c).runSteps steps).poolSize ≠ 0)
    (hlen : js.length = ((init c).runSteps steps).poolSize)
    (hne : ∀ j ∈ js, j.expired ((init c).runSteps steps).env.now = false)
    (hk : k < ((init c).runSteps steps).poolSize) :
    ∃ i, i < js.length ∧ (rrPicks ((init c).runSteps steps) js)[i]? = some k ∧
      ∀ i', i' < js.length → (rrPicks ((init c).runSteps steps) js)[i']? = some k → i' = i := by
  have hs : Shape ((init c).runSteps steps).poolSize ((init c).runSteps steps).pool :=
    shapeInv_runSteps (init c) steps (shapeInv_init c)
  rw [rr_picks_walk js _ hr hrl hd hs hn hne, hlen]
  exact rr_spread _ _ k (Nat.pos_of_ne_zero hn) hk


/-- non-vacuity: a reachable state (two jobs already dispatched), then three more dispatches visit all three slots -/
def rrDemoCase : CaseCfg :=
  { cfg := { router := .rr, prioQueue := false, hasHandler := true, table := [], hasCC := false }, n := 3, disc := none, rl := none }
def rrDemoSteps : List Step :=
  [⟨.dispatch 1 1 0 none false, 1000000, 2000000, 3000000⟩, ⟨.dispatch 2 1 0 none false, 3000000, 4000000, 5000000⟩]
def rrDemoJobs : List Job := [⟨10, 1, 0, none, false⟩, ⟨11, 1, 0, none, false⟩, ⟨12, 1, 0, none, false⟩]
example : ((init rrDemoCase).runSteps rrDemoSteps).last = 2 ∧
    rrPicks ((init rrDemoCase).runSteps rrDemoSteps) rrDemoJobs = [0, 1, 2] := by decide +kernel

end C14

#print axioms C14.custom_in_range
#print axioms C14.custom_router_in_range
#print axioms C14.rr_spread
#print axioms C14.rr_in_range
#print axioms C14.rr_router_step
#print axioms C14.rr_choose_eq
#print axioms C14.rr_backlog_single_advance
#print axioms C14.rr_dispatch_takes_next_slot
#print axioms C14.affinity_partial
#print axioms C14.affinity_unique_slot
#print axioms C14.kp_routes_to_holder
#print axioms C14.one_job_in_flight_per_slot
#print axioms C14.pending_tracks_jobs
#print axioms C14.affinity_jobs_partial
#print axioms C14.worker_one_job_at_a_time_partial
#print axioms C14.worker_job_is_booked_partial
#print axioms C14.key_never_on_two_workers_partial
#print axioms C14.queuer_never_idles
#print axioms C14.queuer_deque_sound
#print axioms C14.sorted_split_le
#print axioms C14.sorted_split_ge
#print axioms C14.prioOf_mem_up
#print axioms C14.prioOf_mem_down
#print axioms C14.queue_pop_is_most_urgent_oldest
#print axioms C14.queue_discard_oldest_is_least_urgent
#print axioms C14.queue_peek_is_pop
#print axioms C14.worker_router_never_backlogs
#print axioms C14.worker_router_always_has_target
#print axioms C14.key_order_pipeline
#print axioms C14.kp_next_job_is_oldest_of_its_key
#print axioms C14.kp_jobs_start_in_submission_order_partial
#print axioms C14.busy_worker_starts_nothing
#print axioms C14.cast_to_busy_queues
-- rs2lean tie
#print axioms C14.generated_hash_with_max_eq_model
#print axioms C14.generated_key_persistent_choice_eq_model
#print axioms C14.generated_round_robin_choice_eq_model
#print axioms C14.generated_custom_choice_eq_model
#print axioms C14.generated_queuer_prefix_eq_model
#print axioms C14.generated_sticky_queuer_prefix_eq_model
#print axioms C14.rr_dispatch_keeps
#print axioms C14.rr_picks_walk
#print axioms C14.rr_spread_after_any_run
