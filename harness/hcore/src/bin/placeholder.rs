fn main(){}
