import RactorModel.Model.Pg

/-!
# Lock-step variant of the `Pg` model: the exit sequence of one actor racing everything else

The exiting actor `a` is fixed. Its exit runs region by region (`Pg.markDead`, `demonTake`,
`demonKey`, `demonWKey`, `takeMem`, `leaveKey`, `finishLeave` — one step per lock acquisition,
in the code's order, the iteration order over the drained key sets chosen by the schedule).
Between any two of these steps the *environment* — any number of other threads — may run any
public pg call at its locked region (`join`, `leave`, `monitor`, … including calls that name
`a`), the post-lock clean-up regions of `monitor`/`monitor_scope`/`join_scoped`, and whole
exits of other actors. The E-THR engine replays exactly these steps on the real code.
-/

namespace Pg.Fine
open AList Pg

inductive Phase
  | live                                        -- exit not started
  | marked                                      -- `Stopping` published
  | demon (gk : List Key) (wk : List Nat)       -- `demonitor_all`: monitor sets drained, keys pending
  | demonDone                                   -- `demonitor_all` returned
  | leaving (mk : List Key) (removed : List (Key × List Nat))   -- `leave_all`: memberships drained
  | done
  deriving DecidableEq, Repr

structure FState where
  st : State
  ph : Phase
  deriving Repr

inductive FOp
  /-- environment: a public call at its locked region (an `exit a` of the fixed actor is ignored
  here: that exit is the one being stepped) -/
  | api (op : Op)
  | monRecheck (g b : Nat)
  | monScopeRecheck (s b : Nat)
  | joinClean (s g : Nat) (actors : List Nat)
  /-- the exiter's regions -/
  | mark
  | demTake
  | demKey (k : Key)
  | demWKey (s : Nat)
  | demDone
  | take
  | lvKey (k : Key)
  | finish
  deriving DecidableEq, Repr

def fstep (a : Nat) (fs : FState) : FOp → FState
  | .api op => if op = .exit a then fs else { fs with st := (step fs.st op).1 }
  | .monRecheck g b => { fs with st := monitorRecheck fs.st g b }
  | .monScopeRecheck s b => { fs with st := monitorScopeRecheck fs.st s b }
  | .joinClean s g as => { fs with st := joinCleanup fs.st s g as }
  | .mark =>
    match fs.ph with
    | .live => ⟨markDead fs.st a, .marked⟩
    | _ => fs
  | .demTake =>
    match fs.ph with
    | .marked => ⟨demonTake fs.st a, .demon (relGmon' fs.st a) (relWmon' fs.st a)⟩
    | _ => fs
  | .demKey k =>
    match fs.ph with
    | .demon gk wk => if k ∈ gk then ⟨demonKey fs.st a k, .demon (del k gk) wk⟩ else fs
    | _ => fs
  | .demWKey s =>
    match fs.ph with
    | .demon gk wk => if s ∈ wk then ⟨demonWKey fs.st a s, .demon gk (del s wk)⟩ else fs
    | _ => fs
  | .demDone =>
    match fs.ph with
    | .demon [] [] => { fs with ph := .demonDone }
    | _ => fs
  | .take =>
    match fs.ph with
    | .demonDone => ⟨takeMem fs.st a, .leaving (relMem' fs.st a) []⟩
    | _ => fs
  | .lvKey k =>
    match fs.ph with
    | .leaving mk removed =>
      if k ∈ mk then
        let (st', r) := leaveKey fs.st a k
        ⟨st', .leaving (del k mk) (removed ++ r.toList)⟩
      else fs
    | _ => fs
  | .finish =>
    match fs.ph with
    | .leaving [] removed => ⟨(finishLeave fs.st a removed).1, .done⟩
    | _ => fs
where
  relGmon' (st : State) (a : Nat) : List Key := ((get st.rel a).map (·.gmon)).getD []
  relWmon' (st : State) (a : Nat) : List Nat := ((get st.rel a).map (·.wmon)).getD []
  relMem' (st : State) (a : Nat) : List Key := ((get st.rel a).map (·.mem)).getD []

def frun (a : Nat) (fs : FState) : List FOp → FState
  | [] => fs
  | op :: ops => frun a (fstep a fs op) ops

end Pg.Fine
