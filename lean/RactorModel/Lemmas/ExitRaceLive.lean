import RactorModel.Lemmas.ExitRace

/-!
Progress (no lost wake-up), monotonicity and once-only lemmas for the `ExitRace` model.
-/

namespace ExitRace

/-- program counter of waiter `i` -/
def pcOf (g : G) (i : Nat) : Option WPc := (g.waiters[i]?).map (·.pc)

/-- steps waiter `i` still needs (0 for a returned / abandoned / non-existent waiter) -/
def remaining (g : G) (i : Nat) : Nat :=
  match pcOf g i with
  | some pc => pc.rank
  | none => 0

def isReturned (g : G) (i : Nat) : Bool :=
  match pcOf g i with
  | some (.returned _) => true
  | _ => false

def isAbandoned (g : G) (i : Nat) : Bool :=
  match pcOf g i with
  | some .abandoned => true
  | _ => false

/-! ### `Notify` operations never touch a waiter's program counter -/

theorem wakeAll_pcs (ws : List Waiter) : (wakeAll ws).map (·.pc) = ws.map (·.pc) := by
  simp only [wakeAll, List.map_map]
  apply List.map_congr_left
  intro w _
  simp only [Function.comp]
  split <;> rfl

theorem wakeOne_pcs {ws ws' : List Waiter} (e : wakeOne ws = some ws') :
    ws'.map (·.pc) = ws.map (·.pc) := by
  induction ws generalizing ws' with
  | nil => simp [wakeOne] at e
  | cons a l ih =>
    simp only [wakeOne] at e
    split at e
    · simp only [Option.some.injEq] at e; subst e; rfl
    · simp only [Option.map_eq_some_iff] at e
      obtain ⟨l', hl', rfl⟩ := e
      simp [ih hl']

theorem notifyOne_pcs (sh : Sh) (ws : List Waiter) :
    (notifyOne sh ws).2.map (·.pc) = ws.map (·.pc) := by
  unfold notifyOne
  split
  · rename_i ws' e; exact wakeOne_pcs e
  · rfl

theorem stepSet_pcs (sh : Sh) (ws : List Waiter) (c : SPc) :
    (stepSet sh ws c).2.1.map (·.pc) = ws.map (·.pc) := by
  cases c <;> simp only [stepSet] <;> (try split) <;> first | rfl | exact wakeAll_pcs ws | exact notifyOne_pcs sh ws

theorem pc_of_map_eq {ws ws' : List Waiter} (h : ws'.map (·.pc) = ws.map (·.pc)) (i : Nat) :
    (ws'[i]?).map (·.pc) = (ws[i]?).map (·.pc) := by
  have := congrArg (fun l => l[i]?) h
  simpa [List.getElem?_map] using this

theorem stepExiter_pcs (sh : Sh) (ws : List Waiter) (ex : Exiter) :
    (stepExiter sh ws ex).2.1.map (·.pc) = ws.map (·.pc) := by
  obtain ⟨pc, post, lc, armed, unwound⟩ := ex
  cases pc <;> simp only [stepExiter] <;>
    first
    | rfl
    | (rename_i c; have := stepSet_pcs sh ws c; revert this; generalize stepSet sh ws c = r;
       obtain ⟨a, b, c'⟩ := r; intro this; cases c' <;> exact this)
    | (rename_i c rest; have := stepSet_pcs sh ws c; revert this; generalize stepSet sh ws c = r;
       obtain ⟨a, b, c'⟩ := r; intro this; cases c' <;> exact this)

theorem stepSetter_pcs (sh : Sh) (ws : List Waiter) (t : Setter) :
    (stepSetter sh ws t).2.1.map (·.pc) = ws.map (·.pc) := by
  obtain ⟨call, rest⟩ := t
  cases call with
  | some c => simp only [stepSetter]; exact stepSet_pcs sh ws c
  | none =>
    cases rest with
    | nil => rfl
    | cons s rest => simp only [stepSetter]; exact stepSet_pcs sh ws (.publish s)

theorem pcOf_of_pcs {g g' : G} (h : g'.waiters.map (·.pc) = g.waiters.map (·.pc)) (i : Nat) :
    pcOf g' i = pcOf g i := pc_of_map_eq h i

theorem pcOf_set_ne (g : G) (sh : Sh) (k i : Nat) (x : Waiter) (hk : k ≠ i) :
    pcOf { g with sh := sh, waiters := g.waiters.set k x } i = pcOf g i := by
  simp [pcOf, List.getElem?_set_ne hk]

/-- Only waiter `i`'s own steps (and its abandonment) change its program counter. -/
theorem other_steps_keep_pc (g : G) (tid : Tid) (i : Nat) (h1 : tid ≠ .w i) (h2 : tid ≠ .abandon i) :
    pcOf (step g tid) i = pcOf g i := by
  cases tid with
  | e => exact pcOf_of_pcs (by simp only [step]; exact stepExiter_pcs _ _ _) i
  | s k =>
    simp only [step]
    split
    · rfl
    · exact pcOf_of_pcs (by exact stepSetter_pcs _ _ _) i
  | w k =>
    have hk : k ≠ i := fun e => h1 (e ▸ rfl)
    simp only [step]
    split
    · rfl
    · exact pcOf_set_ne g _ k i _ hk
  | abandon k =>
    have hk : k ≠ i := fun e => h2 (e ▸ rfl)
    simp only [step]
    split
    · rfl
    · rename_i w hw
      split
      · rfl
      · rfl
      · split
        · have hp := notifyOne_pcs g.sh (g.waiters.set k { w with pc := .abandoned })
          have := pcOf_of_pcs (g := { g with waiters := g.waiters.set k { w with pc := .abandoned } })
            (g' := { g with sh := (notifyOne g.sh (g.waiters.set k { w with pc := .abandoned })).1,
                            waiters := (notifyOne g.sh (g.waiters.set k { w with pc := .abandoned })).2 }) hp i
          exact this.trans (pcOf_set_ne g g.sh k i _ hk)
        · exact pcOf_set_ne g g.sh k i _ hk
  | d k => simp only [step]; split <;> rfl
  | succ => simp only [step]; split <;> rfl
  | unwind =>
    simp only [step]
    split
    · rfl
    · split <;> (try split) <;> rfl
  | kill => simp only [step]; split <;> rfl

theorem pcOf_own_step (g : G) (i : Nat) (w : Waiter) (hi : g.waiters[i]? = some w) :
    pcOf (step g (.w i)) i = some (stepWaiter g.sh (okNow g) w).2.pc := by
  have hlt : i < g.waiters.length := (List.getElem?_eq_some_iff.mp hi).1
  simp [pcOf, step, hi, List.getElem?_set_self hlt]

/-- The exiter stays finished. -/
theorem finished_step (g : G) (tid : Tid) (h : g.exiter.finished = true) :
    (step g tid).exiter.finished = true := by
  cases tid with
  | e =>
    obtain ⟨sh, ex, setters, ws, drs⟩ := g
    obtain ⟨pc, post, lc, armed, unwound⟩ := ex
    simp only [step]
    cases pc <;> simp only [Exiter.finished, Bool.false_eq_true] at h
    · rename_i c rest
      simp only [stepExiter]
      generalize stepSet sh ws c = r
      obtain ⟨a, b, c'⟩ := r
      cases c' with
      | some c'' => rfl
      | none => cases rest <;> rfl
    · rfl
  | s k => simp only [step]; split <;> exact h
  | w k => simp only [step]; split <;> exact h
  | abandon k =>
    simp only [step]
    split
    · exact h
    · split
      · exact h
      · exact h
      · split <;> exact h
  | d k => simp only [step]; split <;> exact h
  | succ => simp only [step]; split <;> exact h
  | unwind =>
    simp only [step]
    split
    · exact h
    · obtain ⟨sh, ex, st, ws, drs⟩ := g
      obtain ⟨pc, post, lc, armed, unwound⟩ := ex
      cases pc <;> simp only [Exiter.finished, Bool.false_eq_true] at h <;> rfl
  | kill =>
    simp only [step]
    split
    · rename_i c hpc; simp [Exiter.finished, hpc] at h
    · exact h

theorem finished_stage {ex : Exiter} (h : ex.finished = true) : ex.pc.stage = 15 := by
  obtain ⟨pc, post, lc, armed, unwound⟩ := ex
  cases pc <;> simp only [Exiter.finished, Bool.false_eq_true] at h <;> rfl

/-- **Progress.** Once the exiter has finished, every step of a waiter that has not returned
moves it strictly closer to returning: it is never blocked. -/
theorem waiter_progress (g : G) (i : Nat) (h : InvCore g) (hf : g.exiter.finished = true)
    (hr : 0 < remaining g i) : remaining (step g (.w i)) i < remaining g i := by
  cases hi : g.waiters[i]? with
  | none => simp [remaining, pcOf, hi] at hr
  | some w =>
    have hwo := h.ws w (List.mem_of_getElem? hi)
    have h15 := finished_stage hf
    have hst : g.sh.status = stStopped := h.sh.s12 (by omega)
    have e1 : remaining g i = w.pc.rank := by simp [remaining, pcOf, hi]
    have e2 : remaining (step g (.w i)) i = (stepWaiter g.sh (okNow g) w).2.pc.rank := by
      simp [remaining, pcOf_own_step g i w hi]
    rw [e1] at hr ⊢; rw [e2]
    obtain ⟨pc, wk⟩ := w
    cases pc with
    | start => simp [stepWaiter, WPc.rank]
    | created snap => simp [stepWaiter, WPc.rank, hst]
    | checked snap =>
      -- the exiter has finished: the snapshot is strictly older than the generation, the first poll completes
      have hsn : snap ≤ g.sh.gen ∧ (14 ≤ g.exiter.pc.stage → snap < g.sh.gen) := by simpa [SnapOk] using hwo.snap
      have hlt := hsn.2 (by omega)
      have : (g.sh.gen != snap) = true := by simp only [bne_iff_ne, ne_eq]; omega
      simp [stepWaiter, WPc.rank, this]
    | registered =>
      have hp := hwo.park (by omega)
      simp only [Waiter.parked, Bool.and_eq_false_iff, beq_eq_false_iff_ne, ne_eq, not_true_eq_false, false_or] at hp
      have : (wk != Woken.no) = true := by simpa using hp
      simp [stepWaiter, WPc.rank, this]
    | returned ok => simp [WPc.rank] at hr
    | abandoned => simp [WPc.rank] at hr

/-- A waiter whose remaining steps reached 0 without being abandoned has returned. -/
theorem returned_of_remaining_zero (g : G) (i : Nat) (hi : i < g.waiters.length)
    (h0 : remaining g i = 0) (ha : isAbandoned g i = false) : isReturned g i = true := by
  unfold remaining at h0; unfold isAbandoned at ha; unfold isReturned
  have : pcOf g i = some g.waiters[i].pc := by simp [pcOf, List.getElem?_eq_getElem hi]
  rw [this] at h0 ha ⊢
  generalize g.waiters[i].pc = pc at *
  cases pc <;> simp_all [WPc.rank]

theorem length_step (g : G) (tid : Tid) : (step g tid).waiters.length = g.waiters.length := by
  have key : ∀ g' : G, g'.waiters.map (·.pc) = g.waiters.map (·.pc) → g'.waiters.length = g.waiters.length :=
    fun g' h => by simpa using congrArg List.length h
  cases tid with
  | e => exact key _ (by simp only [step]; exact stepExiter_pcs _ _ _)
  | s k => simp only [step]; split; rfl; exact key _ (stepSetter_pcs _ _ _)
  | w k => simp only [step]; split; rfl; simp
  | abandon k =>
    simp only [step]
    split
    · rfl
    · split
      · rfl
      · rfl
      · split
        · have := congrArg List.length (notifyOne_pcs g.sh (g.waiters.set k { (‹Waiter›) with pc := .abandoned }))
          simpa using this
        · simp
  | d k => simp only [step]; split <;> rfl
  | succ => simp only [step]; split <;> rfl
  | unwind =>
    simp only [step]
    split
    · rfl
    · split <;> (try split) <;> rfl
  | kill => simp only [step]; split <;> rfl

theorem stepWaiter_not_abandoned (sh : Sh) (fl : Bool) (w : Waiter) (h : w.pc ≠ .abandoned) :
    (stepWaiter sh fl w).2.pc ≠ .abandoned := by
  obtain ⟨pc, wk⟩ := w
  cases pc <;> simp only [stepWaiter] <;> (repeat' split) <;> simp_all

/-- own steps never abandon a waiter -/
theorem own_step_not_abandoned (g : G) (i : Nat) (ha : isAbandoned g i = false) :
    isAbandoned (step g (.w i)) i = false := by
  cases hi : g.waiters[i]? with
  | none =>
    have : step g (.w i) = g := by simp [step, hi]
    rw [this]; exact ha
  | some w =>
    have hw : w.pc ≠ .abandoned := by
      intro e
      simp [isAbandoned, pcOf, hi, e] at ha
    have := stepWaiter_not_abandoned g.sh (okNow g) w hw
    unfold isAbandoned
    rw [pcOf_own_step g i w hi]
    generalize (stepWaiter g.sh (okNow g) w).2.pc = pc at *
    cases pc <;> simp_all

/-! ### Once-only elections and monotone status (any `set_status` callers, any values) -/

structure OnceInv (sh : Sh) : Prop where
  cleanup : sh.cleanupRuns ≤ (if stStopping ≤ sh.status then 1 else 0)
  notify : sh.notifyRuns ≤ (if stStopped ≤ sh.status then 1 else 0)

theorem stepSet_once (sh : Sh) (ws : List Waiter) (c : SPc) (h : OnceInv sh) :
    OnceInv (stepSet sh ws c).1 ∧ sh.status ≤ (stepSet sh ws c).1.status := by
  obtain ⟨h1, h2⟩ := h
  cases c <;> simp only [stepSet, notifyOne] <;> (repeat' split) <;>
    (refine ⟨⟨?_, ?_⟩, ?_⟩ <;> simp only [stStopping, stStopped] at * <;> grind)

theorem step_once (g : G) (tid : Tid) (h : OnceInv g.sh) :
    OnceInv (step g tid).sh ∧ g.sh.status ≤ (step g tid).sh.status := by
  have flagsOnly : ∀ sh' : Sh, sh'.status = g.sh.status → sh'.cleanupRuns = g.sh.cleanupRuns →
      sh'.notifyRuns = g.sh.notifyRuns → OnceInv sh' ∧ g.sh.status ≤ sh'.status := by
    intro sh' e1 e2 e3
    exact ⟨⟨by rw [e1, e2]; exact h.cleanup, by rw [e1, e3]; exact h.notify⟩, by omega⟩
  cases tid with
  | e =>
    obtain ⟨sh, ex, setters, ws, drs⟩ := g
    obtain ⟨pc, post, lc, armed, unwound⟩ := ex
    simp only [step]
    cases pc <;> simp only [stepExiter] <;>
      first
      | exact flagsOnly _ rfl rfl rfl
      | (rename_i c; have := stepSet_once sh ws c h; revert this
         generalize stepSet sh ws c = r; obtain ⟨a, b, c'⟩ := r; intro this; cases c' <;> exact this)
      | (rename_i c rest; have := stepSet_once sh ws c h; revert this
         generalize stepSet sh ws c = r; obtain ⟨a, b, c'⟩ := r; intro this; cases c' <;> exact this)
  | s k =>
    simp only [step]
    split
    · exact flagsOnly _ rfl rfl rfl
    · rename_i t ht
      obtain ⟨call, rest⟩ := t
      cases call with
      | some c => simp only [stepSetter]; exact stepSet_once g.sh g.waiters c h
      | none =>
        cases rest with
        | nil => exact flagsOnly _ rfl rfl rfl
        | cons s rest => simp only [stepSetter]; exact stepSet_once g.sh g.waiters (.publish s) h
  | w k =>
    simp only [step]
    split
    · exact flagsOnly _ rfl rfl rfl
    · rename_i w hw
      obtain ⟨pc, wk⟩ := w
      cases pc <;> simp only [stepWaiter] <;> (repeat' split) <;> exact flagsOnly _ rfl rfl rfl
  | abandon k =>
    simp only [step]
    split
    · exact flagsOnly _ rfl rfl rfl
    · split
      · exact flagsOnly _ rfl rfl rfl
      · exact flagsOnly _ rfl rfl rfl
      · split
        · simp only [notifyOne]; split <;> exact flagsOnly _ rfl rfl rfl
        · exact flagsOnly _ rfl rfl rfl
  | d k =>
    simp only [step]
    split
    · obtain ⟨h1, h2⟩ := h
      by_cases hlt : g.sh.status < stStopping
      · simp only [hlt, if_true]
        refine ⟨⟨?_, ?_⟩, ?_⟩ <;> simp only [stStopping, stStopped, stDraining] at * <;> grind
      · simp only [hlt, if_false]
        exact ⟨⟨h1, h2⟩, Nat.le_refl _⟩
    · exact flagsOnly _ rfl rfl rfl
  | succ => simp only [step]; split <;> exact flagsOnly _ rfl rfl rfl
  | unwind =>
    simp only [step]
    split
    · exact flagsOnly _ rfl rfl rfl
    · split <;> (try split) <;> exact flagsOnly _ rfl rfl rfl
  | kill => simp only [step]; split <;> exact flagsOnly _ rfl rfl rfl

theorem run_once (g : G) (sched : List Tid) (h : OnceInv g.sh) :
    OnceInv (run g sched).sh ∧ g.sh.status ≤ (run g sched).sh.status := by
  induction sched generalizing g with
  | nil => exact ⟨h, Nat.le_refl _⟩
  | cons t l ih =>
    have h1 := step_once g t h
    have h2 := ih (step g t) h1.1
    exact ⟨h2.1, Nat.le_trans h1.2 h2.2⟩

/-! ### The exiter itself always finishes -/

/-- The exiter is never blocked: each of its steps moves it to a strictly later stage of the exit
sequence, until it has finished. -/
theorem exiter_progress (g : G) (h : InvCore g) (hf : g.exiter.finished = false) :
    g.exiter.pc.stage < (step g .e).exiter.pc.stage := by
  obtain ⟨hv, hs, hw, hset⟩ := h
  obtain ⟨sh, ex, setters, ws, drs⟩ := g
  obtain ⟨pc, post, lateCalls, armed, unwound⟩ := ex
  simp only at hv hs hw hf
  cases pc with
  | set1 c =>
    cases c <;> simp only [EPc.valid, Bool.false_eq_true, Bool.and_eq_true, beq_iff_eq, decide_eq_true_eq] at hv
    case publish s =>
      subst hv
      have h0 := hs.s0 rfl
      have : (decide (stStopping ≥ stStopping) && decide (sh.status < stStopping)) = true := by simp [h0]
      simp only [step, stepExiter, stepSet, this, if_true]
      simp [EPc.stage]
    case unregPid s p => simp [step, stepExiter, stepSet, EPc.stage]
    case unregName s p => simp [step, stepExiter, stepSet, EPc.stage]
    case pgDemon s p => simp [step, stepExiter, stepSet, EPc.stage]
    case pgLeave s p =>
      obtain ⟨rfl, hp⟩ := hv
      have : (stStopping == stStopped && decide (p < stStopped)) = false := by simp [stStopping, stStopped]
      cases post <;> simp [step, stepExiter, stepSet, afterCleanup, this, EPc.stage]
  | postStop => simp [step, stepExiter, EPc.stage]
  | set2 c =>
    cases c <;> simp only [EPc.valid, Bool.false_eq_true, Bool.and_eq_true, beq_iff_eq, decide_eq_true_eq] at hv
    case publish s =>
      subst hv
      have h1 := hs.s1 (by simp [EPc.stage])
      have e1 : (decide (stStopping ≥ stStopping) && decide (sh.status < stStopping)) = false := by
        rw [Bool.and_eq_false_iff]; right
        exact decide_eq_false (by simp only [stStopping, stStopped, EPc.stage] at *; omega)
      have e2 : (stStopping == stStopped && decide (sh.status < stStopped)) = false := by simp [stStopping, stStopped]
      simp only [step, stepExiter, stepSet, afterCleanup, e1, e2]
      simp [EPc.stage]
  | terminate => simp [step, stepExiter, EPc.stage]
  | notifySup => simp [step, stepExiter, EPc.stage]
  | unlink => simp [step, stepExiter, EPc.stage]
  | stopped => simp [step, stepExiter, EPc.stage]
  | set3 c =>
    cases c <;> simp only [EPc.valid, Bool.false_eq_true, Bool.and_eq_true, beq_iff_eq, decide_eq_true_eq] at hv
    case publish s =>
      subst hv
      have h1 := hs.s1 (by simp [EPc.stage])
      have h2 := hs.s11 (by simp [EPc.stage])
      have e1 : (decide (stStopped ≥ stStopping) && decide (sh.status < stStopping)) = false := by
        rw [Bool.and_eq_false_iff]; right
        exact decide_eq_false (by simp only [stStopping, stStopped, EPc.stage] at *; omega)
      have e2 : (stStopped == stStopped && decide (sh.status < stStopped)) = true := by simp [h2]
      simp only [step, stepExiter, stepSet, afterCleanup, e1, e2]
      simp [EPc.stage]
    case statusNotify => simp [step, stepExiter, stepSet, EPc.stage]
    case notifyWaiters => simp [step, stepExiter, stepSet, EPc.stage]
    case notifyOne =>
      simp only [step, stepExiter, stepSet]
      cases lateCalls <;> simp [lateEntry, EPc.stage]
  | late c rest => simp [Exiter.finished] at hf
  | done => simp [Exiter.finished] at hf


theorem other_steps_keep_exiter (g : G) (tid : Tid) (h : tid ≠ .e) (h' : tid ≠ .unwind) (h'' : tid ≠ .kill) :
    (step g tid).exiter = g.exiter := by
  cases tid with
  | e => exact absurd rfl h
  | s k => simp only [step]; split <;> rfl
  | w k => simp only [step]; split <;> rfl
  | abandon k =>
    simp only [step]
    split
    · rfl
    · split
      · rfl
      · rfl
      · split <;> rfl
  | d k => simp only [step]; split <;> rfl
  | succ => simp only [step]; split <;> rfl
  | unwind => exact absurd rfl h'
  | kill => exact absurd rfl h''

/-- an accepted kill touches neither the program counter nor the guard (only `hasPostStop`) -/
theorem other_steps_keep_exiter' (g : G) (tid : Tid) (h : tid ≠ .e) (h' : tid ≠ .unwind) :
    (step g tid).exiter.pc = g.exiter.pc ∧ (step g tid).exiter.unwound = g.exiter.unwound ∧
      (step g tid).exiter.armed = g.exiter.armed := by
  by_cases hk : tid = .kill
  · subst hk; simp only [step]; split <;> exact ⟨rfl, rfl, rfl⟩
  · rw [other_steps_keep_exiter g tid h h' hk]; exact ⟨rfl, rfl, rfl⟩

/-- an accepted kill before `post_stop` keeps every stage fact: it only clears `hasPostStop`
(making the `post_stop` obligation vacuous) and sets a ghost flag -/
theorem core_kill (g : G) (h : InvCore g) : InvCore (step g .kill) := by
  simp only [step]
  split
  · obtain ⟨a1,a2,a3,a4,a5,a6,a7,a8,a9,a10,a11,a12,a13,a14,a15,a16⟩ := h.sh
    exact ⟨h.valid, ⟨a1,a2,a3,a4,a5,a6,a7,a8, fun _ hp => by simp at hp, a10,a11,a12,a13,a14,a15,a16⟩, h.ws, h.setters⟩
  · exact h

/-! ### Drainers, a successor taking the freed name, and a panicking cleanup statement -/

theorem WOk.down {gen n n' : Nat} {w : Waiter} (h : WOk gen n w) (hn : n ≤ 11) (hn' : n' ≤ 11) :
    WOk gen n' w := by
  obtain ⟨h1, h2, h3, h4, h5⟩ := h
  refine ⟨?_, fun ok hok => ?_, fun a => ?_, fun a => ?_, fun a => by omega⟩
  · cases hpc : w.pc <;> simp only [hpc, SnapOk] at h1 ⊢ <;> try exact h1
    exact ⟨h1.1, fun h14 => by omega⟩
  · have := (h2 ok hok).2; omega
  · have := h3 a; omega
  · have := h4 a; omega

/-- `drain()`'s `fetch_update` keeps every stage fact: it only lifts a status below `Stopping` to
`Draining`, which is possible only before the exit has started. -/
theorem core_d (g : G) (i : Nat) (h : InvCore g) : InvCore (step g (.d i)) := by
  simp only [step]
  split
  · refine ⟨h.valid, ?_, h.ws, h.setters⟩
    obtain ⟨a1,a2,a3,a4,a5,a6,a7,a8,a9,a10,a11,a12,a13,a14,a15,a16⟩ := h.sh
    by_cases hlt : g.sh.status < stStopping
    · simp only [hlt, if_true]
      constructor <;> simp only [stStopping, stStopped, stDraining] at * <;> grind
    · simp only [hlt, if_false]
      exact ⟨a1,a2,a3,a4,a5,a6,a7,a8,a9,a10,a11,a12,a13,a14,a15,a16⟩
  · exact h

theorem core_succ (g : G) (h : InvCore g) : InvCore (step g .succ) := by
  simp only [step]
  split
  · obtain ⟨a1,a2,a3,a4,a5,a6,a7,a8,a9,a10,a11,a12,a13,a14,a15,a16⟩ := h.sh
    exact ⟨h.valid, ⟨a1,a2,a3,a4,a5,a6,a7,a8,a9,a10,a11,a12,a13,a14,a15,a16⟩, h.ws, h.setters⟩
  · exact h

/-- A statement of `cleanup` panics while the guard is still armed: `cleanup` starts again from
its first statement; everything established so far stays established. -/
theorem core_unwind (g : G) (h : InvCore g) (harm : g.exiter.pc.stage ≤ 14 → g.exiter.armed = true) :
    InvCore (step g .unwind) := by
  obtain ⟨hv, hs, hw, hset⟩ := h
  obtain ⟨sh, ex, setters, ws, drs⟩ := g
  obtain ⟨pc, post, lateCalls, armed, unwound⟩ := ex
  simp only at hv hs hw harm
  simp only [step]
  split
  · exact ⟨hv, hs, hw, hset⟩
  · have restart : ∀ n, pc.stage = n → 7 ≤ n → n ≤ 9 →
        InvCore ⟨sh, ⟨.set2 (.publish stStopping), post, lateCalls, armed, true⟩, setters, ws, drs⟩ := by
      intro n hn h7 h9
      refine ⟨by simp [EPc.valid], ?_, fun w hm => ?_, hset⟩
      · rw [hn] at hs
        obtain ⟨a1,a2,a3,a4,a5,a6,a7,a8,a9,a10,a11,a12,a13,a14,a15,a16⟩ := hs
        constructor <;> simp only [EPc.stage, stStopping, stStopped] at * <;> grind
      · have := hw w hm
        rw [hn] at this
        exact this.down (by omega) (by simp [EPc.stage])
    cases pc <;> simp only
    case terminate =>
      have ha : armed = true := harm (by simp [EPc.stage])
      subst ha
      simp only [if_true]; exact restart 7 rfl (by omega) (by omega)
    case notifySup =>
      have ha : armed = true := harm (by simp [EPc.stage])
      subst ha
      simp only [if_true]; exact restart 8 rfl (by omega) (by omega)
    case unlink =>
      have ha : armed = true := harm (by simp [EPc.stage])
      subst ha
      simp only [if_true]; exact restart 9 rfl (by omega) (by omega)
    all_goals exact ⟨hv, hs, hw, hset⟩

/-- only the `status.unreg_name` step touches the name entry -/
theorem stepSet_name (sh : Sh) (ws : List Waiter) (c : SPc) (h : ∀ s p, c ≠ .unregName s p) :
    (stepSet sh ws c).1.name = sh.name := by
  cases c <;> simp only [stepSet, notifyOne] <;> (try split) <;> (try split) <;>
    first | rfl | exact absurd rfl (h _ _)

theorem stepExiter_name (sh : Sh) (ws : List Waiter) (ex : Exiter)
    (h : ∀ s p, ex.pc ≠ .set1 (.unregName s p) ∧ ex.pc ≠ .set2 (.unregName s p)
      ∧ ex.pc ≠ .set3 (.unregName s p) ∧ ∀ r, ex.pc ≠ .late (.unregName s p) r) :
    (stepExiter sh ws ex).1.name = sh.name := by
  obtain ⟨pc, post, lc, armed, unwound⟩ := ex
  simp only at h
  cases pc <;> simp only [stepExiter] <;>
    first
    | rfl
    | (rename_i c
       have hc : ∀ s p, c ≠ .unregName s p := fun s p e => by
         have := h s p; simp_all
       have := stepSet_name sh ws c hc; revert this
       generalize stepSet sh ws c = r; obtain ⟨a, b, c'⟩ := r; intro this; cases c' <;> exact this)
    | (rename_i c rest
       have hc : ∀ s p, c ≠ .unregName s p := fun s p e => by
         have := (h s p).2.2.2 rest; simp_all
       have := stepSet_name sh ws c hc; revert this
       generalize stepSet sh ws c = r; obtain ⟨a, b, c'⟩ := r; intro this; cases c' <;> exact this)

/-- the guard is disarmed only when the exit sequence has finished -/
theorem stepExiter_armed (sh : Sh) (ws : List Waiter) (ex : Exiter) :
    (stepExiter sh ws ex).2.2.armed = ex.armed ∨ (stepExiter sh ws ex).2.2.pc.stage = 15 := by
  obtain ⟨pc, post, lc, armed, unwound⟩ := ex
  cases pc with
  | set1 c =>
    simp only [stepExiter]; generalize stepSet sh ws c = r; obtain ⟨a, b, c'⟩ := r
    cases c' <;> exact Or.inl rfl
  | set2 c =>
    simp only [stepExiter]; generalize stepSet sh ws c = r; obtain ⟨a, b, c'⟩ := r
    cases c' <;> exact Or.inl rfl
  | set3 c =>
    simp only [stepExiter]; generalize stepSet sh ws c = r; obtain ⟨a, b, c'⟩ := r
    cases c' with
    | some c'' => exact Or.inl rfl
    | none => right; cases lc <;> rfl
  | late c rest =>
    simp only [stepExiter]; generalize stepSet sh ws c = r; obtain ⟨a, b, c'⟩ := r
    cases c' <;> exact Or.inl rfl
  | _ => exact Or.inl rfl

theorem stage_step_e (g : G) (h : InvCore g) : g.exiter.pc.stage ≤ (step g .e).exiter.pc.stage := by
  cases hf : g.exiter.finished
  · exact Nat.le_of_lt (exiter_progress g h hf)
  · rw [finished_stage hf, finished_stage (finished_step g .e hf)]
    exact Nat.le_refl _

/-- The full invariant: the stage facts, plus: the name entry still belongs to the exiting actor
exactly as long as `status.unreg_name` has not been executed, and the lifecycle guard stays armed
until the exit sequence has finished. -/
structure Inv (g : G) : Prop extends InvCore g where
  name : g.sh.name ≠ .self → 3 ≤ g.exiter.pc.stage
  armed : g.exiter.pc.stage ≤ 14 → g.exiter.armed = true

theorem valid_not_unreg {pc : EPc} (hv : pc.valid = true) (h2 : pc.stage ≠ 2) (s p : Nat) :
    pc ≠ .set1 (.unregName s p) ∧ pc ≠ .set2 (.unregName s p) ∧ pc ≠ .set3 (.unregName s p)
      ∧ ∀ r, pc ≠ .late (.unregName s p) r := by
  refine ⟨fun e => ?_, fun e => ?_, fun e => ?_, fun r e => ?_⟩ <;>
    (subst e; simp_all [EPc.valid, EPc.stage])

theorem inv_step (g : G) (tid : Tid) (h : Inv g) : Inv (step g tid) := by
  have hc := h.toInvCore
  cases tid with
  | e =>
    have hst := stage_step_e g hc
    refine { toInvCore := inv_e g hc, name := ?_, armed := ?_ }
    · intro hn
      by_cases h2 : g.exiter.pc.stage = 2
      · have := exiter_progress g hc (by
          cases hf : g.exiter.finished
          · rfl
          · have := finished_stage hf; omega)
        omega
      · have hname : (step g .e).sh.name = g.sh.name := by
          simp only [step]
          exact stepExiter_name _ _ _ (valid_not_unreg hc.valid h2)
        have := h.name (hname ▸ hn)
        omega
    · intro h14
      have hex : (step g .e).exiter = (stepExiter g.sh g.waiters g.exiter).2.2 := rfl
      rcases stepExiter_armed g.sh g.waiters g.exiter with e | e
      · rw [hex, e]; exact h.armed (by omega)
      · rw [hex] at h14; omega
  | s i =>
    refine { toInvCore := inv_s g i hc, name := ?_, armed := ?_ } <;>
    · simp only [step]
      split
      · first | exact h.name | exact h.armed
      · rename_i t ht
        obtain ⟨call, rest⟩ := t
        have key : ∀ c, ¬ (∃ s p, c = SPc.unregName s p) →
            (stepSet g.sh g.waiters c).1.name = g.sh.name :=
          fun c hne => stepSet_name _ _ c (fun s p e => hne ⟨s, p, e⟩)
        -- a setter below `Stopping` only publishes
        have hall := hc.setters
        simp only [settersBelowStopping] at hall
        have hmem : (⟨call, rest⟩ : Setter) ∈ g.setters := List.mem_of_getElem? ht
        have ht' := List.all_eq_true.mp hall _ hmem
        simp only [Bool.and_eq_true] at ht'
        cases call with
        | none =>
          cases rest with
          | nil => first | exact h.name | exact h.armed
          | cons s rest =>
            simp only [stepSetter]
            first
            | (rw [key (.publish s) (by rintro ⟨_, _, e⟩; cases e)]; exact h.name)
            | exact h.armed
        | some c =>
          cases c with
          | publish s =>
            simp only [stepSetter]
            first
            | (rw [key (.publish s) (by rintro ⟨_, _, e⟩; cases e)]; exact h.name)
            | exact h.armed
          | _ => simp at ht'
  | w i =>
    refine { toInvCore := inv_w g i hc, name := ?_, armed := ?_ } <;>
    · simp only [step]
      split
      · first | exact h.name | exact h.armed
      · rename_i w hw
        obtain ⟨pc, wk⟩ := w
        cases pc <;> simp only [stepWaiter] <;> (repeat' split) <;> first | exact h.name | exact h.armed
  | abandon i =>
    refine { toInvCore := inv_abandon g i hc, name := ?_, armed := ?_ } <;>
    · simp only [step]
      split
      · first | exact h.name | exact h.armed
      · split
        · first | exact h.name | exact h.armed
        · first | exact h.name | exact h.armed
        · split
          · first | exact h.armed | (simp only [notifyOne]; split <;> exact h.name)
          · first | exact h.name | exact h.armed
  | d i =>
    refine { toInvCore := core_d g i hc, name := ?_, armed := ?_ } <;>
    · simp only [step]; split <;> first | exact h.name | exact h.armed
  | succ =>
    refine { toInvCore := core_succ g hc, name := ?_, armed := ?_ }
    · simp only [step]
      split
      · rename_i hn
        intro _
        exact h.name (by rw [hn]; decide)
      · exact h.name
    · simp only [step]; split <;> exact h.armed
  | unwind =>
    refine { toInvCore := core_unwind g hc h.armed, name := ?_, armed := ?_ }
    · simp only [step]
      split
      · exact h.name
      · obtain ⟨sh, ex, setters, ws, drs⟩ := g
        obtain ⟨pc, post, lateCalls, armed, unwound⟩ := ex
        have hn := h.name
        cases pc <;> simp only <;> (try split) <;> first | exact hn | (intro _; simp [EPc.stage])
    · simp only [step]
      split
      · exact h.armed
      · obtain ⟨sh, ex, setters, ws, drs⟩ := g
        obtain ⟨pc, post, lateCalls, armed, unwound⟩ := ex
        have ha := h.armed
        simp only at ha
        cases pc <;> simp only <;> (try split) <;>
          first
          | exact ha
          | (intro _; exact ha (by simp [EPc.stage]))
          | (intro hh; simp [EPc.stage] at hh)
  | kill =>
    refine { toInvCore := core_kill g hc, name := ?_, armed := ?_ } <;>
    · simp only [step]; split <;> first | exact h.name | exact h.armed

theorem inv_run (g : G) (sched : List Tid) (h : Inv g) : Inv (run g sched) := by
  induction sched generalizing g with
  | nil => exact h
  | cons t l ih => exact ih _ (inv_step g t h)

/-- Once a successor holds the freed name it keeps it: the exiting actor's cleanup does not run a
second time and cannot unregister it. -/
theorem successor_keeps_name_step (g : G) (tid : Tid) (h : Inv g) (hs : g.sh.name = .succ) :
    (step g tid).sh.name = .succ := by
  have h3 := h.name (by rw [hs]; decide)
  cases tid with
  | e =>
    simp only [step]
    rw [stepExiter_name _ _ _ (valid_not_unreg h.valid (by omega))]; exact hs
  | s i =>
    simp only [step]
    split
    · exact hs
    · rename_i t ht
      obtain ⟨call, rest⟩ := t
      have hall := h.setters
      simp only [settersBelowStopping] at hall
      have hmem : (⟨call, rest⟩ : Setter) ∈ g.setters := List.mem_of_getElem? ht
      have ht' := List.all_eq_true.mp hall _ hmem
      simp only [Bool.and_eq_true] at ht'
      cases call with
      | none =>
        cases rest with
        | nil => exact hs
        | cons s rest =>
          simp only [stepSetter]
          rw [stepSet_name _ _ _ (by intro _ _ e; cases e)]; exact hs
      | some c =>
        cases c with
        | publish s =>
          simp only [stepSetter]
          rw [stepSet_name _ _ _ (by intro _ _ e; cases e)]; exact hs
        | _ => simp at ht'
  | w i =>
    simp only [step]
    split
    · exact hs
    · rename_i w hw
      obtain ⟨pc, wk⟩ := w
      cases pc <;> simp only [stepWaiter] <;> (repeat' split) <;> exact hs
  | abandon i =>
    simp only [step]
    split
    · exact hs
    · split
      · exact hs
      · exact hs
      · split
        · simp only [notifyOne]; split <;> exact hs
        · exact hs
  | d i => simp only [step]; split <;> exact hs
  | succ => simp only [step]; split <;> first | exact hs | simp_all
  | unwind =>
    simp only [step]
    split
    · exact hs
    · split <;> (try split) <;> exact hs
  | kill => simp only [step]; split <;> exact hs

/-- **No lost wake-up (fairness form).** From any reachable state in which the exiter has
finished, a waiter that is scheduled three times (whatever else runs in between, including other
waiters being abandoned) and is not itself abandoned has returned. -/
theorem returns_when_scheduled (g : G) (i : Nat) (sched : List Tid) (h : Inv g)
    (hf : g.exiter.finished = true) (hi : i < g.waiters.length) (ha : isAbandoned g i = false)
    (hcount : remaining g i ≤ sched.count (.w i)) (hna : Tid.abandon i ∉ sched) :
    isReturned (run g sched) i = true := by
  induction sched generalizing g with
  | nil =>
    simp only [List.count_nil, Nat.le_zero_eq] at hcount
    exact returned_of_remaining_zero g i hi hcount ha
  | cons t l ih =>
    simp only [run, List.foldl_cons]
    have hna' : Tid.abandon i ∉ l := fun hm => hna (List.mem_cons_of_mem _ hm)
    have hta : t ≠ .abandon i := fun e => hna (e ▸ List.mem_cons_self)
    have hlen := length_step g t
    by_cases ht : t = .w i
    · subst ht
      simp only [List.count_cons_self] at hcount
      refine ih (step g (.w i)) (inv_step g _ h) (finished_step g _ hf) (by omega)
        (own_step_not_abandoned g i ha) ?_ hna'
      by_cases hr : 0 < remaining g i
      · have := waiter_progress g i h.toInvCore hf hr; omega
      · have h0 : remaining g i = 0 := by omega
        -- a returned waiter stays where it is
        have : remaining (step g (.w i)) i = 0 := by
          cases hw : g.waiters[i]? with
          | none =>
            have : step g (.w i) = g := by simp [step, hw]
            rw [this]; exact h0
          | some w =>
            have e1 : remaining g i = w.pc.rank := by simp [remaining, pcOf, hw]
            have e2 : remaining (step g (.w i)) i = (stepWaiter g.sh (okNow g) w).2.pc.rank := by
              simp [remaining, pcOf_own_step g i w hw]
            rw [e1] at h0; rw [e2]
            obtain ⟨pc, wk⟩ := w
            cases pc <;> simp_all [WPc.rank, stepWaiter]
        omega
    · have hk := other_steps_keep_pc g t i ht hta
      have hc : (t :: l).count (.w i) = l.count (.w i) := by
        simp [List.count_cons, ht]
      have hr : remaining (step g t) i = remaining g i := by simp [remaining, hk]
      have hab : isAbandoned (step g t) i = isAbandoned g i := by simp [isAbandoned, hk]
      refine ih (step g t) (inv_step g _ h) (finished_step g _ hf) (by omega) (hab ▸ ha) ?_ hna'
      rw [hr]; omega

/-- what the exiter still has to do; a panicking cleanup statement sets it back at most once -/
def exiterDebt (g : G) : Nat := 15 - g.exiter.pc.stage + (if g.exiter.unwound then 0 else 4)

theorem stage_finished {g : G} (h : g.exiter.pc.stage = 15) : g.exiter.finished = true := by
  obtain ⟨sh, ex, st, ws, drs⟩ := g
  obtain ⟨pc, post, lc, armed, unwound⟩ := ex
  simp only at h ⊢
  cases pc <;> (try rename_i c; cases c) <;> simp [EPc.stage] at h <;> rfl

theorem unwound_step_e (g : G) : (step g .e).exiter.unwound = g.exiter.unwound := by
  obtain ⟨sh, ex, st, ws, drs⟩ := g
  obtain ⟨pc, post, lc, armed, unwound⟩ := ex
  simp only [step]
  cases pc <;> simp only [stepExiter] <;>
    first
    | rfl
    | (rename_i c; generalize stepSet sh ws c = r; obtain ⟨a, b, c'⟩ := r; cases c' <;> rfl)
    | (rename_i c rest; generalize stepSet sh ws c = r; obtain ⟨a, b, c'⟩ := r; cases c' <;> rfl)

theorem debt_unwind (g : G) (h : Inv g) : exiterDebt (step g .unwind) ≤ exiterDebt g := by
  obtain ⟨sh, ex, setters, ws, drs⟩ := g
  obtain ⟨pc, post, lateCalls, armed, unwound⟩ := ex
  have ha := h.armed
  simp only at ha
  simp only [step, exiterDebt]
  cases unwound
  · simp only [Bool.false_eq_true, if_false]
    cases pc <;> simp only <;>
      first
      | exact Nat.le_refl _
      | (have := ha (by simp [EPc.stage]); simp [this, EPc.stage])
  · simp

/-- The exit sequence always completes — also when one statement of `cleanup` panics and the
lifecycle guard's `Drop` has to run `cleanup` again: whatever else is scheduled in between, after
`exiterDebt g ≤ 19` steps of the exiter it has finished (`notify_one` of the final
`set_status(Stopped)` executed). -/
theorem exiter_finishes (g : G) (sched : List Tid) (h : Inv g)
    (hcount : exiterDebt g ≤ sched.count .e) : (run g sched).exiter.finished = true := by
  suffices hgen : ∀ g, Inv g → (g.exiter.finished = true ∨ exiterDebt g ≤ sched.count .e) →
      (run g sched).exiter.finished = true from hgen g h (Or.inr hcount)
  clear hcount h g
  induction sched with
  | nil =>
    intro g h hc
    rcases hc with hf | hc
    · exact hf
    · simp only [List.count_nil, Nat.le_zero_eq, exiterDebt] at hc
      show g.exiter.finished = true
      exact stage_finished (by have := stage_le g.exiter.pc; omega)
  | cons t l ih =>
    intro g h hc
    simp only [run, List.foldl_cons]
    apply ih (step g t) (inv_step g t h)
    rcases hc with hf | hc
    · exact Or.inl (finished_step g t hf)
    · by_cases ht : t = .e
      · subst ht
        simp only [List.count_cons_self] at hc
        cases hf : g.exiter.finished
        · right
          have := exiter_progress g h.toInvCore hf
          have hu := unwound_step_e g
          have := stage_le (step g .e).exiter.pc
          simp only [exiterDebt, hu] at hc ⊢
          omega
        · exact Or.inl (finished_step g .e hf)
      · have hcnt : (t :: l).count .e = l.count .e := by simp [ht]
        right
        by_cases hu : t = .unwind
        · subst hu
          have := debt_unwind g h
          omega
        · obtain ⟨hpc, hun, _⟩ := other_steps_keep_exiter' g t ht hu
          simp only [exiterDebt, hpc, hun] at hc ⊢
          omega

/-! ### Initial states -/

theorem initial_init (post : Bool) (late : List Nat) (setters : List (List Nat)) (n : Nat)
    (h : settersOk setters = true) : Initial (init post late setters n) := by
  refine ⟨rfl, rfl, rfl, by simp [init, stStopping], rfl, rfl, ⟨rfl, rfl⟩, ?_, ?_⟩
  · intro w hw
    simp only [init, List.mem_replicate] at hw
    exact hw.2
  · simp only [settersBelowStopping, init, List.all_map]
    simp only [settersOk] at h
    rw [List.all_eq_true] at h ⊢
    intro l hl
    simp [Function.comp, h l hl]

theorem inv_initial (g : G) (h : Initial g) : Inv g := by
  obtain ⟨h1, ha, hn, h2, h3, h4, ⟨h5, h6⟩, h7, h8⟩ := h
  refine { valid := by simp [h1, EPc.valid], sh := ?_, ws := ?_, setters := h8,
           name := fun hne => absurd hn hne, armed := fun _ => ha }
  · rw [h1]
    constructor <;> simp_all [EPc.stage, stStopping, stStopped] <;> omega
  · intro w hw
    rw [h7 w hw, h1]
    constructor <;> simp [EPc.stage, Waiter.parked, SnapOk]

theorem length_run (g : G) (l : List Tid) : (run g l).waiters.length = g.waiters.length := by
  induction l generalizing g with
  | nil => rfl
  | cons t l ih => simp only [run, List.foldl_cons] at ih ⊢; rw [ih, length_step]

end ExitRace
