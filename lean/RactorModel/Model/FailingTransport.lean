import RactorModel.Model.Codec

/-!
# The frame reader over a transport whose reads can FAIL (C19, clause 3) — the failure is a branch

`Codec.readFramesIo` models an I/O error by renaming the final `eof` of `readFrames`. Here the
transport itself can answer a read with an error at ANY point (`Piece.fail`: `poll_read` returns
`Err(ConnectionReset)` …), with anything after it, and the read loops have the error as a real
branch — the `?` of `read_u64` / `read_n_bytes` in `ractor_cluster/src/net/session.rs`:

* `readChunkT`: one `poll_read`: bytes of the first non-empty piece, `Ok(0)` (= no piece left, EOF),
  or the error;
* `readLoopT`: `Ok(0)` ⇒ `UnexpectedEof`; `Err(e)` ⇒ `Err(e)` — the loop returns at once, the buffer
  collected so far is dropped;
* `readFrameT`: either read failing ends `read_network_message` with that error;
* `readFramesLoopT`: the `SessionReader` stops at the first error of any kind.

`Props/C19.lean` (`reader_over_failing_transport`) proves that this reader behaves exactly as
`readFramesIo` says, so the old `ioEnd` description is a THEOREM about this model.
-/

namespace Codec

inductive Piece where
  | data (b : Bytes)
  /-- the next `poll_read` returns an I/O error -/
  | fail
  deriving Repr, DecidableEq

inductive Rd where
  /-- `Ok(n)`; `n = 0` is EOF -/
  | got (b : Bytes)
  | io
  deriving Repr, DecidableEq

def readChunkT (k : Nat) : List Piece → Rd × List Piece
  | [] => (.got [], [])
  | .fail :: ps => (.io, ps)
  | .data c :: ps =>
    if c.isEmpty then readChunkT k ps
    else (.got (c.take k), if c.length ≤ k then ps else .data (c.drop k) :: ps)

def readLoopT (cs need : Nat) : Nat → Bytes → List Piece → Except FrameErr Bytes × List Piece
  | 0, buf, ps => (if buf.length < need then .error .eof else .ok buf, ps)
  | fuel + 1, buf, ps =>
    if buf.length < need then
      match readChunkT (min (need - buf.length) cs) ps with
      | (.got g, ps') => if g.isEmpty then (.error .eof, ps') else readLoopT cs need fuel (buf ++ g) ps'
      | (.io, ps') => (.error .io, ps')
    else (.ok buf, ps)

def readNT (cs need : Nat) (ps : List Piece) : Except FrameErr Bytes × List Piece := readLoopT cs need need [] ps

def readFrameT {Msg : Type} (dec : Bytes → Option Msg) (max : Nat) (ps : List Piece) : FrameRes Msg × List Piece :=
  match readNT 8 8 ps with
  | (.error e, ps') => (.err e, ps')
  | (.ok hdr, ps') =>
    match checkedFrameLength (beVal hdr) max with
    | .error e => (.err e, ps')
    | .ok len =>
      match readNT chunkSize len ps' with
      | (.error e, ps'') => (.err e, ps'')
      | (.ok payload, ps'') =>
        match dec payload with
        | some m => (.ok m, ps'')
        | none => (.err .undecodable, ps'')

def readFramesLoopT {Msg : Type} (dec : Bytes → Option Msg) (max : Nat) : Nat → List Piece → List (FrameRes Msg)
  | 0, _ => []
  | fuel + 1, ps =>
    match readFrameT dec max ps with
    | (.err e, _) => [.err e]
    | (.ok m, ps') => .ok m :: readFramesLoopT dec max fuel ps'

/-- the data bytes that arrive before the first failure (only used as the loop bound) -/
def dataLen : List Piece → Nat
  | [] => 0
  | .fail :: _ => 0
  | .data c :: ps => c.length + dataLen ps

/-- the life of a `SessionReader` over a transport that may fail -/
def readFramesT {Msg : Type} (dec : Bytes → Option Msg) (max : Nat) (ps : List Piece) : List (FrameRes Msg) :=
  readFramesLoopT dec max (dataLen ps + 1) ps

end Codec
