/-
Model of ractor's RPC layer (`ractor/src/rpc.rs`, `ractor/src/port.rs`) at the level of
API calls between quiescent points: reply ports are LINEAR resources with exactly one
location; callers wait on the receiving half with an optional deadline on the virtual clock.

What is modelled, line by line from `rpc.rs`:
* `call`: create a oneshot, wrap the sender into `RpcReplyPort`, send the message; a failed
  send returns `Err` (the message — and the port inside it — is handed back and dropped);
  otherwise await the receiver, under `timeout(d, rx)` when a timeout is given.
* the callee side is the environment: a handler that dequeued a call may reply, drop the
  port, keep it in the actor (handler/state: dies with the actor) or move it to a task that
  outlives the actor (`detached`).
* callee exit (stop / kill / failure / drain completion): the port set is dropped, which
  closes and flushes the mailbox (`ActorPortSet::drop`), the handler future and the state are
  dropped: every port located in the mailbox or in the actor is dropped.
* `multi_call`: one port per actor, sent in order (`?` on the first failing send: the ports
  already sent are abandoned — their receivers are dropped), results threaded by index.
* `call_and_forward`: a task awaits the reply and on `Success v` sends `map v` to the forward
  target exactly once.

Import-free (core Lean only).
-/

namespace Rpc

inductive Loc where
  | mailbox (a : Nat)      -- inside a message queued at actor `a`
  | actor (a : Nat)        -- held by `a`'s running handler or state: dropped when `a` exits
  | detached               -- moved to a task that outlives the callee
  | replied (v : Nat)      -- `send v` was called on it (consumed)
  | dropped                -- dropped without a reply
  deriving Repr, DecidableEq

inductive Res where
  | success (v : Nat) | senderError | timeout | sendErr
  /-- the receiver was dropped by `multi_call` bailing out on a later failed send -/
  | abandoned
  deriving Repr, DecidableEq

/-- One call = one reply port (`port id = index in S.calls`). -/
structure Call where
  callee : Nat
  deadline : Option Nat          -- absolute virtual time
  loc : Loc
  res : Option Res               -- `none`: the caller is still waiting
  group : Option Nat             -- `multi_call` group
  forward : Option Nat           -- `call_and_forward` target actor
  deriving Repr, DecidableEq

inductive Item where
  | call (p : Nat)
  | fwd (v : Nat)                -- a forwarded reply delivered as an ordinary message
  deriving Repr, DecidableEq

structure Actor where
  alive : Bool
  draining : Bool
  mailbox : List Item
  received : List Nat            -- forwarded values handled, in order
  deriving Repr, DecidableEq

structure S where
  now : Nat
  actors : List Actor
  calls : List Call
  groups : Nat                   -- number of multi_call groups created
  deriving Repr

def init : S := { now := 0, actors := [], calls := [], groups := 0 }

/-- what the callee's handler does with a dequeued call -/
inductive Act where
  | reply (v : Nat) | drop | keep | detach
  deriving Repr, DecidableEq

inductive Op where
  | spawn
  | call (a : Nat) (timeout : Option Nat)
  | mcall (as : List Nat) (timeout : Option Nat)
  | fcall (a f : Nat) (timeout : Option Nat)
  | handle (a : Nat) (act : Act)        -- `a` dequeues and handles its next message
  | later (p : Nat) (act : Act)         -- a kept/detached port is used afterwards (`reply`/`drop`)
  | exit (a : Nat)                      -- kill / handler failure
  /-- graceful stop: the handler blocked on the current message (if any) finishes with `act`,
  then the actor processes the stop and exits — before any task woken by that reply runs -/
  | stop (a : Nat) (act : Act)
  | drain (a : Nat)
  | advance (d : Nat)
  deriving Repr

def accepting (s : S) (a : Nat) : Bool :=
  match s.actors[a]? with
  | some x => x.alive && !x.draining
  | none => false

def setCall (s : S) (p : Nat) (f : Call → Call) : S :=
  { s with calls := s.calls.modify p f }

def setActor (s : S) (a : Nat) (f : Actor → Actor) : S :=
  { s with actors := s.actors.modify a f }

/-- Decide every waiting call whose fate is now determined: a reply or a drop of its port
resolves it at once; otherwise its deadline does. (A reply available at the deadline
instant wins: `timeout` polls the receiver first.) -/
def resolveCall (now : Nat) (c : Call) : Call :=
  match c.res with
  | some _ => c
  | none =>
    match c.loc with
    | .replied v => { c with res := some (.success v) }
    | .dropped => { c with res := some .senderError }
    | _ =>
      match c.deadline with
      | some d => if d ≤ now then { c with res := some .timeout } else c
      | none => c

/-- Forwarding step of `call_and_forward`: a forward-call that just resolved with
`Success v` sends `v` to its target (once). Returns the updated actors. -/
def deliverForwards (before after : List Call) (actors : List Actor) : List Actor :=
  let newly : List (Nat × Nat) := (List.zip before after).filterMap (fun (b, a) =>
    match b.res, a.res, a.forward with
    | none, some (.success v), some f => some (f, v)
    | _, _, _ => none)
  newly.foldl (fun acts (f, v) =>
    acts.modify f (fun x => if x.alive && !x.draining then { x with mailbox := x.mailbox ++ [.fwd v] } else x)) actors

def resolve (s : S) : S :=
  let calls' := s.calls.map (resolveCall s.now)
  { s with calls := calls', actors := deliverForwards s.calls calls' s.actors }

/-- drop every port located in `a`'s mailbox or held by `a` -/
def dropPortsOf (a : Nat) (c : Call) : Call :=
  match c.loc with
  | .mailbox b => if b == a then { c with loc := .dropped } else c
  | .actor b => if b == a then { c with loc := .dropped } else c
  | _ => c

def exitActor (s : S) (a : Nat) : S :=
  match s.actors[a]? with
  | some x =>
    if x.alive then
      { s with actors := s.actors.modify a (fun x => { x with alive := false, mailbox := [] }),
               calls := s.calls.map (dropPortsOf a) }
    else s
  | none => s

/-- one `call`-style send of a fresh port to `a`; returns the new state and whether the send succeeded -/
def sendCall (s : S) (a : Nat) (timeout group forward : Option Nat) : S × Bool :=
  let p := s.calls.length
  let dl := timeout.map (· + s.now)
  if accepting s a then
    ({ s with calls := s.calls ++ [⟨a, dl, .mailbox a, none, group, forward⟩],
              actors := s.actors.modify a (fun x => { x with mailbox := x.mailbox ++ [.call p] }) }, true)
  else
    ({ s with calls := s.calls ++ [⟨a, dl, .dropped, some .sendErr, group, forward⟩] }, false)

/-- `multi_call`: send in order, stop at the first failing send and abandon the ports already sent. -/
def sendMulti (s : S) (g : Nat) (timeout : Option Nat) : List Nat → S
  | [] => s
  | a :: rest =>
    let (s1, ok) := sendCall s a timeout (some g) none
    if ok then sendMulti s1 g timeout rest
    else { s1 with calls := s1.calls.map (fun c =>
            if c.group == some g && c.res == none then { c with res := some .abandoned } else c) }

def applyAct (s : S) (p : Nat) (holder : Nat) (act : Act) : S :=
  match act with
  | .reply v => setCall s p (fun c => { c with loc := .replied v })
  | .drop => setCall s p (fun c => { c with loc := .dropped })
  | .keep => setCall s p (fun c => { c with loc := .actor holder })
  | .detach => setCall s p (fun c => { c with loc := .detached })

/-- `a` dequeues its next message and its handler performs `act` -/
def handleCore (s : S) (a : Nat) (act : Act) : S :=
  match s.actors[a]? with
  | some x =>
    if !x.alive then s else
    match x.mailbox with
    | [] => if x.draining then exitActor s a else s       -- the drain marker: stop by itself
    | .call p :: _ =>
      applyAct (setActor s a (fun y => { y with mailbox := y.mailbox.tail })) p a act
    | .fwd v :: _ =>
      setActor s a (fun y => { y with mailbox := y.mailbox.tail, received := y.received ++ [v] })
  | none => s

def stepCore (s : S) : Op → S
  | .spawn => { s with actors := s.actors ++ [⟨true, false, [], []⟩] }
  | .call a t => (sendCall s a t none none).1
  | .mcall as t => { sendMulti s s.groups t as with groups := s.groups + 1 }
  | .fcall a f t => (sendCall s a t none (some f)).1
  | .handle a act => handleCore s a act
  | .later p act =>
    match s.calls[p]? with
    | some c =>
      (match c.loc, act with
       | .actor _, .reply v => setCall s p (fun c => { c with loc := .replied v })
       | .detached, .reply v => setCall s p (fun c => { c with loc := .replied v })
       | .actor _, .drop => setCall s p (fun c => { c with loc := .dropped })
       | .detached, .drop => setCall s p (fun c => { c with loc := .dropped })
       | _, _ => s)
    | none => s
  | .exit a => exitActor s a
  | .stop a act => exitActor (handleCore s a act) a
  | .drain a => setActor s a (fun x => if x.alive then { x with draining := true } else x)
  | .advance d => { s with now := s.now + d }

/-- A draining actor whose mailbox is empty has reached its drain marker: it stops by itself. -/
def drainExits (s : S) : S :=
  (List.range s.actors.length).foldl (fun s a =>
    match s.actors[a]? with
    | some x => if x.alive && x.draining && x.mailbox.isEmpty then exitActor s a else s
    | none => s) s

def step (s : S) (op : Op) : S := resolve (drainExits (stepCore s op))

def run (ops : List Op) : S := ops.foldl step init

/-! ### the property predicate (shared by the theorems and the run-time oracle) -/

/-- No cross-wiring and no hanging, on one call record: a `Success v` comes from a reply of
exactly `v` on this very port; `SenderError` only if this port was dropped unanswered; a
call whose deadline has passed, whose port was answered or dropped, is complete. -/
def callOk (now : Nat) (c : Call) : Bool :=
  (match c.res with
   | some (.success v) => c.loc == .replied v
   | some .senderError => c.loc == .dropped
   | some .sendErr => c.loc == .dropped
   | some .timeout => (match c.deadline with | some d => decide (d ≤ now) | none => false)
   | some .abandoned => c.group.isSome
   | none =>
     (match c.loc with | .replied _ => false | .dropped => false | _ => true) &&
     (match c.deadline with | some d => decide (now < d) | none => true))

/-- Ports located in a dead actor do not exist: everything a stopped callee still owned was dropped. -/
def locOk (actors : List Actor) (c : Call) : Bool :=
  match c.loc with
  | .mailbox a => (match actors[a]? with | some x => x.alive | none => false)
  | .actor a => (match actors[a]? with | some x => x.alive | none => false)
  | _ => true

def ok (s : S) : Bool := s.calls.all (fun c => callOk s.now c && locOk s.actors c)

end Rpc
