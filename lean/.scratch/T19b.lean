import RactorModel.Lemmas.GenFrame
open Generated.Frame
example (msg buf : List UInt8) (h : msg.length < 2 ^ 64) :
    encode_network_message msg buf = buf ++ Codec.encodeFrame msg := by
  simp [encode_network_message, Codec.encodeFrame, Rust.unwrap, Rust.tryFrom, h, List.append_assoc]
