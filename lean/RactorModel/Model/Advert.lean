/-
The allow-list of a node session (`advertised_local_pids`, ractor_cluster/src/node/node_session.rs)
and what the session tells its peer about local actors.

Two sites touch the allow-list:
* the pid lifecycle handler (`handle_supervisor_evt`): `Spawn` inserts and announces, `Terminate`
  removes and announces;
* `authorized_local_actor`, called for every inbound `Cast` / `Call`: a frame for an allowed pid
  whose actor has left the pid registry PRUNES the pid.

On a multi-threaded runtime the session may get to an inbound frame for an actor after that actor
left the registry and before it gets to the actor's `Terminate` event (it had already dequeued the
frame). The model therefore separates `stop` (the actor leaves the registry, the event is queued)
from `evt` (the session handles the event), and lets frames come at any point.
-/
namespace Advert

inductive Wire where
  | spawn (i : Nat)
  | term (i : Nat)
  deriving DecidableEq, Repr

structure S where
  /-- the next fresh actor -/
  next : Nat := 0
  /-- actors in the pid registry -/
  alive : List Nat := []
  /-- actors that left the registry and whose `Terminate` event the session has not handled yet -/
  pend : List Nat := []
  /-- actors whose `Terminate` event was handled -/
  done : List Nat := []
  /-- control messages sent to the peer, oldest first -/
  wire : List Wire := []
  /-- the allow-list -/
  adv : List Nat := []
  deriving Repr

inductive Op where
  /-- a remotable actor starts and the session handles its `Spawn` event -/
  | spawn
  /-- actor `i` stops: it leaves the pid registry, its `Terminate` event is queued -/
  | stop (i : Nat)
  /-- the session handles the `Terminate` event of `i` -/
  | evt (i : Nat)
  /-- the session handles an inbound `Cast` / `Call` for `i` -/
  | frame (i : Nat)
  deriving DecidableEq, Repr

/-- is the frame handed to the actor? -/
def delivers (s : S) (i : Nat) : Bool := s.adv.contains i && s.alive.contains i

def step (s : S) : Op → S
  | .spawn =>
    { s with next := s.next + 1, alive := s.next :: s.alive, adv := s.next :: s.adv,
             wire := s.wire ++ [.spawn s.next] }
  | .stop i =>
    if s.alive.contains i then { s with alive := s.alive.erase i, pend := s.pend ++ [i] } else s
  | .evt i =>
    -- `if who.supports_remoting() { remove; send Terminate }`: every original here is remotable
    if s.pend.contains i then
      { s with pend := s.pend.erase i, done := s.done ++ [i], adv := s.adv.erase i, wire := s.wire ++ [.term i] }
    else s
  | .frame i =>
    -- `authorized_local_actor`
    if s.adv.contains i && !s.alive.contains i then { s with adv := s.adv.erase i } else s

def run (s : S) (ops : List Op) : S := ops.foldl step s

/-- the `Terminate` announcements on the wire, oldest first -/
def terms (w : List Wire) : List Nat := w.filterMap fun | .term i => some i | .spawn _ => none

def isFrame : Op → Bool
  | .frame _ => true
  | _ => false

end Advert
