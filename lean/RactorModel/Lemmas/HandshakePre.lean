import RactorModel.Lemmas.HandshakeRefineB
import RactorModel.Lemmas.CheckSession

/-! `check_session` on a node's state in the handshake world = the `preA` step or nothing (C18,
round 4). -/

namespace Election

theorem nz_ite (n : Nat) : (if n == 0 then none else some n : Option Nat) = nz n := rfl

theorem nsOfA_matching (nameA nameB : String) (w : List Link) (n : Nat) :
    (nsOfA nameA nameB w).matching nameB n = matchA w n := by
  unfold NS.matching nsOfA matchA
  simp only [nz_ite, List.filter_map, List.map_map, List.filter_filter]
  have hm : (fun x : Session => x.id) ∘ sessA nameB = fun l : Link => l.c.idA := by funext l; rfl
  rw [hm]
  congr 1
  apply List.filter_congr
  intro l _
  simp [sessA, Function.comp, Bool.and_comm]

theorem nsOfB_matching (nameA nameB : String) (w : List Link) (n : Nat) :
    (nsOfB nameB nameA w).matching nameA n = matchB w n := by
  unfold NS.matching nsOfB matchB
  simp only [nz_ite, List.filter_map, List.map_map, List.filter_filter]
  have hm : (fun x : Session => x.id) ∘ sessB nameA = fun l : Link => l.c.idB := by funext l; rfl
  rw [hm]
  congr 1
  apply List.filter_congr
  intro l _
  simp [sessB, Function.comp, Bool.and_comm]

/-- what `check_session` answers on node A's state: `check_candidate` of the one session with that
nonce, `NoOtherConnection` when several sessions share it -/
theorem checkSession_nsOfA (nameA nameB : String) (w : List Link) (n : Nat) :
    (∀ a, matchA w n = [a] → (nsOfA nameA nameB w).checkSession nameB n = (nsOfA nameA nameB w).checkCandidate a) ∧
    (2 ≤ (matchA w n).length → (nsOfA nameA nameB w).checkSession nameB n = .noOther) := by
  rw [← nsOfA_matching nameA nameB w n]
  refine ⟨fun a h => by rw [checkSession_eq, h], fun h => ?_⟩
  rw [checkSession_eq]
  match hm : (nsOfA nameA nameB w).matching nameB n, h with
  | [], h => simp at h
  | [_], h => simp at h
  | _ :: _ :: _, _ => rfl

theorem checkSession_nsOfB (nameA nameB : String) (w : List Link) (n : Nat) :
    (∀ b, matchB w n = [b] → (nsOfB nameB nameA w).checkSession nameA n = (nsOfB nameB nameA w).checkCandidate b) ∧
    (2 ≤ (matchB w n).length → (nsOfB nameB nameA w).checkSession nameA n = .noOther) := by
  rw [← nsOfB_matching nameA nameB w n]
  refine ⟨fun b h => by rw [checkSession_eq, h], fun h => ?_⟩
  rw [checkSession_eq]
  match hm : (nsOfB nameB nameA w).matching nameA n, h with
  | [], h => simp at h
  | [_], h => simp at h
  | _ :: _ :: _, _ => rfl

/-- the session-level pre-check is the `preA` step or nothing: runs with it are runs of `hsStep` -/
theorem stepPreSA_cases (o : Ordering) (w : List Link) (a : Nat) :
    stepPreSA o w a = stepPreA o w a ∨ stepPreSA o w a = w := by
  unfold stepPreSA
  split
  · split
    · exact Or.inl rfl
    · exact Or.inr rfl
  · exact Or.inr rfl

theorem stepPreSB_cases (o : Ordering) (w : List Link) (b : Nat) :
    stepPreSB o w b = stepPreB o w b ∨ stepPreSB o w b = w := by
  unfold stepPreSB
  split
  · split
    · exact Or.inl rfl
    · exact Or.inr rfl
  · exact Or.inr rfl

end Election
