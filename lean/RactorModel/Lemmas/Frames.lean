import RactorModel.Lemmas.Codec

/-! Helper lemmas for the frame layer of the `Codec` model (C19): the chunked reader sees
exactly the concatenation of what the transport delivers. -/

namespace Codec

theorem readChunk_spec {k : Nat} (hk : 0 < k) (chunks : List Bytes) :
    (readChunk k chunks).1 ++ (readChunk k chunks).2.flatten = chunks.flatten ∧
    (readChunk k chunks).1.length ≤ k ∧
    ((readChunk k chunks).1 = [] → chunks.flatten = []) := by
  induction chunks with
  | nil => simp [readChunk]
  | cons c cs ih =>
    unfold readChunk
    by_cases hc : c.isEmpty = true
    · have : c = [] := by simpa using hc
      subst this
      simpa using ih
    · rw [if_neg hc]
      have hne : c ≠ [] := by simpa using hc
      refine ⟨?_, ?_, ?_⟩
      · by_cases hl : c.length ≤ k
        · simp [hl, List.take_of_length_le hl]
        · simp [hl, ← List.append_assoc, List.take_append_drop]
      · simp [List.length_take]; omega
      · intro h
        have : c.take k = [] := h
        rw [List.take_eq_nil_iff] at this
        rcases this with h0 | h0
        · omega
        · exact absurd h0 hne

theorem readLoop_spec {cs : Nat} (hcs : 0 < cs) (need : Nat) :
    ∀ (fuel : Nat) (buf : Bytes) (chunks : List Bytes) (tr : List ReadEv),
      buf.length ≤ need → need - buf.length ≤ fuel →
      (need ≤ buf.length + chunks.flatten.length →
        (readLoop cs need fuel buf chunks tr).1 = some (buf ++ chunks.flatten.take (need - buf.length)) ∧
        (readLoop cs need fuel buf chunks tr).2.1.flatten = chunks.flatten.drop (need - buf.length)) ∧
      (buf.length + chunks.flatten.length < need →
        (readLoop cs need fuel buf chunks tr).1 = none ∧
        (readLoop cs need fuel buf chunks tr).2.1.flatten = []) := by
  intro fuel
  induction fuel with
  | zero =>
    intro buf chunks tr hle hfuel
    have : buf.length = need := by omega
    simp [readLoop, this]
  | succ fuel ih =>
    intro buf chunks tr hle hfuel
    unfold readLoop
    by_cases hlt : buf.length < need
    · rw [if_pos hlt]
      dsimp only
      have hk : 0 < min (need - buf.length) cs := by omega
      have hs := readChunk_spec hk chunks
      generalize hrc : readChunk (min (need - buf.length) cs) chunks = p at hs ⊢
      obtain ⟨got, chunks'⟩ := p
      simp only at hs ⊢
      obtain ⟨hcat, hlen, hnil⟩ := hs
      by_cases hg : got.isEmpty = true
      · have hg' : got = [] := by simpa using hg
        have hS := hnil hg'
        rw [if_pos hg]
        subst hg'
        simp only [List.nil_append] at hcat
        simp [hS, hcat]; omega
      · rw [if_neg hg]
        have hgne : got ≠ [] := by simpa using hg
        have hgl : 0 < got.length := List.length_pos_iff.mpr hgne
        generalize tr ++ [(⟨min (need - buf.length) cs, got.length, buf.length + got.length⟩ : ReadEv)] = tr'
        have := ih (buf ++ got) chunks' tr' (by simp; omega) (by simp; omega)
        rw [← hcat]
        simp only [List.length_append] at this ⊢
        refine ⟨fun h => ?_, fun h => ?_⟩
        · have h1 := this.1 (by omega)
          have e1 : need - buf.length = got.length + (need - (buf.length + got.length)) := by omega
          rw [e1, List.take_length_add_append, List.drop_length_add_append]
          simpa [List.append_assoc] using h1
        · exact this.2 (by omega)
    · rw [if_neg hlt]
      have : buf.length = need := by omega
      simp [this]

/-- `read_n_bytes` / `read_u64` see the concatenation of the pieces: enough bytes ⇒ exactly
the first `need` of them, the transport keeps the rest; otherwise EOF with everything consumed. -/
theorem readN_spec {cs : Nat} (hcs : 0 < cs) (need : Nat) (chunks : List Bytes) :
    (need ≤ chunks.flatten.length →
      (readN cs need chunks).1 = some (chunks.flatten.take need) ∧
      (readN cs need chunks).2.1.flatten = chunks.flatten.drop need) ∧
    (chunks.flatten.length < need →
      (readN cs need chunks).1 = none ∧ (readN cs need chunks).2.1.flatten = []) := by
  have := readLoop_spec hcs need need [] chunks [] (by simp) (by simp)
  simpa [readN] using this

theorem chunkSize_pos : 0 < chunkSize := by decide

theorem parseOne_consumed_le {Msg : Type} (dec : Bytes → Option Msg) (max : Nat) (s : Bytes) :
    (parseOne dec max s).2 ≤ s.length := by
  unfold parseOne
  split
  · simp
  · split
    · simp; omega
    · split
      · simp
      · split <;> simp <;> omega

theorem parseOne_ok_ge {Msg : Type} {dec : Bytes → Option Msg} {max : Nat} {s : Bytes} {m : Msg} {n : Nat}
    (h : parseOne dec max s = (.ok m, n)) : 8 ≤ n := by
  unfold parseOne at h
  split at h
  · simp at h
  · split at h
    · simp at h
    · split at h
      · simp at h
      · split at h
        · simp at h
        · simp only [Prod.mk.injEq] at h; omega

/-- One `read_network_message` over any fragmentation = the reference semantics on the
concatenation; the transport is left with exactly the unconsumed suffix. -/
theorem readFrame_spec {Msg : Type} (dec : Bytes → Option Msg) (max : Nat) (chunks : List Bytes) :
    (readFrame dec max chunks).1 = (parseOne dec max chunks.flatten).1 ∧
    (readFrame dec max chunks).2.1.flatten = chunks.flatten.drop (parseOne dec max chunks.flatten).2 := by
  have hH := readN_spec (cs := 8) (by decide) 8 chunks
  rcases hh : readN 8 8 chunks with ⟨o, chunks', tr⟩
  rw [hh] at hH
  simp only at hH
  unfold readFrame parseOne
  rw [hh]
  generalize chunks.flatten = S at hH ⊢
  by_cases hlt : S.length < 8
  · obtain ⟨h1, h2⟩ := hH.2 hlt
    subst h1
    simp [hlt, h2]
  · obtain ⟨h1, h2⟩ := hH.1 (by omega)
    subst h1
    rw [if_neg hlt]
    simp only
    cases hc : checkedFrameLength (beVal (List.take 8 S)) max with
    | error e => simp [h2]
    | ok len =>
      simp only
      have hP := readN_spec chunkSize_pos len chunks'
      rcases hp : readN chunkSize len chunks' with ⟨o2, chunks'', tr2⟩
      rw [hp] at hP
      simp only at hP
      rw [h2] at hP
      simp only [List.length_drop] at hP
      by_cases hl : S.length < 8 + len
      · obtain ⟨h3, h4⟩ := hP.2 (by omega)
        subst h3
        simp [hl, h4]
      · obtain ⟨h3, h4⟩ := hP.1 (by omega)
        subst h3
        rw [if_neg hl]
        simp only
        cases hd : dec (List.take len (List.drop 8 S)) with
        | none => simp [h4, List.drop_drop, Nat.add_comm]
        | some m => simp [h4, List.drop_drop, Nat.add_comm]

theorem parseFrames_consumed_le {Msg : Type} (dec : Bytes → Option Msg) (max : Nat) :
    ∀ (fuel : Nat) (s : Bytes), (parseFrames dec max fuel s).2 ≤ s.length := by
  intro fuel
  induction fuel with
  | zero => intro s; simp [parseFrames]
  | succ fuel ih =>
    intro s
    unfold parseFrames
    have hle := parseOne_consumed_le dec max s
    rcases hp : parseOne dec max s with ⟨r, n⟩
    rw [hp] at hle
    cases r with
    | err e => simpa using hle
    | ok m =>
      have := ih (s.drop n)
      simp only [List.length_drop] at this ⊢
      simp only at hle
      omega

theorem readFramesLoop_spec {Msg : Type} (dec : Bytes → Option Msg) (max : Nat) :
    ∀ (fuel : Nat) (chunks : List Bytes),
      (readFramesLoop dec max fuel chunks).1 = (parseFrames dec max fuel chunks.flatten).1 ∧
      (readFramesLoop dec max fuel chunks).2.1.flatten
        = chunks.flatten.drop (parseFrames dec max fuel chunks.flatten).2 := by
  intro fuel
  induction fuel with
  | zero => intro chunks; simp [readFramesLoop, parseFrames]
  | succ fuel ih =>
    intro chunks
    have hf := readFrame_spec dec max chunks
    unfold readFramesLoop parseFrames
    rcases hr : readFrame dec max chunks with ⟨r, chunks', tr⟩
    rcases hp : parseOne dec max chunks.flatten with ⟨r', n⟩
    rw [hr, hp] at hf
    simp only at hf
    obtain ⟨h1, h2⟩ := hf
    subst h1
    cases r with
    | err e => simp [h2]
    | ok m =>
      have := ih chunks'
      rw [h2] at this
      simp only
      refine ⟨by simp [this.1], ?_⟩
      rw [this.2, List.drop_drop]

/-- The transport-independent observation of `readFrames` is the reference semantics on the
concatenated stream. -/
theorem framesObs_eq {Msg : Type} (dec : Bytes → Option Msg) (max : Nat) (chunks : List Bytes) :
    framesObs dec max chunks = parseFrames dec max (chunks.flatten.length + 1) chunks.flatten := by
  have h := readFramesLoop_spec dec max (chunks.flatten.length + 1) chunks
  have hle := parseFrames_consumed_le dec max (chunks.flatten.length + 1) chunks.flatten
  unfold framesObs readFrames streamLen
  apply Prod.ext
  · exact h.1
  · simp only [h.2, List.length_drop]
    omega

/-! ### shape: successes, then exactly one error -/

theorem stops_parseFrames {Msg : Type} (dec : Bytes → Option Msg) (max : Nat) :
    ∀ (fuel : Nat) (s : Bytes), s.length < fuel →
      stopsAtFirstError (parseFrames dec max fuel s).1 = true := by
  intro fuel
  induction fuel with
  | zero => intro s h; omega
  | succ fuel ih =>
    intro s h
    unfold parseFrames
    rcases hp : parseOne dec max s with ⟨r, n⟩
    cases r with
    | err e => simp [stopsAtFirstError, isErr]
    | ok m =>
      have h8 := parseOne_ok_ge hp
      have hle := parseOne_consumed_le dec max s
      rw [hp] at hle
      simp only at hle
      have := ih (s.drop n) (by simp only [List.length_drop]; omega)
      simp only
      generalize (parseFrames dec max fuel (List.drop n s)).1 = rs at this
      cases rs with
      | nil => simp [stopsAtFirstError] at this
      | cons r rs => simp [stopsAtFirstError, isErr, this]

/-! ### round trip of the framing -/

theorem length_encodeFrame (p : Bytes) : (encodeFrame p).length = 8 + p.length := by
  simp [encodeFrame, length_encodeBE]

theorem isizeMax_lt : isizeMax < 256 ^ 8 := by decide

theorem parseOne_encodeFrame {Msg : Type} (dec : Bytes → Option Msg) (max : Nat) (p rest : Bytes)
    (hmax : p.length ≤ max) (hsz : p.length ≤ isizeMax) :
    parseOne dec max (encodeFrame p ++ rest)
      = (okOf dec p, 8 + p.length) ∧
    (encodeFrame p ++ rest).drop (8 + p.length) = rest := by
  have hE := length_encodeBE 8 p.length
  have hlt : p.length < 256 ^ 8 := Nat.lt_of_le_of_lt hsz isizeMax_lt
  have e1 : encodeFrame p ++ rest = encodeBE 8 p.length ++ (p ++ rest) := by simp [encodeFrame]
  have e2 : encodeFrame p ++ rest = (encodeBE 8 p.length ++ p) ++ rest := by simp [encodeFrame]
  refine ⟨?_, ?_⟩
  · unfold parseOne
    have hlen : (encodeFrame p ++ rest).length = 8 + p.length + rest.length := by
      simp [length_encodeFrame]
    rw [if_neg (by omega)]
    have h8 : (encodeFrame p ++ rest).take 8 = encodeBE 8 p.length := by
      rw [e1, List.take_left' hE]
    have hpay : ((encodeFrame p ++ rest).drop 8).take p.length = p := by
      rw [e1, List.drop_left' hE, List.take_left' rfl]
    rw [h8, beVal_encodeBE_of_lt hlt]
    have hc : checkedFrameLength p.length max = .ok p.length := by
      simp [checkedFrameLength, Nat.not_lt.mpr hmax, Nat.not_lt.mpr hsz]
    rw [hc]
    simp only
    rw [if_neg (by omega), hpay]
    unfold okOf
    cases dec p <;> rfl
  · rw [e2, List.drop_left' (by simp [hE])]

theorem parseFrames_encode {Msg : Type} (dec : Bytes → Option Msg) (max : Nat) (ps : List Bytes)
    (hmax : ∀ p ∈ ps, p.length ≤ max ∧ p.length ≤ isizeMax)
    (hdec : ∀ p ∈ ps, (dec p).isSome) :
    ∀ fuel, ps.length < fuel →
      parseFrames dec max fuel (ps.flatMap encodeFrame)
        = (ps.map (okOf dec) ++ [.err .eof], (ps.flatMap encodeFrame).length) := by
  induction ps with
  | nil =>
    intro fuel hf
    cases fuel with
    | zero => omega
    | succ fuel => simp [parseFrames, parseOne]
  | cons p ps ih =>
    intro fuel hf
    cases fuel with
    | zero => omega
    | succ fuel =>
      have hp := hmax p (by simp)
      obtain ⟨h1, h2⟩ := parseOne_encodeFrame dec max p (ps.flatMap encodeFrame) hp.1 hp.2
      have hd := hdec p (by simp)
      obtain ⟨m, hm⟩ := Option.isSome_iff_exists.mp hd
      have hok : okOf dec p = .ok m := by simp [okOf, hm]
      have := ih (fun q hq => hmax q (by simp [hq])) (fun q hq => hdec q (by simp [hq])) fuel
        (by simp only [List.length_cons] at hf; omega)
      simp only [parseFrames, List.flatMap_cons, h1, hok, h2, this]
      simp [length_encodeFrame, hok]

/-! ### read discipline -/

theorem readLoop_trace_append (cs need : Nat) :
    ∀ (fuel : Nat) (buf : Bytes) (chunks : List Bytes) (tr : List ReadEv),
      (readLoop cs need fuel buf chunks tr).2.2 = tr ++ (readLoop cs need fuel buf chunks []).2.2 ∧
      (readLoop cs need fuel buf chunks tr).1 = (readLoop cs need fuel buf chunks []).1 ∧
      (readLoop cs need fuel buf chunks tr).2.1 = (readLoop cs need fuel buf chunks []).2.1 := by
  intro fuel
  induction fuel with
  | zero => intro buf chunks tr; simp [readLoop]
  | succ fuel ih =>
    intro buf chunks tr
    unfold readLoop
    by_cases hlt : buf.length < need
    · simp only [if_pos hlt]
      generalize readChunk (min (need - buf.length) cs) chunks = p
      obtain ⟨got, chunks'⟩ := p
      simp only
      by_cases hg : got.isEmpty = true
      · simp [hg]
      · simp only [if_neg hg, List.nil_append]
        have a := ih (buf ++ got) chunks' (tr ++ [⟨min (need - buf.length) cs, got.length, buf.length + got.length⟩])
        have b := ih (buf ++ got) chunks' [⟨min (need - buf.length) cs, got.length, buf.length + got.length⟩]
        rw [a.1, a.2.1, a.2.2, b.1, b.2.1, b.2.2]
        simp
    · simp [if_neg hlt]

theorem readChunk_length_le (k : Nat) (chunks : List Bytes) : (readChunk k chunks).1.length ≤ k := by
  induction chunks with
  | nil => simp [readChunk]
  | cons c cs ih =>
    unfold readChunk
    split
    · exact ih
    · simp [List.length_take]; omega

theorem readLoop_traceOk (cs need : Nat) :
    ∀ (fuel : Nat) (buf : Bytes) (chunks : List Bytes),
      traceOk cs need buf.length (readLoop cs need fuel buf chunks []).2.2 = true := by
  intro fuel
  induction fuel with
  | zero => intro buf chunks; simp [readLoop, traceOk]
  | succ fuel ih =>
    intro buf chunks
    unfold readLoop
    by_cases hlt : buf.length < need
    · simp only [if_pos hlt]
      have hle := readChunk_length_le (min (need - buf.length) cs) chunks
      generalize readChunk (min (need - buf.length) cs) chunks = p at hle
      obtain ⟨got, chunks'⟩ := p
      simp only at hle ⊢
      by_cases hg : got.isEmpty = true
      · simp only [if_pos hg, List.nil_append, traceOk]
        simp; omega
      · simp only [if_neg hg, List.nil_append]
        rw [(readLoop_trace_append cs need fuel (buf ++ got) chunks' _).1]
        have := ih (buf ++ got) chunks'
        simp only [List.length_append] at this
        simp only [List.singleton_append, traceOk, this]
        simp; omega
    · simp [if_neg hlt, traceOk]

/-- `read_n_bytes` / `read_u64`: bounded requests, never beyond the frame, buffer = bytes received. -/
theorem readN_traceOk (cs need : Nat) (chunks : List Bytes) :
    traceOk cs need 0 (readN cs need chunks).2.2 = true :=
  readLoop_traceOk cs need need [] chunks

/-! ### the model's own observation satisfies the run-time oracle -/

theorem traceOk_req_le {cs need : Nat} : ∀ (tr : List ReadEv) (b : Nat),
    traceOk cs need b tr = true → ∀ e ∈ tr, e.req ≤ cs := by
  intro tr
  induction tr with
  | nil => intro b _ e he; simp at he
  | cons a tr ih =>
    intro b h e he
    simp only [traceOk, Bool.and_eq_true, decide_eq_true_eq] at h
    simp only [List.mem_cons] at he
    rcases he with rfl | he
    · exact h.1.1.1.1
    · exact ih _ h.2 e he

theorem maxReq_le {b : Nat} (tr : List ReadEv) (h : ∀ e ∈ tr, e.req ≤ b) : maxReq tr ≤ b := by
  unfold maxReq
  have : ∀ (tr : List ReadEv) (acc : Nat), acc ≤ b → (∀ e ∈ tr, e.req ≤ b) →
      tr.foldl (fun a e => Nat.max a e.req) acc ≤ b := by
    intro tr
    induction tr with
    | nil => intro acc ha _; simpa using ha
    | cons a tr ih =>
      intro acc ha h
      simp only [List.foldl_cons]
      apply ih
      · exact Nat.max_le.mpr ⟨ha, h a (by simp)⟩
      · intro e he; exact h e (by simp [he])
  exact this tr 0 (Nat.zero_le _) h

theorem readFrame_req_le {Msg : Type} (dec : Bytes → Option Msg) (max : Nat) (chunks : List Bytes) :
    ∀ e ∈ (readFrame dec max chunks).2.2, e.req ≤ chunkSize := by
  have hT := readN_traceOk 8 8 chunks
  have h8 : ∀ e ∈ (readN 8 8 chunks).2.2, e.req ≤ chunkSize := by
    intro e he
    have := traceOk_req_le _ _ hT e he
    have : (8 : Nat) ≤ chunkSize := by decide
    omega
  unfold readFrame
  rcases hh : readN 8 8 chunks with ⟨o, chunks', tr⟩
  rw [hh] at h8
  simp only at h8
  cases o with
  | none => simpa using h8
  | some hdr =>
    simp only
    cases checkedFrameLength (beVal hdr) max with
    | error e => simpa using h8
    | ok len =>
      simp only
      have hP := readN_traceOk chunkSize len chunks'
      rcases hp : readN chunkSize len chunks' with ⟨o2, chunks'', tr2⟩
      rw [hp] at hP
      simp only at hP
      have h2 := traceOk_req_le _ _ hP
      have hall : ∀ e ∈ tr ++ tr2, e.req ≤ chunkSize := by
        intro e he
        rcases List.mem_append.mp he with h | h
        · exact h8 e h
        · exact h2 e h
      cases o2 with
      | none => simpa using hall
      | some payload =>
        simp only
        cases dec payload <;> simpa using hall

theorem readFramesLoop_req_le {Msg : Type} (dec : Bytes → Option Msg) (max : Nat) :
    ∀ (fuel : Nat) (chunks : List Bytes), ∀ e ∈ (readFramesLoop dec max fuel chunks).2.2, e.req ≤ chunkSize := by
  intro fuel
  induction fuel with
  | zero => intro chunks e he; simp [readFramesLoop] at he
  | succ fuel ih =>
    intro chunks e he
    have hf := readFrame_req_le dec max chunks
    unfold readFramesLoop at he
    rcases hr : readFrame dec max chunks with ⟨r, chunks', tr⟩
    rw [hr] at he hf
    simp only at hf
    cases r with
    | err e' => simp only at he; exact hf e he
    | ok m =>
      simp only at he
      rcases List.mem_append.mp he with h | h
      · exact hf e h
      · exact ih chunks' e h

theorem checked_ok {l max len : Nat} (h : checkedFrameLength l max = .ok len) :
    l ≤ max ∧ l ≤ isizeMax ∧ len = l := by
  unfold checkedFrameLength at h
  split at h
  · simp at h
  · split at h
    · simp at h
    · simp only [Except.ok.injEq] at h; omega

theorem checked_error {l max : Nat} {e : FrameErr} (h : checkedFrameLength l max = .error e) :
    (e = .tooLarge ∧ max < l) ∨ (e = .unalloc ∧ isizeMax < l) := by
  unfold checkedFrameLength at h
  split at h
  · rename_i hm
    simp only [Except.error.injEq] at h
    exact Or.inl ⟨h.symm, hm⟩
  · split at h
    · rename_i hi
      simp only [Except.error.injEq] at h
      exact Or.inr ⟨h.symm, hi⟩
    · simp at h

theorem parseOne_ok_inv {Msg : Type} {dec : Bytes → Option Msg} {max : Nat} {s : Bytes} {m : Msg} {n : Nat}
    (h : parseOne dec max s = (.ok m, n)) :
    8 ≤ s.length ∧ beVal (s.take 8) ≤ max ∧ beVal (s.take 8) ≤ isizeMax ∧ n = 8 + beVal (s.take 8) ∧
    n ≤ s.length := by
  unfold parseOne at h
  split at h
  · simp at h
  · rename_i h8
    cases hc : checkedFrameLength (beVal (s.take 8)) max with
    | error e => rw [hc] at h; simp at h
    | ok len =>
      rw [hc] at h
      obtain ⟨c1, c2, c3⟩ := checked_ok hc
      simp only at h
      split at h
      · simp at h
      · rename_i hl
        split at h
        · simp at h
        · simp only [Prod.mk.injEq] at h
          omega

theorem parseOne_err_inv {Msg : Type} {dec : Bytes → Option Msg} {max : Nat} {s : Bytes} {e : FrameErr} {n : Nat}
    (h : parseOne dec max s = (.err e, n)) (he : e = .tooLarge ∨ e = .unalloc) :
    8 ≤ s.length ∧ n = 8 ∧ (max < beVal (s.take 8) ∨ isizeMax < beVal (s.take 8)) := by
  unfold parseOne at h
  split at h
  · simp only [Prod.mk.injEq, FrameRes.err.injEq] at h
    rcases he with rfl | rfl <;> simp at h
  · rename_i h8
    cases hc : checkedFrameLength (beVal (s.take 8)) max with
    | error e' =>
      rw [hc] at h
      simp only [Prod.mk.injEq, FrameRes.err.injEq] at h
      rcases checked_error hc with ⟨_, hm⟩ | ⟨_, hi⟩
      · exact ⟨by omega, h.2.symm, Or.inl hm⟩
      · exact ⟨by omega, h.2.symm, Or.inr hi⟩
    | ok len =>
      rw [hc] at h
      simp only at h
      split at h
      · simp only [Prod.mk.injEq, FrameRes.err.injEq] at h
        rcases he with rfl | rfl <;> simp at h
      · split at h
        · simp only [Prod.mk.injEq, FrameRes.err.injEq] at h
          rcases he with rfl | rfl <;> simp at h
        · simp at h

theorem withinLimit_parseFrames {Msg : Type} (dec : Bytes → Option Msg) (max : Nat) :
    ∀ (fuel : Nat) (s : Bytes), withinLimit max (parseFrames dec max fuel s).1 s = true := by
  intro fuel
  induction fuel with
  | zero => intro s; simp [parseFrames, withinLimit]
  | succ fuel ih =>
    intro s
    unfold parseFrames
    rcases hp : parseOne dec max s with ⟨r, n⟩
    cases r with
    | err e => simp [withinLimit]
    | ok m =>
      obtain ⟨h8, hm, hi, hn, hl⟩ := parseOne_ok_inv hp
      simp only [withinLimit, Bool.and_eq_true, decide_eq_true_eq]
      refine ⟨⟨⟨⟨h8, hm⟩, hi⟩, by omega⟩, ?_⟩
      rw [← hn]
      exact ih _

theorem lastIsReject_ok_cons {Msg : Type} (m : Msg) (rs : List (FrameRes Msg)) :
    lastIsReject (.ok m :: rs) = lastIsReject rs := by
  cases rs with
  | nil => simp [lastIsReject]
  | cons r rs => simp [lastIsReject, List.getLast?_cons_cons]

theorem rejectPoint_parseFrames {Msg : Type} (dec : Bytes → Option Msg) (max : Nat) :
    ∀ (fuel : Nat) (s : Bytes), lastIsReject (parseFrames dec max fuel s).1 = true →
      rejectPoint max fuel s = some (parseFrames dec max fuel s).2 := by
  intro fuel
  induction fuel with
  | zero => intro s h; simp [parseFrames, lastIsReject] at h
  | succ fuel ih =>
    intro s h
    unfold parseFrames at h ⊢
    rcases hp : parseOne dec max s with ⟨r, n⟩
    rw [hp] at h
    cases r with
    | err e =>
      simp only at h ⊢
      have he : e = .tooLarge ∨ e = .unalloc := by
        cases e <;> simp [lastIsReject] at h <;> simp
      obtain ⟨h8, hn, hbig⟩ := parseOne_err_inv hp he
      unfold rejectPoint
      rw [if_neg (by omega)]
      simp only
      rw [if_pos (by simpa using hbig)]
      rw [hn]
    | ok m =>
      simp only at h ⊢
      rw [lastIsReject_ok_cons] at h
      obtain ⟨h8, hm, hi, hn, hl⟩ := parseOne_ok_inv hp
      have := ih (s.drop n) h
      unfold rejectPoint
      rw [if_neg (by omega)]
      simp only
      rw [if_neg (by simp; omega), if_neg (by omega), ← hn, this]
      simp; omega

end Codec
