import RactorModel.Model.Link

/-!
# The composed remote-reference system (C20)

`Remote.Net` (one proxy, one original, PRIVATE pipes), `Mux` (several references over one wire),
`Link` (the session under transport errors, the `NodeSession`, the `Mirror` of the control stream)
were separate models. `Compose.Sys` is ONE system made of them, with explicit coupling:

* one `Net` per reference `p` (the proxy's tag/pending state, its mailbox, its callers, the
  original `p` with its reply forwarders) — `nets p`;
* ONE shared chain of FIFO stages per direction: `fwd` (A→B, elements `(to, frame)`) and `back`
  (B→A, elements `(to, reply)`). What proxy `p` emits is pushed on the shared `fwd` with `to = p`;
  what leaves the shared `fwd` is handed to the original named by `to`; what an original's reply
  forwarder emits is pushed on the shared `back`; what leaves `back` goes into the mailbox of the
  proxy stored under `to` (`Mux`);
* ONE `Link.S`: the tcp session, its reader / writer task, the `NodeSession` and the `Mirror`
  (`remote_actors` and the proxies' group memberships) driven by the control stream;
* the coupling between `Link` and the proxies: `get_or_spawn_remote_actor` makes the proxy actor of
  every pid that enters `mirror.proxies` (`made`), and every proxy that leaves `mirror.proxies`
  (a `Terminate`, the `NodeSession` stopping after ANY transport error, a reference being
  stopped) is a stopped actor from then on: its `Net` takes `loseA` (status `linkUp := false`, its
  pending callers are dropped, replies still travelling to it are dropped on arrival).

Whether a send through reference `p` succeeds is decided by the STATUS OF THE PROXY ACTOR in this
composed state (`running`), not by a table lookup: `accepts s p = made p ∧ (nets p).linkUp`.
That this coincides with `p ∈ link.mirror.proxies` is a theorem (`Inv.status`).

Pids are never re-used (`ActorId` comes from a monotonic counter; see `Advert`:
`every_actor_is_advertised_exactly_once`): a control message that re-advertises a pid whose proxy
has stopped is not modelled — `restrict` removes such pids from `Spawn` / `PgJoin`.

The private pipes of `nets p` are NOT a second transport: `Inv.fwd` / `Inv.back` prove that they
are, at every moment, exactly the view of the shared wire restricted to `to = p` (`projPipe`).
Core Lean only.
-/

namespace Compose
open Remote

/-- the view of a shared wire from reference `p`: per stage, the elements addressed `to = p` -/
def projPipe {α : Type} (p : Nat) (st : Pipe (Nat × α)) : Pipe α :=
  st.map fun s => (s.filter (·.1 == p)).map (·.2)

/-- the oldest element of stage `i` -/
def headAt {α : Type} : Nat → Pipe α → Option α
  | _, [] => none
  | 0, s :: _ => s.head?
  | i + 1, _ :: rest => headAt i rest

/-- elements addressed to a reference in `dead` are dropped on arrival -/
def purge {α : Type} (dead : Nat → Bool) (st : Pipe (Nat × α)) : Pipe (Nat × α) :=
  st.map fun s => s.filter fun e => !dead e.1

def restrict (okp : Nat → Bool) : Ctl → Ctl
  | .spawn pids => .spawn (pids.filter okp)
  | .pgJoin s g pids => .pgJoin s g (pids.filter okp)
  | c => c

def restrictEv (okp : Nat → Bool) : Link.Ev Unit → Link.Ev Unit
  | .ctl c => .ctl (restrict okp c)
  | e => e

def upd (f : Nat → Net) (p : Nat) (n : Net) : Nat → Net := fun q => if q = p then n else f q

/-- the frames the proxy of `n` hands to its session when it handles its next message -/
def proxyFrames (n : Net) : List Frame :=
  match n.mbox with
  | [] => []
  | (m, sender) :: _ =>
    ((n.px.handle (n.closed.contains ·) n.linkUp m).2).filterMap (Frame.ofOut sender m.port)

/-- the `Reply` the forwarder behind handle `h` emits -/
def answerReply (n : Net) (h data : Nat) : Option Reply :=
  (n.handles.find? (·.id == h)).map fun hd => ⟨hd.tag, data, hd.gport⟩

structure Sys where
  /-- per reference (key = pid of the original) -/
  nets : Nat → Net
  /-- proxies ever made by `get_or_spawn_remote_actor` -/
  made : List Nat := []
  /-- the shared A→B wire -/
  fwd : Pipe (Nat × Frame)
  /-- the shared B→A wire -/
  back : Pipe (Nat × Reply)
  link : Link.S Unit := {}
  /-- ghost: sends through reference `p` that returned `Ok` / `Err` -/
  accepted : List (Nat × Item) := []
  refused : List (Nat × Item) := []

/-- the proxy actor of reference `p` exists and runs -/
def running (s : Sys) (p : Nat) : Bool := s.made.contains p && (s.nets p).linkUp

/-- the proxy actor of reference `p` existed and has stopped -/
def stopped (s : Sys) (p : Nat) : Bool := s.made.contains p && !(s.nets p).linkUp

/-- a send through reference `p` succeeds: DERIVED from the status of its proxy actor -/
def accepts (s : Sys) (p : Nat) : Bool := running s p

/-- reference `p` is a member of the group `k` -/
def inGroup (s : Sys) (k : GKey) (p : Nat) : Bool := s.link.mirror.members.contains (k, p)

inductive Op where
  /-- a local sender casts / calls through reference `p` -/
  | cast (p sender payload : Nat)
  | call (p sender payload : Nat)
  /-- the caller holding `port` of reference `p` gives up -/
  | abandon (p port : Nat)
  /-- proxy `p` handles its next message; its frames go on the SHARED wire with `to = p` -/
  | proxy (p : Nat)
  /-- shared forward stage `i` hands on its oldest frame; out of the last stage B's session hands
  it to the original named by `to` -/
  | moveF (i : Nat)
  /-- the original `p` answers / drops the call behind handle `h`; the reply goes on the SHARED
  backward wire with `to = p` -/
  | answer (p h data : Nat)
  | drop (p h : Nat)
  /-- shared backward stage `i` hands on its oldest reply; out of the last stage A's session puts
  it into the mailbox of the proxy stored under `to` -/
  | moveB (i : Nat)
  /-- the original `p` exits -/
  | targetExit (p : Nat)
  /-- an event of the session / transport / `NodeSession` / control stream (`Link`) -/
  | link (e : Link.Ev Unit)

def step (s : Sys) : Op → Sys
  | .cast p sender payload =>
    if s.made.contains p then
      -- `ActorCell::send_serialized` on the proxy actor: the `Net` of `p` decides by its own status
      { s with nets := upd s.nets p ((s.nets p).step (.cast sender payload)),
               accepted := if running s p then s.accepted ++ [(p, ⟨false, sender, payload⟩)] else s.accepted,
               refused := if running s p then s.refused else s.refused ++ [(p, ⟨false, sender, payload⟩)] }
    else { s with refused := s.refused ++ [(p, ⟨false, sender, payload⟩)] }
  | .call p sender payload =>
    if s.made.contains p then
      { s with nets := upd s.nets p ((s.nets p).step (.call sender payload)),
               accepted := if running s p then s.accepted ++ [(p, ⟨true, sender, payload⟩)] else s.accepted,
               refused := if running s p then s.refused else s.refused ++ [(p, ⟨true, sender, payload⟩)] }
    else { s with refused := s.refused ++ [(p, ⟨true, sender, payload⟩)] }
  | .abandon p port => { s with nets := upd s.nets p ((s.nets p).step (.abandon port)) }
  | .proxy p =>
    if s.made.contains p then
      { s with nets := upd s.nets p ((s.nets p).step .proxy),
               fwd := (proxyFrames (s.nets p)).foldl (fun st f => Pipe.push (p, f) st) s.fwd }
    else s
  | .moveF i =>
    match headAt i s.fwd with
    | none => s
    | some (p, _) =>
      { s with fwd := (s.fwd.move i).1, nets := upd s.nets p ((s.nets p).step (.moveF i)) }
  | .answer p h data =>
    { s with nets := upd s.nets p ((s.nets p).step (.answer h data)),
             back := match answerReply (s.nets p) h data with
               | none => s.back
               | some r => s.back.push (p, r) }
  | .drop p h => { s with nets := upd s.nets p ((s.nets p).step (.drop h)) }
  | .moveB i =>
    match headAt i s.back with
    | none => s
    | some (p, _) =>
      { s with back := (s.back.move i).1, nets := upd s.nets p ((s.nets p).step (.moveB i)) }
  | .targetExit p => { s with nets := upd s.nets p ((s.nets p).step .targetExit) }
  | .link e =>
    let l := Link.step s.link (restrictEv (fun p => !stopped s p) e)
    -- proxies that just left `remote_actors` / whose supervisor stopped: stopped actors from now on
    let dead := fun p => running s p && !l.mirror.proxies.contains p
    { s with link := l,
             nets := fun p => if dead p then (s.nets p).step .loseA else s.nets p,
             back := purge dead s.back,
             made := s.made ++ l.mirror.proxies.filter (fun p => !s.made.contains p) }

def run (s : Sys) (ops : List Op) : Sys := ops.foldl step s

/-- a fresh pair of nodes with `k+1` forward and `k'+1` backward stages -/
def init (k k' : Nat) : Sys :=
  { nets := fun _ => Net.init k k', fwd := List.replicate (k + 1) [], back := List.replicate (k' + 1) [] }

/-- both actors of A's side handle what is in their queues (`Link.settle`) -/
def settle (s : Sys) : Sys := step (step s (.link .sessionStops)) (.link .nodeNotices)

end Compose
