//! C12 correspondence harness (E-LTS at quiescent points, tokio paused clock).
//!
//! Runs the REAL `ractor::time::{send_after, send_interval, exit_after, kill_after}` against a
//! real target actor on a `current_thread` runtime started paused, and records for every macro
//! op the exact virtual timestamps of message-builder calls, handled messages, timer-handle
//! results and the target's exit (reason as seen by its supervisor).  No `verif` controller is
//! installed: tasks are scheduled by tokio itself.
//! Two target flavours: an ordinary (`Send`) actor on the harness runtime (`case <n>`), and a
//! `ThreadLocalActor` on a `ThreadLocalActorSpawner` thread (`case <n> tl`). The spawner's thread is
//! kept FROZEN (a `Freezer` actor on it blocks the thread in a std channel `recv`) except for the
//! "target runs" steps of the model's schedule, during which the harness thread blocks in turn:
//! the two threads never run at the same time, so the thread-local runs are as deterministic as the
//! others and follow the same small-step schedule (`Timers.expand`). No real-time waits.
//! `hold` gates `post_stop` (both flavours), `psrelease` opens the gate: timers expire, are created
//! and tick while the target sits in `post_stop` (stopped accepting, not gone).
//! All durations (periods, clock advances) and all timestamps are in MICROSECONDS: periods such
//! as 900 µs, 1500 µs, 2500 µs and sub-millisecond advances are exercised next to whole ms.
//!
//! usage: timers --seed S --cases N --out DIR [--replay-ops f1,f2] [--only-replay 1]

use std::future::Future;
use std::panic::AssertUnwindSafe;
use std::sync::atomic::{AtomicU32, AtomicU64, Ordering};
use std::sync::{Arc, Mutex};
use std::task::Poll;

use hutil::{Args, Log, Rng, Stats};
use ractor::concurrency::{Duration, JoinHandle};
use ractor::thread_local::{ThreadLocalActor, ThreadLocalActorSpawner};
use ractor::{Actor, ActorProcessingErr, ActorRef, ActorStatus, MessagingErr, SupervisionEvent};

type Ev = (u32, u32, u64); // (timer id, k, virtual µs)

/// the message on which the target's handler returns `Err` (the actor FAILS: `ActorFailed`, no `post_stop`)
const POISON: (u32, u32) = (u32::MAX, u32::MAX);
/// ... and the message on which it PANICS (ractor catches the panic: same `ActorFailed`)
const POISON_PANIC: (u32, u32) = (u32::MAX, u32::MAX - 1);

#[derive(Default)]
struct Shared {
    attempts: Vec<Ev>,
    handled: Vec<Ev>,
    exit: Option<(String, u64)>,
    /// `post_stop` was entered with the gate armed, at this instant
    ps_entered: Option<u64>,
}

fn now_ms(t0: tokio::time::Instant) -> u64 {
    let d = tokio::time::Instant::now() - t0;
    // whole microseconds only; anything else is reported verbatim as a fraction marker
    if d.subsec_nanos() % 1_000 != 0 {
        return 9_000_000_000_000 + d.as_nanos() as u64;
    }
    d.as_micros() as u64
}

/// where the target reads the virtual time: the paused tokio clock of the harness runtime, or (on
/// the spawner's thread, whose runtime has its own clock) a cell the harness sets before each run
#[derive(Clone)]
enum Clock {
    Tokio(tokio::time::Instant),
    Cell(Arc<AtomicU64>),
}

impl Clock {
    fn now(&self) -> u64 {
        match self {
            Clock::Tokio(t0) => now_ms(*t0),
            Clock::Cell(c) => c.load(Ordering::SeqCst),
        }
    }
}

#[derive(Clone)]
struct Ctx {
    sh: Arc<Mutex<Shared>>,
    clock: Clock,
    /// `true`: `post_stop` waits
    gate: Arc<tokio::sync::watch::Sender<bool>>,
    /// `true`: `post_start` waits (the target stays `Starting`, its message loop has not begun)
    start_gate: Arc<tokio::sync::watch::Sender<bool>>,
}

impl Ctx {
    fn handled(&self, m: (u32, u32)) {
        let t = self.clock.now();
        self.sh.lock().unwrap().handled.push((m.0, m.1, t));
    }
    async fn post_start(&self) {
        let mut rx = self.start_gate.subscribe();
        loop {
            if !*rx.borrow() {
                break;
            }
            if rx.changed().await.is_err() {
                break;
            }
        }
    }
    async fn post_stop(&self) {
        let mut rx = self.gate.subscribe();
        if *rx.borrow() {
            let t = self.clock.now();
            self.sh.lock().unwrap().ps_entered = Some(t);
            loop {
                if !*rx.borrow() {
                    break;
                }
                if rx.changed().await.is_err() {
                    break;
                }
            }
        }
    }
}

struct Target(Ctx);

impl Actor for Target {
    type Msg = (u32, u32);
    type State = ();
    type Arguments = ();
    async fn pre_start(&self, _me: ActorRef<Self::Msg>, _: ()) -> Result<(), ActorProcessingErr> {
        Ok(())
    }
    async fn post_start(&self, _me: ActorRef<Self::Msg>, _s: &mut ()) -> Result<(), ActorProcessingErr> {
        self.0.post_start().await;
        Ok(())
    }
    async fn handle(&self, _me: ActorRef<Self::Msg>, m: Self::Msg, _s: &mut ()) -> Result<(), ActorProcessingErr> {
        if m == POISON {
            return Err("poison".into());
        }
        if m == POISON_PANIC {
            panic!("poison");
        }
        self.0.handled(m);
        Ok(())
    }
    async fn post_stop(&self, _me: ActorRef<Self::Msg>, _s: &mut ()) -> Result<(), ActorProcessingErr> {
        self.0.post_stop().await;
        Ok(())
    }
}

/// the same target as a thread-local actor
#[derive(Default)]
struct TlTarget;

impl ThreadLocalActor for TlTarget {
    type Msg = (u32, u32);
    type State = Ctx;
    type Arguments = Ctx;
    async fn pre_start(&self, _me: ActorRef<Self::Msg>, ctx: Ctx) -> Result<Ctx, ActorProcessingErr> {
        Ok(ctx)
    }
    async fn post_start(&self, _me: ActorRef<Self::Msg>, ctx: &mut Ctx) -> Result<(), ActorProcessingErr> {
        ctx.post_start().await;
        Ok(())
    }
    async fn handle(&self, _me: ActorRef<Self::Msg>, m: Self::Msg, ctx: &mut Ctx) -> Result<(), ActorProcessingErr> {
        if m == POISON {
            return Err("poison".into());
        }
        if m == POISON_PANIC {
            panic!("poison");
        }
        ctx.handled(m);
        Ok(())
    }
    async fn post_stop(&self, _me: ActorRef<Self::Msg>, ctx: &mut Ctx) -> Result<(), ActorProcessingErr> {
        ctx.post_stop().await;
        Ok(())
    }
}

/// Keeps the spawner's thread frozen: one message starts an endless cycle
/// "acknowledge - block the whole thread until thawed - let every other task of the thread run".
#[derive(Default)]
struct Freezer;

struct FreezerState {
    ack: std::sync::mpsc::Sender<()>,
    thaw: std::sync::mpsc::Receiver<()>,
}

impl ThreadLocalActor for Freezer {
    type Msg = ();
    type State = FreezerState;
    type Arguments = FreezerState;
    async fn pre_start(&self, _me: ActorRef<()>, a: FreezerState) -> Result<FreezerState, ActorProcessingErr> {
        Ok(a)
    }
    async fn handle(&self, _me: ActorRef<()>, _m: (), st: &mut FreezerState) -> Result<(), ActorProcessingErr> {
        loop {
            let _ = st.ack.send(());
            if st.thaw.recv().is_err() {
                break;
            }
            for _ in 0..64 {
                tokio::task::yield_now().await;
            }
        }
        Ok(())
    }
}

/// the harness side of the frozen thread
struct Tl {
    _spawner: ThreadLocalActorSpawner,
    freezer: ActorRef<()>,
    thaw: Option<std::sync::mpsc::Sender<()>>,
    ack: std::sync::mpsc::Receiver<()>,
    vnow: Arc<AtomicU64>,
    stalled: bool,
}

impl Tl {
    /// the target's thread runs until idle (64 turns for every task on it), this thread blocked meanwhile
    fn run_target(&mut self, now: u64) {
        self.vnow.store(now, Ordering::SeqCst);
        if let Some(t) = &self.thaw {
            let _ = t.send(());
        }
        if self.ack.recv_timeout(std::time::Duration::from_secs(20)).is_err() {
            self.stalled = true;
        }
    }
}

struct Watcher {
    sh: Arc<Mutex<Shared>>,
    t0: tokio::time::Instant,
}

impl Actor for Watcher {
    type Msg = ();
    type State = ();
    type Arguments = ();
    async fn pre_start(&self, _me: ActorRef<Self::Msg>, _: ()) -> Result<(), ActorProcessingErr> {
        Ok(())
    }
    async fn handle_supervisor_evt(
        &self,
        _me: ActorRef<Self::Msg>,
        ev: SupervisionEvent,
        _s: &mut (),
    ) -> Result<(), ActorProcessingErr> {
        let t = now_ms(self.t0);
        let mut sh = self.sh.lock().unwrap();
        match ev {
            SupervisionEvent::ActorTerminated(_, _, reason) => {
                let r = reason.unwrap_or_else(|| "<none>".into());
                if sh.exit.is_none() {
                    sh.exit = Some((r, t));
                } else {
                    sh.exit = Some((format!("<second exit> {r}"), t));
                }
            }
            SupervisionEvent::ActorFailed(_, e) => sh.exit = Some((format!("<failed> {e}"), t)),
            _ => {}
        }
        Ok(())
    }
}

/// message type of a `DerivedActorRef` onto the target (its own copies of send_after / send_interval)
struct DMsg(u32, u32);
impl From<DMsg> for (u32, u32) {
    fn from(d: DMsg) -> Self {
        (d.0, d.1)
    }
}
impl TryFrom<(u32, u32)> for DMsg {
    type Error = ();
    fn try_from(m: (u32, u32)) -> Result<Self, ()> {
        Ok(DMsg(m.0, m.1))
    }
}

/// a message type the target does not have: `ActorCell::send_message::<Wrong>` answers `InvalidActorType`
struct Wrong(#[allow(dead_code)] u32, #[allow(dead_code)] u32);

enum Handle {
    Send(JoinHandle<Result<(), MessagingErr<(u32, u32)>>>),
    SendX(JoinHandle<Result<(), MessagingErr<Wrong>>>),
    SendD(JoinHandle<Result<(), MessagingErr<DMsg>>>),
    Unit(JoinHandle<()>),
}

struct TimerRec {
    /// `None`: the `JoinHandle` was dropped (the task is detached)
    h: Option<Handle>,
    /// taken at creation: aborts also after the `JoinHandle` is gone, and tells whether the task is finished
    ah: tokio::task::AbortHandle,
    res: Option<String>,
}

impl TimerRec {
    fn new(h: Handle) -> TimerRec {
        let ah = match &h {
            Handle::Send(j) => j.abort_handle(),
            Handle::SendX(j) => j.abort_handle(),
            Handle::SendD(j) => j.abort_handle(),
            Handle::Unit(j) => j.abort_handle(),
        };
        TimerRec { h: Some(h), ah, res: None }
    }
    /// `JoinHandle::abort` while the handle is held, `AbortHandle::abort` after it was dropped
    fn abort(&self) {
        match &self.h {
            Some(Handle::Send(h)) => h.abort(),
            Some(Handle::SendX(h)) => h.abort(),
            Some(Handle::SendD(h)) => h.abort(),
            Some(Handle::Unit(h)) => h.abort(),
            None => self.ah.abort(),
        }
    }
}

/// period sentinel: `Duration::MAX` (not a whole number of µs that fits u64)
const PMAX: u64 = u64::MAX;
/// the largest period expressible in µs: `Duration::from_micros(u64::MAX - 1)` ≈ 584 542 years
const PHUGE: u64 = u64::MAX - 1;

fn dur(p: u64) -> Duration {
    if p == PMAX {
        Duration::MAX
    } else {
        Duration::from_micros(p)
    }
}

/// the period in µs as the model sees it
fn ptxt(p: u64) -> String {
    dur(p).as_micros().to_string()
}

fn pparse(w: &str) -> Option<u64> {
    let v = w.parse::<u128>().ok()?;
    if v == Duration::MAX.as_micros() {
        Some(PMAX)
    } else if v < PMAX as u128 {
        Some(v as u64)
    } else {
        None
    }
}

#[derive(Clone, Debug)]
enum Op {
    Sa(u64),
    Si(u64),
    /// the same through a `DerivedActorRef`
    Dsa(u64),
    Dsi(u64),
    Ea(u64),
    Ka(u64),
    /// `exit_after` / `kill_after` through a `DerivedActorRef` (textual twins of the two above)
    Dea(u64),
    Dka(u64),
    /// the free functions `ractor::time::{send_after, send_interval, exit_after, kill_after}` called
    /// directly with an `ActorCell` (the message type is named by the caller)
    Csa(u64),
    Csi(u64),
    Cea(u64),
    Cka(u64),
    /// the free functions `send_after` / `send_interval` with a message type that is not the target's
    Xsa(u64),
    Xsi(u64),
    Adv(u64),
    AdvAbort(u64, usize),
    AdvStop(u64),
    AdvKill(u64),
    AdvDrain(u64),
    Abort(usize),
    Stop,
    Kill,
    Drain,
    /// gate `post_stop` / open the gate
    Hold,
    PsRelease,
    /// drop the `JoinHandle` of timer i (of a timer not yet created: it is dropped at creation, "fire and forget")
    Drop(usize),
    /// clock += d, then drop, before the time driver runs
    AdvDrop(u64, usize),
    /// cast a message on which the target's handler returns `Err`
    Fail,
    AdvFail(u64),
    /// the same with a handler that panics
    FailP,
    AdvFailP(u64),
    /// first op of a case: the target is spawned with `post_start` gated (it stays `Starting`)
    StartHold,
    /// the gate opens: `post_start` returns, the message loop begins
    Started,
}

impl Op {
    fn text(&self) -> String {
        match self {
            Op::Sa(p) => format!("sa {}", ptxt(*p)),
            Op::Si(p) => format!("si {}", ptxt(*p)),
            Op::Dsa(p) => format!("dsa {}", ptxt(*p)),
            Op::Dsi(p) => format!("dsi {}", ptxt(*p)),
            Op::Ea(p) => format!("ea {}", ptxt(*p)),
            Op::Ka(p) => format!("ka {}", ptxt(*p)),
            Op::Dea(p) => format!("dea {}", ptxt(*p)),
            Op::Dka(p) => format!("dka {}", ptxt(*p)),
            Op::Csa(p) => format!("csa {}", ptxt(*p)),
            Op::Csi(p) => format!("csi {}", ptxt(*p)),
            Op::Cea(p) => format!("cea {}", ptxt(*p)),
            Op::Cka(p) => format!("cka {}", ptxt(*p)),
            Op::Xsa(p) => format!("xsa {}", ptxt(*p)),
            Op::Xsi(p) => format!("xsi {}", ptxt(*p)),
            Op::Adv(d) => format!("adv {d}"),
            Op::AdvAbort(d, i) => format!("advabort {d} {i}"),
            Op::AdvStop(d) => format!("advstop {d}"),
            Op::AdvKill(d) => format!("advkill {d}"),
            Op::AdvDrain(d) => format!("advdrain {d}"),
            Op::Abort(i) => format!("abort {i}"),
            Op::Stop => "stop".into(),
            Op::Kill => "kill".into(),
            Op::Drain => "drain".into(),
            Op::Hold => "hold".into(),
            Op::PsRelease => "psrelease".into(),
            Op::Drop(i) => format!("drop {i}"),
            Op::AdvDrop(d, i) => format!("advdrop {d} {i}"),
            Op::Fail => "fail".into(),
            Op::AdvFail(d) => format!("advfail {d}"),
            Op::FailP => "failp".into(),
            Op::StartHold => "starthold".into(),
            Op::Started => "started".into(),
            Op::AdvFailP(d) => format!("advfailp {d}"),
        }
    }
    fn parse(s: &str) -> Option<Op> {
        let w: Vec<&str> = s.split_whitespace().filter(|w| !w.starts_with("h=")).collect();
        let n = |i: usize| w.get(i).and_then(|x| x.parse::<u64>().ok());
        let pp = |i: usize| w.get(i).and_then(|x| pparse(x));
        Some(match *w.first()? {
            "sa" => Op::Sa(pp(1)?),
            "si" => Op::Si(pp(1)?),
            "dsa" => Op::Dsa(pp(1)?),
            "dsi" => Op::Dsi(pp(1)?),
            "ea" => Op::Ea(pp(1)?),
            "ka" => Op::Ka(pp(1)?),
            "dea" => Op::Dea(pp(1)?),
            "dka" => Op::Dka(pp(1)?),
            "csa" => Op::Csa(pp(1)?),
            "csi" => Op::Csi(pp(1)?),
            "cea" => Op::Cea(pp(1)?),
            "cka" => Op::Cka(pp(1)?),
            "xsa" => Op::Xsa(pp(1)?),
            "xsi" => Op::Xsi(pp(1)?),
            "adv" => Op::Adv(n(1)?),
            "advabort" => Op::AdvAbort(n(1)?, n(2)? as usize),
            "advstop" => Op::AdvStop(n(1)?),
            "advkill" => Op::AdvKill(n(1)?),
            "advdrain" => Op::AdvDrain(n(1)?),
            "abort" => Op::Abort(n(1)? as usize),
            "stop" => Op::Stop,
            "kill" => Op::Kill,
            "drain" => Op::Drain,
            "hold" => Op::Hold,
            "psrelease" => Op::PsRelease,
            "drop" => Op::Drop(n(1)? as usize),
            "advdrop" => Op::AdvDrop(n(1)?, n(2)? as usize),
            "fail" => Op::Fail,
            "advfail" => Op::AdvFail(n(1)?),
            "failp" => Op::FailP,
            "starthold" => Op::StartHold,
            "started" => Op::Started,
            "advfailp" => Op::AdvFailP(n(1)?),
            _ => return None,
        })
    }
}

/// Let every runnable task run until nothing changes any more, without ever letting the
/// runtime park (the main task stays runnable, so the paused clock never auto-advances).
async fn quiesce() {
    for _ in 0..48 {
        tokio::task::yield_now().await;
    }
}

/// Move the paused clock by `d` WITHOUT yielding: the first poll of `tokio::time::advance`
/// bumps the clock and registers a deferred yield; we return before the time driver has run.
async fn bump_clock(d: u64) {
    let mut adv = Box::pin(tokio::time::advance(Duration::from_micros(d)));
    let first = std::future::poll_fn(|cx| Poll::Ready(adv.as_mut().poll(cx))).await;
    if first.is_pending() {
        adv.await; // second poll of `yield_now` is ready immediately
    }
}

fn show_evs(mut v: Vec<Ev>) -> String {
    if v.is_empty() {
        return "-".into();
    }
    v.sort();
    v.iter().map(|(i, k, t)| format!("{i}.{k}@{t}")).collect::<Vec<_>>().join(",")
}

async fn run_case(tl: bool, ops: &[Op]) -> Vec<String> {
    let t0 = tokio::time::Instant::now();
    let sh = Arc::new(Mutex::new(Shared::default()));
    let gate = Arc::new(tokio::sync::watch::channel(false).0);
    let start_gated = matches!(ops.first(), Some(Op::StartHold));
    let sgate = Arc::new(tokio::sync::watch::channel(start_gated).0);
    let (watcher, _wh) = Actor::spawn(None, Watcher { sh: sh.clone(), t0 }, ()).await.expect("watcher");
    let mut tlw: Option<Tl> = None;
    let target = if tl {
        let spawner = ThreadLocalActorSpawner::new();
        let vnow = Arc::new(AtomicU64::new(0));
        let (ack_tx, ack) = std::sync::mpsc::channel();
        let (thaw, thaw_rx) = std::sync::mpsc::channel();
        let (freezer, _fh) = Freezer::spawn(None, FreezerState { ack: ack_tx, thaw: thaw_rx }, spawner.clone())
            .await
            .expect("freezer");
        let ctx = Ctx { sh: sh.clone(), clock: Clock::Cell(vnow.clone()), gate: gate.clone(), start_gate: sgate.clone() };
        let (target, _th) =
            TlTarget::spawn_linked(None, ctx, watcher.get_cell(), spawner.clone()).await.expect("tl target");
        quiesce().await;
        // freeze the spawner's thread
        freezer.cast(()).expect("freezer");
        let mut w = Tl { _spawner: spawner, freezer, thaw: Some(thaw), ack, vnow, stalled: false };
        if w.ack.recv_timeout(std::time::Duration::from_secs(20)).is_err() {
            w.stalled = true;
        }
        tlw = Some(w);
        target
    } else {
        let ctx = Ctx { sh: sh.clone(), clock: Clock::Tokio(t0), gate: gate.clone(), start_gate: sgate.clone() };
        let (target, _th) = Actor::spawn_linked(None, Target(ctx), (), watcher.get_cell()).await.expect("target");
        target
    };
    quiesce().await;
    let mut timers: Vec<TimerRec> = Vec::new();
    // handles dropped before their timer exists: dropped at creation ("fire and forget")
    let mut predropped: std::collections::HashSet<usize> = Default::default();
    let mut out = Vec::new();
    let (mut n_att, mut n_hd) = (0usize, 0usize);
    for op in ops {
        let ms = dur; // every op parameter is in µs
        let adv_d = Duration::from_micros;
        let n_before = timers.len();
        match op {
            Op::Sa(p) => {
                let id = timers.len() as u32;
                let (s2, t) = (sh.clone(), t0);
                let h = target.send_after(ms(*p), move || {
                    s2.lock().unwrap().attempts.push((id, 1, now_ms(t)));
                    (id, 1)
                });
                timers.push(TimerRec::new(Handle::Send(h)));
            }
            Op::Si(p) => {
                let id = timers.len() as u32;
                let (s2, t) = (sh.clone(), t0);
                let k = AtomicU32::new(0);
                let h = target.send_interval(ms(*p), move || {
                    let kk = k.fetch_add(1, Ordering::SeqCst) + 1;
                    s2.lock().unwrap().attempts.push((id, kk, now_ms(t)));
                    (id, kk)
                });
                timers.push(TimerRec::new(Handle::Unit(h)));
            }
            Op::Dsa(p) => {
                let id = timers.len() as u32;
                let (s2, t) = (sh.clone(), t0);
                let d = target.get_derived::<DMsg>();
                let h = d.send_after(ms(*p), move || {
                    s2.lock().unwrap().attempts.push((id, 1, now_ms(t)));
                    DMsg(id, 1)
                });
                timers.push(TimerRec::new(Handle::SendD(h)));
            }
            Op::Dsi(p) => {
                let id = timers.len() as u32;
                let (s2, t) = (sh.clone(), t0);
                let k = AtomicU32::new(0);
                let d = target.get_derived::<DMsg>();
                let h = d.send_interval(ms(*p), move || {
                    let kk = k.fetch_add(1, Ordering::SeqCst) + 1;
                    s2.lock().unwrap().attempts.push((id, kk, now_ms(t)));
                    DMsg(id, kk)
                });
                timers.push(TimerRec::new(Handle::Unit(h)));
            }
            Op::Ea(p) => timers.push(TimerRec::new(Handle::Unit(target.exit_after(ms(*p))))),
            Op::Ka(p) => timers.push(TimerRec::new(Handle::Unit(target.kill_after(ms(*p))))),
            Op::Dea(p) => {
                let d = target.get_derived::<DMsg>();
                timers.push(TimerRec::new(Handle::Unit(d.exit_after(ms(*p)))))
            }
            Op::Dka(p) => {
                let d = target.get_derived::<DMsg>();
                timers.push(TimerRec::new(Handle::Unit(d.kill_after(ms(*p)))))
            }
            Op::Csa(p) => {
                let id = timers.len() as u32;
                let (s2, t) = (sh.clone(), t0);
                let h = ractor::time::send_after::<(u32, u32), _>(ms(*p), target.get_cell(), move || {
                    s2.lock().unwrap().attempts.push((id, 1, now_ms(t)));
                    (id, 1)
                });
                timers.push(TimerRec::new(Handle::Send(h)));
            }
            Op::Csi(p) => {
                let id = timers.len() as u32;
                let (s2, t) = (sh.clone(), t0);
                let k = AtomicU32::new(0);
                let h = ractor::time::send_interval::<(u32, u32), _>(ms(*p), target.get_cell(), move || {
                    let kk = k.fetch_add(1, Ordering::SeqCst) + 1;
                    s2.lock().unwrap().attempts.push((id, kk, now_ms(t)));
                    (id, kk)
                });
                timers.push(TimerRec::new(Handle::Unit(h)));
            }
            Op::Cea(p) => {
                timers.push(TimerRec::new(Handle::Unit(ractor::time::exit_after(ms(*p), target.get_cell()))))
            }
            Op::Cka(p) => {
                timers.push(TimerRec::new(Handle::Unit(ractor::time::kill_after(ms(*p), target.get_cell()))))
            }
            Op::Xsa(p) => {
                let id = timers.len() as u32;
                let (s2, t) = (sh.clone(), t0);
                let h = ractor::time::send_after::<Wrong, _>(ms(*p), target.get_cell(), move || {
                    s2.lock().unwrap().attempts.push((id, 1, now_ms(t)));
                    Wrong(id, 1)
                });
                timers.push(TimerRec::new(Handle::SendX(h)));
            }
            Op::Xsi(p) => {
                let id = timers.len() as u32;
                let (s2, t) = (sh.clone(), t0);
                let k = AtomicU32::new(0);
                let h = ractor::time::send_interval::<Wrong, _>(ms(*p), target.get_cell(), move || {
                    let kk = k.fetch_add(1, Ordering::SeqCst) + 1;
                    s2.lock().unwrap().attempts.push((id, kk, now_ms(t)));
                    Wrong(id, kk)
                });
                timers.push(TimerRec::new(Handle::Unit(h)));
            }
            Op::Adv(d) => tokio::time::advance(adv_d(*d)).await,
            Op::AdvAbort(d, i) => {
                bump_clock(*d).await;
                if let Some(t) = timers.get(*i) {
                    t.abort();
                }
            }
            Op::Drop(i) => match timers.get_mut(*i) {
                Some(t) => t.h = None,
                None => {
                    predropped.insert(*i);
                }
            },
            Op::AdvDrop(d, i) => {
                bump_clock(*d).await;
                match timers.get_mut(*i) {
                    Some(t) => t.h = None,
                    None => {
                        predropped.insert(*i);
                    }
                }
            }
            // thread-local flavour: the target reacts to the call before the time driver has run
            // (for the `Send` flavour tokio's run queue gives the same order)
            Op::AdvStop(d) => {
                bump_clock(*d).await;
                target.stop(Some("manual".into()));
                if let Some(w) = tlw.as_mut() {
                    w.run_target(now_ms(t0));
                }
            }
            Op::AdvKill(d) => {
                bump_clock(*d).await;
                target.kill();
                if let Some(w) = tlw.as_mut() {
                    w.run_target(now_ms(t0));
                }
            }
            Op::AdvDrain(d) => {
                bump_clock(*d).await;
                let _ = target.drain();
                if let Some(w) = tlw.as_mut() {
                    w.run_target(now_ms(t0));
                }
            }
            Op::Abort(i) => {
                if let Some(t) = timers.get(*i) {
                    t.abort();
                }
            }
            Op::Fail => {
                let _ = target.cast(POISON);
            }
            Op::FailP => {
                let _ = target.cast(POISON_PANIC);
            }
            // armed at spawn (only meaningful as the first op of a case)
            Op::StartHold => {}
            Op::Started => {
                let _ = sgate.send_replace(false);
            }
            Op::AdvFailP(d) => {
                bump_clock(*d).await;
                let _ = target.cast(POISON_PANIC);
                if let Some(w) = tlw.as_mut() {
                    w.run_target(now_ms(t0));
                }
            }
            Op::AdvFail(d) => {
                bump_clock(*d).await;
                let _ = target.cast(POISON);
                if let Some(w) = tlw.as_mut() {
                    w.run_target(now_ms(t0));
                }
            }
            Op::Stop => target.stop(Some("manual".into())),
            Op::Kill => target.kill(),
            Op::Drain => {
                let _ = target.drain();
            }
            Op::Hold => {
                let _ = gate.send_replace(true);
            }
            Op::PsRelease => {
                let _ = gate.send_replace(false);
            }
        }
        // a timer whose handle was given away beforehand: the `JoinHandle` is dropped at once
        if timers.len() > n_before && predropped.contains(&n_before) {
            timers[n_before].h = None;
        }
        // every runnable timer task runs, then the target, then whoever the target woke (its supervisor)
        quiesce().await;
        if let Some(w) = tlw.as_mut() {
            w.run_target(now_ms(t0));
            quiesce().await;
        }
        // timer handles
        for t in timers.iter_mut() {
            if t.res.is_some() {
                continue;
            }
            let Some(th) = t.h.as_mut() else { continue };
            let fin = match &*th {
                Handle::Send(h) => h.is_finished(),
                Handle::SendX(h) => h.is_finished(),
                Handle::SendD(h) => h.is_finished(),
                Handle::Unit(h) => h.is_finished(),
            };
            if !fin {
                continue;
            }
            let r = match th {
                Handle::Send(h) => match h.await {
                    Ok(Ok(())) => "ok".to_string(),
                    Ok(Err(MessagingErr::SendErr(_))) => "err".to_string(),
                    Ok(Err(MessagingErr::ChannelClosed)) => "err:ChannelClosed".to_string(),
                    Ok(Err(MessagingErr::InvalidActorType)) => "err:InvalidActorType".to_string(),
                    Err(e) if e.is_cancelled() => "cancelled".to_string(),
                    Err(_) => "panic".to_string(),
                },
                Handle::SendX(h) => match h.await {
                    Ok(Ok(())) => "ok".to_string(),
                    Ok(Err(MessagingErr::SendErr(_))) => "err".to_string(),
                    Ok(Err(MessagingErr::ChannelClosed)) => "err:ChannelClosed".to_string(),
                    Ok(Err(MessagingErr::InvalidActorType)) => "err:InvalidActorType".to_string(),
                    Err(e) if e.is_cancelled() => "cancelled".to_string(),
                    Err(_) => "panic".to_string(),
                },
                Handle::SendD(h) => match h.await {
                    Ok(Ok(())) => "ok".to_string(),
                    Ok(Err(MessagingErr::SendErr(_))) => "err".to_string(),
                    Ok(Err(MessagingErr::ChannelClosed)) => "err:ChannelClosed".to_string(),
                    Ok(Err(MessagingErr::InvalidActorType)) => "err:InvalidActorType".to_string(),
                    Err(e) if e.is_cancelled() => "cancelled".to_string(),
                    Err(_) => "panic".to_string(),
                },
                Handle::Unit(h) => match h.await {
                    Ok(()) => "ok".to_string(),
                    Err(e) if e.is_cancelled() => "cancelled".to_string(),
                    Err(_) => "panic".to_string(),
                },
            };
            t.res = Some(r);
        }
        let res = if timers.is_empty() {
            "-".to_string()
        } else {
            timers
                .iter()
                .map(|t| match (&t.h, &t.res) {
                    // a dropped handle: all its former owner can still learn (through the `AbortHandle`)
                    // is whether the detached task is gone
                    (None, _) => {
                        if t.ah.is_finished() {
                            "dF".to_string()
                        } else {
                            "dP".to_string()
                        }
                    }
                    (Some(_), Some(r)) => r.clone(),
                    (Some(_), None) => "P".to_string(),
                })
                .collect::<Vec<_>>()
                .join(",")
        };
        let (att, hd, exit, ps) = {
            let s = sh.lock().unwrap();
            (s.attempts[n_att..].to_vec(), s.handled[n_hd..].to_vec(), s.exit.clone(), s.ps_entered)
        };
        n_att += att.len();
        n_hd += hd.len();
        let status = target.get_status();
        let tgt = match (status, exit, ps) {
            (ActorStatus::Stopped, Some((r, t)), _) => format!("Stopped:{r}@{t}"),
            // inside the gated `post_stop`: whatever the status says, the message loop is over
            (_, None, Some(t)) => format!("PostStop@{t}"),
            (ActorStatus::Running, None, None) => "Running".to_string(),
            (ActorStatus::Starting, None, None) => "Starting".to_string(),
            // `drain()` on a target whose message loop has not begun: it stays `Draining` until it starts
            (ActorStatus::Draining, None, None) if start_gated => "Draining".to_string(),
            (s, e, _) => format!("{s:?}:{e:?}"),
        };
        let tgt = if tlw.as_ref().map(|w| w.stalled).unwrap_or(false) { format!("{tgt} <tl thread stalled>") } else { tgt };
        out.push(format!("t={} att={} hd={} res={} tgt={}", now_ms(t0), show_evs(att), show_evs(hd), res, tgt));
    }
    // tidy up: nothing may outlive the case
    for t in &timers {
        t.ah.abort();
    }
    let _ = gate.send_replace(false);
    let _ = sgate.send_replace(false);
    target.kill();
    if let Some(w) = tlw.as_mut() {
        // the freezer's cycle ends, the thread runs freely and winds down
        w.thaw = None;
        w.freezer.stop(None);
        for i in 0..20_000 {
            if target.get_status() == ActorStatus::Stopped && w.freezer.get_status() == ActorStatus::Stopped {
                break;
            }
            if i < 10_000 {
                std::thread::yield_now();
            } else {
                std::thread::sleep(std::time::Duration::from_micros(100));
            }
        }
    }
    watcher.kill();
    quiesce().await;
    out
}

fn gen_case(rng: &mut Rng, st: &mut Stats) -> Vec<Op> {
    let n = rng.range(3, 16);
    let mut ops = Vec::new();
    // an eighth of the cases: the target is still `Starting` (gated `post_start`) for a while
    let mut starting = rng.chance(1, 8);
    if starting {
        ops.push(Op::StartHold);
        st.bump("cases_with_starting_target");
        st.bump("starthold");
    }
    let mut n_timers = 0usize;
    let mut have_exit_after = false;
    // a third of the cases gate `post_stop` early on: the target then sits in `post_stop` (stopped
    // accepting, not gone) while timers expire, tick and are created
    let gated = rng.chance(1, 3);
    let hold_at = rng.below(3) as usize;
    if gated {
        st.bump("cases_with_gated_post_stop");
    }
    // small value sets so that deadlines, advances and exits coincide often
    // the case's unit: whole milliseconds (values coincide often), or microseconds with periods
    // and advances that are not whole milliseconds (tokio's wheel rounds deadlines up to 1 ms)
    let fine = rng.chance(1, 2);
    let per: Vec<u64> = if fine {
        vec![0, 1, 400, 900, 999, 1000, 1001, 1500, 2000, 2500, 2500, 3000, 4700, 8000, PMAX]
    } else {
        let mut v: Vec<u64> = [0u64, 0, 1, 1, 2, 3, 3, 5, 8, 13].iter().map(|x| x * 1000).collect();
        v.push(PHUGE);
        v
    };
    let iper: Vec<u64> = if fine {
        // 0: `interval(Duration::ZERO)` panics inside the task
        vec![0, 300, 700, 1000, 1500, 2500, 2500, 3000, 7100, PHUGE]
    } else {
        [0u64, 1, 1, 2, 3, 5, 7, PMAX].iter().map(|x| if *x == PMAX { PMAX } else { x * 1000 }).collect()
    };
    let adv: Vec<u64> = if fine {
        vec![0, 1, 300, 500, 500, 999, 1000, 1000, 1500, 2000, 2500, 3000, 5000, 10400, 25000]
    } else {
        [0u64, 1, 1, 2, 3, 4, 5, 7, 10, 16, 40].iter().map(|x| x * 1000).collect()
    };
    if fine {
        st.bump("cases_with_sub_ms_durations");
    }
    for i in 0..n {
        if gated && i as usize == hold_at {
            ops.push(Op::Hold);
            st.bump("hold");
        }
        let r = rng.below(100);
        if starting && n_timers > 0 && rng.chance(1, 9) {
            starting = false;
            st.bump("started");
            ops.push(Op::Started);
        }
        let op = if gated && (80..86).contains(&r) && n_timers > 0 {
            Op::PsRelease
        } else if gated && r >= 86 {
            // mostly requests that run `post_stop` (a kill skips it)
            let d = *rng.pick(&adv);
            match rng.below(10) {
                0..=2 => Op::Stop,
                3..=4 => Op::AdvStop(d),
                5 => Op::Drain,
                6 => Op::AdvDrain(d),
                7 => Op::AdvKill(d),
                _ => Op::Kill,
            }
        } else if r < 34 || n_timers == 0 {
            let k = rng.below(100);
            n_timers += 1;
            if k < 2 {
                Op::Xsa(*rng.pick(&per))
            } else if k < 6 {
                Op::Csa(*rng.pick(&per))
            } else if k < 27 {
                Op::Sa(*rng.pick(&per))
            } else if k < 35 {
                Op::Dsa(*rng.pick(&per))
            } else if k < 37 {
                Op::Xsi(*rng.pick(&iper))
            } else if k < 41 {
                Op::Csi(*rng.pick(&iper))
            } else if k < 62 {
                Op::Si(*rng.pick(&iper))
            } else if k < 70 {
                Op::Dsi(*rng.pick(&iper))
            } else if k < 85 && !have_exit_after {
                // at most one exit_after per case: which of two simultaneous stop requests
                // wins depends on tokio's wheel order, which the model does not describe
                have_exit_after = true;
                if rng.chance(1, 5) {
                    Op::Cea(*rng.pick(&per))
                } else if rng.chance(1, 3) {
                    Op::Dea(*rng.pick(&per))
                } else {
                    Op::Ea(*rng.pick(&per))
                }
            } else if rng.chance(1, 5) {
                Op::Cka(*rng.pick(&per))
            } else if rng.chance(1, 3) {
                Op::Dka(*rng.pick(&per))
            } else {
                Op::Ka(*rng.pick(&per))
            }
        } else if r < 66 {
            Op::Adv(*rng.pick(&adv))
        } else if r < 74 {
            Op::AdvAbort(*rng.pick(&adv), rng.below(n_timers as u64) as usize)
        } else if r < 78 {
            // sometimes the handle of the NEXT timer: dropped at creation (fire and forget)
            Op::Drop(rng.below(n_timers as u64 + 1) as usize)
        } else if r < 80 {
            Op::AdvDrop(*rng.pick(&adv), rng.below(n_timers as u64) as usize)
        } else if r < 86 {
            Op::Abort(rng.below(n_timers as u64) as usize)
        } else if r < 91 {
            match rng.below(4) {
                0 => Op::AdvStop(*rng.pick(&adv)),
                1 => Op::AdvKill(*rng.pick(&adv)),
                2 => {
                    if rng.chance(1, 2) {
                        Op::AdvFail(*rng.pick(&adv))
                    } else {
                        Op::AdvFailP(*rng.pick(&adv))
                    }
                }
                _ => Op::AdvDrain(*rng.pick(&adv)),
            }
        } else {
            match rng.below(4) {
                0 => Op::Stop,
                1 => Op::Kill,
                2 => {
                    if rng.chance(1, 2) {
                        Op::Fail
                    } else {
                        Op::FailP
                    }
                }
                _ => Op::Drain,
            }
        };
        st.bump(op.text().split(' ').next().unwrap());
        ops.push(op);
    }
    ops
}

/// scale a whole-millisecond boundary case to microseconds
fn ms_case(ops: Vec<Op>) -> Vec<Op> {
    use Op::*;
    ops.into_iter()
        .map(|o| match o {
            Sa(p) => Sa(p * 1000),
            Si(p) => Si(p * 1000),
            Dsa(p) => Dsa(p * 1000),
            Dsi(p) => Dsi(p * 1000),
            Ea(p) => Ea(p * 1000),
            Ka(p) => Ka(p * 1000),
            Dea(p) => Dea(p * 1000),
            Dka(p) => Dka(p * 1000),
            Csa(p) => Csa(p * 1000),
            Csi(p) => Csi(p * 1000),
            Cea(p) => Cea(p * 1000),
            Cka(p) => Cka(p * 1000),
            Xsa(p) => Xsa(p * 1000),
            Xsi(p) => Xsi(p * 1000),
            Adv(d) => Adv(d * 1000),
            AdvAbort(d, i) => AdvAbort(d * 1000, i),
            AdvStop(d) => AdvStop(d * 1000),
            AdvKill(d) => AdvKill(d * 1000),
            AdvDrain(d) => AdvDrain(d * 1000),
            AdvDrop(d, i) => AdvDrop(d * 1000, i),
            AdvFail(d) => AdvFail(d * 1000),
            AdvFailP(d) => AdvFailP(d * 1000),
            o => o,
        })
        .collect()
}

/// Hand-written boundary cases: every position of abort / exit relative to the expiry
/// (whole milliseconds, scaled to µs), then periods and advances that are not whole ms.
fn fixed_cases() -> Vec<Vec<Op>> {
    use Op::*;
    let whole: Vec<Vec<Op>> = vec![
        vec![Sa(0)],
        vec![Sa(5), Adv(4), Adv(1), Adv(1)],
        vec![Sa(5), Adv(4), Abort(0), Adv(1)],
        vec![Sa(5), AdvAbort(5, 0), Adv(1)],
        vec![Sa(5), Adv(5), Abort(0)],
        vec![Sa(5), Adv(4), Kill, Adv(1)],
        vec![Sa(5), AdvKill(5), Adv(1)],
        vec![Sa(5), Ka(5), Adv(5)],
        vec![Sa(5), Ea(5), Adv(5)],
        vec![Ka(5), Sa(5), Adv(5)],
        vec![Sa(5), Adv(5), Kill],
        vec![Sa(5), Stop, Adv(5)],
        vec![Sa(5), Drain, Adv(5)],
        vec![Sa(5), AdvDrain(5)],
        vec![Si(3), Adv(3), Adv(3), Adv(2), Adv(1), Adv(10)],
        vec![Si(3), Adv(2), Adv(2), Adv(2), Adv(2)],
        vec![Si(3), Adv(40)],
        vec![Si(3), Adv(3), Kill, Adv(2), Adv(1)],
        vec![Si(3), Adv(3), Stop, Adv(3)],
        vec![Si(3), Adv(3), Drain, Adv(3)],
        vec![Si(3), Adv(3), AdvKill(3), Adv(3)],
        vec![Si(3), Ka(6), Adv(6), Adv(3)],
        vec![Si(3), Ea(6), Adv(6), Adv(3)],
        vec![Si(3), Adv(3), AdvAbort(3, 0), Adv(3)],
        vec![Si(3), Adv(4), Abort(0), Adv(5)],
        vec![Kill, Si(3), Sa(0), Sa(2), Ea(1), Ka(1), Adv(5)],
        vec![Ea(0)],
        vec![Ea(7), Adv(6), Adv(1)],
        vec![Ea(7), Adv(6), Abort(0), Adv(1)],
        vec![Ea(7), AdvAbort(7, 0), Adv(1)],
        vec![Ea(7), AdvStop(7)],
        vec![Ea(7), Ka(7), Adv(7)],
        vec![Ka(0)],
        vec![Ka(2), Adv(1), Adv(1)],
        vec![Ka(2), AdvAbort(2, 0), Adv(5)],
        vec![Ka(2), Stop, Adv(2)],
        vec![Sa(1), Sa(1), Si(1), Si(1), Adv(1), Adv(1), Kill, Adv(1)],
        vec![Dsa(5), Dsi(3), Adv(3), Adv(2), AdvAbort(1, 1), Kill, Adv(4)],
        vec![Dsi(2), Adv(7), Stop, Adv(2), Dsa(0), Dsi(1), Adv(3)],
        // exit_after / kill_after through a derived ref: same behaviour as through the ActorRef
        vec![Dka(0)],
        vec![Dea(0)],
        vec![Dka(2), Adv(1), Adv(1)],
        vec![Dea(7), Adv(6), Adv(1)],
        vec![Sa(5), Dka(5), Adv(5)],
        vec![Si(3), Dka(6), Adv(6), Adv(3)],
        vec![Dka(2), AdvAbort(2, 0), Adv(5)],
        vec![Dea(7), Dka(7), Adv(7)],
        vec![Dka(2), Stop, Adv(2)],
        // the free functions of time.rs called with an ActorCell
        vec![Csa(0)],
        vec![Cea(0)],
        vec![Cka(0)],
        vec![Csa(5), Csi(3), Adv(3), Adv(2), AdvAbort(1, 1), Kill, Adv(4)],
        vec![Csi(3), Adv(3), Adv(3), Adv(2), Adv(1), Adv(10)],
        vec![Cea(7), Adv(6), Adv(1)],
        vec![Cka(2), Adv(1), Adv(1)],
        vec![Csa(5), Cka(5), Adv(5)],
        vec![Cea(7), Cka(7), Adv(7)],
        vec![Kill, Csi(3), Csa(0), Csa(2), Cea(1), Cka(1), Adv(5)],
        vec![Hold, Stop, Csa(0), Csi(2), Adv(2), PsRelease],
        // the free functions with a message type that is not the target's: one failing attempt (InvalidActorType)
        vec![Xsa(0)],
        vec![Xsa(5), Adv(4), Adv(1), Adv(1)],
        vec![Xsi(3), Adv(3), Adv(3), Adv(3)],
        vec![Xsi(3), Si(3), Xsa(2), Sa(2), Adv(2), Adv(1), Adv(3)],
        vec![Xsi(3), Adv(2), Kill, Adv(1), Adv(3)],
        vec![Kill, Xsi(3), Xsa(0), Adv(3)],
        vec![Xsa(5), Xsi(3), AdvAbort(3, 1), AdvAbort(2, 0), Adv(1)],
        vec![Xsa(5), Xsi(3), Drop(0), Drop(1), Adv(5)],
        vec![Hold, Stop, Xsi(2), Xsa(1), Adv(2), PsRelease],
        vec![Xsi(0)],
        vec![Xsi(3), Adv(40)],
        // the target is still Starting (gated post_start): sends queue up, a stop request waits, a kill is obeyed
        vec![StartHold, Sa(2), Adv(3), Adv(4), Started],
        vec![StartHold, Si(3), Sa(2), Ea(4), Adv(3), Adv(3), Adv(4), Started],
        vec![StartHold, Si(3), Adv(3), Adv(3), Started, Adv(3)],
        vec![StartHold, Ka(2), Sa(1), Adv(1), Adv(1), Started],
        vec![StartHold, Sa(1), Adv(1), Kill, Started],
        vec![StartHold, Sa(1), Stop, Adv(1), Started, Adv(1)],
        vec![StartHold, Sa(1), Adv(1), AdvStop(1), Adv(1), Started],
        vec![StartHold, Ea(0), Sa(0), Started],
        vec![StartHold, Hold, Si(1), Adv(2), Ea(1), Adv(1), Started, Adv(2), PsRelease],
        vec![StartHold, Sa(1), Adv(1), Fail, Sa(1), Adv(1), Started],
        vec![StartHold, Si(2), Drop(0), Sa(3), AdvAbort(2, 1), Adv(2), Started, Adv(2)],
        vec![StartHold, Xsi(2), Dsi(2), Csa(3), Adv(2), Adv(2), Started],
        vec![StartHold, Started, Sa(1), Adv(1)],
        // drain() on a Starting target: admission closes at the call, the backlog is handled when the loop begins
        vec![StartHold, Si(3), Sa(1), Drain, Adv(3), Started, Adv(3)],
        vec![StartHold, Si(3), Adv(3), AdvDrain(1), Sa(1), Adv(2), Started, Adv(1)],
        vec![StartHold, Sa(1), Adv(1), Drain, Ka(1), Adv(1), Started],
        vec![StartHold, Sa(1), Adv(1), Drain, Stop, Started],
        vec![StartHold, Hold, Sa(1), Adv(1), Drain, Started, Adv(1), PsRelease],
        // the target FAILS (handler returns Err): no post_stop, ActorFailed; timers find a dead target
        vec![Sa(5), Fail, Adv(5)],
        vec![Si(3), Adv(3), Fail, Adv(3), Adv(3)],
        vec![Sa(5), AdvFail(5), Adv(1)],
        vec![Sa(5), Adv(5), Fail, Abort(0)],
        vec![Hold, Si(2), Fail, Adv(2), PsRelease],
        vec![Hold, Stop, Fail, Sa(1), Adv(1), PsRelease],
        vec![Ea(5), AdvFail(5), Adv(1)],
        vec![Ea(5), Ka(5), Sa(5), Adv(4), Fail, Adv(1)],
        vec![Ka(2), Fail, Adv(2)],
        vec![Fail, Sa(0), Si(1), Ea(0), Ka(0), Adv(1)],
        vec![Stop, Fail, Sa(0)],
        vec![Drain, Fail, Sa(0)],
        vec![Fail, Fail, Kill],
        vec![Xsa(2), Xsi(1), Fail, Adv(2)],
        vec![Sa(2), Si(1), Drop(0), Drop(1), Fail, Adv(2)],
        vec![Dsa(5), Dsi(3), Csa(5), AdvFail(3), Adv(2), Adv(3)],
        vec![Sa(5), FailP, Adv(5)],
        vec![Si(3), Adv(3), AdvFailP(3), Adv(3)],
        vec![Hold, Ea(2), Si(1), FailP, Adv(2), PsRelease],
        // send_interval(Duration::ZERO): tokio's interval() panics inside the spawned task
        vec![Si(0)],
        vec![Dsi(0)],
        vec![Csi(0)],
        vec![Si(0), Adv(5), Abort(0), Abort(0)],
        vec![Kill, Si(0), Dsi(0)],
        vec![Sa(5), Si(0), Si(3), Adv(3), Adv(2), Adv(1)],
        vec![Hold, Stop, Si(0), Csi(0), PsRelease],
        vec![Si(0), Drop(0), Adv(1)],
        vec![Drop(0), Si(0), Adv(1)],
        // dropped handles: the task is detached, not cancelled
        vec![Sa(5), Drop(0), Adv(4), Adv(1), Adv(1)],
        vec![Sa(5), AdvDrop(5, 0), Adv(1)],
        vec![Sa(5), Adv(5), Drop(0), Adv(1)],
        vec![Sa(5), Adv(6), Drop(0)],
        vec![Drop(0), Sa(5), Adv(5)],
        vec![Sa(5), Sa(5), AdvDrop(5, 0), Abort(1)],
        vec![Sa(5), Sa(5), Drop(0), AdvAbort(5, 1), Adv(1)],
        vec![Sa(5), Sa(5), Adv(4), Drop(0), Abort(1), Adv(1)],
        // ... an AbortHandle taken before the drop still cancels
        vec![Sa(5), Drop(0), Abort(0), Adv(5)],
        vec![Sa(5), Drop(0), AdvAbort(5, 0), Adv(1)],
        vec![Sa(5), Drop(0), Adv(5), Abort(0)],
        vec![Si(3), Drop(0), Adv(3), Adv(3), Kill, Adv(3), Adv(3)],
        vec![Si(3), Adv(3), AdvDrop(3, 0), Adv(3), Abort(0), Adv(3)],
        vec![Dsi(2), Dsa(5), Drop(0), Drop(1), Adv(5), Stop, Adv(2)],
        vec![Csi(2), Csa(5), Drop(1), Drop(0), Adv(5), Drain, Adv(2)],
        vec![Ea(7), Drop(0), Adv(6), Adv(1)],
        vec![Ka(2), AdvDrop(2, 0)],
        vec![Dea(7), Dka(9), Drop(0), Drop(1), Adv(7)],
        vec![Ea(7), Drop(0), AdvAbort(7, 0), Adv(1)],
        vec![Sa(5), Kill, Drop(0), Adv(5)],
        vec![Hold, Sa(2), Si(1), Drop(0), Drop(1), Stop, Adv(2), PsRelease],
        // abort after completion (no effect), abort twice
        vec![Sa(5), Adv(5), Abort(0), Abort(0), Adv(1)],
        vec![Sa(5), Abort(0), Abort(0), Adv(5)],
        vec![Sa(5), AdvAbort(5, 0), Abort(0), AdvAbort(1, 0)],
        vec![Si(3), Adv(3), Kill, Adv(3), Abort(0), Abort(0)],
        vec![Ea(7), Adv(7), Abort(0)],
        vec![Ka(2), Abort(0), AdvAbort(2, 0), Adv(1)],
        // the target sits in a gated post_stop (stopped accepting, not gone)
        vec![Si(3), Hold, Adv(1), Stop, Sa(2), Adv(2), Adv(4), PsRelease],
        vec![Hold, Stop, Sa(0)],
        vec![Hold, Stop, Si(2), Adv(2), Adv(2), PsRelease],
        vec![Hold, Sa(5), Drain, Adv(5), PsRelease, Adv(1)],
        vec![Hold, Sa(0), Sa(0), Drain, Adv(5), PsRelease],
        vec![Hold, Stop, Ka(2), Adv(2)],
        vec![Hold, Adv(1), Kill],
        vec![Hold, Stop, Stop, Kill],
        vec![Hold, Ea(3), Si(2), Adv(3), Adv(2), Adv(2), PsRelease],
        vec![Hold, PsRelease, Stop],
        vec![Hold, Stop, PsRelease, Sa(1), Adv(1)],
        vec![Si(1), Hold, AdvStop(3), Adv(1), Adv(40), PsRelease],
        vec![Dsi(2), Dsa(3), Hold, Adv(2), AdvDrain(1), Adv(2), PsRelease],
        vec![Hold, Stop, Sa(1), Abort(0), Adv(1), PsRelease],
    ];
    let mut all: Vec<Vec<Op>> = whole.into_iter().map(ms_case).collect();
    all.extend(vec![
        // never early for periods that are not whole ms: nothing at 2 ms, everything at 3 ms
        vec![Ea(2500), Adv(2000), Adv(1000)],
        vec![Ka(2500), Adv(2000), Adv(500), Adv(500)],
        vec![Sa(2500), Dsa(2500), Adv(2000), Adv(499), Adv(1), Adv(500)],
        // 900 µs is not 0 ms
        vec![Ea(900), Adv(0), Adv(500), Adv(500)],
        vec![Sa(900), Ka(999), Adv(999), Adv(1)],
        vec![Sa(1), Adv(0), Adv(1), Adv(999)],
        // armed off the millisecond grid
        vec![Adv(1500), Sa(700), Ea(1500), Adv(500), Adv(500), Adv(500), Adv(500)],
        vec![Adv(300), Si(1000), Adv(700), Adv(300), Adv(700), Adv(1300)],
        // sub-ms intervals: several ticks complete at one ms boundary
        vec![Si(300), Adv(500), Adv(500), Adv(1000)],
        vec![Dsi(700), Adv(1000), Adv(1000), Adv(400), Adv(600), Kill, Adv(1000)],
        vec![Si(1500), Adv(1500), Adv(500), Adv(1000), Adv(1500), Stop, Adv(1500)],
        vec![Si(2500), Ea(7100), Adv(2000), Adv(1000), Adv(2000), Adv(3000)],
        vec![Ea(2500), AdvAbort(2999, 0), Adv(1)],
        vec![Ea(2500), AdvAbort(3000, 0), Adv(1)],
        vec![Sa(1500), AdvKill(1999), Adv(1)],
        vec![Sa(1500), AdvDrain(2000), Adv(1)],
        vec![Dka(2500), Adv(2000), Adv(500), Adv(500)],
        vec![Dea(2500), Adv(2000), Adv(1000)],
        vec![Sa(900), Dka(999), Adv(999), Adv(1)],
        vec![Si(700), Hold, AdvStop(1500), Adv(500), Adv(1000), Adv(1000), PsRelease],
        vec![Hold, Adv(300), Stop, Sa(700), Si(300), Adv(700), Adv(300), PsRelease],
        vec![Cea(2500), Adv(2000), Adv(1000)],
        vec![Adv(1500), Csa(700), Cka(1500), Adv(500), Adv(500), Adv(500), Adv(500)],
        vec![Csi(300), Adv(500), Adv(500), Adv(1000)],
        vec![Xsi(300), Xsa(700), Adv(500), Adv(500), Adv(1000)],
        vec![Si(700), Sa(1500), AdvFail(1400), Adv(100), Adv(600)],
        vec![Adv(1500), Xsi(700), Xsa(2500), Adv(500), Adv(500), Adv(500), Adv(2000)],
        // period 0 off the millisecond grid: the wheel rounds the deadline up like any other
        vec![Adv(1500), Sa(0), Ka(0), Adv(499), Adv(1)],
        vec![Adv(300), Ea(0), Si(0), Adv(700)],
        // periods beyond any horizon: Duration::MAX (tokio: far_future), u64::MAX - 1 µs; an hour, a day later: nothing
        vec![Sa(PMAX), Si(PMAX), Ea(PMAX), Ka(PMAX), Adv(3_600_000_000), Adv(1)],
        vec![Sa(PHUGE), Dsa(PHUGE), Csi(PHUGE), Dsi(PMAX), Adv(86_400_000_000), Kill, Adv(1000)],
        vec![Dea(PHUGE), Cka(PHUGE), Cea(PMAX), Dka(PMAX), Adv(1000), Stop, Adv(1000)],
        vec![Sa(PMAX), Abort(0), Ea(PHUGE), Drop(1), Adv(1000), Abort(1)],
        vec![Sa(5000), Si(PHUGE), Ka(PMAX), Adv(5000), AdvAbort(1000, 1), AdvDrop(1000, 2), Adv(1_000_000_000)],
    ]);
    all
}

fn main() {
    let args = Args::parse();
    let seed = args.u64("seed", 1);
    let cases = args.u64("cases", 200);
    let out = args.str("out", "/tmp/tree-timers");
    let mut rng = Rng::new(seed);
    let mut st = Stats::default();
    let mut log = Log::create(std::path::Path::new(&out)).unwrap();
    // `send_interval(Duration::ZERO)` panics inside its task (tokio turns it into a JoinError): keep stderr readable
    let default_hook = std::panic::take_hook();
    std::panic::set_hook(Box::new(move |info| {
        let quiet = info.payload().downcast_ref::<&str>().map(|m| m.contains("must be non-zero") || *m == "poison").unwrap_or(false)
            || info.payload().downcast_ref::<String>().map(|m| m.contains("must be non-zero")).unwrap_or(false);
        if !quiet {
            default_hook(info);
        }
    }));
    // (thread-local target?, ops)
    let mut all: Vec<(bool, Vec<Op>)> = Vec::new();
    // corpus / replay files (one op per line, `case` separates) run first
    if let Some(c) = args.0.get("replay-ops") {
        for f in c.split(',').filter(|f| !f.is_empty()) {
            let txt = std::fs::read_to_string(f).expect("corpus file");
            let mut cur: Vec<Op> = Vec::new();
            let mut cur_tl = false;
            for line in txt.lines() {
                let line = line.trim();
                if line.is_empty() || line.starts_with('#') {
                    continue;
                }
                if line.starts_with("case") {
                    if !cur.is_empty() {
                        all.push((cur_tl, std::mem::take(&mut cur)));
                    }
                    cur_tl = line.split_whitespace().any(|w| w == "tl");
                } else if let Some(op) = Op::parse(line) {
                    cur.push(op);
                }
            }
            if !cur.is_empty() {
                all.push((cur_tl, cur));
            }
            st.bump("corpus_files");
        }
    }
    if args.u64("only-replay", 0) != 1 {
        // every boundary case with both target flavours
        let fixed = fixed_cases();
        st.add("fixed_cases", 2 * fixed.len() as u64);
        all.extend(fixed.iter().cloned().map(|c| (false, c)));
        all.extend(fixed.into_iter().map(|c| (true, c)));
        for _ in 0..cases {
            let tl = rng.chance(1, 3);
            all.push((tl, gen_case(&mut rng, &mut st)));
        }
    }
    for (ci, (tl, ops)) in all.iter().enumerate() {
        st.bump("cases");
        if *tl {
            st.bump("cases_thread_local_target");
        }
        let rt = tokio::runtime::Builder::new_current_thread().enable_time().start_paused(true).build().unwrap();
        let res = std::panic::catch_unwind(AssertUnwindSafe(|| rt.block_on(run_case(*tl, ops))));
        drop(rt);
        log.rec(if *tl { format!("case {ci} tl") } else { format!("case {ci}") }, "ok");
        let mut h: u64 = if *tl { 0x84222325cbf29ce4 } else { 0xcbf29ce484222325 };
        match res {
            Ok(obs) => {
                let mut prev_res: Vec<String> = Vec::new();
                for (op, o) in ops.iter().zip(obs.iter()) {
                    let t = op.text();
                    let cur_res: Vec<String> = o
                        .split_whitespace()
                        .find_map(|w| w.strip_prefix("res="))
                        .map(|r| if r == "-" { Vec::new() } else { r.split(',').map(|x| x.to_string()).collect() })
                        .unwrap_or_default();
                    match op {
                        Op::Abort(i) | Op::AdvAbort(_, i) => match prev_res.get(*i).map(|x| x.as_str()) {
                            Some("cancelled") => st.bump("abort_of_cancelled_timer"),
                            Some("P") => st.bump("abort_of_pending_timer"),
                            Some("dP") => st.bump("abort_of_detached_pending_timer"),
                            Some(_) => st.bump("abort_after_completion"),
                            None => st.bump("abort_of_unknown_timer"),
                        },
                        Op::Drop(i) | Op::AdvDrop(_, i) => match prev_res.get(*i).map(|x| x.as_str()) {
                            Some("P") => st.bump("drop_of_pending_timer"),
                            Some("dP") | Some("dF") => st.bump("drop_twice"),
                            Some(_) => st.bump("drop_after_completion"),
                            None => st.bump("drop_before_creation"),
                        },
                        _ => {}
                    }
                    for (a, b) in prev_res.iter().zip(cur_res.iter()) {
                        if a == "dP" && b == "dF" {
                            st.bump(if o.contains("att=-") { "detached_task_ended_without_sending" } else { "detached_task_acted" });
                        }
                    }
                    if cur_res.iter().any(|r| r == "panic") && !prev_res.iter().any(|r| r == "panic") {
                        st.bump("obs_task_panicked");
                    }
                    prev_res = cur_res;
                    for b in t.bytes().chain([b'\n']) {
                        h = (h ^ b as u64).wrapping_mul(0x100000001b3);
                    }
                    if o.contains("att=-") {
                        st.bump("ops_without_attempt");
                    } else {
                        st.bump("ops_with_attempt");
                    }
                    if o.contains("err") {
                        st.bump("obs_send_error");
                    }
                    if o.contains("cancelled") {
                        st.bump("obs_cancelled");
                    }
                    if o.contains("Stopped:") {
                        st.bump("obs_target_stopped");
                    }
                    if o.contains("tgt=Starting") {
                        st.bump("obs_target_starting");
                        if !o.contains("att=-") {
                            st.bump("obs_attempt_while_starting");
                        }
                    }
                    if o.contains("<failed>") {
                        st.bump("obs_target_failed");
                    }
                    if o.contains("PostStop@") {
                        st.bump("obs_target_in_post_stop");
                        if !o.contains("att=-") {
                            st.bump("obs_attempt_while_in_post_stop");
                        }
                    }
                    log.rec(format!("{t} h={h:x}"), o);
                }
            }
            Err(_) => {
                st.bump("case_panicked");
                log.rec(format!("{} h=0", ops[0].text()), "<case panicked>");
            }
        }
    }
    st.write_json(&std::path::Path::new(&out).join("stats.json"));
    log.finish();
}
