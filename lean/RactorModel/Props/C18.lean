import RactorModel.Lemmas.GenElection
import RactorModel.Lemmas.TwoNode
import RactorModel.Lemmas.Agreement
import RactorModel.Lemmas.HandshakeRefine
import RactorModel.Lemmas.HandshakeProgress
import RactorModel.Lemmas.NodeState

/-!
# C18 — duplicate connections converge on one and the same link

Property theorems only; helper lemmas live in `Lemmas/Election.lean`, `Lemmas/TwoNode.lean`,
the executable model (tied to `ractor_cluster/src/node.rs` by the correspondence check) in
`Model/Election.lean`.
-/

namespace C18
open Election

/-- (order-independence) The elected set does not depend on the order in which the
candidates are examined: permuting the candidate list permutes the result. -/
theorem elect_order_independent (ord : Ordering) {cs cs' : List Cand} (h : cs.Perm cs') :
    (elect ord cs).Perm (elect ord cs') := by
  rw [elect_eq_pipeline, elect_eq_pipeline]
  exact (pipeline_perm ord h).map _

/-- Only candidates are ever elected. -/
theorem elect_subset (ord : Ordering) (cs : List Cand) :
    ∀ i ∈ elect ord cs, ∃ c ∈ cs, c.id = i := by
  intro i hi
  rw [elect_eq_pipeline] at hi
  obtain ⟨c, hc, rfl⟩ := List.mem_map.mp hi
  exact ⟨c, (pipeline_sublist ord cs).subset hc, rfl⟩

/-- The election never closes every connection to a peer. -/
theorem elect_nonempty (ord : Ordering) {cs : List Cand} (h : cs ≠ []) : elect ord cs ≠ [] := by
  rw [elect_eq_pipeline]
  simpa using pipeline_ne_nil ord h


/-- (agreement) For two nodes with distinct names and any non-empty multiset of physical
connections (arbitrary initiators, arbitrary nonces including the legacy `0` and repeats,
session actor ids distinct on each node):

* the symmetric survivors `T` all have one direction and one nonce;
* the accepting node (the one that did not dial the survivors) retains exactly one
  connection `acc ∈ T`, the one with its smallest actor id;
* the initiating node retains exactly `T` — in particular it still holds `acc`.
-/
theorem agreement (o : Ordering) (ho : o ≠ .eq) (cs : List Conn) (hne : cs ≠ [])
    (hA : (cs.map (·.idA)).Nodup) (hB : (cs.map (·.idB)).Nodup) :
    (∃ d, ∀ c ∈ survivors o cs, c.aInit = d) ∧
    (∀ c ∈ survivors o cs, ∀ c' ∈ survivors o cs, nz c.nonce = nz c'.nonce) ∧
    ∃ acc ∈ survivors o cs,
      (acc.aInit = false →
        electA o cs = [acc.idA] ∧ electB o cs = (survivors o cs).map (·.idB) ∧
        ∀ c ∈ survivors o cs, acc.idA ≤ c.idA) ∧
      (acc.aInit = true →
        electB o cs = [acc.idB] ∧ electA o cs = (survivors o cs).map (·.idA) ∧
        ∀ c ∈ survivors o cs, acc.idB ≤ c.idB) :=
  Election.agreement_core o ho cs hne hA hB


/-- (oracle soundness) The run-time oracle `worldOk`, which `bin/check` evaluates on the
answers the REAL `elect_sessions` gives for both nodes, holds of the model's answers for
every two-node world — so an implementation that agrees with the model passes it, and an
oracle failure on the implementation is a genuine violation of the agreement property. -/
theorem worldOk_model (o : Ordering) (ho : o ≠ .eq) (cs : List Conn) (hne : cs ≠ [])
    (hA : (cs.map (·.idA)).Nodup) (hB : (cs.map (·.idB)).Nodup) :
    worldOk cs (electA o cs) (electB o cs) = true := by
  obtain ⟨⟨d, hd⟩, hn, acc, hacc, h1, h2⟩ := agreement o ho cs hne hA hB
  have hsub := survivors_sublist o cs
  have haccs : acc ∈ cs := hsub.subset hacc
  have hpair : ∀ c ∈ survivors o cs, ∀ c' ∈ survivors o cs,
      c.aInit = c'.aInit ∧ nz c.nonce = nz c'.nonce := by
    intro c hc c' hc'
    exact ⟨by rw [hd c hc, hd c' hc'], hn c hc c' hc'⟩
  unfold worldOk
  cases hai : acc.aInit
  · obtain ⟨eA, eB, _⟩ := h1 hai
    have kA : cs.filter (fun c => (electA o cs).contains c.idA) = [acc] := by
      rw [eA]; exact filter_key_singleton (·.idA) haccs hA
    have kB : cs.filter (fun c => (electB o cs).contains c.idB) = survivors o cs := by
      rw [eB]; exact filter_keys_of_sublist (·.idB) hsub hB
    simp only [kA, kB]
    simp only [eA, eB, hai]
    simp only [Bool.and_eq_true, List.all_eq_true, List.any_eq_true, beq_iff_eq, List.mem_map,
      List.mem_cons, List.mem_append, List.not_mem_nil, or_false, forall_eq, List.length_cons,
      List.length_nil, List.contains_eq_mem, decide_eq_true_eq, Bool.false_eq_true, if_false]
    refine ⟨⟨⟨⟨acc, haccs, rfl⟩, ?_⟩, ?_⟩, trivial, hacc⟩
    · rintro i ⟨c, hc, rfl⟩; exact ⟨c, hsub.subset hc, rfl⟩
    · intro c hc c' hc'
      have hcT : c ∈ survivors o cs := by rcases hc with rfl | h; exact hacc; exact h
      have hcT' : c' ∈ survivors o cs := by rcases hc' with rfl | h; exact hacc; exact h
      exact hpair c hcT c' hcT'
  · obtain ⟨eB, eA, _⟩ := h2 hai
    have kB : cs.filter (fun c => (electB o cs).contains c.idB) = [acc] := by
      rw [eB]; exact filter_key_singleton (·.idB) haccs hB
    have kA : cs.filter (fun c => (electA o cs).contains c.idA) = survivors o cs := by
      rw [eA]; exact filter_keys_of_sublist (·.idA) hsub hA
    simp only [kA, kB]
    simp only [eA, eB]
    cases hT : survivors o cs with
    | nil => rw [hT] at hacc; simp at hacc
    | cons c rest =>
      have hcT : c ∈ survivors o cs := by rw [hT]; simp
      have hca : c.aInit = true := by rw [hd c hcT, ← hd acc hacc, hai]
      rw [hT] at hacc hsub hpair
      simp only [hca, if_true]
      simp only [Bool.and_eq_true, List.all_eq_true, List.any_eq_true, beq_iff_eq, List.mem_map,
        List.mem_cons, List.mem_append, List.not_mem_nil, or_false, forall_eq, List.length_cons,
        List.length_nil, List.contains_eq_mem, decide_eq_true_eq]
      have hmem : ∀ x : Conn, (x = c ∨ x ∈ rest) ∨ x = acc → x ∈ c :: rest := by
        intro x hx
        rcases hx with h | rfl
        · exact List.mem_cons.mpr h
        · exact hacc
      refine ⟨⟨⟨?_, ⟨acc, haccs, rfl⟩⟩, ?_⟩, trivial, List.mem_cons.mp hacc⟩
      · rintro i ⟨x, hx, rfl⟩; exact ⟨x, hsub.subset (List.mem_cons.mpr hx), rfl⟩
      · intro x hx x' hx'
        exact hpair x (hmem x hx) x' (hmem x' hx')

/-- (same link) Whatever each node retains is a surviving connection: same direction — the
dials of the node whose name sorts last when both directions exist — and the least
non-legacy nonce of that direction. Stated by quantifiers over the connections only. -/
theorem survivors_spec (o : Ordering) (cs : List Conn) (c : Conn) :
    c ∈ survivors o cs ↔
      (c ∈ cs ∧ ((∃ x ∈ cs, x.aInit = true) → (∃ y ∈ cs, y.aInit = false) →
          (o = .lt → c.aInit = true) ∧ (o = .gt → c.aInit = false))) ∧
      ∀ c' ∈ dirC o cs, c'.nonce ≠ 0 → c.nonce ≠ 0 ∧ c.nonce ≤ c'.nonce := by
  unfold survivors
  rw [mem_nonceC, mem_dirC]

/-- (unique minimum) If a single connection survives the symmetric part (for instance
because its nonce is the unique minimum), both nodes retain exactly that connection. -/
theorem unique_survivor (o : Ordering) (ho : o ≠ .eq) (cs : List Conn) (hne : cs ≠ [])
    (hA : (cs.map (·.idA)).Nodup) (hB : (cs.map (·.idB)).Nodup) (c : Conn)
    (hT : survivors o cs = [c]) : electA o cs = [c.idA] ∧ electB o cs = [c.idB] := by
  obtain ⟨_, _, acc, hacc, h1, h2⟩ := agreement o ho cs hne hA hB
  rw [hT] at hacc h1 h2
  have : acc = c := by simpa using hacc
  subst this
  cases h : acc.aInit
  · obtain ⟨a, b, _⟩ := h1 h; exact ⟨a, by simpa using b⟩
  · obtain ⟨a, b, _⟩ := h2 h; exact ⟨by simpa using b, a⟩

/-- (convergence / stability) The connection kept by the accepting node is never dropped by
either node's symmetric stages when other connections disappear: for every sub-multiset `R`
of the connections that still contains it, it is still a survivor. Hence once the accepting
node has closed its losers, re-election on the initiating node — over whatever subset is
still open — keeps that same physical connection. -/
theorem survivor_stable (o : Ordering) (cs R : List Conn) (hR : R.Sublist cs) (c : Conn)
    (hc : c ∈ survivors o cs) (hcR : c ∈ R) : c ∈ survivors o R :=
  Election.survivor_stable_core o cs R hR c hc hcR



/-- (every interleaving of the two nodes' handshakes) Elections are run incrementally: each
time a session authenticates, a node elects among the connections that are authenticated and
still open THERE at that moment — some sub-multiset `R` of all connections `cs`, depending on
the interleaving. Whatever `R` is, as long as it contains the connection `acc` that the
accepting node would keep among all of `cs`, NEITHER node's partial election ever closes
`acc`: the accepting node elects exactly `acc`, the initiating node's elected set contains it.
So no schedule of authentications and closings on the two nodes can lose the final link, and
when everything has authenticated and every loser is closed, what remains on both nodes is
that one connection. -/
theorem winner_survives_every_partial_election (o : Ordering) (ho : o ≠ .eq) (cs R : List Conn)
    (hA : (cs.map (·.idA)).Nodup) (hB : (cs.map (·.idB)).Nodup) (hR : R.Sublist cs)
    (acc : Conn) (hacc : acc ∈ survivors o cs) (haccR : acc ∈ R) :
    (acc.aInit = false → (∀ c ∈ survivors o cs, acc.idA ≤ c.idA) →
        electA o R = [acc.idA] ∧ acc.idB ∈ electB o R) ∧
    (acc.aInit = true → (∀ c ∈ survivors o cs, acc.idB ≤ c.idB) →
        electB o R = [acc.idB] ∧ acc.idA ∈ electA o R) :=
  Election.winner_survives_every_partial_election_core o ho cs R hA hB hR acc hacc haccR

/-- (convergence) A set of connections `R` that is at rest on both nodes — each node's election
over `R` keeps all of `R` (nothing more will be closed) — and still contains the acceptor's
global choice `acc`, is exactly `[acc]`: both nodes end with the same single physical link. -/
theorem quiescent_set_is_the_single_winner (o : Ordering) (ho : o ≠ .eq) (cs R : List Conn)
    (hA : (cs.map (·.idA)).Nodup) (hB : (cs.map (·.idB)).Nodup) (hR : R.Sublist cs)
    (acc : Conn) (hacc : acc ∈ survivors o cs) (haccR : acc ∈ R)
    (hminA : acc.aInit = false → ∀ c ∈ survivors o cs, acc.idA ≤ c.idA)
    (hminB : acc.aInit = true → ∀ c ∈ survivors o cs, acc.idB ≤ c.idB)
    (hrestA : electA o R = R.map (·.idA)) (hrestB : electB o R = R.map (·.idB)) : R = [acc] := by
  obtain ⟨h1, h2⟩ := winner_survives_every_partial_election o ho cs R hA hB hR acc hacc haccR
  cases hai : acc.aInit
  · obtain ⟨eA, _⟩ := h1 hai (hminA hai)
    rw [hrestA] at eA
    have hl : R.length = 1 := by simpa using congrArg List.length eA
    match R, hl, haccR with
    | [x], _, hm => simp at hm; rw [hm]
  · obtain ⟨eB, _⟩ := h2 hai (hminB hai)
    rw [hrestB] at eB
    have hl : R.length = 1 := by simpa using congrArg List.length eB
    match R, hl, haccR with
    | [x], _, hm => simp at hm; rw [hm]


/-! ### every interleaving of the two nodes' handshakes (`Model/Handshake.lean`) -/

/-- **Both nodes converge on one and the same link, whatever the schedule.** Two nodes with
distinct names, any non-empty set of connections between them (any initiators, any nonces incl.
legacy `0` and repeats). There is ONE connection `acc` — fixed by the connections alone, not by
the schedule — such that for EVERY sequence of steps of the two `NodeServer`s (sessions
authenticating on either node in any order, each followed by that node's election over the
sessions authenticated and open THERE at that moment; `check_candidate` probes of sessions that
have not authenticated yet; either node noticing, at any later time, that the other closed a
connection):

* `acc` is never closed, by either node, at any point of the run;
* whenever the run is at rest (every connection still open somewhere is open and authenticated
  on both nodes), BOTH nodes hold exactly `[acc]`. -/
theorem handshake_converges_on_one_link (o : Ordering) (ho : o ≠ .eq) (cs : List Conn) (hne : cs ≠ [])
    (hA : (cs.map (·.idA)).Nodup) (hB : (cs.map (·.idB)).Nodup) :
    ∃ acc ∈ cs, ∀ ops : List HOp,
      (∀ l ∈ hsRun o cs ops, l.c = acc → l.openA = true ∧ l.openB = true) ∧
      (hsQuiescent (hsRun o cs ops) = true →
        openOnA (hsRun o cs ops) = [acc] ∧ openOnB (hsRun o cs ops) = [acc]) := by
  obtain ⟨acc, hw⟩ := exists_winner o ho cs hne hA hB
  have X : Ctx o cs acc := ⟨ho, hA, hB, hw⟩
  exact ⟨acc, X.mem, fun ops => ⟨(hsRun_inv X ops).accOpen, (hsRun_inv X ops).quiescent X⟩⟩

/-- The winner is the connection the full election picks: a survivor of the direction and nonce
rules with the smallest session id on the accepting node (`IsWinner`), and ANY connection with
that description is kept by every run — so the link the two nodes end up with can be read off
the connections without knowing the schedule. -/
theorem handshake_winner_is_the_elected_one (o : Ordering) (ho : o ≠ .eq) (cs : List Conn)
    (hA : (cs.map (·.idA)).Nodup) (hB : (cs.map (·.idB)).Nodup) (acc : Conn) (hw : IsWinner o cs acc)
    (ops : List HOp) (hq : hsQuiescent (hsRun o cs ops) = true) :
    openOnA (hsRun o cs ops) = [acc] ∧ openOnB (hsRun o cs ops) = [acc] :=
  (hsRun_inv ⟨ho, hA, hB, hw⟩ ops).quiescent ⟨ho, hA, hB, hw⟩ hq


/-- **The handshakes come to rest.** (progress) A state that is not at rest always has a step
that does something; a step that does something strictly decreases the measure `hsMu`
(3 per open end + 1 per open, not yet authenticated end); a step that is not enabled changes
nothing. Hence in EVERY run — any schedule, any repetitions, any number of useless steps — at
most `8 · #connections` steps do anything, and a run in which no enabled step is postponed for
ever reaches a state at rest, where by `handshake_converges_on_one_link` both nodes hold the
same single link. -/
theorem handshake_comes_to_rest (o : Ordering) (cs : List Conn) (ops : List HOp) :
    hsEffective o (hsInit cs) ops ≤ 8 * cs.length ∧
    (∀ w : List Link, hsQuiescent w = false → ∃ op, hsEnabled o w op = true) ∧
    (∀ (w : List Link) (op : HOp), hsEnabled o w op = true → hsMu (hsStep o w op) < hsMu w) ∧
    (∀ (w : List Link) (op : HOp), hsEnabled o w op = false → hsStep o w op = w) := by
  refine ⟨?_, enabled_of_not_quiescent o, hsStep_decreases o, hsStep_of_not_enabled o⟩
  have := effective_bound o ops (hsInit cs)
  rw [hsMu_init] at this
  omega

/-- (tie of the `authA` step to the `NodeServerState` model that the correspondence run compares
with `node.rs`) `commit_authenticated` on node A's state — one registered session per connection
open on A — elects among exactly the step's `activeA (markA w a)` and names as losers exactly the
sessions the step closes. -/
theorem commit_is_the_auth_step (nameA nameB : String) (w : List Link) (a : Nat)
    (h : pendingA w a = true) :
    ∃ st', (nsOfA nameA nameB w).commit a =
      some (st', (electA (nameOrd nameB nameA) (activeA (markA w a))).contains a,
        ((markA w a).filter (fun l => l.authA && l.openA &&
          !(electA (nameOrd nameB nameA) (activeA (markA w a))).contains l.c.idA)).map (·.c.idA)) :=
  commit_is_stepAuthA nameA nameB w a h

/-- (tie of the `preA` step) `check_candidate` tells a session that has not authenticated yet
that another connection continues exactly when the step closes it. -/
theorem check_candidate_is_the_pre_step (nameA nameB : String) (w : List Link) (a : Nat)
    (hnd : ((w.map (·.c)).map (·.idA)).Nodup) (h : pendingA w a = true) :
    ((nsOfA nameA nameB w).checkCandidate a = .otherContinues) ↔
      (electA (nameOrd nameB nameA) (candA w a)).contains a = false :=
  checkCandidate_is_stepPreA nameA nameB w a hnd h

/-- Non-vacuity: three connections (both nodes dialled, one legacy nonce); node B authenticates
everything first, node A last, closes are noticed late — the run comes to rest with one link,
and a different schedule comes to rest with the same link. -/
example :
    let cs : List Conn := [⟨true, 5, 10, 20⟩, ⟨false, 3, 11, 21⟩, ⟨false, 0, 12, 22⟩]
    let run1 := hsRun .lt cs [.authB 20, .authB 21, .authB 22, .authA 12, .authA 11, .authA 10,
      .seeA 10, .seeA 11, .seeA 12, .seeB 20, .seeB 21, .seeB 22]
    let run2 := hsRun .lt cs [.authA 11, .preA 12, .authB 21, .preB 22, .authA 10, .authB 20, .authA 12, .authB 22,
      .seeB 20, .seeB 21, .seeB 22, .seeA 10, .seeA 11, .seeA 12]
    hsQuiescent run1 = true ∧ hsQuiescent run2 = true ∧
    openOnA run1 = openOnB run1 ∧ openOnA run1 = openOnA run2 ∧ (openOnA run1).length = 1 := by
  decide

/-! ### `NodeServerState`: unauthenticated sessions cannot displace or veto -/

/-- (non-interference, commit) Whatever name, direction and nonce an UNAUTHENTICATED session
`u` claims, and wherever it sits in the session table, `commit_authenticated(id)` for
another session elects the same survivor flag and closes the same losers as if `u` did not
exist. -/
theorem unauthenticated_cannot_influence_commit (thisName : String) (l1 l2 : List Session)
    (u : Session) (id : Nat) (hu : u.auth = false) (hid : u.id ≠ id) :
    ((NS.mk thisName (l1 ++ u :: l2)).commit id).map (fun r => (r.2.1, r.2.2)) =
      ((NS.mk thisName (l1 ++ l2)).commit id).map (fun r => (r.2.1, r.2.2)) :=
  commit_insert thisName l1 l2 u id hu hid

/-- (non-interference, status reply) …nor the reply `check_candidate` gives to another session. -/
theorem unauthenticated_cannot_influence_check (thisName : String) (l1 l2 : List Session)
    (u : Session) (id : Nat) (hu : u.auth = false) (hid : u.id ≠ id) :
    (NS.mk thisName (l1 ++ u :: l2)).checkCandidate id =
      (NS.mk thisName (l1 ++ l2)).checkCandidate id :=
  checkCandidate_insert thisName l1 l2 u id hu hid

/-- (non-interference, ready) …nor whether another session is reported ready (`is_elected`). -/
theorem unauthenticated_cannot_influence_ready (thisName : String) (l1 l2 : List Session)
    (u : Session) (id : Nat) (hu : u.auth = false) (hid : u.id ≠ id) :
    (NS.mk thisName (l1 ++ u :: l2)).isElected id = (NS.mk thisName (l1 ++ l2)).isElected id :=
  isElected_insert thisName l1 l2 u id hu hid

/-- (stability) An elected set re-elects itself: a second election closes nothing more. -/
theorem elected_set_is_stable (o : Ordering) (cs : List Cand) :
    elect o (pipeline o cs) = elect o cs := by
  rw [elect_eq_pipeline, elect_eq_pipeline, pipeline_idem]

/-- (one ready session per peer) After `commit_authenticated`, the authenticated sessions of
that peer are exactly the elected set; on the accepting node (all of them server-side) at
most ONE session of that peer is left authenticated — and only authenticated, elected
sessions are ever reported ready or listed. -/
theorem commit_leaves_elected_set (st : NS) (id : Nat) (s : Session) (peer : String)
    (hnd : (st.sessions.map (·.id)).Nodup) (hf : st.find id = some s) (hp : s.peerName = some peer) :
    ∃ st2 surv losers, st.commit id = some (st2, surv, losers) ∧
      st2.candidatesFor peer true =
        pipeline (nameOrd peer st.thisName) ((st.markAuth id).candidatesFor peer true) ∧
      ((∀ c ∈ st2.candidatesFor peer true, c.isServer = true) →
        (st2.candidatesFor peer true).length ≤ 1) := by
  have hnd1 : ((st.markAuth id).sessions.map (·.id)).Nodup := by
    have : (st.markAuth id).sessions.map (·.id) = st.sessions.map (·.id) := by
      simp only [NS.markAuth, List.map_map]
      apply List.map_congr_left
      intro x _; simp only [Function.comp]; split <;> rfl
    rw [this]; exact hnd
  have hthis : (st.markAuth id).thisName = st.thisName := rfl
  have key := deauth_candidates (st.markAuth id) peer (nameOrd peer st.thisName) hnd1
  refine ⟨(st.markAuth id).deauth ((st.markAuth id).losersOf peer
      (elect (nameOrd peer st.thisName) ((st.markAuth id).candidatesFor peer true))),
    (elect (nameOrd peer st.thisName) ((st.markAuth id).candidatesFor peer true)).contains id,
    (st.markAuth id).losersOf peer (elect (nameOrd peer st.thisName) ((st.markAuth id).candidatesFor peer true)),
    ?_, key, ?_⟩
  · unfold NS.commit; rw [hf]; simp only [hp]
  · intro hall
    rw [key] at hall ⊢
    have hCnd : (((st.markAuth id).candidatesFor peer true).map (·.id)).Nodup := by
      have : ((st.markAuth id).candidatesFor peer true).map (·.id) =
          ((st.markAuth id).sessions.filter (fun s => s.peerName == some peer && (!true || s.auth))).map (·.id) := by
        simp [NS.candidatesFor, Session.toCand, Function.comp_def]
      rw [this]
      exact ((List.filter_sublist).map _).nodup hnd1
    exact pipeline_acceptor_unique _ _ hCnd hall

/-- (the winner is not told to leave) Right after authenticating, a session asks
`CheckSession` with its own (peer name, nonce) and stops itself unless the reply lets it
continue. An authenticated, ELECTED session always gets a reply that lets it continue —
also when several sessions share its (name, nonce) — so the election never leaves a peer
with no connection. -/
theorem elected_session_continues (st : NS) (hnd : (st.sessions.map (·.id)).Nodup)
    (hw : ∀ s ∈ st.sessions, s.conn ≠ some 0) (id : Nat) (hel : st.isElected id = true) :
    ∃ r, st.postAuthReply id = some r ∧ r.continues = true :=
  elected_continues st hnd hw id hel

/-- non-vacuity: a state with an authenticated server-side session, a second server-side
duplicate committing, and an unauthenticated spoofer claiming the same name. -/
def exampleNS : NS :=
  { thisName := "b@h",
    sessions := [⟨1, true, some "a@h", some 7, true⟩, ⟨2, true, some "a@h", some 3, false⟩,
                 ⟨3, true, some "a@h", none, false⟩] }
example : (exampleNS.commit 2).map (fun r => (r.2.1, r.2.2)) = some (true, [1]) := by decide
example : ((exampleNS.commit 2).map (fun r => (r.1.candidatesFor "a@h" true).map (·.id))) = some [2] := by decide

/-! ### Non-vacuity: concrete worlds that satisfy the hypotheses -/

/-- Simultaneous dial plus a repeated legacy dial: 3 connections, names differ. -/
def exampleWorld : List Conn :=
  [⟨true, 19, 1, 4⟩, ⟨false, 7, 2, 3⟩, ⟨false, 0, 5, 6⟩]

example : exampleWorld ≠ [] ∧ (exampleWorld.map (·.idA)).Nodup ∧ (exampleWorld.map (·.idB)).Nodup := by
  decide
example : electA .gt exampleWorld = [2] ∧ electB .gt exampleWorld = [3] := by decide
example : electA .lt exampleWorld = [1] ∧ electB .lt exampleWorld = [4] := by decide
/-- repeated nonce, same direction: the accepting node (A) picks one, B keeps both. -/
example : electA .gt [⟨false, 41, 12, 21⟩, ⟨false, 41, 11, 22⟩] = [11]
    ∧ electB .gt [⟨false, 41, 12, 21⟩, ⟨false, 41, 11, 22⟩] = [21, 22] := by decide


/-! ### Translator tie (rs2lean): kernel-checked equivalence between the definitions that
`extract/rs2lean.py` regenerates from the CURRENT Rust source on every run
(`RactorModel/Generated/*.lean`) and the hand-written model functions the theorems above are
about. A semantic change of the Rust function changes the generated text and these stop checking. -/

section XlateTie
open Generated.Election GenElection

theorem generated_elect_sessions_eq_model (this peer : String) (cs : List SessionElectionCandidate) :
    elect_sessions this peer cs = Election.elect (compare peer this) (cs.map absCand) := by
  unfold elect_sessions Election.elect Election.pipeline
  simp only [List.length_map, decide_eq_true_eq]
  split
  · simp [absCand, Function.comp_def]
  · rw [dir_abs, nonce_abs, tie_abs]
    simp only [List.map_map, Function.comp_def, absCand]
    -- per value of the comparison both sides reduce (robust to a reordering of the `Ordering` arms)
    cases compare peer this <;> rfl

theorem generated_elect_sessions_covers_model (this peer : String) (cs : List Election.Cand) :
    elect_sessions this peer (cs.map concCand) = Election.elect (compare peer this) cs := by
  rw [generated_elect_sessions_eq_model, map_abs_conc]
end XlateTie

end C18

#print axioms C18.elect_order_independent
#print axioms C18.elect_subset
#print axioms C18.elect_nonempty
#print axioms C18.agreement
#print axioms C18.worldOk_model
#print axioms C18.survivors_spec
#print axioms C18.unique_survivor
#print axioms C18.survivor_stable
#print axioms C18.winner_survives_every_partial_election
#print axioms C18.quiescent_set_is_the_single_winner
#print axioms C18.handshake_converges_on_one_link
#print axioms C18.handshake_winner_is_the_elected_one
#print axioms C18.handshake_comes_to_rest
#print axioms C18.commit_is_the_auth_step
#print axioms C18.check_candidate_is_the_pre_step
#print axioms C18.unauthenticated_cannot_influence_commit
#print axioms C18.unauthenticated_cannot_influence_check
#print axioms C18.unauthenticated_cannot_influence_ready
#print axioms C18.elected_set_is_stable
#print axioms C18.commit_leaves_elected_set
#print axioms C18.elected_session_continues
-- rs2lean tie
#print axioms C18.generated_elect_sessions_eq_model
#print axioms C18.generated_elect_sessions_covers_model
