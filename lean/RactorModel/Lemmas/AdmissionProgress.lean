import RactorModel.Lemmas.AdmissionOracle
import RactorModel.Model.AdmissionMeasure

/-!
Progress of the fine-grained admission protocol (`Model/Admission.lean`): a ranking measure for
single atomic steps including the two CAS retry loops, and termination of every (bounded) weakly
fair schedule in `endState`.
-/

namespace Admission

/-! ### A generic bounded-fairness argument -/

section Fair
variable {σ τ : Type} (stp : σ → τ → σ) (μ : σ → Nat) (en : σ → τ → Bool) (ok : τ → Prop)
  (P : σ → Prop)

theorem fair_mono (H1 : ∀ g u, μ (stp g u) ≤ μ g) (g : σ) (r : List τ) : μ (r.foldl stp g) ≤ μ g := by
  induction r generalizing g with
  | nil => exact Nat.le_refl _
  | cons u r ih => exact Nat.le_trans (ih (stp g u)) (H1 g u)

theorem fair_inv (HP : ∀ g u, P g → P (stp g u)) (g : σ) (r : List τ) (h : P g) : P (r.foldl stp g) := by
  induction r generalizing g with
  | nil => exact h
  | cons u r ih => exact ih (stp g u) (HP g u h)

theorem fair_round_dec (H1 : ∀ g u, μ (stp g u) ≤ μ g)
    (H2 : ∀ g t, en g t = true → μ (stp g t) < μ g)
    (H3 : ∀ g t u, ok u → u ≠ t → en g t = true → en (stp g u) t = true)
    (g : σ) (t : τ) (r : List τ) (he : en g t = true) (ht : t ∈ r) (hok : ∀ u ∈ r, ok u) :
    μ (r.foldl stp g) < μ g := by
  induction r generalizing g with
  | nil => simp at ht
  | cons u r ih =>
    by_cases hut : u = t
    · subst hut
      exact Nat.lt_of_le_of_lt (fair_mono stp μ H1 _ r) (H2 g u he)
    · have ht' : t ∈ r := by
        rcases List.mem_cons.mp ht with h | h
        · exact absurd h.symm hut
        · exact h
      have := ih (stp g u) (H3 g t u (hok u (List.mem_cons_self ..)) hut he) ht'
        (fun v hv => hok v (List.mem_cons_of_mem _ hv))
      exact Nat.lt_of_lt_of_le this (H1 g u)

theorem fair_term_stable
    (H4 : ∀ g u, ok u → (∀ t, en g t = false) → ∀ t, en (stp g u) t = false)
    (g : σ) (r : List τ) (h : ∀ t, en g t = false) (hok : ∀ u ∈ r, ok u) :
    ∀ t, en (r.foldl stp g) t = false := by
  induction r generalizing g with
  | nil => exact h
  | cons u r ih =>
    exact ih (stp g u) (H4 g u (hok u (List.mem_cons_self ..)) h)
      (fun v hv => hok v (List.mem_cons_of_mem _ hv))

/-- After `μ g` fair rounds nothing is enabled any more. -/
theorem fair_rounds (J : τ → Prop)
    (HP : ∀ g u, P g → P (stp g u))
    (H1 : ∀ g u, μ (stp g u) ≤ μ g)
    (H2 : ∀ g t, en g t = true → μ (stp g t) < μ g)
    (H3 : ∀ g t u, ok u → u ≠ t → en g t = true → en (stp g u) t = true)
    (H4 : ∀ g u, ok u → (∀ t, en g t = false) → ∀ t, en (stp g u) t = false)
    (H5 : ∀ g t, P g → en g t = true → J t)
    (rounds : List (List τ)) (g : σ) (hP : P g)
    (hfair : ∀ r ∈ rounds, (∀ u ∈ r, ok u) ∧ ∀ t, J t → t ∈ r)
    (hn : μ g ≤ rounds.length ∨ ∀ t, en g t = false) :
    ∀ t, en (rounds.flatten.foldl stp g) t = false := by
  induction rounds generalizing g with
  | nil =>
    rcases hn with hn | hn
    · intro t
      cases he : en g t with
      | false => simpa using he
      | true => have := H2 g t he; simp at hn; omega
    · exact hn
  | cons r rs ih =>
    simp only [List.flatten_cons, List.foldl_append]
    have hr := hfair r (List.mem_cons_self ..)
    apply ih (r.foldl stp g) (fair_inv stp P HP g r hP) (fun r' hr' => hfair r' (List.mem_cons_of_mem _ hr'))
    by_cases hterm : ∀ t, en g t = false
    · exact Or.inr (fair_term_stable stp en ok H4 g r hterm hr.1)
    · left
      have ⟨t, ht⟩ : ∃ t, en g t = true := by
        apply Classical.byContradiction
        intro hne
        exact hterm (fun t => by cases h : en g t with | false => rfl | true => exact absurd ⟨t, h⟩ hne)
      have hdec := fair_round_dec stp μ en ok H1 H2 H3 g t r ht (hr.2 t (H5 g t hP ht)) hr.1
      rcases hn with hn | hn
      · simp only [List.length_cons] at hn; omega
      · rw [hn t] at ht; cases ht

end Fair

/-! ### The ranking measure -/

/-- **Ranking, one thread step.** Every atomic step of a worker either strictly decreases
(remaining work of the thread + remaining work of the receiver), or it is a failed CAS that retries:
then nothing changes except the remembered word, the remembered word WAS different from the current
word (`staleTop = 1`: somebody changed the word since this thread's load), and it is not any more. -/
theorem thread_rank {s s' : Shared} {stack stack' : List Frame}
    (hs : stepThread s stack = some (s', stack')) :
    (stackW stack' + rho s' + 1 ≤ stackW stack + rho s) ∨
    (s' = s ∧ stackW stack' = stackW stack ∧ staleTop s.word stack = 1 ∧ staleTop s.word stack' = 0) := by
  cases stack with
  | nil => simp [stepThread] at hs
  | cons f rest =>
    obtain ⟨pc, id, late, ops, bf, sk⟩ := f
    cases pc <;> (try (cases ops <;> try (rename_i op ops'; cases op))) <;>
    simp only [stepThread, finish, startOp] at hs <;> (repeat' (split at hs)) <;>
    (try (simp only [Option.some.injEq, Prod.mk.injEq, reduceCtorEq] at hs)) <;>
    (try (obtain ⟨rfl, rfl⟩ := hs)) <;>
    simp only [stackW, Frame.w, pcW, opsW, opW, rho, staleTop, List.map_cons, List.sum_cons,
      List.length_append, List.length_cons, List.length_nil] at * <;>
    first
    | (left; grind)
    | (right; grind)

/-! ### The global measure -/

theorem staleTop_le_one (w : Word) (st : List Frame) : staleTop w st ≤ 1 := by
  unfold staleTop; (repeat' split) <;> omega

theorem sum_map_le_length {α : Type} (f : α → Nat) (hf : ∀ a, f a ≤ 1) (l : List α) :
    (l.map f).sum ≤ l.length := by
  induction l with
  | nil => simp
  | cons a l ih => simp only [List.map_cons, List.sum_cons, List.length_cons]; have := hf a; omega

theorem stale_le (g : G) : stale g ≤ g.threads.length :=
  sum_map_le_length _ (staleTop_le_one _) _

theorem mu_dec_aux (T a a' b b' : Nat) (h : a' + 1 ≤ a) (hb : b' ≤ T) :
    (T + 1) * a' + b' < (T + 1) * a + b := by
  have := Nat.mul_le_mul_left (T + 1) h
  rw [Nat.mul_add, Nat.mul_one] at this
  omega

/-- the thread can take a step -/
def finished : List Frame → Bool
  | [] => true
  | f :: _ => match f.pc, f.ops with
    | .run, [] => true
    | _, _ => false

theorem stepThread_none_iff (s : Shared) (st : List Frame) : stepThread s st = none ↔ finished st = true := by
  cases st with
  | nil => simp [stepThread, finished]
  | cons f rest =>
    obtain ⟨pc, id, late, ops, bf, sk⟩ := f
    cases pc <;> (try (cases ops)) <;> simp only [stepThread, finished] <;> (repeat' split) <;> simp

/-- `en g t`: scheduling `t` in `g` does something (for workers: the program is not finished; for the
receiver: `recv` has a message to take or to handle, `rxClose`/`rxFlush` have the channel to close / to
empty). The environment (`rxStop`, `setStatus`) is never obliged to move. -/
def en (g : G) : Tid → Bool
  | .t i => match g.threads[i]? with
    | some st => !finished st
    | none => false
  | .recv => g.sh.rxOpen && !g.sh.rxStopped && (g.sh.taken.isSome || !g.sh.queue.isEmpty)
  | .rxClose => g.sh.rxStopped && g.sh.rxOpen
  | .rxFlush => !g.sh.rxOpen && !g.sh.queue.isEmpty
  | _ => false

theorem stepRx_word (s : Shared) (tid : Tid) : (stepRx s tid).word = s.word := by
  cases tid <;> simp only [stepRx] <;> (repeat' split) <;> rfl

theorem rho_rx_le (s : Shared) (tid : Tid) : rho (stepRx s tid) ≤ rho s := by
  cases tid <;> simp only [stepRx, rho] <;> (repeat' split) <;> simp_all <;> grind

theorem mu_le_aux (T a a' b b' : Nat) (h : a' ≤ a) (hb : b' ≤ b) :
    (T + 1) * a' + b' ≤ (T + 1) * a + b := by
  have := Nat.mul_le_mul_left (T + 1) h
  omega

theorem mu_lt_aux (T a a' b b' : Nat) (h : a' ≤ a) (hb : b' < b) :
    (T + 1) * a' + b' < (T + 1) * a + b := by
  have := Nat.mul_le_mul_left (T + 1) h
  omega

/-- **Ranking, worker steps.** EVERY step of a worker strictly decreases `mu`: either it decreases
`phi` (any step but a failed, retrying CAS), or it is a failed CAS, which leaves `phi` alone and
removes this thread from the `stale` count. -/
theorem mu_thread_step {g : G} {i : Nat} {stack stack' : List Frame} {s' : Shared}
    (hi : g.threads[i]? = some stack) (hs : stepThread g.sh stack = some (s', stack')) :
    mu { sh := s', threads := g.threads.set i stack' } < mu g := by
  have hW := sum_map_set stackW g.threads i stack' stack hi
  rcases thread_rank hs with h | ⟨rfl, hw, h1, h0⟩
  · have hl : ({ sh := s', threads := g.threads.set i stack' } : G).threads.length = g.threads.length := by simp
    have := mu_dec_aux g.threads.length (phi g) (phi { sh := s', threads := g.threads.set i stack' })
      (stale g) (stale { sh := s', threads := g.threads.set i stack' })
      (by simp only [phi, totalW]; omega) (by have := stale_le { sh := s', threads := g.threads.set i stack' }; omega)
    simp only [mu, hl]; exact this
  · have hS := sum_map_set (staleTop g.sh.word) g.threads i stack' stack hi
    simp only [mu, List.length_set]
    apply mu_lt_aux
    · simp only [phi, totalW]; omega
    · simp only [stale]; omega

theorem rho_rx_lt (g : G) (tid : Tid) (h : en g tid = true) (hne : ∀ i, tid ≠ .t i) :
    rho (stepRx g.sh tid) < rho g.sh := by
  cases tid <;> simp only [en, stepRx, rho] at * <;> (try exact absurd rfl (hne _)) <;>
    (repeat' split) <;> simp_all <;> grind

/-- **Ranking, every step.** No step of anybody increases `mu` … -/
theorem mu_step_le (g : G) (u : Tid) : mu (step g u) ≤ mu g := by
  cases u with
  | t i =>
    simp only [step]
    split
    · exact Nat.le_refl _
    · rename_i stack hi
      split
      · exact Nat.le_refl _
      · rename_i s' stack' hs
        exact Nat.le_of_lt (mu_thread_step hi hs)
  | recv => simp only [step, mu]; exact mu_le_aux _ _ _ _ _ (by simp only [phi, totalW]; have := rho_rx_le g.sh .recv; omega) (by simp only [stale, stepRx_word]; exact Nat.le_refl _)
  | rxStop => simp only [step, mu]; exact mu_le_aux _ _ _ _ _ (by simp only [phi, totalW]; have := rho_rx_le g.sh .rxStop; omega) (by simp only [stale, stepRx_word]; exact Nat.le_refl _)
  | rxClose => simp only [step, mu]; exact mu_le_aux _ _ _ _ _ (by simp only [phi, totalW]; have := rho_rx_le g.sh .rxClose; omega) (by simp only [stale, stepRx_word]; exact Nat.le_refl _)
  | rxFlush => simp only [step, mu]; exact mu_le_aux _ _ _ _ _ (by simp only [phi, totalW]; have := rho_rx_le g.sh .rxFlush; omega) (by simp only [stale, stepRx_word]; exact Nat.le_refl _)
  | setStatus st => simp only [step, mu]; exact mu_le_aux _ _ _ _ _ (by simp only [phi, totalW]; have := rho_rx_le g.sh (.setStatus st); omega) (by simp only [stale, stepRx_word]; exact Nat.le_refl _)

/-- … and every step of somebody who has something to do strictly decreases it. -/
theorem mu_step_lt (g : G) (t : Tid) (h : en g t = true) : mu (step g t) < mu g := by
  cases t with
  | t i =>
    simp only [en] at h
    split at h
    · rename_i st hi
      cases hs : stepThread g.sh st with
      | none => rw [(stepThread_none_iff _ _).mp hs] at h; simp at h
      | some r =>
        obtain ⟨s', stack'⟩ := r
        rw [step_t hi hs]; exact mu_thread_step hi hs
    · cases h
  | recv => have := rho_rx_lt g .recv h (by simp); simp only [step, mu]; exact mu_dec_aux _ _ _ _ _ (by simp only [phi, totalW]; omega) (by simp only [stale, stepRx_word]; exact stale_le g)
  | rxClose => have := rho_rx_lt g .rxClose h (by simp); simp only [step, mu]; exact mu_dec_aux _ _ _ _ _ (by simp only [phi, totalW]; omega) (by simp only [stale, stepRx_word]; exact stale_le g)
  | rxFlush => have := rho_rx_lt g .rxFlush h (by simp); simp only [step, mu]; exact mu_dec_aux _ _ _ _ _ (by simp only [phi, totalW]; omega) (by simp only [stale, stepRx_word]; exact stale_le g)
  | rxStop => simp [en] at h
  | setStatus st => simp [en] at h

/-! ### Persistence, stability, shape of stacks -/

/-- allowed in a fair continuation: everything except a stop / kill / failure from outside -/
def notStop (u : Tid) : Prop := u ≠ .rxStop

theorem threads_step_ne (g : G) (u : Tid) (i : Nat) (h : u ≠ .t i) :
    (step g u).threads[i]? = g.threads[i]? := by
  cases u with
  | t j =>
    have hij : j ≠ i := fun e => h (by rw [e])
    simp only [step]
    split
    · rfl
    · split
      · rfl
      · simp [List.getElem?_set_ne hij]
  | _ => rfl

theorem step_sh_t (g : G) (j : Nat) : step g (.t j) = g ∨
    ∃ stack s' stack', g.threads[j]? = some stack ∧ stepThread g.sh stack = some (s', stack') ∧
      step g (.t j) = { sh := s', threads := g.threads.set j stack' } := by
  simp only [step]
  split
  · exact Or.inl rfl
  · rename_i stack hi
    split
    · exact Or.inl rfl
    · rename_i s' stack' hs
      exact Or.inr ⟨stack, s', stack', hi, hs, rfl⟩

/-- whoever has something to do keeps having it while others (not a stop from outside) move -/
theorem en_persist (g : G) (t u : Tid) (hu : notStop u) (hut : u ≠ t) (h : en g t = true) :
    en (step g u) t = true := by
  cases t with
  | t i => simp only [en, threads_step_ne g u i hut] at h ⊢; exact h
  | rxStop => simp [en] at h
  | setStatus st => simp [en] at h
  | recv =>
    cases u with
    | t j =>
      rcases step_sh_t g j with e | ⟨stack, s', stack', hi, hs, e⟩
      · rw [e]; exact h
      · rw [e]
        have E := stepThread_effect hs
        obtain ⟨l, -, hq, -⟩ := E.chan
        simp only [en, E.rxOpen, E.rxStopped, E.taken, hq] at h ⊢
        cases l <;> simp_all
    | recv => exact absurd rfl hut
    | rxStop => exact absurd rfl hu
    | rxClose => simp only [en, step, stepRx] at h ⊢; split <;> simp_all
    | rxFlush => simp only [en, step, stepRx] at h ⊢; split <;> simp_all
    | setStatus st => simpa only [en, step, stepRx] using h
  | rxClose =>
    cases u with
    | t j =>
      rcases step_sh_t g j with e | ⟨stack, s', stack', hi, hs, e⟩
      · rw [e]; exact h
      · rw [e]
        have E := stepThread_effect hs
        simp only [en, E.rxOpen, E.rxStopped] at h ⊢
        exact h
    | recv => simp only [en, step, stepRx] at h ⊢; (repeat' split) <;> simp_all
    | rxStop => exact absurd rfl hu
    | rxClose => exact absurd rfl hut
    | rxFlush => simp only [en, step, stepRx] at h ⊢; split <;> simp_all
    | setStatus st => simpa only [en, step, stepRx] using h
  | rxFlush =>
    cases u with
    | t j =>
      rcases step_sh_t g j with e | ⟨stack, s', stack', hi, hs, e⟩
      · rw [e]; exact h
      · rw [e]
        have E := stepThread_effect hs
        obtain ⟨l, -, hq, -⟩ := E.chan
        simp only [en, E.rxOpen, hq] at h ⊢
        cases l <;> simp_all
    | recv => simp only [en, step, stepRx] at h ⊢; (repeat' split) <;> simp_all
    | rxStop => exact absurd rfl hu
    | rxClose => simp only [en, step, stepRx] at h ⊢; split <;> simp_all
    | rxFlush => exact absurd rfl hut
    | setStatus st => simpa only [en, step, stepRx] using h

/-- a state in which nobody has anything to do stays like that (no stop from outside) -/
theorem en_none_stable (g : G) (u : Tid) (hu : notStop u) (h : ∀ t, en g t = false) :
    ∀ t, en (step g u) t = false := by
  have key : (∀ t, en (step g u) t = en g t) := by
    cases u with
    | t j =>
      have hj := h (.t j)
      have : step g (.t j) = g := by
        simp only [step]
        split
        · rfl
        · rename_i stack hi
          simp only [en, hi, Bool.not_eq_false'] at hj
          rw [(stepThread_none_iff g.sh stack).mpr hj]
      rw [this]; intro t; rfl
    | rxStop => exact absurd rfl hu
    | setStatus st => intro t; cases t <;> rfl
    | recv =>
      have hj := h .recv
      have : step g .recv = g := by
        obtain ⟨sh, th⟩ := g
        simp only [en] at hj
        simp only [step, stepRx]
        (repeat' split) <;> simp_all
      rw [this]; intro t; rfl
    | rxClose =>
      have hj := h .rxClose
      have : step g .rxClose = g := by
        obtain ⟨sh, th⟩ := g
        simp only [en] at hj
        simp only [step, stepRx]
        split
        · cases sh; simp_all
        · rfl
      rw [this]; intro t; rfl
    | rxFlush =>
      have hj := h .rxFlush
      have : step g .rxFlush = g := by
        obtain ⟨sh, th⟩ := g
        simp only [en] at hj
        simp only [step, stepRx]
        split
        · rfl
        · cases sh; simp_all
      rw [this]; intro t; rfl
  intro t; rw [key t]; exact h t

/-- who must be scheduled in every round of a fair continuation of `g₀`: every worker whose program
is not finished in `g₀`, and the three receiver actions -/
def mustRun (g₀ : G) : Tid → Prop
  | .t i => en g₀ (.t i) = true
  | .recv | .rxClose | .rxFlush => True
  | _ => False

/-- a finished worker stays finished -/
theorem en_t_step_back (g : G) (u : Tid) (i : Nat) (h : en (step g u) (.t i) = true) : en g (.t i) = true := by
  by_cases hu : u = .t i
  · subst hu
    cases he : en g (.t i) with
    | true => rfl
    | false =>
      have : step g (.t i) = g := by
        simp only [step]
        split
        · rfl
        · rename_i stack hi
          simp only [en, hi, Bool.not_eq_false'] at he
          rw [(stepThread_none_iff g.sh stack).mpr he]
      rw [this, he] at h; cases h
  · simpa only [en, threads_step_ne g u i hu] using h

theorem length_step (g : G) (u : Tid) : (step g u).threads.length = g.threads.length := by
  cases u with
  | t j => rcases step_sh_t g j with e | ⟨_, _, _, _, _, e⟩ <;> rw [e] <;> simp
  | _ => rfl

/-- all frames of a stack but the bottom one are in the middle of an op -/
def okStack : List Frame → Bool
  | [] => true
  | [_] => true
  | f :: rest => f.active && okStack rest

theorem okStack_step {s s' : Shared} {stack stack' : List Frame}
    (hs : stepThread s stack = some (s', stack')) (h : okStack stack = true) : okStack stack' = true := by
  cases stack with
  | nil => simp [stepThread] at hs
  | cons f rest =>
    obtain ⟨pc, id, late, ops, bf, sk⟩ := f
    cases rest with
    | nil =>
      cases pc <;> (try (cases ops <;> try (rename_i op ops'; cases op))) <;>
      simp only [stepThread, finish, startOp] at hs <;> (repeat' (split at hs)) <;>
      (try (simp only [Option.some.injEq, Prod.mk.injEq, reduceCtorEq] at hs)) <;>
      (try (obtain ⟨rfl, rfl⟩ := hs)) <;> simp [okStack, Frame.active]
    | cons f2 rest2 =>
      simp only [okStack, Bool.and_eq_true] at h
      obtain ⟨ha, hr⟩ := h
      cases pc <;> (try (cases ops <;> try (rename_i op ops'; cases op))) <;>
      simp only [stepThread, finish, startOp] at hs <;> (repeat' (split at hs)) <;>
      (try (simp only [Option.some.injEq, Prod.mk.injEq, reduceCtorEq] at hs)) <;>
      (try (obtain ⟨rfl, rfl⟩ := hs)) <;> simp_all [okStack, Frame.active]

def StackOk (g : G) : Prop := ∀ st ∈ g.threads, okStack st = true

theorem stackOk_init (progs : List (List Op)) : StackOk (init progs) := by
  intro st hst
  simp only [init, List.mem_map] at hst
  obtain ⟨p, -, rfl⟩ := hst
  rfl

theorem stackOk_step (g : G) (u : Tid) (h : StackOk g) : StackOk (step g u) := by
  cases u with
  | t j =>
    rcases step_sh_t g j with e | ⟨stack, s', stack', hi, hs, e⟩
    · rw [e]; exact h
    · rw [e]
      intro st hst
      rcases List.mem_or_eq_of_mem_set hst with hm | rfl
      · exact h st hm
      · exact okStack_step hs (h stack (List.mem_of_getElem? hi))
  | _ => exact h

theorem stackOk_run (g : G) (sched : List Tid) (h : StackOk g) : StackOk (run g sched) := by
  induction sched generalizing g with
  | nil => exact h
  | cons t l ih => exact ih _ (stackOk_step g t h)

/-! ### Nobody has anything to do = `endState` -/

theorem countP_active_of_finished (st : List Frame) (hf : finished st = true) (hk : okStack st = true) :
    st.countP Frame.active = 0 := by
  cases st with
  | nil => rfl
  | cons f rest =>
    obtain ⟨pc, id, late, ops, bf, sk⟩ := f
    cases rest with
    | nil => cases pc <;> cases ops <;> simp_all [finished, Frame.active]
    | cons f2 r2 => cases pc <;> cases ops <;> simp_all [finished, okStack, Frame.active]

theorem sum_eq_zero_of_all {α : Type} (f : α → Nat) (l : List α) (h : ∀ a ∈ l, f a = 0) : (l.map f).sum = 0 := by
  induction l with
  | nil => rfl
  | cons a l ih =>
    simp only [List.map_cons, List.sum_cons, h a (List.mem_cons_self ..),
      ih (fun b hb => h b (List.mem_cons_of_mem _ hb))]

theorem terminal_endState {g : G} (R : Reach g) (K : StackOk g) (h : ∀ t, en g t = false) :
    endState g = true := by
  have hq : cnt Frame.active g = 0 := by
    unfold cnt
    apply sum_eq_zero_of_all
    intro st hst
    obtain ⟨i, hi⟩ := List.getElem?_of_mem hst
    have := h (.t i)
    simp only [en, hi, Bool.not_eq_false'] at this
    exact countP_active_of_finished st this (K st hst)
  have Q := R.q
  have h1 := h .recv
  have h2 := h .rxClose
  have h3 := h .rxFlush
  simp only [en] at h1 h2 h3
  simp only [endState, quiescent, hq, beq_self_eq_true, Bool.true_and, Bool.and_eq_true, Bool.or_eq_true,
    Bool.not_eq_true']
  cases ho : g.sh.rxOpen with
  | true =>
    have hst : g.sh.rxStopped = false := by cases hs : g.sh.rxStopped <;> simp_all
    simp_all
  | false =>
    have hst := Q.closed_stopped ho
    have htk : g.sh.taken.isSome = false := by
      cases ht : g.sh.taken.isSome with
      | false => rfl
      | true => have := Q.taken_live ht; simp_all
    simp_all

theorem length_run (g : G) (sched : List Tid) : (run g sched).threads.length = g.threads.length := by
  induction sched generalizing g with
  | nil => rfl
  | cons t l ih => simp only [run, List.foldl_cons] at ih ⊢; rw [ih, length_step]

/-- one round of a fair continuation of `g₀`: no stop / kill / failure from outside; every worker
that is not finished in `g₀` and each of the receiver's three actions (`recv`, `rxClose`, `rxFlush`) is
scheduled at least once — in any order, any number of times, together with any `setStatus` and any
steps of finished workers -/
def fairRound (g₀ : G) (r : List Tid) : Prop :=
  (∀ u ∈ r, u ≠ .rxStop) ∧ ∀ t, mustRun g₀ t → t ∈ r

/-- **Progress.** From ANY state `g`, every schedule made of at least `mu g` fair rounds ends in a
state where nobody has anything left to do. -/
theorem fair_rounds_terminal (g : G) (rounds : List (List Tid))
    (hfair : ∀ r ∈ rounds, fairRound g r) (hn : mu g ≤ rounds.length) :
    ∀ t, en (run g rounds.flatten) t = false :=
  fair_rounds step mu en notStop (fun g' => ∀ i, en g' (.t i) = true → en g (.t i) = true) (mustRun g)
    (fun g' u h i hi => h i (en_t_step_back g' u i hi)) mu_step_le mu_step_lt en_persist en_none_stable
    (fun g' t h he => by
      cases t with
      | t i => exact h i he
      | recv => trivial
      | rxClose => trivial
      | rxFlush => trivial
      | rxStop => simp [en] at he
      | setStatus st => simp [en] at he)
    rounds g (fun _ h => h) hfair (Or.inl hn)

theorem sbo_step (g : G) (u : Tid) (hu : u ≠ .rxStop) : (step g u).sh.stoppedByOther = g.sh.stoppedByOther := by
  cases u with
  | t j =>
    rcases step_sh_t g j with e | ⟨stack, s', stack', hi, hs, e⟩
    · rw [e]
    · rw [e]; exact (stepThread_effect hs).stoppedByOther
  | rxStop => exact absurd rfl hu
  | recv => simp only [step, stepRx]; (repeat' split) <;> rfl
  | rxClose => simp only [step, stepRx]; (repeat' split) <;> rfl
  | rxFlush => simp only [step, stepRx]; (repeat' split) <;> rfl
  | setStatus st => rfl

theorem sbo_run (g : G) (sched : List Tid) (hu : ∀ u ∈ sched, u ≠ .rxStop) :
    (run g sched).sh.stoppedByOther = g.sh.stoppedByOther := by
  induction sched generalizing g with
  | nil => rfl
  | cons t l ih =>
    simp only [run, List.foldl_cons] at ih ⊢
    rw [ih _ (fun u hu' => hu u (List.mem_cons_of_mem _ hu')), sbo_step g t (hu t (List.mem_cons_self ..))]

/-- **Progress, from the initial state's reachable set.** After any prefix `sched₁`, every
continuation of at least `mu` fair rounds ends in `endState`. -/
theorem fair_reaches_endState (progs : List (List Op)) (sched₁ : List Tid) (rounds : List (List Tid))
    (hfair : ∀ r ∈ rounds, fairRound (run (init progs) sched₁) r)
    (hn : mu (run (init progs) sched₁) ≤ rounds.length) :
    endState (run (init progs) (sched₁ ++ rounds.flatten)) = true := by
  have ht := fair_rounds_terminal (run (init progs) sched₁) rounds hfair hn
  have e : run (init progs) (sched₁ ++ rounds.flatten) = run (run (init progs) sched₁) rounds.flatten := by
    simp [run, List.foldl_append]
  have R := reach_run progs (sched₁ ++ rounds.flatten)
  have K := stackOk_run _ (sched₁ ++ rounds.flatten) (stackOk_init progs)
  rw [e] at R K ⊢
  exact terminal_endState R K ht

theorem run_append (g : G) (a b : List Tid) : run g (a ++ b) = run (run g a) b := by
  simp [run, List.foldl_append]

theorem sbo_fair (g g₀ : G) (rounds : List (List Tid)) (hfair : ∀ r ∈ rounds, fairRound g₀ r) :
    (run g rounds.flatten).sh.stoppedByOther = g.sh.stoppedByOther :=
  sbo_run _ _ (fun u hu => by
    obtain ⟨r, hr, hur⟩ := List.mem_flatten.mp hu
    exact (hfair r hr).1 u hur)

/-- number of steps of a schedule that do something (the scheduled thread / receiver action had
something to do) — failed CAS attempts included -/
def effSteps (g : G) : List Tid → Nat
  | [] => 0
  | u :: l => (if en g u = true then 1 else 0) + effSteps (step g u) l

theorem effSteps_le (g : G) (sched : List Tid) : effSteps g sched + mu (run g sched) ≤ mu g := by
  induction sched generalizing g with
  | nil => simp [effSteps, run]
  | cons u l ih =>
    have h := ih (step g u)
    simp only [effSteps, run, List.foldl_cons] at h ⊢
    split
    · rename_i he; have := mu_step_lt g u he; omega
    · have := mu_step_le g u; omega

/-! ### Count-fairness is enough for the workers -/

theorem en_t_run_back (g : G) (sched : List Tid) (i : Nat) (h : en (run g sched) (.t i) = true) :
    en g (.t i) = true := by
  induction sched generalizing g with
  | nil => exact h
  | cons u l ih => exact en_t_step_back g u i (ih (step g u) h)

/-- a worker that is still unfinished at the end did something every time it was scheduled -/
theorem count_le_effSteps (g : G) (sched : List Tid) (i : Nat) (h : en (run g sched) (.t i) = true) :
    sched.count (.t i) ≤ effSteps g sched := by
  induction sched generalizing g with
  | nil => simp [effSteps]
  | cons u l ih =>
    have hl := ih (step g u) h
    simp only [effSteps, List.count_cons]
    by_cases hu : u = .t i
    · subst hu
      have : en g (.t i) = true := en_t_run_back g (.t i :: l) i h
      simp only [this, ↓reduceIte, beq_self_eq_true]
      omega
    · have : (u == Tid.t i) = false := by simpa using hu
      simp only [this, Bool.false_eq_true, ↓reduceIte]
      omega

/-- **Workers finish under plain count-fairness**, whatever the receiver and the environment do
(stop / kill included): if every worker unfinished in `g` is scheduled at least `mu g` times in
`sched` — anywhere, in any order — every worker is finished after `sched`. -/
theorem workers_done (g : G) (sched : List Tid)
    (h : ∀ i, en g (.t i) = true → mu g ≤ sched.count (.t i)) :
    ∀ i, en (run g sched) (.t i) = false := by
  intro i
  cases he : en (run g sched) (.t i) with
  | false => rfl
  | true =>
    have h1 := count_le_effSteps g sched i he
    have h2 := effSteps_le g sched
    have h3 := h i (en_t_run_back g sched i he)
    have h4 := mu_step_lt (run g sched) (.t i) he
    omega

theorem quiescent_of_workers_done {g : G} (K : StackOk g) (h : ∀ i, en g (.t i) = false) :
    quiescent g = true := by
  have hq : cnt Frame.active g = 0 := by
    unfold cnt
    apply sum_eq_zero_of_all
    intro st hst
    obtain ⟨i, hi⟩ := List.getElem?_of_mem hst
    have := h i
    simp only [en, hi, Bool.not_eq_false'] at this
    exact countP_active_of_finished st this (K st hst)
  simp [quiescent, hq]

/-! ### The measure at the start, in closed form -/

theorem totalW_init (progs : List (List Op)) : totalW (init progs) = (progs.map opsW).sum := by
  unfold totalW init
  induction progs with
  | nil => rfl
  | cons p l ih =>
    simp only [List.map_cons, List.sum_cons] at ih ⊢
    rw [ih]; simp [stackW, Frame.w, pcW]

theorem stale_init (progs : List (List Op)) : stale (init progs) = 0 := by
  unfold stale init
  apply sum_eq_zero_of_all
  intro st hst
  simp only [List.mem_map] at hst
  obtain ⟨p, -, rfl⟩ := hst
  rfl

/-- the bound at the start, in closed form: 15 per send, 8 per drain, 2 per wrong-type send, plus 2 -/
theorem mu_init (progs : List (List Op)) :
    mu (init progs) = (progs.length + 1) * ((progs.map opsW).sum + 2) := by
  simp only [mu, phi, totalW_init, stale_init, Nat.add_zero]
  simp [init, rho]

/-! ### A CAS fails only because somebody else made progress -/

/-- a frame below the top of a stack is a program frame or a send inside `box_message` -/
def Frame.parent (f : Frame) : Bool :=
  match f.pc with
  | .run | .boxing => true
  | _ => false

def tailOk : List Frame → Bool
  | [] => true
  | _ :: rest => rest.all Frame.parent

theorem tailOk_step {s s' : Shared} {stack stack' : List Frame}
    (hs : stepThread s stack = some (s', stack')) (h : tailOk stack = true) : tailOk stack' = true := by
  cases stack with
  | nil => simp [stepThread] at hs
  | cons f rest =>
    obtain ⟨pc, id, late, ops, bf, sk⟩ := f
    have hr : tailOk rest = true := by
      cases rest with
      | nil => rfl
      | cons f2 r2 => simp only [tailOk, List.all_cons, Bool.and_eq_true] at h ⊢; exact h.2
    cases pc <;> (try (cases ops <;> try (rename_i op ops'; cases op))) <;>
    simp only [stepThread, finish, startOp] at hs <;> (repeat' (split at hs)) <;>
    (try (simp only [Option.some.injEq, Prod.mk.injEq, reduceCtorEq] at hs)) <;>
    (try (obtain ⟨rfl, rfl⟩ := hs)) <;>
    first
    | exact hr
    | exact h
    | (simp only [tailOk, List.all_cons, Frame.parent, Bool.true_and] at h ⊢; exact h)

/-- after its own step a thread is never parked at a CAS that is bound to fail: the word it
remembers is the current word -/
theorem own_step_fresh {s s' : Shared} {stack stack' : List Frame}
    (hs : stepThread s stack = some (s', stack')) (K : tailOk stack = true) : staleTop s'.word stack' = 0 := by
  cases stack with
  | nil => simp [stepThread] at hs
  | cons f rest =>
    obtain ⟨pc, id, late, ops, bf, sk⟩ := f
    have hrest : ∀ w, staleTop w rest = 0 := by
      intro w
      cases rest with
      | nil => rfl
      | cons f2 r2 =>
        simp only [tailOk, List.all_cons, Bool.and_eq_true, Frame.parent] at K
        simp only [staleTop]
        split <;> simp_all
    cases pc <;> (try (cases ops <;> try (rename_i op ops'; cases op))) <;>
    simp only [stepThread, finish, startOp] at hs <;> (repeat' (split at hs)) <;>
    (try (simp only [Option.some.injEq, Prod.mk.injEq, reduceCtorEq] at hs)) <;>
    (try (obtain ⟨rfl, rfl⟩ := hs)) <;>
    first
    | exact hrest _
    | simp [staleTop]

/-- **Only progress changes the word.** If a step changes the admission word it is a step of a
worker thread and it strictly decreases the progress measure `phi`. Together with `own_step_fresh`
and `thread_rank` (a CAS fails only when the remembered word differs from the current one): a CAS
of thread `j` fails only if, since `j`'s previous step, another thread made progress. -/
theorem word_change_is_progress (g : G) (u : Tid) (h : (step g u).sh.word ≠ g.sh.word) :
    ∃ i, u = .t i ∧ phi (step g u) < phi g := by
  cases u with
  | t j =>
    refine ⟨j, rfl, ?_⟩
    rcases step_sh_t g j with e | ⟨stack, s', stack', hi, hs, e⟩
    · rw [e] at h; exact absurd rfl h
    · rw [e] at h ⊢
      have hW := sum_map_set stackW g.threads j stack' stack hi
      rcases thread_rank hs with hr | ⟨rfl, -⟩
      · simp only [phi, totalW]; omega
      · exact absurd rfl h
  | recv => exact absurd (stepRx_word g.sh .recv) h
  | rxStop => exact absurd (stepRx_word g.sh .rxStop) h
  | rxClose => exact absurd (stepRx_word g.sh .rxClose) h
  | rxFlush => exact absurd (stepRx_word g.sh .rxFlush) h
  | setStatus st => exact absurd (stepRx_word g.sh (.setStatus st)) h

def TailOk (g : G) : Prop := ∀ st ∈ g.threads, tailOk st = true

theorem tailOk_init (progs : List (List Op)) : TailOk (init progs) := by
  intro st hst
  simp only [init, List.mem_map] at hst
  obtain ⟨p, -, rfl⟩ := hst
  rfl

theorem tailOk_gstep (g : G) (u : Tid) (h : TailOk g) : TailOk (step g u) := by
  cases u with
  | t j =>
    rcases step_sh_t g j with e | ⟨stack, s', stack', hi, hs, e⟩
    · rw [e]; exact h
    · rw [e]
      intro st hst
      rcases List.mem_or_eq_of_mem_set hst with hm | rfl
      · exact h st hm
      · exact tailOk_step hs (h stack (List.mem_of_getElem? hi))
  | _ => exact h

theorem tailOk_run (g : G) (sched : List Tid) (h : TailOk g) : TailOk (run g sched) := by
  induction sched generalizing g with
  | nil => exact h
  | cons t l ih => exact ih _ (tailOk_gstep g t h)

end Admission
