//! C10 harness, cluster build: the same engine as hcore's `registry` binary, compiled against
//! ractor with the `cluster` feature (pid registry, remote proxies).
#[path = "../../../hcore/src/bin/registry.rs"]
#[allow(dead_code)]
mod core;

fn main() {
    core::main_with(true)
}
