import RactorModel.Model.Mux
import RactorModel.Lemmas.Remote

namespace Mux
open Remote

/-- every entry of the table holds the actor named by its key -/
def Routes.Sound (r : Routes) : Prop := ∀ e ∈ r, e.2 = e.1

theorem sound_ensure (r : Routes) (pid : Nat) (h : r.Sound) : (r.ensure pid).Sound := by
  unfold Routes.ensure
  split
  · exact h
  · intro e he
    rcases List.mem_append.mp he with he | he
    · exact h e he
    · simp at he; subst he; rfl

theorem sound_remove (r : Routes) (pid : Nat) (h : r.Sound) : (r.remove pid).Sound := by
  intro e he
  exact h e (List.mem_filter.mp he).1

theorem lookup_sound (r : Routes) (to a : Nat) (h : r.Sound) (hl : r.lookup to = some a) : a = to := by
  unfold Routes.lookup at hl
  cases hf : r.find? (·.1 == to) with
  | none => simp [hf] at hl
  | some e =>
    simp only [hf, Option.map_some, Option.some.injEq] at hl
    have hm := List.mem_of_find?_eq_some hf
    have hk : e.1 = to := by simpa using List.find?_some hf
    rw [← hl, h e hm, hk]

structure WInv {α : Type} (w : Wire α) : Prop where
  sound : w.routes.Sound
  fifo : (w.out.map fun e => (e.1, e.2.1)) ++ w.stages.contents = w.pushed
  handed : ∀ e ∈ w.out, ∀ a, e.2.2 = some a → a = e.1

theorem winv_init {α : Type} : WInv ({} : Wire α) :=
  ⟨by intro e he; simp at he, by simp [Pipe.contents], by intro e he; simp at he⟩

theorem winv_step {α : Type} (w : Wire α) (op : WOp α) (h : WInv w) : WInv (w.step op) := by
  obtain ⟨h1, h2, h3⟩ := h
  cases op with
  | send to x =>
    refine ⟨h1, ?_, h3⟩
    simp only [Wire.step, Pipe.contents_push]
    rw [← List.append_assoc, h2]
  | move i =>
    have hm := Pipe.move_spec i w.stages
    simp only [Wire.step]
    cases ho : (w.stages.move i).2 with
    | none =>
      rw [ho] at hm
      have : w.stages.move i = ((w.stages.move i).1, none) := by rw [← ho]
      rw [this]
      exact ⟨h1, by simp only; rw [hm]; exact h2, h3⟩
    | some e =>
      rw [ho] at hm
      have : w.stages.move i = ((w.stages.move i).1, some e) := by rw [← ho]
      rw [this]
      obtain ⟨to, x⟩ := e
      refine ⟨h1, ?_, ?_⟩
      · simp only [List.map_append, List.map_cons, List.map_nil, List.append_assoc, List.cons_append,
          List.nil_append]
        rw [← hm]; exact h2
      · intro e he a ha
        rcases List.mem_append.mp he with he | he
        · exact h3 e he a ha
        · simp only [List.mem_singleton] at he
          subst he
          exact lookup_sound _ _ _ h1 ha
  | ensure pid => exact ⟨sound_ensure _ _ h1, h2, h3⟩
  | remove pid => exact ⟨sound_remove _ _ h1, h2, h3⟩

theorem winv_run {α : Type} (ops : List (WOp α)) (w : Wire α) (h : WInv w) : WInv (w.run ops) := by
  induction ops generalizing w with
  | nil => exact h
  | cons op ops ih => exact ih _ (winv_step w op h)

theorem proj_append {α : Type} (p : Nat) (a b : List (Nat × α)) : proj p (a ++ b) = proj p a ++ proj p b := by
  simp [proj]

end Mux
