import RactorModel.Lemmas.FactoryNoPanic

/-! `start` events (a worker began handling a job) are written only when a worker task runs (`Env.settleOne`): no
function of the factory itself adds one.  Same frame scheme as `FactoryHooks.lean`. -/

namespace Factory

def startsOf (log : List Ev) : List (Nat × Nat) := log.filterMap fun | .start _ id key => some (id, key) | _ => none

def isStart : Ev → Bool
  | .start .. => true
  | _ => false

theorem startsOf_append (a b : List Ev) : startsOf (a ++ b) = startsOf a ++ startsOf b := by
  simp [startsOf, List.filterMap_append]

theorem startsOf_single (ev : Ev) (h : isStart ev = false) : startsOf [ev] = [] := by
  cases ev <;> simp_all [startsOf, isStart]

/-- the environment's log gained no hook event -/
def SameE (e e' : Env) : Prop := startsOf e'.log = startsOf e.log

theorem SameE.refl (e : Env) : SameE e e := rfl
theorem SameE.trans {a b c : Env} (h1 : SameE a b) (h2 : SameE b c) : SameE a c := Eq.trans h2 h1

theorem sameE_emit (e : Env) (ev : Ev) (h : isStart ev = false) : SameE e (e.emit ev) := by
  simp [SameE, Env.emit, startsOf_append, startsOf_single ev h]

theorem sameE_discard (e : Env) {h : Option Nat} (r : Reason) (j : Job) : SameE e (e.discard h r j) := sameE_emit e _ rfl
theorem sameE_reject (e : Env) (j : Job) : SameE e (e.reject j) := by
  unfold Env.reject; split
  · exact sameE_emit e _ rfl
  · exact SameE.refl e
theorem sameE_accept (e : Env) (j : Job) : SameE e (e.accept j) := by
  unfold Env.accept; split
  · exact sameE_emit e _ rfl
  · exact SameE.refl e

theorem sameE_setActor (e : Env) (a : Actor) : SameE e (e.setActor a) := rfl

theorem sameE_cast (e e' : Env) (aid : Nat) (j : Job) (h : e.cast aid j = some e') : SameE e e' := by
  unfold Env.cast at h
  cases ha : e.getActor aid with
  | none => simp [ha] at h
  | some a =>
    simp only [ha] at h
    split at h
    · simp at h
    · simp only [Option.some.injEq] at h; subst h; rfl

theorem startsOf_lost (aid : Nat) (l : List Job) : startsOf (l.map fun j => Ev.lost aid j.id) = [] := by
  induction l with
  | nil => rfl
  | cons j l ih => simpa [startsOf] using ih

theorem sameE_die (e : Env) (aid : Nat) : SameE e (e.die aid) := by
  unfold Env.die
  cases ha : e.getActor aid with
  | none => rfl
  | some a =>
    simp only
    split
    · rfl
    · simp [SameE, startsOf_append, startsOf_lost, Env.setActor]

theorem sameE_killAll (e : Env) : SameE e e.killAll := by
  unfold Env.killAll
  generalize e.actors.map (·.aid) = ids
  induction ids generalizing e with
  | nil => rfl
  | cons a as ih => rw [List.foldl_cons]; exact (sameE_die e a).trans (ih _)

theorem sameE_stop (e : Env) (aid : Nat) : SameE e (e.stop aid) := by
  unfold Env.stop
  cases ha : e.getActor aid with
  | none => rfl
  | some a => simp only; split <;> rfl

theorem sameE_spawn (e : Env) (wid aid : Nat) : SameE e (e.spawn wid aid) := by
  simp [SameE, Env.spawn, startsOf_append, startsOf]

theorem sameE_getNextNonExpired {h : Option Nat} (mq : List Job) (pend : List Nat) (e : Env) :
    SameE e (getNextNonExpired h mq pend e).2.2.2 := by
  induction mq generalizing pend e with
  | nil => rfl
  | cons j rest ih =>
    unfold getNextNonExpired
    split
    · rfl
    · exact (sameE_discard e _ j).trans (ih _ _)

theorem sameE_getNext (p : WP) (e : Env) : SameE e (p.getNext e).2.2 :=
  sameE_getNextNonExpired p.mq p.pending e

theorem sameE_dispatchJob (p : WP) (e : Env) (j : Job) : SameE e (p.dispatchJob e j).2 := by
  unfold WP.dispatchJob
  cases hc : e.cast p.actor j with
  | none => rfl
  | some e' => exact sameE_cast e e' _ j hc

theorem sameE_shedOldest (limit fuel : Nat) (p : WP) (e : Env) : SameE e (shedOldest limit fuel p e).2 := by
  induction fuel generalizing p e with
  | zero => rfl
  | succ fuel ih =>
    unfold shedOldest
    split
    · have hg := sameE_getNext p e
      cases hn : p.getNext e with
      | mk r pe =>
        obtain ⟨p', e'⟩ := pe
        rw [hn] at hg
        cases r with
        | none => simp only; exact hg.trans (ih _ _)
        | some d => simp only; exact (hg.trans (sameE_discard _ _ _)).trans (ih _ _)
    · rfl

theorem sameE_enqueueAccepted (p : WP) (e : Env) (j : Job) : SameE e (p.enqueueAccepted e j).2 := by
  unfold WP.enqueueAccepted
  split
  · have hg := sameE_getNext p e
    cases hn : p.getNext e with
    | mk r pe =>
      obtain ⟨p', e'⟩ := pe
      rw [hn] at hg
      cases r with
      | none => simp only; exact hg.trans (sameE_dispatchJob _ _ _)
      | some d => simp only; exact hg.trans (sameE_dispatchJob _ _ _)
  · simp only
    split
    · exact sameE_shedOldest _ _ _ _
    · rfl

theorem sameE_enqueueJob (p : WP) (e : Env) (j : Job) : SameE e (p.enqueueJob e j).2 := by
  unfold WP.enqueueJob
  split
  · exact (sameE_discard e _ j).trans (sameE_reject _ j)
  · exact (sameE_accept e j).trans (sameE_enqueueAccepted _ _ _)

theorem sameE_workerComplete (p : WP) (e : Env) (key : Nat) : SameE e (p.workerComplete e key).2 := by
  unfold WP.workerComplete
  split
  · generalize ({ p with curr := p.curr.filter (fun x => x.1 != key), pending := p.pending.erase key } : WP) = p0
    have hg := sameE_getNext p0 e
    cases hn : p0.getNext e with
    | mk r pe =>
      obtain ⟨p', e'⟩ := pe
      rw [hn] at hg
      cases r with
      | none => simp only [hn]; exact hg
      | some d => simp only [hn]; exact hg.trans (sameE_dispatchJob _ _ _)
  · rfl

theorem sameE_replaceWorker (p : WP) (e : Env) (naid : Nat) : SameE e (p.replaceWorker e naid).2 := by
  unfold WP.replaceWorker
  simp only
  generalize ({ p with curr := [], pending := p.curr.foldl (fun acc x => acc.erase x.1) p.pending, actor := naid } : WP) = p0
  have hg := sameE_getNext p0 e
  cases hn : p0.getNext e with
  | mk r pe =>
    obtain ⟨p', e'⟩ := pe
    rw [hn] at hg
    cases r with
    | none => simp only [hn]; exact hg
    | some d => simp only [hn]; exact hg.trans (sameE_dispatchJob _ _ _)

/-! ### the factory -/

/-- no hook ran, and the stop state did not go back -/
structure SameS (w w' : W) : Prop where
  starts : startsOf w'.env.log = startsOf w.env.log
  exited : w'.exited = w.exited
  stopped : w.stopped = true → w'.stopped = true

theorem SameS.refl (w : W) : SameS w w := ⟨rfl, rfl, fun h => h⟩
theorem SameS.trans {a b c : W} (h1 : SameS a b) (h2 : SameS b c) : SameS a c :=
  ⟨h2.starts.trans h1.starts, h2.exited.trans h1.exited, fun h => h2.stopped (h1.stopped h)⟩

theorem SameS.of_env {w w' : W} (he : SameE w.env w'.env) (hx : w'.exited = w.exited) (hs : w'.stopped = w.stopped) :
    SameS w w' := ⟨he, hx, fun h => by rw [hs]; exact h⟩

theorem SameS.of_routerFrame {w w' : W} (f : RouterFrame w w') (hx : w'.exited = w.exited) : SameS w w' :=
  ⟨by rw [f.env], hx, fun h => by rw [f.stopped]; exact h⟩

theorem sames_availChange (w : W) (wid : Nat) (b : Bool) : SameS w (w.availChange wid b) :=
  SameS.of_routerFrame (availChange_frame w wid b) (availChange_exited w wid b)

theorem sames_choose (w : W) (j : Job) (hint : Option Nat) : SameS w (w.chooseTargetWorker j hint).2 :=
  SameS.of_routerFrame (chooseTargetWorker_frame w j hint) (chooseTargetWorker_exited w j hint)

theorem sames_routeInner (w : W) (j : Job) (hint : Option Nat) : SameS w (w.routeInner j hint).2 := by
  unfold W.routeInner
  have hs := sames_choose w j hint
  cases hc : w.chooseTargetWorker j hint with
  | mk t w1 =>
    rw [hc] at hs
    simp only at hs ⊢
    cases t with
    | none => exact hs
    | some wid =>
      simp only
      cases hg : getW w1.pool wid with
      | none => exact hs
      | some p => exact hs.trans (SameS.of_env (sameE_enqueueJob p w1.env j) rfl rfl)

theorem sames_routeLimited (w : W) (j : Job) (hint : Option Nat) : SameS w (w.routeLimited j hint).2 := by
  unfold W.routeLimited
  split
  · exact sames_routeInner w j hint
  · rename_i c lb _
    simp only
    have h0 : SameS w { w with rl := some (c, (LeakyBucket.check c lb w.env.now).1) } := ⟨rfl, rfl, fun h => h⟩
    split
    · split
      · split
        · rename_i hh _
          exact h0.trans (sames_availChange _ hh true)
        · exact h0
      · exact h0
    · have hi := sames_routeInner { w with rl := some (c, (LeakyBucket.check c lb w.env.now).1) } j hint
      cases hr : W.routeInner { w with rl := some (c, (LeakyBucket.check c lb w.env.now).1) } j hint with
      | mk r w2 =>
        rw [hr] at hi
        simp only at hi ⊢
        split
        · exact h0.trans (hi.trans ⟨rfl, rfl, fun h => h⟩)
        · exact h0.trans hi

theorem sames_routeMessage (w : W) (j : Job) (hint : Option Nat) : SameS w (w.routeMessage j hint).2 := by
  unfold W.routeMessage
  have hi := sames_routeLimited w j hint
  cases hr : w.routeLimited j hint with
  | mk r w2 => rw [hr] at hi; exact hi.trans ⟨rfl, rfl, fun h => h⟩

theorem sames_dropExpiredHead (fuel : Nat) (w : W) : SameS w (W.dropExpiredHead fuel w) := by
  induction fuel generalizing w with
  | zero => exact SameS.refl w
  | succ fuel ih =>
    unfold W.dropExpiredHead
    split
    · split
      · split
        · rename_i j' q _
          refine SameS.trans ?_ (ih _)
          exact SameS.of_env ((sameE_discard w.env _ j').trans (sameE_reject _ j')) rfl rfl
        · exact SameS.refl w
      · exact SameS.refl w
    · exact SameS.refl w

theorem sames_routeLoop (hint : Option Nat) (fuel : Nat) (w : W) : SameS w (W.routeLoop hint fuel w) := by
  induction fuel generalizing w with
  | zero => exact SameS.refl w
  | succ fuel ih =>
    unfold W.routeLoop
    split
    · exact SameS.refl w
    · rename_i j hpk
      have hs := sames_choose w j hint
      cases hc : w.chooseTargetWorker j hint with
      | mk t w1 =>
        rw [hc] at hs
        simp only at hs ⊢
        cases t with
        | none => exact hs
        | some worker =>
          simp only
          cases hp : qPopFront w1.cfg w1.queue with
          | none => exact hs
          | some jq =>
            obtain ⟨j', q⟩ := jq
            simp only
            have h1 : SameS w { w1 with queue := q } := hs.trans ⟨rfl, rfl, fun h => h⟩
            have hr := sames_routeMessage { w1 with queue := q } j' (some worker)
            cases hrm : W.routeMessage { w1 with queue := q } j' (some worker) with
            | mk r w2 =>
              rw [hrm] at hr
              cases r with
              | handled => exact h1.trans hr
              | rateLimited =>
                simp only
                refine (h1.trans hr).trans (SameS.trans ?_ (ih _))
                exact SameS.of_env ((sameE_discard w2.env _ j').trans (sameE_reject _ j')) rfl rfl
              | backlog =>
                -- unreachable: the router was asked a moment ago and named `worker`
                exfalso
                have hfr := chooseTargetWorker_frame w j hint
                rw [hc] at hfr
                simp only at hfr
                have hpk' : qPeek w.cfg w.queue = some j' := by
                  rw [← hfr.cfg, ← hfr.queue]; exact popByPrio_peek hp
                rw [hpk] at hpk'
                simp only [Option.some.injEq] at hpk'
                subst hpk'
                have := routeMessage_after_choice w j hint worker w1 hc q
                rw [hrm] at this
                exact this rfl

theorem sames_tryRoute (w : W) (hint : Option Nat) : SameS w (w.tryRouteNextActiveJob hint) := by
  unfold W.tryRouteNextActiveJob
  exact (sames_dropExpiredHead _ w).trans (sames_routeLoop _ _ _)

theorem sames_shedQueueOldest (limit fuel : Nat) (w : W) : SameS w (W.shedQueueOldest limit fuel w) := by
  induction fuel generalizing w with
  | zero => exact SameS.refl w
  | succ fuel ih =>
    unfold W.shedQueueOldest
    split
    · split
      · rename_i j q _
        refine SameS.trans ?_ (ih _)
        exact SameS.of_env (sameE_discard w.env _ j) rfl rfl
      · exact ih w
    · exact SameS.refl w

theorem sames_maybeEnqueue (w : W) (j : Job) : SameS w (w.maybeEnqueue j) := by
  unfold W.maybeEnqueue
  split
  · split
    · exact SameS.of_env ((sameE_discard w.env _ j).trans (sameE_reject _ j)) rfl rfl
    · exact SameS.of_env (sameE_accept w.env j) rfl rfl
  · dsimp only
    refine SameS.trans ?_ (sames_shedQueueOldest _ _ _)
    exact SameS.of_env (sameE_accept w.env j) rfl rfl
  · exact SameS.of_env (sameE_accept w.env j) rfl rfl

theorem sames_growOne (w : W) (wid : Nat) : SameS w (w.growOne wid) := by
  unfold W.growOne
  split
  · dsimp only
    split
    · apply SameS.trans _ (sames_availChange _ _ _)
      exact ⟨rfl, rfl, fun h => h⟩
    · exact ⟨rfl, rfl, fun h => h⟩
  · dsimp only
    apply SameS.trans _ (sames_availChange _ _ _)
    exact SameS.of_env (sameE_spawn w.env _ _) rfl rfl

theorem sames_foldl {f : W → Nat → W} (hf : ∀ w k, SameS w (f w k)) (l : List Nat) (w : W) : SameS w (l.foldl f w) := by
  induction l generalizing w with
  | nil => exact SameS.refl w
  | cons a l ih => exact (hf w a).trans (ih _)

theorem sames_growPool (w : W) (n : Nat) : SameS w (w.growPool n) := by
  unfold W.growPool; exact sames_foldl (fun w k => sames_growOne w _) _ w

theorem sames_shrinkOne (w : W) (wid : Nat) : SameS w (w.shrinkOne wid) := by
  unfold W.shrinkOne
  split
  · rename_i p _
    split
    · exact ⟨rfl, rfl, fun h => h⟩
    · refine (sames_availChange w wid false).trans ?_
      exact SameS.of_env (sameE_stop _ p.actor) rfl rfl
  · exact SameS.refl w

theorem sames_shrinkPool (w : W) (n : Nat) : SameS w (w.shrinkPool n) := by
  unfold W.shrinkPool; exact sames_foldl (fun w k => sames_shrinkOne w _) _ w

theorem sames_flushAfterGrow (fuel : Nat) (w : W) : SameS w (W.flushAfterGrow fuel w) := by
  induction fuel generalizing w with
  | zero => exact SameS.refl w
  | succ fuel ih =>
    unfold W.flushAfterGrow
    simp only
    split
    · exact SameS.refl w
    · split
      · exact sames_tryRoute w none
      · exact (sames_tryRoute w none).trans (ih _)

theorem sames_resizePool (w : W) (n : Nat) : SameS w (w.resizePool n) := by
  unfold W.resizePool
  split
  · exact SameS.refl w
  · simp only
    split
    · apply SameS.trans _ (sames_flushAfterGrow _ _)
      exact (sames_growPool w _).trans ⟨rfl, rfl, fun h => h⟩
    · split
      · exact (sames_shrinkPool w _).trans ⟨rfl, rfl, fun h => h⟩
      · exact ⟨rfl, rfl, fun h => h⟩

theorem sames_dispatch (w : W) (j : Job) : SameS w (w.dispatch j) := by
  unfold W.dispatch
  split
  · exact SameS.of_env ((sameE_discard w.env _ j).trans (sameE_reject _ j)) rfl rfl
  · split
    · have hr := sames_routeMessage w j none
      cases hrm : w.routeMessage j none with
      | mk r w2 =>
        rw [hrm] at hr
        cases r with
        | handled => exact hr
        | rateLimited =>
          exact hr.trans (SameS.of_env ((sameE_discard w2.env _ j).trans (sameE_reject _ j)) rfl rfl)
        | backlog => exact hr.trans (sames_maybeEnqueue w2 j)
    · exact SameS.of_env ((sameE_discard w.env _ j).trans (sameE_reject _ j)) rfl rfl

theorem sames_ite (c : Prop) [Decidable c] (w a b : W) (ha : SameS w a) (hb : SameS w b) : SameS w (if c then a else b) := by
  split <;> assumption

theorem sames_workerFinishedJob (w : W) (who key : Nat) : SameS w (w.workerFinishedJob who key) := by
  unfold W.workerFinishedJob
  split
  · rename_i p _
    have hq := sameE_workerComplete p w.env key
    cases hwc : p.workerComplete w.env key with
    | mk p' e' =>
      rw [hwc] at hq
      simp only at hq ⊢
      have h1 : SameS w { w with pool := setW w.pool who p', env := e' } := SameS.of_env hq rfl rfl
      split
      · split
        · exact h1.trans (SameS.of_env (sameE_stop e' p'.actor) rfl rfl)
        · exact h1
      · apply sames_ite
        · exact (h1.trans (sames_tryRoute _ _)).trans (sames_availChange _ _ _)
        · exact h1.trans (sames_tryRoute _ _)
  · exact sames_tryRoute w _

theorem sameE_foldl_discard (h : Option Nat) (r : Reason) (l : List Job) (e : Env) : SameE e (l.foldl (fun e j => e.discard h r j) e) := by
  induction l generalizing e with
  | nil => rfl
  | cons j l ih => rw [List.foldl_cons]; exact (sameE_discard e r j).trans (ih _)

theorem sames_removeExpired (w : W) : SameS w w.removeExpired := by
  unfold W.removeExpired
  split
  · exact SameS.of_env (sameE_foldl_discard _ _ _ _) rfl rfl
  · exact SameS.refl w

theorem sames_calcRest (w : W) : SameS w w.calcRest := by
  unfold W.calcRest
  exact (sames_removeExpired w).trans ⟨rfl, rfl, fun h => h⟩

theorem sames_updateSettings (w : W) (d : Option (Option (Nat × Mode))) (n : Option Nat) : SameS w (w.updateSettings d n) := by
  unfold W.updateSettings
  have h1 : SameS w (match d with
      | some d => { w with pool := w.pool.map (fun p => { p with disc := w.workerDiscard d }), disc := d }
      | none => w) := by
    cases d with
    | none => exact SameS.refl w
    | some d => exact ⟨rfl, rfl, fun h => h⟩
  cases n with
  | none => exact h1
  | some n => exact h1.trans (sames_resizePool _ n)

theorem sames_afterReplace (w : W) (wid : Nat) : SameS w (w.afterReplace wid) := by
  unfold W.afterReplace
  cases hret : w.retireIdleDrainingWorker wid with
  | some w2 =>
    simp only
    unfold W.retireIdleDrainingWorker at hret
    split at hret
    · rename_i p _
      split at hret
      · simp only [Option.some.injEq] at hret; subst hret
        exact SameS.of_env (sameE_stop w.env p.actor) rfl rfl
      · simp at hret
    · simp at hret
  | none =>
    simp only
    apply sames_ite
    · exact (sames_tryRoute _ _).trans (sames_availChange _ _ _)
    · exact sames_tryRoute _ _

theorem sames_handleSupervisorEvt (w : W) (who : Nat) : SameS w (w.handleSupervisorEvt who) := by
  unfold W.handleSupervisorEvt
  split
  · exact SameS.refl w
  · rename_i wid _
    split
    · exact SameS.refl w
    · rename_i p _
      simp only
      have hq := sameE_replaceWorker p (w.env.spawn wid w.nextAid) w.nextAid
      cases hrw : p.replaceWorker (w.env.spawn wid w.nextAid) w.nextAid with
      | mk p' e' =>
        rw [hrw] at hq
        simp only at hq ⊢
        refine SameS.trans ?_ (sames_afterReplace _ wid)
        exact SameS.of_env ((sameE_spawn w.env wid w.nextAid).trans hq) rfl rfl

theorem sameE_foldl (f : Env → Job → Env) (hf : ∀ e j, SameE e (f e j)) (l : List Job) (e : Env) : SameE e (l.foldl f e) := by
  induction l generalizing e with
  | nil => rfl
  | cons j l ih => rw [List.foldl_cons]; exact (hf e j).trans (ih _)

theorem sameE_dropQueued (h : Option Nat) (e : Env) (j : Job) : SameE e (Env.dropQueued h e j) := by
  unfold Env.dropQueued; split
  · exact sameE_discard e _ j
  · exact sameE_emit e _ rfl

theorem sameE_dropWorkerQueue (e : Env) (p : WP) : SameE e (e.dropWorkerQueue p) := by
  unfold Env.dropWorkerQueue
  exact sameE_foldl _ (fun e j => sameE_emit e _ rfl) _ e

theorem sameE_foldlW (f : Env → WP → Env) (hf : ∀ e p, SameE e (f e p)) (l : List WP) (e : Env) : SameE e (l.foldl f e) := by
  induction l generalizing e with
  | nil => rfl
  | cons p l ih => rw [List.foldl_cons]; exact (hf e p).trans (ih _)

/-- `post_stop` up to the wait: no hook yet, and the factory is now stopping -/
theorem postStop_starts (w : W) :
    startsOf w.postStop.env.log = startsOf w.env.log ∧ w.postStop.exited = w.exited ∧ w.postStop.stopped = true := by
  unfold W.postStop
  simp only
  refine ⟨?_, trivial, trivial⟩
  have h1 := sameE_foldl (Env.dropQueued w.handler) (sameE_dropQueued w.handler) w.queue w.env
  have h2 := sameE_foldlW Env.dropWorkerQueue sameE_dropWorkerQueue w.pool (w.queue.foldl (Env.dropQueued w.handler) w.env)
  have h3 := sameE_foldlW (fun e p => e.stop p.actor) (fun e p => sameE_stop e p.actor) w.pool
    (w.pool.foldl Env.dropWorkerQueue (w.queue.foldl (Env.dropQueued w.handler) w.env))
  exact (h1.trans (h2.trans h3))

theorem sameE_dropMsg (e : Env) (m : FMsg) : SameE e (e.dropMsg m) := by
  cases m with
  | dispatch j =>
    show SameE e (if j.port then (e.emit (.dropped j.id)).emit (.portClosed j.id) else e.emit (.dropped j.id))
    split
    · exact (sameE_emit e _ rfl).trans (sameE_emit _ _ rfl)
    · exact sameE_emit e _ rfl
  | _ => exact SameE.refl e

theorem sameE_foldlM (l : List FMsg) (e : Env) : SameE e (l.foldl Env.dropMsg e) := by
  induction l generalizing e with
  | nil => rfl
  | cons m l ih => rw [List.foldl_cons]; exact (sameE_dropMsg e m).trans (ih _)

theorem isDrained_sames (w : W) : SameS w w.isDrained.2 := by
  unfold W.isDrained
  split
  · exact SameS.refl w
  · exact SameS.refl w
  · split
    · exact ⟨rfl, rfl, fun h => h⟩
    · exact SameS.refl w


theorem sames_afterHandle (w : W) : SameS w w.afterHandle := by
  unfold W.afterHandle
  split
  · exact SameS.refl w
  · have hs := isDrained_sames w
    cases hd : w.isDrained with
    | mk d w2 =>
      rw [hd] at hs
      simp only at hs ⊢
      split
      · exact hs.trans ⟨rfl, rfl, fun h => h⟩
      · exact hs


theorem sames_send (w : W) (m : FMsg) : SameS w (w.send m) := by
  unfold W.send; split
  · exact SameS.refl w
  · exact ⟨rfl, rfl, fun h => h⟩


theorem sames_emit (w : W) (ev : Ev) (h : isStart ev = false) : SameS w (w.emit ev) :=
  SameS.of_env (sameE_emit w.env ev h) rfl rfl


end Factory
