import RactorModel.Lemmas.FactoryQueuer

/-! Lifecycle hooks (C15): over every history the hooks run in the order
started, draining (only while the factory is not stopping), stopped (once, last). -/

namespace Factory

def hooksOf (log : List Ev) : List Hook := log.filterMap fun | .hook h => some h | _ => none

def isHook : Ev → Bool
  | .hook _ => true
  | _ => false

theorem hooksOf_append (a b : List Ev) : hooksOf (a ++ b) = hooksOf a ++ hooksOf b := by
  simp [hooksOf, List.filterMap_append]

theorem hooksOf_single (ev : Ev) (h : isHook ev = false) : hooksOf [ev] = [] := by
  cases ev <;> simp_all [hooksOf, isHook]

/-- the environment's log gained no hook event -/
def QuietE (e e' : Env) : Prop := hooksOf e'.log = hooksOf e.log

theorem QuietE.refl (e : Env) : QuietE e e := rfl
theorem QuietE.trans {a b c : Env} (h1 : QuietE a b) (h2 : QuietE b c) : QuietE a c := Eq.trans h2 h1

theorem quietE_emit (e : Env) (ev : Ev) (h : isHook ev = false) : QuietE e (e.emit ev) := by
  simp [QuietE, Env.emit, hooksOf_append, hooksOf_single ev h]

theorem quietE_discard (e : Env) {h : Option Nat} (r : Reason) (j : Job) : QuietE e (e.discard h r j) := quietE_emit e _ rfl
theorem quietE_reject (e : Env) (j : Job) : QuietE e (e.reject j) := by
  unfold Env.reject; split
  · exact quietE_emit e _ rfl
  · exact QuietE.refl e
theorem quietE_accept (e : Env) (j : Job) : QuietE e (e.accept j) := by
  unfold Env.accept; split
  · exact quietE_emit e _ rfl
  · exact QuietE.refl e

theorem quietE_setActor (e : Env) (a : Actor) : QuietE e (e.setActor a) := rfl

theorem quietE_cast (e e' : Env) (aid : Nat) (j : Job) (h : e.cast aid j = some e') : QuietE e e' := by
  unfold Env.cast at h
  cases ha : e.getActor aid with
  | none => simp [ha] at h
  | some a =>
    simp only [ha] at h
    split at h
    · simp at h
    · simp only [Option.some.injEq] at h; subst h; rfl

theorem hooksOf_lost (aid : Nat) (l : List Job) : hooksOf (l.map fun j => Ev.lost aid j.id) = [] := by
  induction l with
  | nil => rfl
  | cons j l ih => simpa [hooksOf] using ih

theorem quietE_die (e : Env) (aid : Nat) : QuietE e (e.die aid) := by
  unfold Env.die
  cases ha : e.getActor aid with
  | none => rfl
  | some a =>
    simp only
    split
    · rfl
    · simp [QuietE, hooksOf_append, hooksOf_lost, Env.setActor]

theorem quietE_killAll (e : Env) : QuietE e e.killAll := by
  unfold Env.killAll
  generalize e.actors.map (·.aid) = ids
  induction ids generalizing e with
  | nil => rfl
  | cons a as ih => rw [List.foldl_cons]; exact (quietE_die e a).trans (ih _)

theorem quietE_stop (e : Env) (aid : Nat) : QuietE e (e.stop aid) := by
  unfold Env.stop
  cases ha : e.getActor aid with
  | none => rfl
  | some a => simp only; split <;> rfl

theorem quietE_settleOne (e : Env) (aid : Nat) : QuietE e (e.settleOne aid) := by
  unfold Env.settleOne
  cases ha : e.getActor aid with
  | none => rfl
  | some a =>
    simp only
    split
    · rfl
    · split
      · exact quietE_die e aid
      · cases hm : a.mailbox with
        | nil => rfl
        | cons j rest => simp only; exact (quietE_setActor e _).trans (quietE_emit _ _ rfl)

theorem quietE_settle (e : Env) : QuietE e e.settle := by
  unfold Env.settle
  generalize e.actors.map (·.aid) = ids
  induction ids generalizing e with
  | nil => rfl
  | cons a as ih => rw [List.foldl_cons]; exact (quietE_settleOne e a).trans (ih _)

theorem quietE_spawn (e : Env) (wid aid : Nat) : QuietE e (e.spawn wid aid) := by
  simp [QuietE, Env.spawn, hooksOf_append, hooksOf]

theorem quietE_getNextNonExpired {h : Option Nat} (mq : List Job) (pend : List Nat) (e : Env) :
    QuietE e (getNextNonExpired h mq pend e).2.2.2 := by
  induction mq generalizing pend e with
  | nil => rfl
  | cons j rest ih =>
    unfold getNextNonExpired
    split
    · rfl
    · exact (quietE_discard e _ j).trans (ih _ _)

theorem quietE_getNext (p : WP) (e : Env) : QuietE e (p.getNext e).2.2 :=
  quietE_getNextNonExpired p.mq p.pending e

theorem quietE_dispatchJob (p : WP) (e : Env) (j : Job) : QuietE e (p.dispatchJob e j).2 := by
  unfold WP.dispatchJob
  cases hc : e.cast p.actor j with
  | none => rfl
  | some e' => exact quietE_cast e e' _ j hc

theorem quietE_shedOldest (limit fuel : Nat) (p : WP) (e : Env) : QuietE e (shedOldest limit fuel p e).2 := by
  induction fuel generalizing p e with
  | zero => rfl
  | succ fuel ih =>
    unfold shedOldest
    split
    · have hg := quietE_getNext p e
      cases hn : p.getNext e with
      | mk r pe =>
        obtain ⟨p', e'⟩ := pe
        rw [hn] at hg
        cases r with
        | none => simp only; exact hg.trans (ih _ _)
        | some d => simp only; exact (hg.trans (quietE_discard _ _ _)).trans (ih _ _)
    · rfl

theorem quietE_enqueueAccepted (p : WP) (e : Env) (j : Job) : QuietE e (p.enqueueAccepted e j).2 := by
  unfold WP.enqueueAccepted
  split
  · have hg := quietE_getNext p e
    cases hn : p.getNext e with
    | mk r pe =>
      obtain ⟨p', e'⟩ := pe
      rw [hn] at hg
      cases r with
      | none => simp only; exact hg.trans (quietE_dispatchJob _ _ _)
      | some d => simp only; exact hg.trans (quietE_dispatchJob _ _ _)
  · simp only
    split
    · exact quietE_shedOldest _ _ _ _
    · rfl

theorem quietE_enqueueJob (p : WP) (e : Env) (j : Job) : QuietE e (p.enqueueJob e j).2 := by
  unfold WP.enqueueJob
  split
  · exact (quietE_discard e _ j).trans (quietE_reject _ j)
  · exact (quietE_accept e j).trans (quietE_enqueueAccepted _ _ _)

theorem quietE_workerComplete (p : WP) (e : Env) (key : Nat) : QuietE e (p.workerComplete e key).2 := by
  unfold WP.workerComplete
  split
  · generalize ({ p with curr := p.curr.filter (fun x => x.1 != key), pending := p.pending.erase key } : WP) = p0
    have hg := quietE_getNext p0 e
    cases hn : p0.getNext e with
    | mk r pe =>
      obtain ⟨p', e'⟩ := pe
      rw [hn] at hg
      cases r with
      | none => simp only [hn]; exact hg
      | some d => simp only [hn]; exact hg.trans (quietE_dispatchJob _ _ _)
  · rfl

theorem quietE_replaceWorker (p : WP) (e : Env) (naid : Nat) : QuietE e (p.replaceWorker e naid).2 := by
  unfold WP.replaceWorker
  simp only
  generalize ({ p with curr := [], pending := p.curr.foldl (fun acc x => acc.erase x.1) p.pending, actor := naid } : WP) = p0
  have hg := quietE_getNext p0 e
  cases hn : p0.getNext e with
  | mk r pe =>
    obtain ⟨p', e'⟩ := pe
    rw [hn] at hg
    cases r with
    | none => simp only [hn]; exact hg
    | some d => simp only [hn]; exact hg.trans (quietE_dispatchJob _ _ _)

/-! ### the factory -/

/-- no hook ran, and the stop state did not go back -/
structure Quiet (w w' : W) : Prop where
  hooks : hooksOf w'.env.log = hooksOf w.env.log
  exited : w'.exited = w.exited
  stopped : w.stopped = true → w'.stopped = true

theorem Quiet.refl (w : W) : Quiet w w := ⟨rfl, rfl, fun h => h⟩
theorem Quiet.trans {a b c : W} (h1 : Quiet a b) (h2 : Quiet b c) : Quiet a c :=
  ⟨h2.hooks.trans h1.hooks, h2.exited.trans h1.exited, fun h => h2.stopped (h1.stopped h)⟩

theorem Quiet.of_env {w w' : W} (he : QuietE w.env w'.env) (hx : w'.exited = w.exited) (hs : w'.stopped = w.stopped) :
    Quiet w w' := ⟨he, hx, fun h => by rw [hs]; exact h⟩

theorem Quiet.of_routerFrame {w w' : W} (f : RouterFrame w w') (hx : w'.exited = w.exited) : Quiet w w' :=
  ⟨by rw [f.env], hx, fun h => by rw [f.stopped]; exact h⟩

theorem availChange_exited (w : W) (wid : Nat) (b : Bool) : (w.availChange wid b).exited = w.exited := by
  unfold W.availChange; split
  · split <;> rfl
  · rfl

theorem quiet_availChange (w : W) (wid : Nat) (b : Bool) : Quiet w (w.availChange wid b) :=
  Quiet.of_routerFrame (availChange_frame w wid b) (availChange_exited w wid b)

theorem chooseTargetWorker_exited (w : W) (j : Job) (hint : Option Nat) : (w.chooseTargetWorker j hint).2.exited = w.exited := by
  unfold W.chooseTargetWorker
  split
  · split
    · rfl
    · split
      · rfl
      · split <;> rfl
  · split <;> rfl
  · split
    · rfl
    · split
      · rfl
      · split <;> rfl
  · split
    · rfl
    · split <;> rfl
  · split <;> rfl

theorem quiet_choose (w : W) (j : Job) (hint : Option Nat) : Quiet w (w.chooseTargetWorker j hint).2 :=
  Quiet.of_routerFrame (chooseTargetWorker_frame w j hint) (chooseTargetWorker_exited w j hint)

theorem quiet_routeInner (w : W) (j : Job) (hint : Option Nat) : Quiet w (w.routeInner j hint).2 := by
  unfold W.routeInner
  have hs := quiet_choose w j hint
  cases hc : w.chooseTargetWorker j hint with
  | mk t w1 =>
    rw [hc] at hs
    simp only at hs ⊢
    cases t with
    | none => exact hs
    | some wid =>
      simp only
      cases hg : getW w1.pool wid with
      | none => exact hs
      | some p => exact hs.trans (Quiet.of_env (quietE_enqueueJob p w1.env j) rfl rfl)

theorem quiet_routeLimited (w : W) (j : Job) (hint : Option Nat) : Quiet w (w.routeLimited j hint).2 := by
  unfold W.routeLimited
  split
  · exact quiet_routeInner w j hint
  · rename_i c lb _
    simp only
    have h0 : Quiet w { w with rl := some (c, (LeakyBucket.check c lb w.env.now).1) } := ⟨rfl, rfl, fun h => h⟩
    split
    · split
      · split
        · rename_i hh _
          exact h0.trans (quiet_availChange _ hh true)
        · exact h0
      · exact h0
    · have hi := quiet_routeInner { w with rl := some (c, (LeakyBucket.check c lb w.env.now).1) } j hint
      cases hr : W.routeInner { w with rl := some (c, (LeakyBucket.check c lb w.env.now).1) } j hint with
      | mk r w2 =>
        rw [hr] at hi
        simp only at hi ⊢
        split
        · exact h0.trans (hi.trans ⟨rfl, rfl, fun h => h⟩)
        · exact h0.trans hi

theorem quiet_routeMessage (w : W) (j : Job) (hint : Option Nat) : Quiet w (w.routeMessage j hint).2 := by
  unfold W.routeMessage
  have hi := quiet_routeLimited w j hint
  cases hr : w.routeLimited j hint with
  | mk r w2 => rw [hr] at hi; exact hi.trans ⟨rfl, rfl, fun h => h⟩

theorem quiet_dropExpiredHead (fuel : Nat) (w : W) : Quiet w (W.dropExpiredHead fuel w) := by
  induction fuel generalizing w with
  | zero => exact Quiet.refl w
  | succ fuel ih =>
    unfold W.dropExpiredHead
    split
    · split
      · split
        · rename_i j' q _
          refine Quiet.trans ?_ (ih _)
          exact Quiet.of_env ((quietE_discard w.env _ j').trans (quietE_reject _ j')) rfl rfl
        · exact Quiet.refl w
      · exact Quiet.refl w
    · exact Quiet.refl w

theorem quiet_routeLoop (hint : Option Nat) (fuel : Nat) (w : W) : Quiet w (W.routeLoop hint fuel w) := by
  induction fuel generalizing w with
  | zero => exact Quiet.refl w
  | succ fuel ih =>
    unfold W.routeLoop
    split
    · exact Quiet.refl w
    · rename_i j _
      have hs := quiet_choose w j hint
      cases hc : w.chooseTargetWorker j hint with
      | mk t w1 =>
        rw [hc] at hs
        simp only at hs ⊢
        cases t with
        | none => exact hs
        | some worker =>
          simp only
          cases hp : qPopFront w1.cfg w1.queue with
          | none => exact hs
          | some jq =>
            obtain ⟨j', q⟩ := jq
            simp only
            have h1 : Quiet w { w1 with queue := q } := hs.trans ⟨rfl, rfl, fun h => h⟩
            have hr := quiet_routeMessage { w1 with queue := q } j' (some worker)
            cases hrm : W.routeMessage { w1 with queue := q } j' (some worker) with
            | mk r w2 =>
              rw [hrm] at hr
              cases r with
              | handled => exact h1.trans hr
              | rateLimited =>
                simp only
                refine (h1.trans hr).trans (Quiet.trans ?_ (ih _))
                exact Quiet.of_env ((quietE_discard w2.env _ j').trans (quietE_reject _ j')) rfl rfl
              | backlog =>
                simp only
                refine (h1.trans hr).trans ?_
                exact Quiet.of_env ((quietE_emit w2.env _ rfl).trans (quietE_emit _ _ rfl)) rfl rfl

theorem quiet_tryRoute (w : W) (hint : Option Nat) : Quiet w (w.tryRouteNextActiveJob hint) := by
  unfold W.tryRouteNextActiveJob
  exact (quiet_dropExpiredHead _ w).trans (quiet_routeLoop _ _ _)

theorem quiet_shedQueueOldest (limit fuel : Nat) (w : W) : Quiet w (W.shedQueueOldest limit fuel w) := by
  induction fuel generalizing w with
  | zero => exact Quiet.refl w
  | succ fuel ih =>
    unfold W.shedQueueOldest
    split
    · split
      · rename_i j q _
        refine Quiet.trans ?_ (ih _)
        exact Quiet.of_env (quietE_discard w.env _ j) rfl rfl
      · exact ih w
    · exact Quiet.refl w

theorem quiet_maybeEnqueue (w : W) (j : Job) : Quiet w (w.maybeEnqueue j) := by
  unfold W.maybeEnqueue
  split
  · split
    · exact Quiet.of_env ((quietE_discard w.env _ j).trans (quietE_reject _ j)) rfl rfl
    · exact Quiet.of_env (quietE_accept w.env j) rfl rfl
  · dsimp only
    refine Quiet.trans ?_ (quiet_shedQueueOldest _ _ _)
    exact Quiet.of_env (quietE_accept w.env j) rfl rfl
  · exact Quiet.of_env (quietE_accept w.env j) rfl rfl

theorem quiet_growOne (w : W) (wid : Nat) : Quiet w (w.growOne wid) := by
  unfold W.growOne
  split
  · dsimp only
    split
    · apply Quiet.trans _ (quiet_availChange _ _ _)
      exact ⟨rfl, rfl, fun h => h⟩
    · exact ⟨rfl, rfl, fun h => h⟩
  · dsimp only
    apply Quiet.trans _ (quiet_availChange _ _ _)
    exact Quiet.of_env (quietE_spawn w.env _ _) rfl rfl

theorem quiet_foldl {f : W → Nat → W} (hf : ∀ w k, Quiet w (f w k)) (l : List Nat) (w : W) : Quiet w (l.foldl f w) := by
  induction l generalizing w with
  | nil => exact Quiet.refl w
  | cons a l ih => exact (hf w a).trans (ih _)

theorem quiet_growPool (w : W) (n : Nat) : Quiet w (w.growPool n) := by
  unfold W.growPool; exact quiet_foldl (fun w k => quiet_growOne w _) _ w

theorem quiet_shrinkOne (w : W) (wid : Nat) : Quiet w (w.shrinkOne wid) := by
  unfold W.shrinkOne
  split
  · rename_i p _
    split
    · exact ⟨rfl, rfl, fun h => h⟩
    · refine (quiet_availChange w wid false).trans ?_
      exact Quiet.of_env (quietE_stop _ p.actor) rfl rfl
  · exact Quiet.refl w

theorem quiet_shrinkPool (w : W) (n : Nat) : Quiet w (w.shrinkPool n) := by
  unfold W.shrinkPool; exact quiet_foldl (fun w k => quiet_shrinkOne w _) _ w

theorem quiet_flushAfterGrow (fuel : Nat) (w : W) : Quiet w (W.flushAfterGrow fuel w) := by
  induction fuel generalizing w with
  | zero => exact Quiet.refl w
  | succ fuel ih =>
    unfold W.flushAfterGrow
    simp only
    split
    · exact Quiet.refl w
    · split
      · exact quiet_tryRoute w none
      · exact (quiet_tryRoute w none).trans (ih _)

theorem quiet_resizePool (w : W) (n : Nat) : Quiet w (w.resizePool n) := by
  unfold W.resizePool
  split
  · exact Quiet.refl w
  · simp only
    split
    · apply Quiet.trans _ (quiet_flushAfterGrow _ _)
      exact (quiet_growPool w _).trans ⟨rfl, rfl, fun h => h⟩
    · split
      · exact (quiet_shrinkPool w _).trans ⟨rfl, rfl, fun h => h⟩
      · exact ⟨rfl, rfl, fun h => h⟩

theorem quiet_dispatch (w : W) (j : Job) : Quiet w (w.dispatch j) := by
  unfold W.dispatch
  split
  · exact Quiet.of_env ((quietE_discard w.env _ j).trans (quietE_reject _ j)) rfl rfl
  · split
    · have hr := quiet_routeMessage w j none
      cases hrm : w.routeMessage j none with
      | mk r w2 =>
        rw [hrm] at hr
        cases r with
        | handled => exact hr
        | rateLimited =>
          exact hr.trans (Quiet.of_env ((quietE_discard w2.env _ j).trans (quietE_reject _ j)) rfl rfl)
        | backlog => exact hr.trans (quiet_maybeEnqueue w2 j)
    · exact Quiet.of_env ((quietE_discard w.env _ j).trans (quietE_reject _ j)) rfl rfl

theorem quiet_ite (c : Prop) [Decidable c] (w a b : W) (ha : Quiet w a) (hb : Quiet w b) : Quiet w (if c then a else b) := by
  split <;> assumption

theorem quiet_workerFinishedJob (w : W) (who key : Nat) : Quiet w (w.workerFinishedJob who key) := by
  unfold W.workerFinishedJob
  split
  · rename_i p _
    have hq := quietE_workerComplete p w.env key
    cases hwc : p.workerComplete w.env key with
    | mk p' e' =>
      rw [hwc] at hq
      simp only at hq ⊢
      have h1 : Quiet w { w with pool := setW w.pool who p', env := e' } := Quiet.of_env hq rfl rfl
      split
      · split
        · exact h1.trans (Quiet.of_env (quietE_stop e' p'.actor) rfl rfl)
        · exact h1
      · apply quiet_ite
        · exact (h1.trans (quiet_tryRoute _ _)).trans (quiet_availChange _ _ _)
        · exact h1.trans (quiet_tryRoute _ _)
  · exact quiet_tryRoute w _

theorem quietE_foldl_discard (h : Option Nat) (r : Reason) (l : List Job) (e : Env) : QuietE e (l.foldl (fun e j => e.discard h r j) e) := by
  induction l generalizing e with
  | nil => rfl
  | cons j l ih => rw [List.foldl_cons]; exact (quietE_discard e r j).trans (ih _)

theorem quiet_removeExpired (w : W) : Quiet w w.removeExpired := by
  unfold W.removeExpired
  split
  · exact Quiet.of_env (quietE_foldl_discard _ _ _ _) rfl rfl
  · exact Quiet.refl w

theorem quiet_calcRest (w : W) : Quiet w w.calcRest := by
  unfold W.calcRest
  exact (quiet_removeExpired w).trans ⟨rfl, rfl, fun h => h⟩

theorem quiet_updateSettings (w : W) (d : Option (Option (Nat × Mode))) (n : Option Nat) : Quiet w (w.updateSettings d n) := by
  unfold W.updateSettings
  have h1 : Quiet w (match d with
      | some d => { w with pool := w.pool.map (fun p => { p with disc := w.workerDiscard d }), disc := d }
      | none => w) := by
    cases d with
    | none => exact Quiet.refl w
    | some d => exact ⟨rfl, rfl, fun h => h⟩
  cases n with
  | none => exact h1
  | some n => exact h1.trans (quiet_resizePool _ n)

theorem quiet_afterReplace (w : W) (wid : Nat) : Quiet w (w.afterReplace wid) := by
  unfold W.afterReplace
  cases hret : w.retireIdleDrainingWorker wid with
  | some w2 =>
    simp only
    unfold W.retireIdleDrainingWorker at hret
    split at hret
    · rename_i p _
      split at hret
      · simp only [Option.some.injEq] at hret; subst hret
        exact Quiet.of_env (quietE_stop w.env p.actor) rfl rfl
      · simp at hret
    · simp at hret
  | none =>
    simp only
    apply quiet_ite
    · exact (quiet_tryRoute _ _).trans (quiet_availChange _ _ _)
    · exact quiet_tryRoute _ _

theorem quiet_handleSupervisorEvt (w : W) (who : Nat) : Quiet w (w.handleSupervisorEvt who) := by
  unfold W.handleSupervisorEvt
  split
  · exact Quiet.refl w
  · rename_i wid _
    split
    · exact Quiet.refl w
    · rename_i p _
      simp only
      have hq := quietE_replaceWorker p (w.env.spawn wid w.nextAid) w.nextAid
      cases hrw : p.replaceWorker (w.env.spawn wid w.nextAid) w.nextAid with
      | mk p' e' =>
        rw [hrw] at hq
        simp only at hq ⊢
        refine Quiet.trans ?_ (quiet_afterReplace _ wid)
        exact Quiet.of_env ((quietE_spawn w.env wid w.nextAid).trans hq) rfl rfl

theorem quietE_foldl (f : Env → Job → Env) (hf : ∀ e j, QuietE e (f e j)) (l : List Job) (e : Env) : QuietE e (l.foldl f e) := by
  induction l generalizing e with
  | nil => rfl
  | cons j l ih => rw [List.foldl_cons]; exact (hf e j).trans (ih _)

theorem quietE_dropQueued (h : Option Nat) (e : Env) (j : Job) : QuietE e (Env.dropQueued h e j) := by
  unfold Env.dropQueued; split
  · exact quietE_discard e _ j
  · exact quietE_emit e _ rfl

theorem quietE_dropWorkerQueue (e : Env) (p : WP) : QuietE e (e.dropWorkerQueue p) := by
  unfold Env.dropWorkerQueue
  exact quietE_foldl _ (fun e j => quietE_emit e _ rfl) _ e

theorem quietE_foldlW (f : Env → WP → Env) (hf : ∀ e p, QuietE e (f e p)) (l : List WP) (e : Env) : QuietE e (l.foldl f e) := by
  induction l generalizing e with
  | nil => rfl
  | cons p l ih => rw [List.foldl_cons]; exact (hf e p).trans (ih _)

/-- `post_stop` up to the wait: no hook yet, and the factory is now stopping -/
theorem postStop_spec (w : W) :
    hooksOf w.postStop.env.log = hooksOf w.env.log ∧ w.postStop.exited = w.exited ∧ w.postStop.stopped = true := by
  unfold W.postStop
  simp only
  refine ⟨?_, trivial, trivial⟩
  have h1 := quietE_foldl (Env.dropQueued w.handler) (quietE_dropQueued w.handler) w.queue w.env
  have h2 := quietE_foldlW Env.dropWorkerQueue quietE_dropWorkerQueue w.pool (w.queue.foldl (Env.dropQueued w.handler) w.env)
  have h3 := quietE_foldlW (fun e p => e.stop p.actor) (fun e p => quietE_stop e p.actor) w.pool
    (w.pool.foldl Env.dropWorkerQueue (w.queue.foldl (Env.dropQueued w.handler) w.env))
  exact (h1.trans (h2.trans h3))

theorem quietE_dropMsg (e : Env) (m : FMsg) : QuietE e (e.dropMsg m) := by
  cases m with
  | dispatch j =>
    show QuietE e (if j.port then (e.emit (.dropped j.id)).emit (.portClosed j.id) else e.emit (.dropped j.id))
    split
    · exact (quietE_emit e _ rfl).trans (quietE_emit _ _ rfl)
    · exact quietE_emit e _ rfl
  | _ => exact QuietE.refl e

theorem quietE_foldlM (l : List FMsg) (e : Env) : QuietE e (l.foldl Env.dropMsg e) := by
  induction l generalizing e with
  | nil => rfl
  | cons m l ih => rw [List.foldl_cons]; exact (quietE_dropMsg e m).trans (ih _)

end Factory

namespace Factory

/-- the hook history so far: started, then `draining` (as often as `DrainRequests` was handled),
then stopped exactly if the actor has exited -/
structure HookOk (w : W) : Prop where
  order : ∃ k, hooksOf w.env.log = Hook.started :: (List.replicate k Hook.draining ++ (if w.exited then [Hook.stopped] else []))
  exitedStopped : w.exited = true → w.stopped = true

theorem HookOk.of_quiet {w w' : W} (h : HookOk w) (q : Quiet w w') : HookOk w' := by
  obtain ⟨k, hk⟩ := h.order
  exact ⟨⟨k, by rw [q.hooks, q.exited]; exact hk⟩, fun hx => q.stopped (h.exitedStopped (by rw [← q.exited]; exact hx))⟩

theorem isDrained_quiet (w : W) : Quiet w w.isDrained.2 := by
  unfold W.isDrained
  split
  · exact Quiet.refl w
  · exact Quiet.refl w
  · split
    · exact ⟨rfl, rfl, fun h => h⟩
    · exact Quiet.refl w

theorem quiet_afterHandle (w : W) : Quiet w w.afterHandle := by
  unfold W.afterHandle
  split
  · exact Quiet.refl w
  · have hs := isDrained_quiet w
    cases hd : w.isDrained with
    | mk d w2 =>
      rw [hd] at hs
      simp only at hs ⊢
      split
      · exact hs.trans ⟨rfl, rfl, fun h => h⟩
      · exact hs

theorem hookOk_handleMsg (w : W) (m : FMsg) (hx : w.exited = false) (h : HookOk w) : HookOk (w.handleMsg m) := by
  cases m with
  | dispatch j => exact h.of_quiet (quiet_dispatch w j)
  | finished who key => exact h.of_quiet (quiet_workerFinishedJob w who key)
  | adjust n => exact h.of_quiet (quiet_resizePool w n)
  | updateSettings d n => exact h.of_quiet (quiet_updateSettings w d n)
  | setHandler hd => exact h.of_quiet (Quiet.of_env (quietE_emit w.env _ rfl) rfl rfl)
  | drainRequests =>
    obtain ⟨k, hk⟩ := h.order
    refine ⟨⟨k + 1, ?_⟩, fun hx' => by simp [W.handleMsg, W.emit, hx] at hx'⟩
    simp only [W.handleMsg, W.emit, Env.emit, hooksOf_append, hk, hx]
    simp [hooksOf, List.replicate_succ']
  | calculate =>
    show HookOk (if w.cfg.hasCC && w.armed then { w with armed := false, blocked := true } else w.calcRest)
    split
    · exact h.of_quiet ⟨rfl, rfl, fun h => h⟩
    · exact h.of_quiet (quiet_calcRest w)
  | getQueueDepth => exact h.of_quiet ⟨rfl, rfl, fun h => h⟩
  | getNumActiveWorkers => exact h.of_quiet ⟨rfl, rfl, fun h => h⟩
  | getAvailableCapacity => exact h.of_quiet ⟨rfl, rfl, fun h => h⟩

theorem hookOk_postStop (w : W) (h : HookOk w) : HookOk w.postStop := by
  obtain ⟨h1, h2, h3⟩ := postStop_spec w
  obtain ⟨k, hk⟩ := h.order
  exact ⟨⟨k, by rw [h1, h2]; exact hk⟩, fun _ => h3⟩

theorem hookOk_tryFinishStop (w : W) (h : HookOk w) : HookOk w.tryFinishStop := by
  unfold W.tryFinishStop
  split
  · rename_i hc
    simp only [Bool.and_eq_true, Bool.not_eq_true'] at hc
    obtain ⟨⟨hst, hex⟩, _⟩ := hc
    obtain ⟨k, hk⟩ := h.order
    refine ⟨⟨k, ?_⟩, fun _ => hst⟩
    simp only
    have hq := quietE_foldlM w.inbox (w.env.emit (.hook .stopped))
    have hk' := quietE_killAll (w.inbox.foldl Env.dropMsg (w.env.emit (.hook .stopped)))
    have : hooksOf (w.inbox.foldl Env.dropMsg (w.env.emit (.hook .stopped))).killAll.log
        = hooksOf w.env.log ++ [Hook.stopped] := by
      rw [hk', hq]; simp [Env.emit, hooksOf_append, hooksOf]
    rw [this, hk, hex]
    simp
  · exact h

theorem hookOk_loopStep (w w' : W) (h : HookOk w) (hl : w.loopStep = some w') : HookOk w' := by
  unfold W.loopStep at hl
  split at hl
  · simp at hl
  · rename_i hg
    have hns : w.stopped = false := by
      cases hs : w.stopped with
      | false => rfl
      | true => simp [hs] at hg
    have hx : w.exited = false := by
      cases he : w.exited with
      | false => rfl
      | true => have := h.exitedStopped he; rw [hns] at this; cases this
    split at hl
    · simp only [Option.some.injEq] at hl; subst hl; exact hookOk_postStop w h
    · split at hl
      · rename_i who rest _
        simp only [Option.some.injEq] at hl; subst hl
        have h1 : HookOk { w with env := { w.env with sup := rest } } := h.of_quiet ⟨rfl, rfl, fun h => h⟩
        exact h1.of_quiet (quiet_handleSupervisorEvt _ _)
      · split at hl
        · rename_i m rest _
          simp only [Option.some.injEq] at hl; subst hl
          have h1 : HookOk { w with inbox := rest } := h.of_quiet ⟨rfl, rfl, fun h => h⟩
          exact (hookOk_handleMsg { w with inbox := rest } m hx h1).of_quiet (quiet_afterHandle _)
        · simp at hl

theorem hookOk_runQ (fuel : Nat) (w : W) (h : HookOk w) : HookOk (W.runQ fuel w) := by
  induction fuel generalizing w with
  | zero => exact h
  | succ fuel ih =>
    unfold W.runQ
    cases hl : w.loopStep with
    | some w' => simp only; exact ih _ (hookOk_loopStep w w' h hl)
    | none =>
      simp only
      have hs : HookOk (W.tryFinishStop { w with env := w.env.settle }) :=
        hookOk_tryFinishStop _ (h.of_quiet (Quiet.of_env (quietE_settle w.env) rfl rfl))
      split
      · exact hs
      · exact ih _ hs

theorem quiet_send (w : W) (m : FMsg) : Quiet w (w.send m) := by
  unfold W.send; split
  · exact Quiet.refl w
  · exact ⟨rfl, rfl, fun h => h⟩

theorem hookOk_advanceTo (t fuel : Nat) (w : W) (h : HookOk w) : HookOk (W.advanceTo t fuel w) := by
  induction fuel generalizing w with
  | zero => exact h.of_quiet ⟨rfl, rfl, fun h => h⟩
  | succ fuel ih =>
    unfold W.advanceTo
    split
    · simp only
      apply ih
      apply hookOk_runQ
      have h1 : HookOk { w.setNow w.nextCalc with nextCalc := t + CALCULATE_FREQUENCY * 1000000 } :=
        h.of_quiet ⟨rfl, rfl, fun h => h⟩
      exact h1.of_quiet (quiet_send _ _)
    · exact h.of_quiet ⟨rfl, rfl, fun h => h⟩

theorem quiet_finish (w : W) (aid : Nat) (ok : Bool) : Quiet w (w.finish aid ok) := by
  unfold W.finish
  cases ha : w.env.getActor aid with
  | none => exact Quiet.refl w
  | some a =>
    simp only
    cases hr : a.running with
    | none => exact Quiet.refl w
    | some j =>
      simp only
      split
      · exact Quiet.refl w
      · split
        · exact Quiet.of_env ((quietE_emit w.env _ rfl).trans (quietE_die _ aid)) rfl rfl
        · have h1 : Quiet w { w with env := (w.env.emit (.finishOk aid)).emit (.handled aid j.id) } :=
            Quiet.of_env ((quietE_emit w.env _ rfl).trans (quietE_emit _ _ rfl)) rfl rfl
          have h2 := quiet_send { w with env := (w.env.emit (.finishOk aid)).emit (.handled aid j.id) } (.finished a.wid j.key)
          refine (h1.trans h2).trans ?_
          exact Quiet.of_env ((quietE_setActor _ _).trans (quietE_settleOne _ aid)) rfl rfl

theorem quiet_emit (w : W) (ev : Ev) (h : isHook ev = false) : Quiet w (w.emit ev) :=
  Quiet.of_env (quietE_emit w.env ev h) rfl rfl

theorem quiet_applyOp (w : W) (op : Op) : Quiet w (w.applyOp op) := by
  cases op with
  | dispatch id key hash ttl acc =>
    simp only [W.applyOp]
    split
    · exact Quiet.refl w
    · exact (quiet_emit w _ rfl).trans (quiet_send _ _)
  | finish aid ok => exact quiet_finish w aid ok
  | kill aid => exact Quiet.of_env ((quietE_emit w.env _ rfl).trans (quietE_die _ aid)) rfl rfl
  | resize n => exact (quiet_emit w _ rfl).trans (quiet_send _ _)
  | settings d n =>
    simp only [W.applyOp]
    refine Quiet.trans ?_ (quiet_send _ _)
    cases d with
    | none => cases n with
      | none => exact Quiet.refl w
      | some n => exact quiet_emit w _ rfl
    | some d => cases n with
      | none => exact quiet_emit w _ rfl
      | some n => exact (quiet_emit w _ rfl).trans (quiet_emit _ _ rfl)
  | drain => exact (quiet_emit w _ rfl).trans (quiet_send _ _)
  | setHandler hd => exact (quiet_emit w _ rfl).trans (quiet_send _ _)
  | advance => exact Quiet.refl w
  | block => exact ⟨rfl, rfl, fun h => h⟩
  | release n =>
    simp only [W.applyOp]
    split
    · refine Quiet.trans ?_ (quiet_afterHandle _)
      refine Quiet.trans ?_ (quiet_calcRest _)
      have h0 : Quiet w { w.emit (.released n) with blocked := false } :=
        (quiet_emit w _ rfl).trans ⟨rfl, rfl, fun h => h⟩
      split
      · exact h0.trans (quiet_resizePool _ _)
      · exact h0
    · exact Quiet.refl w
  | nop => exact Quiet.refl w

theorem hookOk_ask (w : W) (m : FMsg) (h : HookOk w) : HookOk (w.ask m) := by
  unfold W.ask
  split
  · exact h.of_quiet ⟨rfl, rfl, fun h => h⟩
  · simp only
    have h1 := hookOk_runQ RUN_FUEL _ (h.of_quiet (quiet_send w m))
    split
    · exact h1.of_quiet ⟨rfl, rfl, fun h => h⟩
    · exact h1

theorem hookOk_queries (w : W) (h : HookOk w) : HookOk w.queries := by
  unfold W.queries
  split
  · exact h.of_quiet ⟨rfl, rfl, fun h => h⟩
  · exact hookOk_ask _ _ (hookOk_ask _ _ (hookOk_ask _ _ (h.of_quiet ⟨rfl, rfl, fun h => h⟩)))

theorem hookOk_stepOp (w : W) (op : Op) (t0 tq te : Nat) (h : HookOk w) : HookOk (w.stepOp op t0 tq te) := by
  unfold W.stepOp
  simp only
  generalize hw1 : W.advanceTo t0 (advanceFuel w t0) w = w1
  have h1 : HookOk w1 := by rw [← hw1]; exact hookOk_advanceTo _ _ _ h
  generalize hw2 : W.runQ RUN_FUEL (w1.applyOp op) = w2
  have h2 : HookOk w2 := by rw [← hw2]; exact hookOk_runQ _ _ (h1.of_quiet (quiet_applyOp _ _))
  generalize hw3 : W.advanceTo tq (advanceFuel w2 tq) w2 = w3
  have h3 : HookOk w3 := by rw [← hw3]; exact hookOk_advanceTo _ _ _ h2
  generalize hw4 : w3.queries = w4
  have h4 : HookOk w4 := by rw [← hw4]; exact hookOk_queries _ h3
  generalize hw5 : W.advanceTo te (advanceFuel w4 te) w4 = w5
  have h5 : HookOk w5 := by rw [← hw5]; exact hookOk_advanceTo _ _ _ h4
  have h6 : HookOk { w5 with lastWq := none } := h5.of_quiet ⟨rfl, rfl, fun h => h⟩
  exact h6.of_quiet (quiet_emit _ _ rfl)

theorem hookOk_runSteps (w : W) (steps : List Step) (h : HookOk w) : HookOk (w.runSteps steps) := by
  induction steps generalizing w with
  | nil => exact h
  | cons s rest ih => exact ih _ (hookOk_stepOp w s.op s.t0 s.tq s.te h)

theorem hookOk_init (c : CaseCfg) : HookOk (init c) := by
  unfold init
  simp only
  have hq := quiet_growPool
    ({ cfg := c.cfg, poolSize := 0, pool := [], byActor := [], avail := [], inQ := [], last := 0,
       rl := c.rl.map fun (r : Nat × Nat × Nat × Nat) =>
          let lc : LeakyBucket.Cfg := ⟨r.1, r.2.1, r.2.2.1, 10 ^ 40⟩
          (lc, LeakyBucket.new lc (some r.2.2.2) 0),
       queue := [], disc := c.disc, drain := .notDraining,
       handler := if c.cfg.hasHandler then some 0 else none,
       env := { actors := [], log := [], now := 0, sup := [] },
       nextAid := 0, stopSignal := false, stopped := false, inbox := [], blocked := false, armed := false,
       nextCalc := CALCULATE_FREQUENCY, answers := [], lastWq := none } : W) c.n
  refine ⟨⟨0, ?_⟩, ?_⟩
  · simp only [W.emit, Env.emit, hooksOf_append]
    rw [hq.hooks, hq.exited]
    simp [hooksOf]
  · intro hx
    simp only [W.emit] at hx
    rw [hq.exited] at hx
    cases hx

end Factory
