import RactorModel.Lemmas.HandshakeDial

/-! Safety of the handshake system with late dials AND connections failing at any time (C18,
round 4): whatever fails, the two nodes never rest on two links, nor on different ones. -/

namespace Election

/-- what node A may hold authenticated at any instant: connections of one direction and one nonce,
and at most one of them if A is their accepting end -/
def StA (R : List Conn) : Prop :=
  (∀ c ∈ R, ∀ c' ∈ R, c.aInit = c'.aInit ∧ nz c.nonce = nz c'.nonce) ∧
  ((∀ c ∈ R, c.aInit = false) → R.length ≤ 1)

def StB (R : List Conn) : Prop :=
  (∀ c ∈ R, ∀ c' ∈ R, c.aInit = c'.aInit ∧ nz c.nonce = nz c'.nonce) ∧
  ((∀ c ∈ R, c.aInit = true) → R.length ≤ 1)

theorem StA.sublist {R R' : List Conn} (h : StA R) (hs : R'.Sublist R) : StA R' := by
  refine ⟨fun c hc c' hc' => h.1 c (hs.subset hc) c' (hs.subset hc'), ?_⟩
  intro hall
  cases R' with
  | nil => simp
  | cons x t =>
    have hx : x ∈ R := hs.subset (by simp)
    have : ∀ c ∈ R, c.aInit = false := by
      intro c hc
      rw [(h.1 c hc x hx).1]; exact hall x (by simp)
    exact Nat.le_trans hs.length_le (h.2 this)

theorem StB.sublist {R R' : List Conn} (h : StB R) (hs : R'.Sublist R) : StB R' := by
  refine ⟨fun c hc c' hc' => h.1 c (hs.subset hc) c' (hs.subset hc'), ?_⟩
  intro hall
  cases R' with
  | nil => simp
  | cons x t =>
    have hx : x ∈ R := hs.subset (by simp)
    have : ∀ c ∈ R, c.aInit = true := by
      intro c hc
      rw [(h.1 c hc x hx).1]; exact hall x (by simp)
    exact Nat.le_trans hs.length_le (h.2 this)

/-- the connections an election on node A keeps are stable -/
theorem StA_elected (o : Ordering) (ho : o ≠ .eq) (R : List Conn) (hnd : (R.map (·.idA)).Nodup) :
    StA (R.filter (fun c => (electA o R).contains c.idA)) := by
  rw [electA_eq]
  -- every kept connection is a survivor
  have hsub : ∀ c ∈ R.filter (fun c => ((tieBreak ((survivors o R).map viewA)).map (·.id)).contains c.idA),
      c ∈ survivors o R := by
    intro c hc
    obtain ⟨hcR, hin⟩ := List.mem_filter.mp hc
    simp only [List.contains_eq_mem, List.mem_map, decide_eq_true_eq] at hin
    obtain ⟨cand, hcand, hid⟩ := hin
    have hcand' := (tieBreak_sublist _).subset hcand
    obtain ⟨c2, hc2, rfl⟩ := List.mem_map.mp hcand'
    have hc2R : c2 ∈ R := (survivors_sublist o R).subset hc2
    have : c2 = c := nodup_map_inj' (·.idA) hnd hc2R hcR (by simpa [viewA] using hid)
    rw [← this]; exact hc2
  obtain ⟨d, hd⟩ := survivors_same_dir ho R
  refine ⟨?_, ?_⟩
  · intro c hc c' hc'
    exact ⟨by rw [hd c (hsub c hc), hd c' (hsub c' hc')], survivors_same_nonce o R c (hsub c hc) c' (hsub c' hc')⟩
  · intro hall
    generalize hF : R.filter (fun c => ((tieBreak ((survivors o R).map viewA)).map (·.id)).contains c.idA) = F at hsub hall
    cases F with
    | nil => simp
    | cons x t =>
      -- all survivors are accepted by A: the tie-break leaves one candidate
      have hx : x ∈ survivors o R := hsub x (by simp)
      have hdf : d = false := by rw [← hd x hx]; exact hall x (by simp)
      have hallS : ∀ cand ∈ (survivors o R).map viewA, cand.isServer = true := by
        intro cand hc
        obtain ⟨c, hc', rfl⟩ := List.mem_map.mp hc
        simp [viewA, hd c hc', hdf]
      have hne : (survivors o R).map viewA ≠ [] := by
        intro h; rw [List.map_eq_nil_iff] at h; rw [h] at hx; simp at hx
      have hndS : (((survivors o R).map viewA).map (·.id)).Nodup := by
        have : ((survivors o R).map viewA).map (·.id) = (survivors o R).map (·.idA) := by
          simp [List.map_map, viewA, Function.comp_def]
        rw [this]
        exact ((survivors_sublist o R).map _).nodup hnd
      obtain ⟨w, _, htb, _⟩ := tieBreak_allServer hne hallS hndS
      rw [htb] at hF
      -- at most one connection of R carries that id
      have hlen : ∀ (L : List Conn), (L.map (·.idA)).Nodup →
          (L.filter (fun c => ([w].map (·.id)).contains c.idA)).length ≤ 1 := by
        intro L
        induction L with
        | nil => intro _; simp
        | cons y ys ih =>
          intro hndL
          simp only [List.map_cons, List.nodup_cons] at hndL
          by_cases hy : y.idA = w.id
          · have hnone : ys.filter (fun c => ([w].map (·.id)).contains c.idA) = [] := by
              simp only [List.filter_eq_nil_iff]
              intro z hz
              simp only [List.map_cons, List.map_nil, List.contains_eq_mem, List.mem_singleton, decide_eq_true_eq]
              intro hzz
              exact hndL.1 (List.mem_map.mpr ⟨z, hz, by rw [hzz, hy]⟩)
            rw [List.filter_cons, hnone]
            split <;> simp
          · have : (([w].map (·.id)).contains y.idA) = false := by simp [hy]
            simp only [List.filter_cons, this, Bool.false_eq_true, if_false]
            exact ih hndL.2
      have := hlen R hnd
      rw [hF] at this
      exact this

theorem StB_elected (o : Ordering) (ho : o ≠ .eq) (R : List Conn) (hnd : (R.map (·.idB)).Nodup) :
    StB (R.filter (fun c => (electB o R).contains c.idB)) := by
  rw [electB_eq]
  have hsub : ∀ c ∈ R.filter (fun c => ((tieBreak ((survivors o R).map viewB)).map (·.id)).contains c.idB),
      c ∈ survivors o R := by
    intro c hc
    obtain ⟨hcR, hin⟩ := List.mem_filter.mp hc
    simp only [List.contains_eq_mem, List.mem_map, decide_eq_true_eq] at hin
    obtain ⟨cand, hcand, hid⟩ := hin
    have hcand' := (tieBreak_sublist _).subset hcand
    obtain ⟨c2, hc2, rfl⟩ := List.mem_map.mp hcand'
    have hc2R : c2 ∈ R := (survivors_sublist o R).subset hc2
    have : c2 = c := nodup_map_inj' (·.idB) hnd hc2R hcR (by simpa [viewB] using hid)
    rw [← this]; exact hc2
  obtain ⟨d, hd⟩ := survivors_same_dir ho R
  refine ⟨?_, ?_⟩
  · intro c hc c' hc'
    exact ⟨by rw [hd c (hsub c hc), hd c' (hsub c' hc')], survivors_same_nonce o R c (hsub c hc) c' (hsub c' hc')⟩
  · intro hall
    generalize hF : R.filter (fun c => ((tieBreak ((survivors o R).map viewB)).map (·.id)).contains c.idB) = F at hsub hall
    cases F with
    | nil => simp
    | cons x t =>
      have hx : x ∈ survivors o R := hsub x (by simp)
      have hdf : d = true := by rw [← hd x hx]; exact hall x (by simp)
      have hallS : ∀ cand ∈ (survivors o R).map viewB, cand.isServer = true := by
        intro cand hc
        obtain ⟨c, hc', rfl⟩ := List.mem_map.mp hc
        simp [viewB, hd c hc', hdf]
      have hne : (survivors o R).map viewB ≠ [] := by
        intro h; rw [List.map_eq_nil_iff] at h; rw [h] at hx; simp at hx
      have hndS : (((survivors o R).map viewB).map (·.id)).Nodup := by
        have : ((survivors o R).map viewB).map (·.id) = (survivors o R).map (·.idB) := by
          simp [List.map_map, viewB, Function.comp_def]
        rw [this]
        exact ((survivors_sublist o R).map _).nodup hnd
      obtain ⟨w, _, htb, _⟩ := tieBreak_allServer hne hallS hndS
      rw [htb] at hF
      have hlen : ∀ (L : List Conn), (L.map (·.idB)).Nodup →
          (L.filter (fun c => ([w].map (·.id)).contains c.idB)).length ≤ 1 := by
        intro L
        induction L with
        | nil => intro _; simp
        | cons y ys ih =>
          intro hndL
          simp only [List.map_cons, List.nodup_cons] at hndL
          by_cases hy : y.idB = w.id
          · have hnone : ys.filter (fun c => ([w].map (·.id)).contains c.idB) = [] := by
              simp only [List.filter_eq_nil_iff]
              intro z hz
              simp only [List.map_cons, List.map_nil, List.contains_eq_mem, List.mem_singleton, decide_eq_true_eq]
              intro hzz
              exact hndL.1 (List.mem_map.mpr ⟨z, hz, by rw [hzz, hy]⟩)
            rw [List.filter_cons, hnone]
            split <;> simp
          · have : (([w].map (·.id)).contains y.idB) = false := by simp [hy]
            simp only [List.filter_cons, this, Bool.false_eq_true, if_false]
            exact ih hndL.2
      have := hlen R hnd
      rw [hF] at this
      exact this

/-! ### the invariant and its preservation -/

def FInv (w : List Link) : Prop := StA (activeA w) ∧ StB (activeB w)

/-- closing ends on A only (any set of them): A's knowledge shrinks, B's is untouched -/
theorem FInv.closeA (f : Link → Link) (hc : ∀ l, (f l).c = l.c)
    (hk : ∀ l, (f l).authA = l.authA ∧ (f l).authB = l.authB ∧ (f l).openB = l.openB ∧ ((f l).openA = true → l.openA = true))
    {w : List Link} (I : FInv w) : FInv (w.map f) := by
  refine ⟨I.1.sublist (activeA_map_shrink hc w ?_), ?_⟩
  · intro l _ h
    simp only [Bool.and_eq_true] at h ⊢
    exact ⟨by rw [← (hk l).1]; exact h.1, (hk l).2.2.2 h.2⟩
  · rw [activeB_map_same hc (fun l => ⟨(hk l).2.1, (hk l).2.2.1⟩)]; exact I.2

theorem FInv.closeB (f : Link → Link) (hc : ∀ l, (f l).c = l.c)
    (hk : ∀ l, (f l).authB = l.authB ∧ (f l).authA = l.authA ∧ (f l).openA = l.openA ∧ ((f l).openB = true → l.openB = true))
    {w : List Link} (I : FInv w) : FInv (w.map f) := by
  refine ⟨?_, I.2.sublist (activeB_map_shrink hc w ?_)⟩
  · rw [activeA_map_same hc (fun l => ⟨(hk l).2.1, (hk l).2.2.1⟩)]; exact I.1
  · intro l _ h
    simp only [Bool.and_eq_true] at h ⊢
    exact ⟨by rw [← (hk l).1]; exact h.1, (hk l).2.2.2 h.2⟩

theorem FInv.hsStep (o : Ordering) (ho : o ≠ .eq) {w : List Link} (I : FInv w)
    (hA : ((w.map (·.c)).map (·.idA)).Nodup) (hB : ((w.map (·.c)).map (·.idB)).Nodup) (op : HOp) :
    FInv (hsStep o w op) := by
  cases op with
  | authA a =>
    simp only [Election.hsStep, stepAuthA]
    split
    · refine ⟨?_, ?_⟩
      · rw [activeA_closeLosers]
        apply StA_elected o ho
        have hs := activeA_sublist (markA w a)
        rw [markA_eq, map_c_map (mkA_c a)] at hs
        exact (hs.map _).nodup hA
      · rw [closeLosersA_eq, markA_eq,
          activeB_map_same (clA_c _) (fun l => ⟨(clA_fields _ l).2.1, (clA_fields _ l).2.2⟩),
          activeB_map_same (mkA_c a) (fun l => ⟨(mkA_fields a l).2.2.1, (mkA_fields a l).2.1⟩)]
        exact I.2
    · exact I
  | authB b =>
    simp only [Election.hsStep, stepAuthB]
    split
    · refine ⟨?_, ?_⟩
      · rw [closeLosersB_eq, markB_eq,
          activeA_map_same (clB_c _) (fun l => ⟨(clB_fields _ l).1, (clB_fields _ l).2.2⟩),
          activeA_map_same (mkB_c b) (fun l => ⟨(mkB_fields b l).2.2.1, (mkB_fields b l).1⟩)]
        exact I.1
      · rw [activeB_closeLosers]
        apply StB_elected o ho
        have hs := activeB_sublist (markB w b)
        rw [markB_eq, map_c_map (mkB_c b)] at hs
        exact (hs.map _).nodup hB
    · exact I
  | preA a =>
    simp only [Election.hsStep, stepPreA]
    split
    · exact I.closeA (dropA a) (dropA_c a) (dropA_keeps a)
    · exact I
  | preB b =>
    simp only [Election.hsStep, stepPreB]
    split
    · exact I.closeB (dropB b) (dropB_c b) (dropB_keeps b)
    · exact I
  | seeA a => exact I.closeA (seeAf a) (seeAf_c a) (seeAf_keeps a)
  | seeB b => exact I.closeB (seeBf b) (seeBf_c b) (seeBf_keeps b)

theorem fStep_conns (o : Ordering) (w : List Link) (x : FOp) :
    (fStep o w x).map (·.c) = w.map (·.c) ++ fDials [x] := by
  cases x with
  | dial c => simp [fStep, fDials]
  | hs op => simp [fStep, fDials, hsStep_conns]
  | failA a => simp only [fStep, fDials, List.append_nil]; exact map_c_map (f := dropA a) (dropA_c a) w
  | failB b => simp only [fStep, fDials, List.append_nil]; exact map_c_map (f := dropB b) (dropB_c b) w

theorem FInv.fStep (o : Ordering) (ho : o ≠ .eq) {w : List Link} (I : FInv w)
    (hA : ((w.map (·.c)).map (·.idA)).Nodup) (hB : ((w.map (·.c)).map (·.idB)).Nodup) (x : FOp) :
    FInv (fStep o w x) := by
  cases x with
  | dial c =>
    have e1 := activeA_fresh w c
    have e2 := activeB_fresh w c
    unfold freshLink at e1 e2
    exact ⟨by simp only [Election.fStep]; rw [e1]; exact I.1, by simp only [Election.fStep]; rw [e2]; exact I.2⟩
  | hs op => exact I.hsStep o ho hA hB op
  | failA a => exact I.closeA (dropA a) (dropA_c a) (dropA_keeps a)
  | failB b => exact I.closeB (dropB b) (dropB_c b) (dropB_keeps b)

theorem fDials_cons (x : FOp) (rest : List FOp) : fDials (x :: rest) = fDials [x] ++ fDials rest := by
  cases x <;> simp [fDials]

theorem fRun_aux (o : Ordering) (ho : o ≠ .eq) (ops : List FOp) : ∀ w : List Link, FInv w →
    (((w.map (·.c)) ++ fDials ops).map (·.idA)).Nodup → (((w.map (·.c)) ++ fDials ops).map (·.idB)).Nodup →
    FInv (ops.foldl (fStep o) w) := by
  induction ops with
  | nil => intro w I _ _; exact I
  | cons x rest ih =>
    intro w I hA hB
    simp only [List.foldl_cons]
    rw [fDials_cons, ← List.append_assoc] at hA hB
    have hA0 : ((w.map (·.c)).map (·.idA)).Nodup := by
      rw [List.map_append, List.map_append] at hA
      exact (List.nodup_append.mp (List.nodup_append.mp hA).1).1
    have hB0 : ((w.map (·.c)).map (·.idB)).Nodup := by
      rw [List.map_append, List.map_append] at hB
      exact (List.nodup_append.mp (List.nodup_append.mp hB).1).1
    apply ih _ (I.fStep o ho hA0 hB0 x)
    · rw [fStep_conns]; exact hA
    · rw [fStep_conns]; exact hB

/-- at rest: the same connections on both nodes, and at most one -/
theorem FInv.atRest {w : List Link} (I : FInv w) (hq : hsQuiescent w = true) :
    openOnA w = openOnB w ∧ (openOnA w).length ≤ 1 := by
  unfold hsQuiescent at hq
  rw [List.all_eq_true] at hq
  have hq' : ∀ l ∈ w, l.openA = l.openB ∧ (l.openA = true → l.authA = true ∧ l.authB = true) := by
    intro l hl
    have := hq l hl
    simp only [Bool.and_eq_true, beq_iff_eq, Bool.or_eq_true, Bool.not_eq_true'] at this
    refine ⟨this.1, fun ho => ?_⟩
    rcases this.2 with h | h
    · rw [ho] at h; exact absurd h (by simp)
    · exact h
  have hAB : openOnB w = openOnA w := by
    unfold openOnA openOnB; congr 1; apply List.filter_congr; intro l hl; exact (hq' l hl).1.symm
  have hA1 : openOnA w = activeA w := by
    unfold openOnA activeA; congr 1; apply List.filter_congr; intro l' hl'
    cases ho : l'.openA
    · simp
    · simp [((hq' l' hl').2 ho).1]
  have hB1 : openOnB w = activeB w := by
    unfold openOnB activeB; congr 1; apply List.filter_congr; intro l' hl'
    cases ho : l'.openB
    · simp
    · have : l'.openA = true := by rw [(hq' l' hl').1]; exact ho
      simp [((hq' l' hl').2 this).2]
  refine ⟨hAB.symm, ?_⟩
  have sA : StA (openOnA w) := by rw [hA1]; exact I.1
  have sB : StB (openOnA w) := by rw [← hAB, hB1]; exact I.2
  cases hL : openOnA w with
  | nil => simp
  | cons x t =>
    rw [hL] at sA sB
    cases hd : x.aInit
    · exact sA.2 (fun c hc => by rw [(sA.1 c hc x (by simp)).1]; exact hd)
    · exact sB.2 (fun c hc => by rw [(sB.1 c hc x (by simp)).1]; exact hd)


/-! ### ready events -/

theorem rRun_w_aux (o : Ordering) (ops : List ROp) : ∀ s : RState,
    (ops.foldl (rStep o) s).w = (rProj ops).foldl (fStep o) s.w := by
  induction ops with
  | nil => intro s; rfl
  | cons x rest ih =>
    intro s
    simp only [List.foldl_cons]
    rw [ih]
    cases x with
    | f op => rfl
    | readyA a => simp only [rStep, rProj]; split <;> rfl
    | readyB b => simp only [rStep, rProj]; split <;> rfl

/-- the ready events do not change the world: it is the `fRun` of the other ops -/
theorem rRun_w (o : Ordering) (ops : List ROp) : (rRun o ops).w = fRun o (rProj ops) :=
  rRun_w_aux o ops {}

/-- the invariant at every instant of every run -/
theorem fRun_inv (o : Ordering) (ho : o ≠ .eq) (ops : List FOp)
    (hA : ((fDials ops).map (·.idA)).Nodup) (hB : ((fDials ops).map (·.idB)).Nodup) : FInv (fRun o ops) := by
  have I0 : FInv ([] : List Link) := by
    refine ⟨⟨?_, ?_⟩, ⟨?_, ?_⟩⟩ <;> simp [activeA, activeB]
  exact fRun_aux o ho ops [] I0 (by simpa using hA) (by simpa using hB)

/-- ids of the links of a run are distinct (they are the dialled connections) -/
theorem fRun_conns (o : Ordering) (ops : List FOp) : (fRun o ops).map (·.c) = fDials ops := by
  unfold fRun
  suffices h : ∀ w : List Link, (ops.foldl (fStep o) w).map (·.c) = w.map (·.c) ++ fDials ops by
    simpa using h []
  induction ops with
  | nil => intro w; simp [fDials]
  | cons x rest ih =>
    intro w
    simp only [List.foldl_cons]
    rw [ih, fStep_conns, fDials_cons x rest, List.append_assoc]

end Election
