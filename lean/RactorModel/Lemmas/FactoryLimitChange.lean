import RactorModel.Lemmas.FactoryLimitRun

/-! The queue limit after the discard settings were CHANGED mid-run (a lowered limit): measures for the generic run
argument of `FactoryLimitRun.lean`, started from an arbitrary state instead of `init`. -/

namespace Factory

theorem Meas.mono {D : Option (Nat × Mode)} {μ : Cfg → List Job → Nat} {L L' : Nat} (M : Meas D μ L) (h : L ≤ L') :
    Meas D μ L' :=
  ⟨M.sub, fun w j hd => by have := M.enq w j hd; omega⟩

/-- Oldest after a change: the length of the queue, counted only once something has been ADDED to the queue `q0` that
was there when the settings changed (a sublist of `q0` counts as 0) -/
noncomputable def grownLen (q0 : List Job) (_ : Cfg) (q : List Job) : Nat :=
  open Classical in if q.Sublist q0 then 0 else q.length

theorem grownLen_le (q0 : List Job) (cfg : Cfg) (q : List Job) : grownLen q0 cfg q ≤ q.length := by
  unfold grownLen; split <;> omega

/-- `maybe_enqueue` under `Oldest:L` leaves at most `L` jobs whatever the queue held before; removing jobs keeps a
sublist of `q0` a sublist of `q0` -/
theorem meas_oldest_grown (L : Nat) (q0 : List Job) : Meas (some (L, .oldest)) (grownLen q0) L := by
  refine ⟨?_, ?_⟩
  · intro cfg q r hs
    unfold grownLen
    by_cases hq : q.Sublist q0
    · have hr : r.Sublist q0 := hs.trans hq
      simp [hq, hr]
    · simp only [hq, if_false]
      split
      · omega
      · exact hs.length_le
  · intro w j hd
    exact Nat.le_trans (grownLen_le q0 _ _) (Nat.le_trans (maybeEnqueue_oldest_le w j L hd) (Nat.le_max_left _ _))

theorem grownLen_spec {q0 q : List Job} {cfg : Cfg} {L : Nat} (h : grownLen q0 cfg q ≤ L) : q.length ≤ L ∨ q.Sublist q0 := by
  unfold grownLen at h
  by_cases hq : q.Sublist q0
  · exact Or.inr hq
  · simp only [hq, if_false] at h; exact Or.inl h

/-- OLDEST, lowered limit: from ANY state whose settings are `Oldest:L` (however long its queue is — e.g. right after an
`UpdateSettings` lowered the limit below the backlog) and for EVERY further op sequence that does not change the discard
settings again: at every later quiescent point the factory queue either is within the new limit `L`, or nothing has been
added to it since (it is a sublist of the queue at the change). The first dispatch that backlogs trims it to `L`. -/
theorem oldest_trims_after_change (w : W) (L : Nat) (hd : w.disc = some (L, .oldest))
    (hin : ∀ m ∈ w.inbox, ∀ d n, m ≠ .updateSettings (some d) n) (steps : List Step)
    (hk : steps.all (fun s => s.op.keepsDisc) = true) :
    (w.runSteps steps).queue.length ≤ L ∨ (w.runSteps steps).queue.Sublist w.queue := by
  have h0 : LimInv (some (L, .oldest)) (grownLen w.queue) L w :=
    ⟨hd, by unfold grownLen; simp, hin⟩
  exact grownLen_spec (lim_runSteps (meas_oldest_grown L w.queue) w steps hk h0).bound

/-- NEWEST, lowered limit: from ANY state whose settings are `Newest:L` and for EVERY further op sequence that does not
change the discard settings again, the number of discardable jobs in the factory queue never exceeds
`max L (what it was at the change)`: a lowered limit does not trim the backlog, it only stops it from growing. -/
theorem newest_stops_growing_after_change (w : W) (L : Nat) (hd : w.disc = some (L, .newest))
    (hin : ∀ m ∈ w.inbox, ∀ d n, m ≠ .updateSettings (some d) n) (steps : List Step)
    (hk : steps.all (fun s => s.op.keepsDisc) = true) :
    ((w.runSteps steps).queue.filter (discardable (w.runSteps steps).cfg)).length
      ≤ max L (w.queue.filter (discardable w.cfg)).length := by
  have M := (meas_newest L).mono (Nat.le_max_left L (w.queue.filter (discardable w.cfg)).length)
  have h0 : LimInv (some (L, .newest)) (fun cfg q => (q.filter (discardable cfg)).length)
      (max L (w.queue.filter (discardable w.cfg)).length) w := ⟨hd, Nat.le_max_right _ _, hin⟩
  exact (lim_runSteps M w steps hk h0).bound

/-- the same for Oldest as a plain bound: the queue never exceeds `max L (its length at the change)` -/
theorem oldest_bounded_after_change (w : W) (L : Nat) (hd : w.disc = some (L, .oldest))
    (hin : ∀ m ∈ w.inbox, ∀ d n, m ≠ .updateSettings (some d) n) (steps : List Step)
    (hk : steps.all (fun s => s.op.keepsDisc) = true) :
    (w.runSteps steps).queue.length ≤ max L w.queue.length := by
  rcases oldest_trims_after_change w L hd hin steps hk with h | h
  · omega
  · have := h.length_le; omega

end Factory
