/-!
# Auth — the two handshake state machines (C17)

Transcription of `ractor_cluster/src/node/auth.rs`:
`ServerAuthenticationProcess::{init, start_challenge, next}` and
`ClientAuthenticationProcess::{init, next}`.

* The digest function (`hash::challenge_digest`, SHA-256 of challenge ‖ cookie) is the
  uninterpreted parameter `H : C → Nat → D`; nothing but equality of digests is used.
* The challenges the real code draws with `rand::rng().next_u32()` are inputs (`fresh`):
  theorems hold for every value drawn.

Core Lean only.
-/

namespace Auth

/-- `auth.proto` `NameMessage` (flags are irrelevant to the state machines). -/
structure NameMsg where
  name : String
  conn : String
  connId : Nat
  deriving DecidableEq, Repr

/-- `auth.proto` `AuthenticationMessage.msg` (`empty` = the `oneof` is unset). -/
inductive Msg (D : Type) where
  | name (n : NameMsg)
  | serverStatus (status : Nat)
  | clientStatus (status : Bool)
  | serverChallenge (name conn : String) (challenge : Nat)
  | clientChallenge (challenge : Nat) (digest : D)
  | serverAck (digest : D)
  | empty
  deriving DecidableEq, Repr

/-- `ServerAuthenticationProcess` -/
inductive Server (D : Type) where
  | waitingName
  | havePeerName (n : NameMsg)
  | waitingClientStatus
  /-- `WaitingOnClientChallengeReply(challenge, expected digest)` -/
  | waitingReply (challenge : Nat) (expected : D)
  /-- `Ok(digest to send back)` -/
  | ok (reply : D)
  | close
  deriving DecidableEq, Repr

/-- `ClientAuthenticationProcess` -/
inductive Client (D : Type) where
  | waitingStatus
  | waitingChallenge (status : Nat)
  /-- `WaitingForServerChallengeAck(server challenge msg, reply to server, our challenge, expected digest)` -/
  | waitingAck (srvName srvConn : String) (srvChallenge : Nat) (reply : D) (ours : Nat) (expected : D)
  | ok
  | close
  deriving DecidableEq, Repr

section
variable {C D : Type} [DecidableEq D] (H : C → Nat → D) (cookie : C)

def Server.init : Server D := .waitingName
def Client.init : Client D := .waitingStatus

/-- `start_challenge`: only from `WaitingOnClientStatus` / `HavePeerName`. -/
def Server.startChallenge (fresh : Nat) : Server D → Server D
  | .waitingClientStatus => .waitingReply fresh (H cookie fresh)
  | .havePeerName _ => .waitingReply fresh (H cookie fresh)
  | _ => .close

/-- `ServerAuthenticationProcess::next` -/
def Server.next (fresh : Nat) : Server D → Msg D → Server D
  | .waitingName, .name n => .havePeerName n
  | .waitingClientStatus, .clientStatus b =>
    if b then Server.startChallenge H cookie fresh (.waitingClientStatus : Server D) else .close
  | .waitingReply _ expected, .clientChallenge c dg =>
    if expected = dg then .ok (H cookie c) else .close
  | _, _ => .close

/-- `ClientAuthenticationProcess::next` -/
def Client.next (fresh : Nat) : Client D → Msg D → Client D
  | .waitingStatus, .serverStatus s => .waitingChallenge s
  | .waitingChallenge _, .serverChallenge n cs c =>
    .waitingAck n cs c (H cookie c) fresh (H cookie fresh)
  | .waitingAck _ _ _ _ _ expected, .serverAck dg => if expected = dg then .ok else .close
  | _, _ => .close

end

def Server.isOk {D : Type} : Server D → Bool
  | .ok _ => true
  | _ => false

def Server.isClose {D : Type} : Server D → Bool
  | .close => true
  | _ => false

def Client.isOk {D : Type} : Client D → Bool
  | .ok => true
  | _ => false

def Client.isClose {D : Type} : Client D → Bool
  | .close => true
  | _ => false

/-- The only (state, message) pairs a server does not answer with `Close`. -/
def Server.expects {D : Type} : Server D → Msg D → Bool
  | .waitingName, .name _ => true
  | .waitingClientStatus, .clientStatus true => true
  | .waitingReply _ _, .clientChallenge _ _ => true
  | _, _ => false

/-- The only (state, message) pairs a client does not answer with `Close`. -/
def Client.expects {D : Type} : Client D → Msg D → Bool
  | .waitingStatus, .serverStatus _ => true
  | .waitingChallenge _, .serverChallenge _ _ _ => true
  | .waitingAck _ _ _ _ _ _, .serverAck _ => true
  | _, _ => false

/-- The messages a state goes on with: expected kind and, where a digest is carried, the
right digest. Everything else is a violation. -/
def Server.accepts {D : Type} [DecidableEq D] : Server D → Msg D → Bool
  | .waitingReply _ e, .clientChallenge _ dg => decide (e = dg)
  | s, m => s.expects m

def Client.accepts {D : Type} [DecidableEq D] : Client D → Msg D → Bool
  | .waitingAck _ _ _ _ _ e, .serverAck dg => decide (e = dg)
  | c, m => c.expects m

/-- State invariant: the digest a waiting state expects is the digest of the challenge it holds. -/
def Server.wf {C D : Type} (H : C → Nat → D) (cookie : C) : Server D → Prop
  | .waitingReply c d => d = H cookie c
  | _ => True

def Client.wf {C D : Type} (H : C → Nat → D) (cookie : C) : Client D → Prop
  | .waitingAck _ _ sc reply ours expected => reply = H cookie sc ∧ expected = H cookie ours
  | _ => True

end Auth
