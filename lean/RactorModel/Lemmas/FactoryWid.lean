import RactorModel.Model.FactoryOracle

/-! `WorkerProperties` functions keep the slot id; pool lookups after updates. -/

namespace Factory

theorem getNext_wid (p : WP) (e : Env) : (p.getNext e).2.1.wid = p.wid := rfl

theorem dispatchJob_wid (p : WP) (e : Env) (j : Job) : (p.dispatchJob e j).1.wid = p.wid := by
  unfold WP.dispatchJob; split <;> rfl

theorem shedOldest_wid (limit fuel : Nat) (p : WP) (e : Env) : (shedOldest limit fuel p e).1.wid = p.wid := by
  induction fuel generalizing p e with
  | zero => rfl
  | succ fuel ih =>
    unfold shedOldest
    split
    · cases hn : p.getNext e with
      | mk r pe =>
        obtain ⟨p', e'⟩ := pe
        have hw : p'.wid = p.wid := by
          have := getNext_wid p e; rw [hn] at this; exact this
        cases r with
        | none => simp only; rw [ih]; exact hw
        | some d => simp only; rw [ih]; exact hw
    · rfl

theorem enqueueAccepted_wid (p : WP) (e : Env) (j : Job) : (p.enqueueAccepted e j).1.wid = p.wid := by
  unfold WP.enqueueAccepted
  split
  · cases hn : p.getNext e with
    | mk r pe =>
      obtain ⟨p', e'⟩ := pe
      have hw : p'.wid = p.wid := by
        have := getNext_wid p e; rw [hn] at this; exact this
      cases r with
      | none => simp only; rw [dispatchJob_wid]; exact hw
      | some d => simp only; rw [dispatchJob_wid]; exact hw
  · simp only
    split
    · rw [shedOldest_wid]
    · rfl

theorem enqueueJob_wid (p : WP) (e : Env) (j : Job) : (p.enqueueJob e j).1.wid = p.wid := by
  unfold WP.enqueueJob
  split
  · rfl
  · rw [enqueueAccepted_wid]; rfl

theorem workerComplete_wid (p : WP) (e : Env) (key : Nat) : (p.workerComplete e key).1.wid = p.wid := by
  unfold WP.workerComplete
  split
  · generalize hp0 : ({ p with curr := p.curr.filter (fun x => x.1 != key), pending := p.pending.erase key } : WP) = p0
    have h0 : p0.wid = p.wid := by subst hp0; rfl
    cases hn : p0.getNext e with
    | mk r pe =>
      obtain ⟨p', e'⟩ := pe
      have hw : p'.wid = p0.wid := by
        have := getNext_wid p0 e; rw [hn] at this; exact this
      cases r with
      | none => simp only [hn]; omega
      | some d => simp only [hn]; rw [dispatchJob_wid]; omega
  · rfl

theorem replaceWorker_wid (p : WP) (e : Env) (naid : Nat) : (p.replaceWorker e naid).1.wid = p.wid := by
  unfold WP.replaceWorker
  simp only
  generalize hp0 : ({ p with curr := [], pending := p.curr.foldl (fun acc x => acc.erase x.1) p.pending, actor := naid } : WP) = p0
  have h0 : p0.wid = p.wid := by subst hp0; rfl
  cases hn : p0.getNext e with
  | mk r pe =>
    obtain ⟨p', e'⟩ := pe
    have hw : p'.wid = p0.wid := by
      have := getNext_wid p0 e; rw [hn] at this; exact this
    cases r with
    | none => simp only [hn]; omega
    | some d => simp only [hn]; rw [dispatchJob_wid]; omega

theorem getW_wid {pool : List WP} {wid : Nat} {p : WP} (h : getW pool wid = some p) : p.wid = wid := by
  have := List.find?_some h
  simpa using this

theorem getW_setW_same {pool : List WP} {wid : Nat} {p p' : WP} (h : getW pool wid = some p) (hw : p'.wid = wid) :
    getW (setW pool wid p') wid = some p' := by
  induction pool with
  | nil => simp [getW] at h
  | cons x xs ih =>
    simp only [getW, List.find?_cons] at h
    unfold setW
    cases hx : x.wid == wid
    · simp only [hx] at h
      simp only [Bool.false_eq_true, if_false, getW, List.find?_cons, hx]
      exact ih h
    · have : (p'.wid == wid) = true := by simp [hw]
      simp only [if_true, getW, List.find?_cons, this]

theorem getW_setW_other {pool : List WP} {wid wid' : Nat} {p' : WP} (hne : wid' ≠ wid) (hw : p'.wid = wid) :
    getW (setW pool wid p') wid' = getW pool wid' := by
  induction pool with
  | nil => rfl
  | cons x xs ih =>
    unfold setW
    cases hx : x.wid == wid
    · simp only [Bool.false_eq_true, if_false, getW, List.find?_cons]
      cases hx' : x.wid == wid'
      · exact ih
      · rfl
    · have h1 : (p'.wid == wid') = false := by
        rw [hw]; exact beq_false_of_ne (Ne.symm hne)
      have h2 : (x.wid == wid') = false := by
        have : x.wid = wid := by simpa using hx
        rw [this]; exact beq_false_of_ne (Ne.symm hne)
      simp only [if_true, getW, List.find?_cons, h1, h2]

end Factory
