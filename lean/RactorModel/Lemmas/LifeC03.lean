import RactorModel.Lemmas.Life

/-! Simulation of the `Life` actor by the C03 priority automaton: an accepted kill is still in the
signal port (so the next poll sees it first), an accepted stop is still in the stop port until the
loop picks it (before any supervision event or message), and the automaton's count of pending
supervision events is the length of the supervision queue. -/

namespace Life.C03

structure Aux (a : Actor) (s : St) : Prop where
  kill : s.killed = true ↔ a.sigVal = true
  sup : s.supPending = a.supQ.length

/-- an accepted stop is still in the port -/
def StopOk (a : Actor) (s : St) : Prop := s.stopAcc = true → a.stopVal.isSome = true

def Inv (a : Actor) (s : St) : Prop :=
  a.phase = .done ∨
  (Aux a s ∧ (a.phase = .fresh → a.sigVal = false) ∧ ((∀ r, a.phase ≠ .postStop r) → StopOk a s))

/-! ### neutral events -/

theorem next_exit (s : St) (cb : Cb) (r : Res) (h : s.killed = true → s.grace = true) :
    next s (.exit cb r) = .ok { s with grace := false } := by
  simp only [next]
  cases hk : s.killed with
  | false => simp
  | true => simp [h hk]
theorem next_cancelled (s : St) (cb : Cb) (h : s.killed = true ∨ s.aborted = true) :
    next s (.cancelled cb) = .ok s := by
  simp only [next]
  rcases h with h | h <;> simp [h]
@[simp] theorem next_sendRet (s : St) (b : Bool) (m : Nat) (ok : Bool) : next s (.sendRet b m ok) = .ok s := rfl
@[simp] theorem next_drainRet (s : St) (ok : Bool) : next s (.drainRet ok) = .ok s := rfl
@[simp] theorem next_spawnRet (s : St) (r : SpawnRet) : next s (.spawnRet r) = .ok s := rfl
@[simp] theorem next_emit (s : St) (p : Nat) (e : SupEv) : next s (.emit p e) = .ok s := rfl
@[simp] theorem next_supIs (s : St) (p : Option Nat) : next s (.supIs p) = .ok s := rfl
@[simp] theorem next_aborted (s : St) : next s .aborted = .ok { s with aborted := true } := rfl
@[simp] theorem next_dropped (s : St) : next s .dropped = .ok { s with aborted := true } := rfl
@[simp] theorem next_join (s : St) (r : JoinRes) : next s (.join r) = .ok s := rfl
@[simp] theorem next_fxJoin (s : St) (g : String) : next s (.fxJoin g) = .ok s := rfl
@[simp] theorem next_fxReply (s : St) (k v : Nat) (b : Bool) : next s (.fxReply k v b) = .ok s := rfl
@[simp] theorem next_fxForget (s : St) (k : Nat) (b : Bool) : next s (.fxForget k b) = .ok s := rfl
@[simp] theorem next_callRet (s : St) (k : Nat) (r : CallRes) : next s (.callRet k r) = .ok s := rfl
@[simp] theorem next_callSent (s : St) (k : Nat) (b : Bool) : next s (.callSent k b) = .ok s := rfl
@[simp] theorem next_polled (s : St) : next s .polled = .ok s := rfl
@[simp] theorem next_waitRet (s : St) (w : Nat) (b : Bool) : next s (.waitRet w b) = .ok s := rfl
@[simp] theorem next_snap (s : St) (sn : Snap) : next s (.snap sn) = .ok s := rfl
@[simp] theorem next_isLocal (s : St) : next s .isLocal = .ok s := rfl
@[simp] theorem next_monFan (s : St) (r t : List Nat) (e : SupEv) : next s (.monFan r t e) = .ok s := rfl
@[simp] theorem next_instant (s : St) : next s .instant = .ok s := rfl
@[simp] theorem next_treeKill (s : St) : next s .treeKill = .ok { s with killed := true } := rfl
@[simp] theorem next_supArrive (s : St) (e : SupEv) :
    next s (.supArrive e) = .ok { s with supPending := s.supPending + 1 } := rfl
@[simp] theorem next_stopRet (s : St) (b : Bool) (r : Reason) (ok : Bool) :
    next s (.stopRet b r ok) = .ok (if ok then { s with stopAcc := true } else s) := by
  cases ok <;> rfl
@[simp] theorem next_killRet (s : St) (b : Bool) (ok : Bool) :
    next s (.killRet b ok) = .ok (if ok then { s with killed := true, grace := s.grace || b } else s) := by
  cases ok <;> rfl

theorem next_tick (s : St) (cb : Cb) (h : s.killed = false) : next s (.tick cb) = .ok s := by
  simp [next, h]

theorem next_enter_other (s : St) (cb : Cb) (a : Arg) (h : s.killed = false)
    (hcb : cb ≠ .handle ∧ cb ≠ .sup) : next s (.enter cb a) = .ok s := by
  cases cb <;> simp_all [next]

/-! ### exit paths -/

theorem cleanup_acc (a : Actor) (e : Option SupEv) (s : St) :
    accepts next s (evs (cleanup a e).2) = .ok s := by
  unfold cleanup
  split
  · simp
  · cases e <;> cases hs : a.sup <;> cases hm : a.mons <;> simp [Actor.setStatus, hs, hm, notifyOuts, accepts_cons]

theorem finish_sim (a : Actor) (e : SupEv) (s : St) : Sim next Inv s (finish a e) := by
  refine ⟨s, ?_, ?_⟩
  · simp [finish, accepts_append next _ (cleanup_acc a (some e) s), accepts_cons]
  · left; simp [finish, Actor.dropPorts]

theorem failSpawn_sim (a : Actor) (r : SpawnRet) (s : St) : Sim next Inv s (failSpawn a r) := by
  refine ⟨s, ?_, ?_⟩
  · simp [failSpawn, accepts_append next _ (cleanup_acc a none s), accepts_cons]
  · left; simp [failSpawn, Actor.dropPorts]

theorem killedOutsideLoop_sim (a : Actor) (s : St) : Sim next Inv s (killedOutsideLoop a) := by
  unfold killedOutsideLoop
  refine Sim.andThen next (R1 := fun _ s1 => s1 = s) ⟨s, by simp [handleSignal], rfl⟩ ?_
  intro a1 s1 h; subst h; exact finish_sim _ _ _

theorem killedInLoop_sim (a : Actor) (s : St) : Sim next Inv s (killedInLoop a) := by
  unfold killedInLoop
  refine Sim.andThen next (R1 := fun _ s1 => s1 = s) ⟨s, by simp [handleSignal], rfl⟩ ?_
  intro a1 s1 h; subst h; exact finish_sim _ _ _

/-! ### the message loop: the biased choice -/

theorem enterPostStop_sim (a : Actor) (r : Reason) (s : St) (hk : s.killed = false) (hsig : a.sigVal = false)
    (hq : s.supPending = a.supQ.length) : Sim next Inv s (enterPostStop a r) := by
  refine ⟨s, by simp [enterPostStop, accepts_cons, next, hk], Or.inr ⟨⟨?_, ?_⟩, ?_, ?_⟩⟩
  · simp [hk, enterPostStop, Actor.setStatus, hsig]
  · simpa [enterPostStop, Actor.setStatus] using hq
  · simp [enterPostStop]
  · intro h; exact absurd rfl (h r)

theorem listen_sim (a : Actor) (s : St) (hx : Aux a s) (hs : StopOk a s) : Sim next Inv s (listen a) := by
  unfold listen
  split
  · exact killedInLoop_sim _ _
  · rename_i hsig
    have hk : s.killed = false := by
      cases h : s.killed with
      | false => rfl
      | true => exact absurd (hx.kill.mp h) hsig
    simp only []
    split
    · exact enterPostStop_sim _ _ _ hk (by simpa using hsig) (by simpa using hx.sup)
    · rename_i hstop
      have hsa : s.stopAcc = false := by
        cases h : s.stopAcc with
        | false => rfl
        | true => have := hs h; simp_all
      split
      · rename_i e q hq
        have hq' : a.supQ = e :: q := hq
        have hp : s.supPending = q.length + 1 := by rw [hx.sup, hq']; rfl
        refine ⟨{ s with supPending := s.supPending - 1 }, ?_, Or.inr ⟨⟨?_, ?_⟩, ?_, ?_⟩⟩
        · simp [accepts_cons, next, hk, hsa, hp]
        · simp [hk, hsig]
        · simp [hp]
        · simp
        · intro _ h; simp [hsa] at h
      · rename_i hq
        have hq' : a.supQ = [] := hq
        have hp : s.supPending = 0 := by rw [hx.sup, hq']; rfl
        split
        · refine ⟨s, ?_, Or.inr ⟨⟨?_, ?_⟩, ?_, ?_⟩⟩
          · simp [accepts_cons, next, hk, hsa, hp]
          · simp [hk, hsig]
          · simp [hp, hq']
          · simp
          · intro _ h; simp [hsa] at h
        · refine ⟨s, ?_, Or.inr ⟨⟨?_, ?_⟩, ?_, ?_⟩⟩
          · simp [accepts_cons, next, hk, hsa, hp]
          · simp [hk, hsig]
          · simp [hp, hq']
          · simp
          · intro _ h; simp [hsa] at h
        · exact enterPostStop_sim _ _ _ hk (by simpa using hsig) (by simp [hp, hq'])
        · refine ⟨s, by simp, Or.inr ⟨⟨?_, ?_⟩, ?_, ?_⟩⟩
          · simp [hk, hsig]
          · simp [hp, hq']
          · simp
          · intro _ h; simp [hsa] at h

/-! ### side effects of a segment -/

theorem apiSend_proj (a : Actor) (m : Nat) :
    (apiSend a m).1.phase = a.phase ∧ (apiSend a m).1.sigVal = a.sigVal ∧
    (apiSend a m).1.stopVal = a.stopVal ∧ (apiSend a m).1.supQ = a.supQ := by
  unfold apiSend; (repeat' split) <;> simp

theorem apiStop_proj (a : Actor) (r : Reason) :
    (apiStop a r).1.phase = a.phase ∧ (apiStop a r).1.sigVal = a.sigVal ∧
    (apiStop a r).1.supQ = a.supQ ∧
    ((apiStop a r).2 = true → (apiStop a r).1.stopVal.isSome = true) ∧
    ((apiStop a r).2 = false → (apiStop a r).1.stopVal = a.stopVal) := by
  unfold apiStop; (repeat' split) <;> simp

theorem apiKill_proj (a : Actor) :
    (apiKill a).1.phase = a.phase ∧ (apiKill a).1.stopVal = a.stopVal ∧
    (apiKill a).1.supQ = a.supQ ∧
    ((apiKill a).2 = true → (apiKill a).1.sigVal = true) ∧
    (a.sigVal = true → (apiKill a).1.sigVal = true) ∧
    ((apiKill a).2 = false → (apiKill a).1.sigVal = a.sigVal) := by
  unfold apiKill; (repeat' split) <;> simp_all

theorem apiDrain_proj (a : Actor) :
    (apiDrain a).1.phase = a.phase ∧ (apiDrain a).1.sigVal = a.sigVal ∧
    (apiDrain a).1.stopVal = a.stopVal ∧ (apiDrain a).1.supQ = a.supQ := by
  unfold apiDrain; simp only []; (repeat' split) <;> simp

/-- `Aux`, and `StopOk` if it held (`b`), after side effects; the phase did not move. -/
def FxRel (ph : Phase) (b : Prop) (a : Actor) (s : St) : Prop :=
  a.phase = ph ∧ Aux a s ∧ (b → StopOk a s)

theorem send_rel {a : Actor} {s : St} (m : Nat) (hx : Aux a s) :
    FxRel a.phase (StopOk a s) (apiSend a m).1 s := by
  obtain ⟨h1, h2, h3, h4⟩ := apiSend_proj a m
  exact ⟨h1, ⟨by rw [h2]; exact hx.kill, by rw [h4]; exact hx.sup⟩, fun hs => by unfold StopOk; rw [h3]; exact hs⟩

theorem stop_rel {a : Actor} {s : St} (r : Reason) (hx : Aux a s) :
    FxRel a.phase (StopOk a s) (apiStop a r).1 (if (apiStop a r).2 then { s with stopAcc := true } else s) := by
  obtain ⟨h1, h2, h3, h4, h5⟩ := apiStop_proj a r
  cases hr : (apiStop a r).2 with
  | true =>
    exact ⟨h1, ⟨by simpa [h2] using hx.kill, by simpa [h3] using hx.sup⟩, fun _ _ => h4 hr⟩
  | false =>
    exact ⟨h1, ⟨by simpa [h2] using hx.kill, by simpa [h3] using hx.sup⟩,
      fun hs => by unfold StopOk at hs ⊢; rw [h5 hr]; simpa using hs⟩

theorem kill_rel {a : Actor} {s : St} (b : Bool) (hx : Aux a s) :
    FxRel a.phase (StopOk a s) (apiKill a).1
      (if (apiKill a).2 then { s with killed := true, grace := s.grace || b } else s) := by
  obtain ⟨h1, h2, h3, h4, h5, h6⟩ := apiKill_proj a
  cases hr : (apiKill a).2 with
  | true =>
    exact ⟨h1, ⟨⟨fun _ => h4 hr, fun _ => rfl⟩, by simpa [h3] using hx.sup⟩, fun hs => by unfold StopOk at hs ⊢; rw [h2]; simpa using hs⟩
  | false =>
    exact ⟨h1, ⟨by rw [h6 hr]; simpa using hx.kill, by simpa [h3] using hx.sup⟩,
      fun hs => by unfold StopOk at hs ⊢; rw [h2]; simpa using hs⟩

theorem runFx_sim (a : Actor) (s : St) (f : Fx) (hx : Aux a s) :
    Sim next (FxRel a.phase (StopOk a s)) s (runFx a f) := by
  cases f with
  | sendSelf m => exact ⟨s, by simp [runFx, accepts_cons], send_rel m hx⟩
  | stopSelf r => exact ⟨_, by simp [runFx, accepts_cons], stop_rel _ hx⟩
  | killSelf => exact ⟨_, by simp [runFx, accepts_cons], kill_rel true hx⟩
  | joinGroup g =>
    refine ⟨s, by simp [runFx, accepts_cons], ?_⟩
    simp only [runFx]
    split <;> exact ⟨rfl, ⟨hx.kill, hx.sup⟩, id⟩
  | reply k v =>
    simp only [runFx]
    split <;> exact ⟨s, by simp [accepts_cons], rfl, ⟨hx.kill, hx.sup⟩, id⟩
  | forget k =>
    simp only [runFx]
    split <;> exact ⟨s, by simp [accepts_cons], rfl, ⟨hx.kill, hx.sup⟩, id⟩
  | spawnChild c => exact ⟨s, by simp [runFx, accepts_cons, next], rfl, ⟨hx.kill, hx.sup⟩, id⟩

theorem runFxs_sim (fs : List Fx) (a : Actor) (s : St) (hx : Aux a s) :
    Sim next (FxRel a.phase (StopOk a s)) s (runFxs a fs) := by
  induction fs generalizing a s with
  | nil => exact ⟨s, rfl, rfl, hx, id⟩
  | cons f fs ih =>
    unfold runFxs
    refine Sim.andThen next (runFx_sim a s f hx) ?_
    intro a1 s1 ⟨hp, hx1, hs1⟩
    refine Sim.mono next (ih a1 s1 hx1) ?_
    intro a2 s2 ⟨hp2, hx2, hs2⟩
    exact ⟨by rw [hp2, hp], hx2, fun h => hs2 (hs1 h)⟩

/-! ### a segment inside an open callback -/

/-- A kill was accepted only from inside the segment that is executing. -/
def Grace (s : St) : Prop := s.killed = true → s.grace = true

/-- The events a segment's side effects produce. -/
def isSelfFx : Ev → Bool
  | .sendRet true _ _ | .stopRet true _ _ | .killRet true _ | .fxJoin _ | .fxReply _ _ _ | .fxForget _ _
  | .fxSpawn _ _ => true
  | _ => false

theorem runFx_selfFx (a : Actor) (f : Fx) : ∀ e ∈ evs (runFx a f).2, isSelfFx e = true := by
  cases f <;> simp only [runFx] <;> (try split) <;> simp [isSelfFx]

theorem runFxs_selfFx (fs : List Fx) (a : Actor) : ∀ e ∈ evs (runFxs a fs).2, isSelfFx e = true := by
  induction fs generalizing a with
  | nil => simp [runFxs]
  | cons f fs ih =>
    intro e he
    simp only [runFxs, andThen_snd, evs_append, List.mem_append] at he
    rcases he with he | he
    · exact runFx_selfFx a f e he
    · exact ih _ e he

theorem next_grace {s s1 : St} {e : Ev} (h : next s e = .ok s1) (he : isSelfFx e = true) (hg : Grace s) :
    Grace s1 := by
  unfold Grace at *
  cases e with
  | sendRet b m ok => cases h; exact hg
  | stopRet b r ok => cases ok <;> (cases h; exact hg)
  | killRet b ok =>
    cases b with
    | false => simp [isSelfFx] at he
    | true => cases ok <;> (cases h; first | exact hg | (intro _; simp))
  | fxJoin g => cases h; exact hg
  | fxReply k v ok => cases h; exact hg
  | fxForget k ok => cases h; exact hg
  | fxSpawn c l => cases h; exact hg
  | _ => simp [isSelfFx] at he

theorem accepts_grace {tr : List Ev} {s s' : St} (h : accepts next s tr = .ok s')
    (he : ∀ e ∈ tr, isSelfFx e = true) (hg : Grace s) : Grace s' := by
  induction tr generalizing s with
  | nil => simp only [accepts_nil] at h; cases h; exact hg
  | cons e es ih =>
    rw [accepts_cons] at h
    cases hn : next s e with
    | error c => simp [hn] at h
    | ok s1 =>
      simp only [hn] at h
      exact ih h (fun x hx => he x (by simp [hx])) (next_grace hn (he e (by simp)) hg)

theorem Aux.noGrace {a : Actor} {s : St} (h : Aux a s) : Aux a { s with grace := false } := ⟨h.kill, h.sup⟩

theorem runSeg_sim (a : Actor) (s : St) (cb : Cb) (sg : Seg) (k : Actor → Res → M)
    (hx : Aux a s) (hsig : a.sigVal = false) (hnf : a.phase ≠ .fresh)
    (hso : (∀ r, a.phase ≠ .postStop r) → StopOk a s)
    (hk : ∀ a1 s1 r, a1.phase = a.phase → Aux a1 s1 → (StopOk a s → StopOk a1 s1) → Sim next Inv s1 (k a1 r)) :
    Sim next Inv s (runSeg a cb sg k) := by
  have hkf : s.killed = false := by
    cases h : s.killed with
    | false => rfl
    | true => have := hx.kill.mp h; simp_all
  unfold runSeg
  refine Sim.andThen next (R1 := fun a1 s1 => a1 = a ∧ s1 = s) ⟨s, by simp [say, accepts_cons, next_tick s cb hkf], rfl, rfl⟩ ?_
  rintro a1 s1 ⟨rfl, rfl⟩
  refine Sim.andThen' next (runFxs_sim sg.fx a1 s1 hx) ?_
  intro a2 s2 ⟨hp, hx2, hs2⟩ hacc
  have hg2 : Grace s2 := accepts_grace hacc (runFxs_selfFx sg.fx a1) (by intro hk'; rw [hkf] at hk'; cases hk')
  have hs2' : StopOk a1 s1 → StopOk a2 { s2 with grace := false } := fun h => hs2 h
  cases ht : sg.term with
  | tick =>
    refine ⟨s2, rfl, Or.inr ⟨⟨by simpa using hx2.kill, by simpa using hx2.sup⟩, ?_, ?_⟩⟩
    · intro h; exact absurd (show a2.phase = .fresh from h) (by rw [hp]; exact hnf)
    · intro h; exact hs2 (hso (by intro r; have := h r; rwa [hp] at this))
  | ok =>
    simp only []
    refine Sim.andThen next (R1 := fun a3 s3 => a3 = a2 ∧ s3 = { s2 with grace := false })
      ⟨_, by simp [say, accepts_cons, next_exit s2 _ _ hg2], rfl, rfl⟩ ?_
    rintro a3 s3 ⟨rfl, rfl⟩
    exact hk a3 _ .ok hp hx2.noGrace hs2'
  | err n =>
    simp only []
    refine Sim.andThen next (R1 := fun a3 s3 => a3 = a2 ∧ s3 = { s2 with grace := false })
      ⟨_, by simp [say, accepts_cons, next_exit s2 _ _ hg2], rfl, rfl⟩ ?_
    rintro a3 s3 ⟨rfl, rfl⟩
    exact hk a3 _ (.err n) hp hx2.noGrace hs2'
  | panic n =>
    simp only []
    refine Sim.andThen next (R1 := fun a3 s3 => a3 = a2 ∧ s3 = { s2 with grace := false })
      ⟨_, by simp [say, accepts_cons, next_exit s2 _ _ hg2], rfl, rfl⟩ ?_
    rintro a3 s3 ⟨rfl, rfl⟩
    exact hk a3 _ (.panic n) hp hx2.noGrace hs2'

/-! ### the ops -/

/-- The part of `Inv` that holds while the actor is not done. -/
structure Live (a : Actor) (s : St) : Prop where
  aux : Aux a s
  fresh : a.phase = .fresh → a.sigVal = false
  stop : (∀ r, a.phase ≠ .postStop r) → StopOk a s

theorem Live.congr {a a' : Actor} {s : St} (h0 : a'.phase = a.phase) (h1 : a'.sigVal = a.sigVal)
    (h2 : a'.stopVal = a.stopVal) (h3 : a'.supQ = a.supQ) (h : Live a s) : Live a' s :=
  ⟨⟨by rw [h1]; exact h.aux.kill, by rw [h3]; exact h.aux.sup⟩, by rw [h0, h1]; exact h.fresh,
   by rw [h0]; unfold StopOk; rw [h2]; exact h.stop⟩

theorem Inv.congr {a a' : Actor} {s : St} (h0 : a'.phase = a.phase) (h1 : a'.sigVal = a.sigVal)
    (h2 : a'.stopVal = a.stopVal) (h3 : a'.supQ = a.supQ) (h : Inv a s) : Inv a' s := by
  rcases h with h | ⟨hx, hf, hs⟩
  · left; rw [h0, h]
  · right
    have := Live.congr h0 h1 h2 h3 ⟨hx, hf, hs⟩
    exact ⟨this.aux, this.fresh, this.stop⟩

theorem Inv.live {a : Actor} {s : St} (h : Inv a s) (hnd : a.phase ≠ .done) : Live a s := by
  rcases h with h | ⟨hx, hf, hs⟩
  · exact absurd h hnd
  · exact ⟨hx, hf, hs⟩

theorem Live.inv {a : Actor} {s : St} (h : Live a s) : Inv a s := Or.inr ⟨h.aux, h.fresh, h.stop⟩

theorem Live.notKilled {a : Actor} {s : St} (h : Live a s) (hsig : a.sigVal = false) : s.killed = false := by
  cases hk : s.killed with
  | false => rfl
  | true => have := h.aux.kill.mp hk; simp_all

theorem afterExit_sim (a : Actor) (s : St) (r : Res) (hx : Aux a s)
    (hs : (∀ r, a.phase ≠ .postStop r) → StopOk a s) : Sim next Inv s (afterExit a r) := by
  unfold afterExit
  split
  · rename_i hph
    refine Sim.andThen next (R1 := fun a1 s1 => s1 = s ∧ Aux a1 s1 ∧ StopOk a1 s1) ?_ ?_
    · refine ⟨s, ?_, rfl, ⟨hx.kill, hx.sup⟩, hs (by simp [hph])⟩
      cases hsup : a.sup <;> cases hm : a.mons <;> simp [Actor.setStatus, accepts_cons, hsup, hm, notifyOuts]
    · rintro a1 s1 ⟨rfl, hx1, hs1⟩
      exact listen_sim a1 s1 hx1 hs1
  · rename_i hph; exact listen_sim a s hx (hs (by simp [hph]))
  · rename_i hph; exact listen_sim a s hx (hs (by simp [hph]))
  · exact finish_sim _ _ _
  · exact finish_sim _ _ _
  · exact finish_sim _ _ _
  · exact finish_sim _ _ _

theorem afterPre_sim (a : Actor) (s : St) (supOk : Bool) (r : Res) (hx : Aux a s) (hs : StopOk a s) :
    Sim next Inv s (afterPre a supOk r) := by
  unfold afterPre
  split
  · exact failSpawn_sim _ _ _
  · exact failSpawn_sim _ _ _
  · split
    · split
      · exact failSpawn_sim _ _ _
      · exact ⟨s, by simp [accepts_cons], Or.inr ⟨⟨by simpa using hx.kill, by simpa using hx.sup⟩, by simp, fun _ => by simpa [StopOk] using hs⟩⟩
    · exact ⟨s, by simp [accepts_cons], Or.inr ⟨⟨hx.kill, hx.sup⟩, by simp, fun _ => hs⟩⟩

theorem pollOpen_sim (a : Actor) (s : St) (cb : Cb) (h : Live a s) (hnf : a.phase ≠ .fresh) :
    Sim next Inv s (pollOpen a cb) := by
  unfold pollOpen
  simp only []
  split
  · rename_i hsig
    have hkill : s.killed = true := h.aux.kill.mpr (by simpa using hsig)
    refine Sim.andThen next (R1 := fun _ _ => True)
      ⟨s, by simp [say, accepts_cons, next_cancelled s cb (Or.inl hkill)], trivial⟩ ?_
    intro a1 s1 _
    split
    · exact killedInLoop_sim _ _
    · exact killedInLoop_sim _ _
    · exact killedOutsideLoop_sim _ _
  · rename_i hsig
    have hsig' : a.sigVal = false := by simpa using hsig
    split
    · exact ⟨s, rfl, (h.congr (by rfl) (by rfl) (by rfl) (by rfl)).inv⟩
    · rename_i sg hsg
      have hl : Live _ s := h.congr (a' := { a with woken := false, sigW := true, seg := none }) (by rfl) (by rfl) (by rfl) (by rfl)
      refine runSeg_sim _ s cb sg afterExit hl.aux hsig' hnf hl.stop ?_
      intro a1 s1 r hp hx1 hs1
      refine afterExit_sim a1 s1 r hx1 ?_
      intro hr
      exact hs1 (hl.stop (by intro r'; have := hr r'; rwa [hp] at this))

theorem opPoll_sim (a : Actor) (s : St) (h : Inv a s) : Sim next Inv s (opPoll a) := by
  unfold opPoll
  split
  · rename_i hph
    have hl := h.live (by simp [hph])
    simp only []
    split
    · exact killedOutsideLoop_sim _ _
    · rename_i hsig
      have hkf := hl.notKilled (by simpa using hsig)
      refine ⟨s, by simp [accepts_cons, next_enter_other s _ _ hkf], Or.inr ⟨⟨?_, ?_⟩, ?_, ?_⟩⟩
      · simpa using hl.aux.kill
      · simpa using hl.aux.sup
      · simp
      · intro _; have := hl.stop (by simp [hph]); simpa [StopOk] using this
  · rename_i hph
    have hl := h.live (by simp [hph])
    exact listen_sim _ s ⟨by simpa using hl.aux.kill, by simpa using hl.aux.sup⟩
      (by have := hl.stop (by simp [hph]); simpa [StopOk] using this)
  · rename_i hph; exact pollOpen_sim a s _ (h.live (by simp [hph])) (by simp [hph])
  · rename_i hph; exact pollOpen_sim a s _ (h.live (by simp [hph])) (by simp [hph])
  · rename_i hph; exact pollOpen_sim a s _ (h.live (by simp [hph])) (by simp [hph])
  · rename_i hph; exact pollOpen_sim a s _ (h.live (by simp [hph])) (by simp [hph])
  · exact ⟨s, rfl, h⟩

theorem opSpawn_sim (a : Actor) (s : St) (sup : Option Nat) (name : Option String) (nameFree : Bool)
    (isLocal supOk : Bool) (h : Inv a s) : Sim next Inv s (opSpawn a sup name nameFree isLocal supOk) := by
  unfold opSpawn
  split
  · rename_i hph
    split
    · exact ⟨s, by simp [accepts_cons], h⟩
    have hl := h.live (by simp [hph])
    have hkf := hl.notKilled (hl.fresh hph)
    have hnew : ∀ a' : Actor, a'.phase = .pre → a'.sigVal = a.sigVal → a'.stopVal = a.stopVal →
        a'.supQ = a.supQ → Inv a' s := by
      intro a' h0 h1 h2 h3
      refine Or.inr ⟨⟨by rw [h1]; exact hl.aux.kill, by rw [h3]; exact hl.aux.sup⟩, by rw [h0]; simp, ?_⟩
      intro _
      have := hl.stop (by simp [hph])
      unfold StopOk at this ⊢
      rw [h2]; exact this
    split
    · split
      · split
        · exact ⟨s, by simp [accepts_cons], h⟩
        · exact ⟨s, by simp [accepts_cons, next_enter_other s _ _ hkf], hnew _ rfl rfl rfl rfl⟩
      · exact ⟨s, by simp [accepts_cons, next_enter_other s _ _ hkf], hnew _ rfl rfl rfl rfl⟩
    · exact ⟨s, by simp [accepts_cons, next_enter_other s _ _ hkf], hnew _ rfl rfl rfl rfl⟩
  · exact ⟨s, rfl, h⟩

theorem beginPre_sim (a : Actor) (s : St) (hl : Live a s) (hnf : a.phase ≠ .fresh)
    (hnp : ∀ r, a.phase ≠ .postStop r) : Sim next Inv s (beginPre a) := by
  unfold beginPre
  split
  · refine Sim.andThen next (R1 := fun _ _ => True) ⟨s, by simp [handleSignal], trivial⟩ ?_
    intro a1 s1 _
    exact failSpawn_sim _ _ _
  · rename_i hsig
    have hkf := hl.notKilled (by simpa using hsig)
    refine ⟨s, by simp [accepts_cons, next_enter_other s _ _ hkf], Or.inr ⟨⟨hl.aux.kill, hl.aux.sup⟩, by simp, ?_⟩⟩
    intro _
    exact hl.stop hnp

theorem startInstant_sim (a : Actor) (s : St) (supOk : Bool) (hl : Live a s) (hph : a.phase = .cell) :
    Sim next Inv s (startInstant a supOk) := by
  unfold startInstant
  have hnf : a.phase ≠ .fresh := by simp [hph]
  have hnp : ∀ r, a.phase ≠ .postStop r := by simp [hph]
  split
  · exact failSpawn_sim _ _ _
  · simp only []
    split
    · split
      · split
        · exact failSpawn_sim _ _ _
        · refine Sim.andThen next (R1 := fun a1 s1 => s1 = s ∧ a1.phase = .cell ∧ Live a1 s)
            ⟨s, by simp, rfl, by simpa using hph, hl.congr (by simp) (by simp) (by simp) (by simp)⟩ ?_
          rintro a1 s1 ⟨rfl, h1, h2⟩
          exact beginPre_sim a1 s1 h2 (by simp [h1]) (by simp [h1])
      · exact beginPre_sim _ s (hl.congr (by rfl) (by rfl) (by rfl) (by rfl)) hnf hnp
    · exact beginPre_sim _ s (hl.congr (by rfl) (by rfl) (by rfl) (by rfl)) hnf hnp

theorem opSpawnInstant_sim (a : Actor) (s : St) (sup : Option Nat) (name : Option String) (nameFree : Bool)
    (isLocal : Bool) (h : Inv a s) : Sim next Inv s (opSpawnInstant a sup name nameFree isLocal) := by
  unfold opSpawnInstant
  split
  · rename_i hph
    split
    · exact ⟨s, by simp [accepts_cons], h⟩
    · have hl := h.live (by simp [hph])
      split
      · exact ⟨s, by simp [accepts_cons], Or.inr ⟨⟨hl.aux.kill, hl.aux.sup⟩, by simp, fun _ => hl.stop (by simp [hph])⟩⟩
      · exact ⟨s, by simp [accepts_cons], Or.inr ⟨⟨hl.aux.kill, hl.aux.sup⟩, by simp, fun _ => hl.stop (by simp [hph])⟩⟩
  · exact ⟨s, rfl, h⟩

theorem opPollSpawn_sim (a : Actor) (s : St) (supOk : Bool) (h : Inv a s) :
    Sim next Inv s (opPollSpawn a supOk) := by
  unfold opPollSpawn
  split
  · rename_i hph
    exact startInstant_sim a s supOk (h.live (by simp [hph])) hph
  · rename_i hph
    have hl := h.live (by simp [hph])
    split
    · rename_i hsig
      have hkill : s.killed = true := hl.aux.kill.mpr hsig
      refine Sim.andThen next (R1 := fun _ _ => True)
        ⟨s, by simp [say, accepts_cons, next_cancelled s _ (Or.inl hkill)], trivial⟩ ?_
      intro a1 s1 _
      refine Sim.andThen next (R1 := fun _ _ => True) ⟨s1, by simp [handleSignal], trivial⟩ ?_
      intro a2 s2 _
      exact failSpawn_sim _ _ _
    · rename_i hsig
      split
      · exact ⟨s, rfl, h⟩
      · rename_i sg hsg
        have hl' : Live _ s := hl.congr (a' := { a with seg := none }) (by rfl) (by rfl) (by rfl) (by rfl)
        refine runSeg_sim _ s .preStart sg _ hl'.aux (by simpa using hsig) (by show a.phase ≠ _; simp [hph]) hl'.stop ?_
        intro a1 s1 r hp hx1 hs1
        exact afterPre_sim a1 s1 supOk r hx1 (hs1 (hl'.stop (by show ∀ r, a.phase ≠ _; simp [hph])))
  · exact ⟨s, rfl, h⟩

theorem opDropSpawn_sim (a : Actor) (s : St) (h : Inv a s) : Sim next Inv s (opDropSpawn a) := by
  unfold opDropSpawn
  split
  · refine ⟨{ s with aborted := true }, ?_, Or.inl (by simp [Actor.dropPorts])⟩
    simp only [andThen_snd, evs_append, evs_cons_ev, evs_cons_note, evs_nil]
    rw [List.cons_append, List.nil_append, accepts_cons_ok next _ (next_dropped s)]
    rw [accepts_append next _ (cleanup_acc _ none _)]
    rfl
  · refine ⟨{ s with aborted := true }, ?_, Or.inl (by simp [Actor.dropPorts])⟩
    simp only [andThen_snd, evs_append, evs_cons_ev, evs_nil, evs_ite_note, List.append_nil]
    rw [List.cons_append, List.cons_append, List.nil_append]
    rw [accepts_cons_ok next _ (next_dropped s), accepts_cons_ok next _ (next_cancelled _ _ (Or.inr rfl))]
    exact cleanup_acc _ none _
  · exact ⟨s, rfl, h⟩

theorem opAbort_sim (a : Actor) (s : St) (h : Inv a s) : Sim next Inv s (opAbort a) := by
  unfold opAbort
  split
  · refine Sim.andThen next (R1 := fun _ s1 => s1 = { s with aborted := true }) ?_ ?_
    · cases hcb : a.phase.openCb with
      | none => exact ⟨_, by simp [accepts_cons], rfl⟩
      | some cb =>
        exact ⟨_, by simp [accepts_cons, next_cancelled ({ s with aborted := true }) cb (Or.inr rfl)], rfl⟩
    · rintro a1 s1 rfl
      refine ⟨{ s with aborted := true }, ?_, Or.inl (by simp [Actor.dropPorts])⟩
      simp only [andThen_snd, evs_append, evs_cons_ev, evs_nil]
      rw [accepts_append next _ (cleanup_acc _ _ _)]
      simp [accepts_cons]
  · exact ⟨s, rfl, h⟩

theorem opResume_sim (a : Actor) (s : St) (sg : Seg) (h : Inv a s) : Sim next Inv s (opResume a sg) := by
  unfold opResume
  split
  · exact ⟨s, rfl, h⟩
  · split
    · exact ⟨s, rfl, h⟩
    · exact ⟨s, rfl, h.congr (by rfl) (by rfl) (by rfl) (by rfl)⟩

theorem live_of_rel {a a' : Actor} {s s' : St} (h : Live a s) (hnf : a.phase ≠ .fresh)
    (hr : FxRel a.phase (StopOk a s) a' s') : Live a' s' :=
  ⟨hr.2.1, by rw [hr.1]; intro hf; exact absurd hf hnf,
   fun hp => hr.2.2 (h.stop (by intro r; have := hp r; rwa [hr.1] at this))⟩

theorem Inv_of_rel {a a' : Actor} {s s' : St} (h : Inv a s) (hnf : a.phase ≠ .fresh)
    (hr : Aux a s → FxRel a.phase (StopOk a s) a' s') (hp : a'.phase = a.phase) : Inv a' s' := by
  by_cases hd : a.phase = .done
  · left; rw [hp, hd]
  · exact (live_of_rel (h.live hd) hnf (hr (h.live hd).aux)).inv

theorem envOp_sim (a : Actor) (s : St) (op : AOp) (h : Inv a s) (hnf : a.phase ≠ .fresh) :
    Sim next Inv s (a.envOp op) := by
  cases op with
  | send m =>
    exact ⟨s, by simp [Actor.envOp, accepts_cons], Inv_of_rel h hnf (send_rel m) (apiSend_proj a m).1⟩
  | stop r =>
    exact ⟨_, by simp [Actor.envOp, accepts_cons], Inv_of_rel h hnf (stop_rel _) (apiStop_proj a _).1⟩
  | kill =>
    exact ⟨_, by simp [Actor.envOp, accepts_cons], Inv_of_rel h hnf (kill_rel false) (apiKill_proj a).1⟩
  | drain =>
    obtain ⟨h1, h2, h3, h4⟩ := apiDrain_proj a
    exact ⟨s, by simp [Actor.envOp, accepts_cons], h.congr h1 h2 h3 h4⟩
  | supArrive e =>
    simp only [Actor.envOp, opSupArrive]
    split
    · rename_i hpo
      refine ⟨{ s with supPending := s.supPending + 1 }, by simp [accepts_cons], ?_⟩
      have hnd : a.phase ≠ .done := by intro hd; simp [Actor.portsOpen, hd] at hpo
      have hl := h.live hnd
      exact Or.inr ⟨⟨by simpa using hl.aux.kill, by simp [hl.aux.sup]⟩, by simpa using hl.fresh,
        by intro hp; have := hl.stop hp; simpa [StopOk] using this⟩
    · rename_i hpo
      refine ⟨{ s with supPending := s.supPending + 1 }, by simp [accepts_cons], Or.inl ?_⟩
      cases hph : a.phase <;> simp_all [Actor.portsOpen]
  | treeTaken =>
    simp only [Actor.envOp, opTreeTaken]
    obtain ⟨h1, h2, h3, h4, h5, h6⟩ := apiKill_proj { a with sup := none }
    split
    · cases hk : (apiKill { a with sup := none }).2 with
      | false =>
        refine ⟨s, by simp [hk], ?_⟩
        by_cases hd : a.phase = .done
        · left; simp_all
        · have hl := h.live hd
          right
          refine ⟨⟨?_, ?_⟩, ?_, ?_⟩
          · exact ⟨fun hk' => h5 (hl.aux.kill.mp hk'), fun hsv => hl.aux.kill.mpr (by rw [h6 hk] at hsv; simpa using hsv)⟩
          · simpa [h3] using hl.aux.sup
          · intro hf; exact absurd (by simpa [h1] using hf) hnf
          · intro hp
            have := hl.stop (by intro r; have := hp r; simpa [h1] using this)
            unfold StopOk at this ⊢
            simpa [h2] using this
      | true =>
        refine ⟨{ s with killed := true }, by simp [hk, accepts_cons], ?_⟩
        by_cases hd : a.phase = .done
        · left; simp_all
        · have hl := h.live hd
          right
          refine ⟨⟨?_, ?_⟩, ?_, ?_⟩
          · exact ⟨fun _ => h4 hk, fun _ => rfl⟩
          · simpa [h3] using hl.aux.sup
          · intro hf; exact absurd (by simpa [h1] using hf) hnf
          · intro hp
            have := hl.stop (by intro r; have := hp r; simpa [h1] using this)
            unfold StopOk at this ⊢
            simpa [h2] using this
    · refine ⟨s, by simp, ?_⟩
      by_cases hd : a.phase = .done
      · left; simp_all
      · have hl := h.live hd
        exact Or.inr ⟨⟨by simpa using hl.aux.kill, by simpa using hl.aux.sup⟩, by simpa using hl.fresh,
          by intro hp; have := hl.stop hp; simpa [StopOk] using this⟩
  | link p ok =>
    simp only [Actor.envOp, opLink]
    split
    · exact ⟨s, rfl, h⟩
    · exact ⟨s, by simp, h.congr (by rfl) (by rfl) (by rfl) (by rfl)⟩
  | unlink p =>
    simp only [Actor.envOp, opUnlink]
    split
    · exact ⟨s, by simp, h.congr (by rfl) (by rfl) (by rfl) (by rfl)⟩
    · exact ⟨s, rfl, h⟩
  | kidAdd c => exact ⟨s, rfl, h.congr (by rfl) (by rfl) (by rfl) (by rfl)⟩
  | monAdd m => exact ⟨s, rfl, h.congr (by rfl) (by rfl) (by rfl) (by rfl)⟩
  | monDel m => exact ⟨s, rfl, h.congr (by rfl) (by rfl) (by rfl) (by rfl)⟩
  | monDrop m => exact ⟨s, by simp [Actor.envOp], h.congr (by rfl) (by rfl) (by rfl) (by rfl)⟩
  | kidDel c => exact ⟨s, rfl, h.congr (by rfl) (by rfl) (by rfl) (by rfl)⟩
  | call k =>
    refine ⟨s, by simp [Actor.envOp, accepts_cons], ?_⟩
    simp only [Actor.envOp, apiCall]
    (repeat' split) <;> first
      | exact h
      | exact h.congr (by rfl) (by rfl) (by rfl) (by rfl)
  | pollCall k =>
    simp only [Actor.envOp]
    split
    · exact ⟨s, by simp [accepts_cons], h.congr (by rfl) (by rfl) (by rfl) (by rfl)⟩
    · exact ⟨s, by simp [accepts_cons], h.congr (by rfl) (by rfl) (by rfl) (by rfl)⟩
    · exact ⟨s, by simp [accepts_cons], h⟩
    · exact ⟨s, rfl, h⟩
  | pollWait w => exact ⟨s, by simp [Actor.envOp, accepts_cons], h⟩
  | _ => exact ⟨s, rfl, h⟩

theorem stepCore_sim (a : Actor) (s : St) (op : AOp) (h : Inv a s) : Sim next Inv s (a.stepCore op) := by
  cases op with
  | spawn sup name nameFree isLocal supOk => exact opSpawn_sim a s sup name nameFree isLocal supOk h
  | spawnInstant sup name nameFree isLocal => exact opSpawnInstant_sim a s sup name nameFree isLocal h
  | pollSpawn supOk => exact opPollSpawn_sim a s supOk h
  | dropSpawn => exact opDropSpawn_sim a s h
  | poll => exact Sim.pollMark next next_polled (opPoll_sim a s h)
  | abort => exact opAbort_sim a s h
  | resume sg => exact opResume_sim a s sg h
  | _ =>
    simp only [Actor.stepCore]
    split
    · exact ⟨s, rfl, h⟩
    · rename_i hnf
      exact envOp_sim a s _ h hnf

theorem step_sim (a : Actor) (s : St) (op : AOp) (h : Inv a s) : Sim next Inv s (a.step op) :=
  step_sim_of_core next next_supIs next_snap (stepCore_sim a s op h)

theorem run_sim (ops : List AOp) (a : Actor) (s : St) (h : Inv a s) :
    ∃ s', accepts next s (a.run ops).2 = .ok s' ∧ Inv (a.run ops).1 s' := by
  induction ops generalizing a s with
  | nil => exact ⟨s, rfl, h⟩
  | cons op ops ih =>
    obtain ⟨s1, hacc, hinv⟩ := step_sim a s op h
    obtain ⟨s2, hacc2, hinv2⟩ := ih _ s1 hinv
    refine ⟨s2, ?_, hinv2⟩
    simp only [Actor.run]
    rw [accepts_append next _ hacc]
    exact hacc2

theorem inv_init (id : Nat) : Inv (Actor.init id) {} :=
  Or.inr ⟨⟨by simp [Actor.init], by simp [Actor.init]⟩, by simp [Actor.init], by intro _; simp [StopOk]⟩

end Life.C03
