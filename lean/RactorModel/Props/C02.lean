import RactorModel.Extracted
import RactorModel.Lemmas.AdmissionCore
import RactorModel.Lemmas.AdmissionIds
import RactorModel.Lemmas.AdmissionQueue
import RactorModel.Lemmas.AdmissionOracle
import RactorModel.Lemmas.AdmissionProgress
import RactorModel.Model.Boxing
import RactorModel.Lemmas.LifeC02
import RactorModel.Lemmas.LifeWorld

/-!
# C02 — the mailbox delivers accepted messages once, in order

Property theorems only, about the small-step model `Model/Admission.lean`, for **all** thread
programs (any number of senders, messages, drainers, nested re-entrant sends) and **all**
schedules, including every interleaving with the receiver (dequeue, stop/kill, close, flush).
Message ids are allocated by the model when a send starts, so "the message `i`" is the message of
exactly one send.
-/

namespace C02
open Admission

/-- (a) A message is enqueued at most once. -/
theorem enqueued_at_most_once (progs : List (List Op)) (sched : List Tid) (i : Nat) :
    (run (init progs) sched).sh.enq.count (.msg i) ≤ 1 := by
  have := (idInv_run i _ sched (idInv_init i progs)).one
  omega

/-- (a) Exactly-once-or-handed-back: a send that returned `Ok` enqueued its message exactly once;
a send that returned `Err` (`SendErr(m)`: `m` is handed back; `InvalidActorType`) never did. -/
theorem return_value_tells_enqueue (progs : List (List Op)) (sched : List Tid) :
    ∀ r ∈ (run (init progs) sched).sh.rets, r.kind = .send →
      (r.res = .ok → (run (init progs) sched).sh.enq.count (.msg r.id) = 1) ∧
      (r.res ≠ .ok → (run (init progs) sched).sh.enq.count (.msg r.id) = 0) := by
  intro r hr hk
  have hI := idInv_run r.id _ sched (idInv_init r.id progs)
  have h1 := hI.one
  have h2 := hI.oks
  constructor
  · intro hres
    have : 0 < (run (init progs) sched).sh.rets.countP (Ret.okFor r.id) :=
      List.countP_pos_iff.mpr ⟨r, hr, by simp [Ret.okFor, hk, hres]⟩
    omega
  · intro hres
    have : 0 < (run (init progs) sched).sh.rets.countP (Ret.errFor r.id) :=
      List.countP_pos_iff.mpr ⟨r, hr, by cases h : r.res <;> simp_all [Ret.errFor]⟩
    omega

/-- (a) A message is in the channel only by a send that returns `Ok`: once `i` is enqueued no
send of `i` has returned or will return anything else (no pending non-`Ok` result either), and a
send returns at most once. -/
theorem enqueued_only_by_ok_send (progs : List (List Op)) (sched : List Tid) (i : Nat)
    (h : Item.msg i ∈ (run (init progs) sched).sh.enq) :
    (run (init progs) sched).sh.rets.countP (Ret.errFor i) = 0 ∧
    cnt (Frame.errPend i) (run (init progs) sched) = 0 ∧
    cnt (Frame.okPend i) (run (init progs) sched)
      + (run (init progs) sched).sh.rets.countP (Ret.okFor i) = 1 := by
  have hI := idInv_run i _ sched (idInv_init i progs)
  have h1 := hI.one
  have h2 := hI.oks
  have : 0 < (run (init progs) sched).sh.enq.count (.msg i) := List.count_pos_iff.mpr h
  omega

/-- (a) Hence a message is handled at most once … -/
theorem handled_at_most_once (progs : List (List Op)) (sched : List Tid) (i : Nat) :
    (run (init progs) sched).sh.handled.count i ≤ 1 := by
  have h := enqueued_at_most_once progs sched i
  have q := qinv_run _ sched (qinv_init progs)
  have hc := congrArg (List.count (Item.msg i)) q.conserve
  simp only [List.count_append] at hc
  have hh := congrArg (List.count i) q.handled_eq
  simp only [List.count_append, count_msgIds] at hh
  omega

/-- … and a message handed back (`SendErr`) or rejected is never handled. -/
theorem rejected_never_handled (progs : List (List Op)) (sched : List Tid) :
    ∀ r ∈ (run (init progs) sched).sh.rets, r.kind = .send → r.res ≠ .ok →
      r.id ∉ (run (init progs) sched).sh.handled := by
  intro r hr hk hres hmem
  have h0 := (return_value_tells_enqueue progs sched r hr hk).2 hres
  have q := qinv_run _ sched (qinv_init progs)
  have hc := congrArg (List.count (Item.msg r.id)) q.conserve
  simp only [List.count_append] at hc
  have : 0 < (run (init progs) sched).sh.handled.count r.id := List.count_pos_iff.mpr hmem
  have hh := congrArg (List.count r.id) q.handled_eq
  simp only [List.count_append, count_msgIds] at hh
  omega

/-- (a) Fate of an accepted message — "exactly once unless the actor exits before reaching it" —
with *dequeued* and *handled* kept apart (round 4): every message in the channel history had its
handler started (`handled`), has just been dequeued and its handler not polled yet (`taken`), was
dequeued and then dropped because the loop was left before its handler's first poll (`dropped`:
`run_with_signal` tests the signal port first), is still in the channel, or was dropped by the
receiver's close+flush on exit. Exactly one of the five. -/
theorem accepted_message_fate (progs : List (List Op)) (sched : List Tid) (i : Nat)
    (h : (run (init progs) sched).sh.enq.count (.msg i) = 1) :
    (run (init progs) sched).sh.handled.count i
      + (run (init progs) sched).sh.taken.toList.count i
      + (run (init progs) sched).sh.dropped.count i
      + (run (init progs) sched).sh.queue.count (.msg i)
      + (run (init progs) sched).sh.flushed.count (.msg i) = 1 := by
  have q := qinv_run _ sched (qinv_init progs)
  have hc := congrArg (List.count (Item.msg i)) q.conserve
  simp only [List.count_append] at hc
  have hh := congrArg (List.count i) q.handled_eq
  simp only [List.count_append, count_msgIds] at hh
  omega

/-- (a, round 4) **A dequeued message is dropped unhandled only by a stop reason other than the
marker**, at most one per actor life, and then the loop has been left: in the code, a kill that
lands between `listen_in_priority` returning the message and the first poll of
`run_with_signal(handle_message)`. Without such an exit every dequeued message gets its handler. -/
theorem dequeued_then_dropped_only_by_other_exit (progs : List (List Op)) (sched : List Tid) :
    (run (init progs) sched).sh.dropped.length ≤ 1 ∧
    ((run (init progs) sched).sh.dropped ≠ [] →
      (run (init progs) sched).sh.stoppedByOther = true ∧ (run (init progs) sched).sh.rxStopped = true) ∧
    msgIds (run (init progs) sched).sh.deqd =
      (run (init progs) sched).sh.handled ++ (run (init progs) sched).sh.taken.toList ++
        (run (init progs) sched).sh.dropped := by
  have q := qinv_run _ sched (qinv_init progs)
  exact ⟨q.dropped_one, q.dropped_why, q.handled_eq⟩

/-- (a, round 4) **A later stop / kill excuses nothing that should already have happened.** In
EVERY reachable state in which the live receiver has nothing left to do (mailbox empty, nothing
taken, not stopped) every send that has returned `Ok` so far has been handled — whatever the other
threads are in the middle of, and whatever happens afterwards (`handled` only grows:
`handled_in_enqueue_order`, `Mono.handledPrefix`). The driver evaluates `quietViolations` after every
receiver run that leaves the actor alive, so a case that ends with a stop or kill is still judged up
to its last quiet point. -/
theorem ok_sends_are_handled_whenever_the_mailbox_is_quiet (progs : List (List Op)) (sched : List Tid)
    (hq : quiet (run (init progs) sched).sh = true) :
    quietViolations (okIds (run (init progs) sched).sh.rets) (run (init progs) sched).sh.handled = [] := by
  have h := quiet_all_ok_handled (reach_run progs sched) hq
  have : (okIds (run (init progs) sched).sh.rets).all (run (init progs) sched).sh.handled.contains = true := by
    rw [List.all_eq_true]
    intro i hi
    generalize (run (init progs) sched).sh.rets = rets at h hi
    generalize (run (init progs) sched).sh.handled = hd at h
    induction rets with
    | nil => simp [okIds] at hi
    | cons r l ih =>
      simp only [okIds, List.mem_append] at hi
      rcases hi with hi | hi
      · have hr := h r List.mem_cons_self
        cases hk : r.kind <;> cases hres : r.res <;> simp [hk, hres] at hi
        subst hi
        simpa using hr (by simp [Ret.isOkSend, Ret.isSend, hk, hres])
      · exact ih hi (fun r hr => h r (List.mem_cons_of_mem _ hr))
  simp [quietViolations, this]

/-- (round 4, cluster builds) **An accepted serialized message the actor cannot decode** (dropped
with `Ok(())` inside `handle_message`, `actor.rs`) **never reaches the user's `handle`, and costs no
other message anything:** for every set `u` of undecodable ids, what reaches `handle` — `userHandled u
handled` — contains no id of `u`, contains every other id exactly as often as `handled` does (so at
most once, and every Ok send of a decodable message that was handled still is), and keeps the
relative order of the others. (Decision: `send_serialized` carries bytes, not a message of the
actor's type; C02's "handled exactly once" is owed to `send_message/cast/call`. Not a finding.) -/
theorem undecodable_message_is_dropped_alone (progs : List (List Op)) (sched : List Tid) (u : List Nat) :
    let h := (run (init progs) sched).sh.handled
    (∀ i ∈ u, i ∉ userHandled u h) ∧
    (∀ i, i ∉ u → (userHandled u h).count i = h.count i) ∧
    (∀ i, (userHandled u h).count i ≤ 1) ∧
    (∀ m₁ m₂ a b c, m₁ ∉ u → m₂ ∉ u → h = a ++ m₁ :: b ++ m₂ :: c →
      userHandled u h = userHandled u a ++ m₁ :: userHandled u b ++ m₂ :: userHandled u c) := by
  intro h
  refine ⟨?_, ?_, ?_, ?_⟩
  · intro i hi hm
    simp only [userHandled, List.mem_filter, List.contains_eq_mem, Bool.not_eq_true',
      decide_eq_false_iff_not] at hm
    exact hm.2 hi
  · intro i hi
    simp only [userHandled, List.count_filter, List.contains_eq_mem, hi, decide_false, Bool.not_false]
  · intro i
    have h1 : h.count i ≤ 1 := handled_at_most_once progs sched i
    have : (userHandled u h).count i ≤ h.count i := by
      simp only [userHandled]
      exact List.Sublist.count_le _ List.filter_sublist
    omega
  · intro m₁ m₂ a b c h1 h2 he
    simp only [userHandled, he, List.filter_append, List.filter_cons, List.contains_eq_mem, h1, h2,
      decide_false, Bool.not_false, if_true, List.append_assoc]

/-- (b) The receiver handles messages in enqueue order: the handled sequence is a prefix of the
sequence of messages in enqueue order (as long as nothing was flushed, i.e. while it is alive). -/
theorem handled_in_enqueue_order (progs : List (List Op)) (sched : List Tid) :
    ∃ rest, msgIds (run (init progs) sched).sh.enq = (run (init progs) sched).sh.handled ++ rest := by
  have q := qinv_run _ sched (qinv_init progs)
  refine ⟨(run (init progs) sched).sh.taken.toList ++ (run (init progs) sched).sh.dropped ++
    msgIds ((run (init progs) sched).sh.flushed ++ (run (init progs) sched).sh.queue), ?_⟩
  rw [q.conserve, List.append_assoc, msgIds_append, q.handled_eq]
  simp only [List.append_assoc]

/-- (b) Real-time order ⇒ enqueue order. If in some reachable state `g₁` the send of `m₁` has
already returned `Ok` while the send of `m₂` has not performed its first step yet (its id is not
allocated, or its frame is still parked at `send.status`), then in every continuation in which `m₂`
gets enqueued, `m₁` is before `m₂` in the channel. (Two sends of one sender are the special case.) -/
theorem real_time_order (progs : List (List Op)) (sched₁ sched₂ : List Tid) (m₁ m₂ : Nat)
    (late₁ : Bool) (seen₁ : List Nat)
    (hdone : ⟨.send, m₁, .ok, late₁, seen₁⟩ ∈ (run (init progs) sched₁).sh.rets)
    (hnot : (run (init progs) sched₁).sh.nextId ≤ m₂ ∨
      ∃ stack ∈ (run (init progs) sched₁).threads, ∃ f ∈ stack, f.pc = .sStatus ∧ f.id = m₂)
    (henq : Item.msg m₂ ∈ (run (run (init progs) sched₁) sched₂).sh.enq) :
    ∃ a b c, (run (run (init progs) sched₁) sched₂).sh.enq = a ++ .msg m₁ :: b ++ .msg m₂ :: c := by
  have h1 : (run (init progs) sched₁).sh.enq.count (.msg m₁) = 1 :=
    (return_value_tells_enqueue progs sched₁ _ hdone rfl).1 rfl
  have hI := idInv_run m₂ _ sched₁ (idInv_init m₂ progs)
  generalize run (init progs) sched₁ = g₁ at *
  -- m₂ is not yet in the channel
  have h2 : g₁.sh.enq.count (.msg m₂) = 0 := by
    have := hI.one
    rcases hnot with h | ⟨stack, hs, f, hf, hpc, hid⟩
    · rw [if_pos h] at this; omega
    · have : 0 < cnt (Frame.pre m₂) g₁ :=
        cnt_pos_of_mem _ g₁ stack f hs hf (by simp [Frame.pre, hpc, hid])
      omega
  obtain ⟨l, hl⟩ := (mono_run g₁ sched₂).enq
  rw [hl] at henq ⊢
  have hm1 : Item.msg m₁ ∈ g₁.sh.enq := List.count_pos_iff.mp (by omega)
  have hm2 : Item.msg m₂ ∈ l := by
    rcases List.mem_append.mp henq with h | h
    · have : 0 < g₁.sh.enq.count (.msg m₂) := List.count_pos_iff.mpr h
      omega
    · exact h
  obtain ⟨a, b, hab⟩ := List.append_of_mem hm1
  obtain ⟨b', c, hbc⟩ := List.append_of_mem hm2
  exact ⟨a, b ++ b', c, by rw [hab, hbc]; simp⟩

/-- (b) … and therefore handling order: the receiver cannot handle `m₂` before `m₁`
(`handled` is a prefix of the enqueue order, `handled_in_enqueue_order`). Stated directly: if both
have been handled, `m₁` comes first. -/
theorem real_time_order_handled (progs : List (List Op)) (sched₁ sched₂ : List Tid) (m₁ m₂ : Nat)
    (late₁ : Bool) (seen₁ : List Nat)
    (hdone : ⟨.send, m₁, .ok, late₁, seen₁⟩ ∈ (run (init progs) sched₁).sh.rets)
    (hnot : (run (init progs) sched₁).sh.nextId ≤ m₂ ∨
      ∃ stack ∈ (run (init progs) sched₁).threads, ∃ f ∈ stack, f.pc = .sStatus ∧ f.id = m₂)
    (h2 : m₂ ∈ (run (run (init progs) sched₁) sched₂).sh.handled) :
    ∃ a b c, (run (run (init progs) sched₁) sched₂).sh.handled = a ++ m₁ :: b ++ m₂ :: c := by
  have hrun : run (run (init progs) sched₁) sched₂ = run (init progs) (sched₁ ++ sched₂) := by
    simp [run, List.foldl_append]
  have q := qinv_run _ (sched₁ ++ sched₂) (qinv_init progs)
  have hone := enqueued_at_most_once progs (sched₁ ++ sched₂) m₂
  rw [← hrun] at q hone
  have hmem : Item.msg m₂ ∈ (run (run (init progs) sched₁) sched₂).sh.enq := by
    have : 0 < (msgIds (run (run (init progs) sched₁) sched₂).sh.deqd).count m₂ := by
      rw [q.handled_eq]
      exact List.count_pos_iff.mpr (List.mem_append_left _ (List.mem_append_left _ h2))
    rw [count_msgIds] at this
    rw [q.conserve]
    exact List.mem_append_left _ (List.mem_append_left _ (List.count_pos_iff.mp this))
  obtain ⟨a, b, c, habc⟩ := real_time_order progs sched₁ sched₂ m₁ m₂ late₁ seen₁ hdone hnot hmem
  generalize run (run (init progs) sched₁) sched₂ = g at *
  -- `deqd` is a prefix of `enq` containing `m₂`, which occurs once in `enq`, after `m₁`
  have hd : Item.msg m₂ ∈ g.sh.deqd := by
    have : 0 < (msgIds g.sh.deqd).count m₂ := by
      rw [q.handled_eq]
      exact List.count_pos_iff.mpr (List.mem_append_left _ (List.mem_append_left _ h2))
    rw [count_msgIds] at this
    exact List.count_pos_iff.mp this
  obtain ⟨d1, d2, hd12⟩ := List.append_of_mem hd
  have hpre : g.sh.enq = d1 ++ .msg m₂ :: (d2 ++ (g.sh.flushed ++ g.sh.queue)) := by
    rw [q.conserve, hd12]; simp
  -- uniqueness of `m₂` in `enq` identifies the two decompositions
  have hcnt : (a ++ .msg m₁ :: b).count (.msg m₂) = 0 := by
    have := congrArg (List.count (Item.msg m₂)) habc
    simp only [List.count_append, List.count_cons_self] at this
    simp only [List.count_append]
    omega
  have hcnt' : d1.count (.msg m₂) = 0 := by
    have := congrArg (List.count (Item.msg m₂)) hpre
    simp only [List.count_append, List.count_cons_self] at this
    omega
  have heq : d1 = a ++ .msg m₁ :: b := by
    have e : d1 ++ .msg m₂ :: (d2 ++ (g.sh.flushed ++ g.sh.queue)) = (a ++ .msg m₁ :: b) ++ .msg m₂ :: c := by
      rw [← habc, hpre]
    exact prefix_unique _ _ _ _ _
      (fun h => by have := List.count_pos_iff.mpr h; omega)
      (fun h => by have := List.count_pos_iff.mpr h; omega) e
  -- the dequeued ids, decomposed at `m₂` in two ways: through `deqd` and through `handled`
  have hdq : msgIds g.sh.deqd = (msgIds a ++ m₁ :: msgIds b) ++ m₂ :: msgIds d2 := by
    rw [hd12, heq]; simp [msgIds_append, msgIds]
  obtain ⟨h1, h2', hh12⟩ := List.append_of_mem h2
  have hdq' : msgIds g.sh.deqd = h1 ++ m₂ :: (h2' ++ (g.sh.taken.toList ++ g.sh.dropped)) := by
    rw [q.handled_eq, hh12]; simp
  have hc2 : (msgIds g.sh.deqd).count m₂ ≤ 1 := by
    rw [count_msgIds]
    have := congrArg (List.count (Item.msg m₂)) q.conserve
    simp only [List.count_append] at this
    omega
  have hn1 : m₂ ∉ h1 := by
    intro hm
    have := congrArg (List.count m₂) hdq'
    simp only [List.count_append, List.count_cons_self] at this
    have : 0 < h1.count m₂ := List.count_pos_iff.mpr hm
    omega
  have hn2 : m₂ ∉ msgIds a ++ m₁ :: msgIds b := by
    intro hm
    have := congrArg (List.count m₂) hdq
    simp only [List.count_append, List.count_cons_self] at this
    have : 0 < (msgIds a ++ m₁ :: msgIds b).count m₂ := List.count_pos_iff.mpr hm
    simp only [List.count_append] at this
    omega
  have := prefix_unique m₂ _ _ _ _ hn1 hn2 (hdq'.symm.trans hdq)
  exact ⟨msgIds a, msgIds b, h2', by rw [hh12, this]⟩

/-- (c) After the receiver's close (and flush) nothing is handled, whatever happens next. -/
theorem nothing_handled_after_close (g : G) (sched : List Tid) (h : g.sh.rxOpen = false) :
    (run g sched).sh.handled = g.sh.handled ∧ (run g sched).sh.rxOpen = false ∧
    (run g sched).sh.enq = g.sh.enq ∧ (g.sh.queue = [] → (run g sched).sh.queue = []) := by
  obtain ⟨a1, a2, _, a4, a5⟩ := (mono_run g sched).rxClosed h
  exact ⟨a2, a1, a4, a5⟩

/-- (d) A wrong-type send is rejected with `InvalidActorType` without disturbing the actor: it
changes no component of the shared state (only the ghost log of returned ops grows). -/
theorem wrong_type_send_changes_nothing (s : Shared) (id : Nat) (late bf : Bool) (ops : List Op)
    (sk : List Nat) (rest : List Frame) :
    stepThread s (⟨.bad, id, late, ops, bf, sk⟩ :: rest) =
      some ({ s with rets := s.rets ++ [⟨.bad, id, .invalidType, late, sk⟩] }, rest) := by
  simp only [stepThread, finish, kindOf]

/-- **A send that is not interleaved with anything** (API level): a thread whose whole program is
one plain `send` runs to completion in 8 steps. -/
theorem uninterleaved_send (g : G) (i : Nat) (h : g.threads[i]? = some [{ pc := .run, ops := [.send [] false] }]) :
    (run g (List.replicate 8 (.t i))).sh =
      (if stDraining ≤ g.sh.status ∨ g.sh.word.closed = true ∨ g.sh.rxOpen = false then
        -- rejected by the status gate, by closed admission, or by the closed channel: the
        -- message is handed back, nothing else changes
        { g.sh with nextId := g.sh.nextId + 1,
                    rets := g.sh.rets ++ [⟨.send, g.sh.nextId, .sendErr g.sh.nextId, g.sh.word.closed, okIds g.sh.rets⟩] }
      else
        { g.sh with nextId := g.sh.nextId + 1,
                    queue := g.sh.queue ++ [.msg g.sh.nextId], enq := g.sh.enq ++ [.msg g.sh.nextId],
                    rets := g.sh.rets ++ [⟨.send, g.sh.nextId, .ok, false, okIds g.sh.rets⟩] }) := by
  rw [run_replicate 8 h]
  obtain ⟨sh, threads⟩ := g
  obtain ⟨⟨wc, wm, wn⟩, status, queue, rxOpen, rxStopped, sbo, enq, deqd, handled, flushed, dex, mdrop,
    nextId, rets⟩ := sh
  simp only
  by_cases h1 : stDraining ≤ status
  · simp [runThread, stepThread, startOp, finish, kindOf, h1]
  · cases wc
    · cases rxOpen
      · simp [runThread, stepThread, startOp, finish, kindOf, h1, markerCond]
      · simp [runThread, stepThread, startOp, finish, kindOf, h1, markerCond]
    · simp [runThread, stepThread, startOp, finish, kindOf, h1]

/-- The status word never decreases (`fetch_max`, and `drain`'s `fetch_update`). -/
theorem status_monotone (g : G) (sched : List Tid) : g.sh.status ≤ (run g sched).sh.status :=
  (mono_run g sched).status

/-- **The run-time oracle is a theorem of the model.** `Obs.violations` — the very function the
driver evaluates on the implementation's end-of-case observations (handled at most once and only
if Ok, every Ok handled unless stopped, nothing admitted after the close, count 0 and closed ⇒
marker at quiescence, exactly one "Drained" exit after a drain, none without) — is empty for every
end state of the model: all programs, all schedules, no op in flight, receiver ran until it blocked. -/
theorem oracle_holds_of_model (progs : List (List Op)) (sched : List Tid)
    (he : endState (run (init progs) sched) = true) :
    (obsOf (run (init progs) sched)).violations = [] :=
  violations_nil (reach_run progs sched) he

/-! ### Source guards (E-SRC) -/

/-- `send_message_unchecked` = status gate, admission, boxing, enqueue — in this order. -/
theorem src_send_steps :
    Extracted.sendSteps = ["get_status()", "try_admit_message()", "box_message(", ".send(MuxedMessage::Message"] := by
  decide

/-- `ActorPortSet::drop` closes the message channel before flushing it. -/
theorem src_port_drop : "message_rx" ∈ Extracted.portSetDropClose ∧ "message_rx" ∈ Extracted.portSetDropFlush := by
  decide

/-- the ghost behind the oracle's `order` clause: the second send of thread 0 starts after the
first has returned `Ok`, and records it -/
example : (run (init [[.send [] false, .send [] false]]) (List.replicate 16 (.t 0))).sh.rets
    = [⟨.send, 0, .ok, false, []⟩, ⟨.send, 1, .ok, false, [0]⟩] := by decide

/-! ### Non-vacuity -/

/-- two senders racing: thread 1's message is enqueued first although thread 0 was admitted
first; both return `Ok`; the receiver handles in enqueue order; a wrong-type send in between. -/
def exampleProgs : List (List Op) := [[.send [] false, .bad], [.send [] false]]
def exampleSched : List Tid :=
  [.t 0, .t 0, .t 0, .t 0, .t 0, .t 0,          -- thread 0: admitted, boxed, parked at send.enqueue
   .t 1, .t 1, .t 1, .t 1, .t 1, .t 1, .t 1, .t 1, -- thread 1: complete send of message 1
   .recv, .recv,                                   -- dequeue message 1, start its handler
   .t 0, .t 0, .t 0, .t 0,                         -- thread 0: enqueue, release, op.start, typecheck
   .recv, .recv, .rxStop, .rxClose, .rxFlush, .recv]

example : (run (init exampleProgs) exampleSched).sh.enq = [.msg 1, .msg 0] := by decide
example : (run (init exampleProgs) exampleSched).sh.handled = [1, 0] := by decide
example : (run (init exampleProgs) exampleSched).sh.rets =
    [⟨.send, 1, .ok, false, []⟩, ⟨.send, 0, .ok, false, []⟩, ⟨.bad, 0, .invalidType, false, []⟩] := by decide
/-- round 4: a kill lands after message 0 was dequeued and before its handler's first poll: the
message is dropped, not handled — `send` had returned `Ok` -/
example :
    let g := run (init [[.send [] false]]) (List.replicate 8 (.t 0) ++ [.recv, .rxStop, .rxClose, .rxFlush, .recv])
    g.sh.rets = [⟨.send, 0, .ok, false, []⟩] ∧ g.sh.deqd = [.msg 0] ∧ g.sh.handled = [] ∧ g.sh.dropped = [0] := by
  decide
/-- hypotheses of `real_time_order` are satisfiable: after thread 1's complete send, a second
program's send has not started. -/
example : ⟨.send, 0, .ok, false, []⟩ ∈ (run (init [[.send [] false], [.send [] false]])
      (List.replicate 8 (.t 0))).sh.rets
    ∧ (run (init [[.send [] false], [.send [] false]]) (List.replicate 8 (.t 0))).sh.nextId ≤ 1
    ∧ Item.msg 1 ∈ (run (run (init [[.send [] false], [.send [] false]]) (List.replicate 8 (.t 0)))
        (List.replicate 8 (.t 1))).sh.enq := by decide
/-- a send racing with the receiver's exit gets its message back -/
example : (run (init [[.send [] false]])
    [.t 0, .t 0, .t 0, .t 0, .t 0, .t 0, .rxStop, .rxClose, .t 0, .t 0]).sh.rets
      = [⟨.send, 0, .sendErr 0, false, []⟩] := by decide

/-! ### (d) in cluster builds: the type check and the boxing step (`Model/Boxing.lean`) -/

/-- A send that is refused (`InvalidActorType`) leaves the target exactly as it was: nothing is
enqueued, nothing is handled, the actor is not disturbed — for local and remote targets alike. -/
theorem refused_send_changes_nothing (t : Boxing.Target) (m : Boxing.MsgKind)
    (h : (Boxing.send t m).2 = .invalidType) : (Boxing.send t m).1 = t := by
  unfold Boxing.send at *
  by_cases hr : t.remote = true
  · by_cases hs : Boxing.serializable m = true <;> simp_all
  · by_cases ho : Boxing.ownType m = true <;> simp_all

/-- A message that is not serializable is never accepted for a remote actor id (the `TypeId` check
is skipped there, so `box_message` must refuse) and a message of another type is never accepted
by a local actor. -/
theorem wrong_kind_is_refused (t : Boxing.Target) (m : Boxing.MsgKind) :
    (t.remote = true → Boxing.serializable m = false → (Boxing.send t m).2 = .invalidType) ∧
    (t.remote = false → Boxing.ownType m = false → (Boxing.send t m).2 = .invalidType) := by
  unfold Boxing.send
  constructor <;> intro h1 h2 <;> simp [h1, h2]

/-! ## C02 at the level the `Life` engines observe (one mailbox, API-level sends, real handler entries)

`Life.C02.ok tr` is acceptance of an actor's trace by `Life.C02.next` (`Model/Life.lean`): every
`enter handle x` takes the *oldest* accepted, not yet handled message (so a refused send is never
handled, nothing is handled twice, nothing is skipped, FIFO in the order the sends completed);
a poll that leaves the loop listening leaves no accepted message outstanding (what the loop took
out of the mailbox was handed to `handle`); nothing is handled after the actor's task ended. The
driver model `life-c02` runs this automaton on the traces of the real runtime — Send actors,
thread-local actors, and Send actors on the thread-local spawner through the blanket adapter. -/

/-- **Life-level C02, all schedules**: for every actor and every sequence of single-actor ops
(sends, self-sends, calls, polls, segments, stop / kill / drain / abort, supervision traffic …) the
trace is accepted by the C02 automaton. -/
theorem life_fifo_exactly_once (id : Nat) (ops : List Life.AOp) : Life.C02.ok (Life.trace id ops) = true := by
  obtain ⟨s', h, _⟩ := Life.C02.run_sim ops (Life.Actor.init id) {} (Life.C02.inv_init id)
  simp [Life.C02.ok, Life.trace, h, Except.isOk, Except.toBool]

/-- The same for every actor of every run of the composed world (what the driver replays). -/
theorem life_fifo_exactly_once_world (ops : List Life.Op) (h : ∀ op ∈ ops, op ≠ .case) (i : Nat) :
    Life.C02.ok (Life.projEvs i (({} : Life.World).run ops).2) = true := by
  obtain ⟨aops, e⟩ := Life.world_actor_run ops h i
  have := life_fifo_exactly_once i aops
  simp only [Life.trace, e] at this
  exact this

/-- What acceptance means, spelled out: along every run the sequence of handled messages is a
prefix of the sequence of accepted messages (payloads in the order the sends returned `Ok`) —
exactly once, in order, never a refused one. -/
theorem life_handled_prefix_of_accepted (id : Nat) (ops : List Life.AOp) :
    Life.C02.handled (Life.trace id ops) <+: Life.C02.accepted (Life.trace id ops) := by
  obtain ⟨s', h, _⟩ := Life.C02.run_sim ops (Life.Actor.init id) {} (Life.C02.inv_init id)
  have := Life.C02.accepts_queue _ _ _ h
  exact ⟨s'.queue, by simpa [Life.trace] using this.symm⟩

/-- …and whenever the actor sits idle after a poll, it is not a strict prefix: everything accepted
so far has been handled (`P`: a loop left listening has an empty mailbox; the automaton's queue is
the user part of the mailbox). -/
theorem life_idle_means_all_handled (id : Nat) (ops : List Life.AOp)
    (hidle : ((Life.Actor.init id).run (ops ++ [.poll])).1.phase = .idle) :
    Life.C02.handled (Life.trace id (ops ++ [.poll])) = Life.C02.accepted (Life.trace id (ops ++ [.poll])) := by
  obtain ⟨s1, h1, hinv1⟩ := Life.C02.run_sim ops (Life.Actor.init id) {} (Life.C02.inv_init id)
  obtain ⟨s2, h2, _, hq2⟩ := Life.C02.step_poll _ s1 hinv1
  have hrun := Life.run_append (Life.Actor.init id) ops [.poll]
  have hacc : Life.accepts Life.C02.next {} (Life.trace id (ops ++ [.poll])) = .ok s2 := by
    simp only [Life.trace, hrun, Life.Actor.run, List.append_nil]
    rw [Life.accepts_append Life.C02.next _ h1]
    exact h2
  have hph : ((Life.Actor.init id).run ops).1.step .poll |>.1.phase = .idle := by
    simpa [hrun, Life.Actor.run] using hidle
  have := Life.C02.accepts_queue _ _ _ hacc
  simpa [hq2 hph] using this.symm

/-! Non-vacuity and rejection examples for the Life-level automaton. -/

example : Life.C02.ok [.sendRet false 1 true, .sendRet false 2 true, .enter .handle (.msg 1),
    .exit .handle .ok, .enter .handle (.msg 2)] = true := by decide
-- out of order / skipped
example : Life.C02.ok [.sendRet false 1 true, .sendRet false 2 true, .enter .handle (.msg 2)] = false := by decide
-- handled twice
example : Life.C02.ok [.sendRet false 1 true, .enter .handle (.msg 1), .exit .handle .ok,
    .enter .handle (.msg 1)] = false := by decide
-- a refused send is handled
example : Life.C02.ok [.sendRet false 1 false, .enter .handle (.msg 1)] = false := by decide
-- accepted, the loop polled and went back to listening, but the message was never handed to `handle`
-- (what seeded/C02-6 does)
example : Life.C02.ok [.exit .postStart .ok, .sendRet false 1 true, .polled] = false := by decide
-- handled after the task ended
example : Life.C02.ok [.sendRet false 1 true, .join .ok, .enter .handle (.msg 1)] = false := by decide

/-! ### Liveness (round 4, wave 2): an accepted message is eventually handled

`Lemmas/AdmissionProgress.lean`: ranking measure `mu` of the fine-grained model (all atomic steps of
the send path including the CAS retry loop, nested sends inside `box_message`, drains), fair rounds. -/

/-- (a, liveness) **Every send that has returned `Ok` is handled — exactly once — after `mu` fair
rounds**, whatever else is going on (other senders in the middle of their CAS loops, ticket holders,
drains closing admission), provided no stop / kill / failure from outside has happened or happens:
a round schedules every worker thread and the receiver's actions at least once, in any order.
The safety theorems above say "at most once, in order, only if Ok"; this one says it does happen. -/
theorem every_accepted_message_is_eventually_handled (progs : List (List Op)) (sched₁ : List Tid)
    (rounds : List (List Tid))
    (hso : (run (init progs) sched₁).sh.stoppedByOther = false)
    (hfair : ∀ r ∈ rounds, fairRound (run (init progs) sched₁) r)
    (hn : mu (run (init progs) sched₁) ≤ rounds.length) :
    ∀ r ∈ (run (init progs) sched₁).sh.rets, r.kind = .send → r.res = .ok →
      (run (init progs) (sched₁ ++ rounds.flatten)).sh.handled.count r.id = 1 := by
  intro r hr hk hres
  have he := fair_reaches_endState progs sched₁ rounds hfair hn
  have e := run_append (init progs) sched₁ rounds.flatten
  have hso' : (run (init progs) (sched₁ ++ rounds.flatten)).sh.stoppedByOther = false := by
    rw [e, sbo_fair _ _ rounds hfair]; exact hso
  have hr' : r ∈ (run (init progs) (sched₁ ++ rounds.flatten)).sh.rets := by
    obtain ⟨l, hl⟩ := (mono_run (run (init progs) sched₁) rounds.flatten).rets
    rw [e, hl]; exact List.mem_append_left _ hr
  have h := violations_nil_clauses _ (violations_nil (reach_run progs _) he)
  simp only [obsOf, hso', Bool.false_or] at h
  obtain ⟨-, -, h3, -⟩ := h
  rw [List.all_eq_true] at h3
  have hm := h3 r hr'
  simp only [Ret.isOkSend, Ret.isSend, hk, hres, Bool.and_self, Bool.not_true, Bool.false_or,
    List.contains_eq_mem, decide_eq_true_eq] at hm
  have h1 := handled_at_most_once progs (sched₁ ++ rounds.flatten) r.id
  have h2 := List.count_pos_iff.mpr hm
  omega

end C02

#print axioms C02.refused_send_changes_nothing
#print axioms C02.wrong_kind_is_refused
#print axioms C02.enqueued_at_most_once
#print axioms C02.return_value_tells_enqueue
#print axioms C02.enqueued_only_by_ok_send
#print axioms C02.handled_at_most_once
#print axioms C02.rejected_never_handled
#print axioms C02.accepted_message_fate
#print axioms C02.dequeued_then_dropped_only_by_other_exit
#print axioms C02.ok_sends_are_handled_whenever_the_mailbox_is_quiet
#print axioms C02.undecodable_message_is_dropped_alone
#print axioms C02.handled_in_enqueue_order
#print axioms C02.real_time_order
#print axioms C02.real_time_order_handled
#print axioms C02.nothing_handled_after_close
#print axioms C02.wrong_type_send_changes_nothing
#print axioms C02.uninterleaved_send
#print axioms C02.status_monotone
#print axioms C02.oracle_holds_of_model
#print axioms C02.src_send_steps
#print axioms C02.src_port_drop
#print axioms C02.life_fifo_exactly_once
#print axioms C02.life_fifo_exactly_once_world
#print axioms C02.life_handled_prefix_of_accepted
#print axioms C02.life_idle_means_all_handled
#print axioms C02.every_accepted_message_is_eventually_handled
