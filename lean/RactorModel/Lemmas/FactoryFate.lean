import RactorModel.Model.FactoryOracle

/-! Lemmas for C13 (fates of jobs). -/

namespace Factory

theorem getActor_setActor_other (e : Env) (a : Actor) (aid : Nat) (h : aid ≠ a.aid) :
    (e.setActor a).getActor aid = (e.getActor aid) := by
  unfold Env.getActor Env.setActor
  simp only
  induction e.actors with
  | nil => rfl
  | cons x xs ih =>
    unfold setFirstActor
    have haa : (a.aid == aid) = false := beq_false_of_ne (Ne.symm h)
    cases hxe : x.aid == a.aid
    · simp only [Bool.false_eq_true, if_false, List.find?_cons]
      cases hxa : x.aid == aid
      · exact ih
      · rfl
    · have hxa : (x.aid == aid) = false := by
        have : x.aid = a.aid := by simpa using hxe
        rw [this]; exact haa
      simp only [if_true, List.find?_cons, haa, hxa]

end Factory
