//! C12 on the async-std backend: FREE-RUNNING oracle harness (driver model `c12-free`).
//!
//! Runs the REAL `ractor::time::{send_after, send_interval, exit_after, kill_after}` (and their
//! `DerivedActorRef` twins) of ractor built with `--no-default-features --features async-std,verif`
//! against a real target actor on async-std's global executor, on the REAL clock with short periods.
//! There is no virtual time and no quiescent point, so the Lean model is not replayed op by op; the
//! recorded history is judged by the clause functions of `Timers.ok` (see `lean/Driver/C12.lean`,
//! `stepFree`). No `verif` controller is installed: every task is scheduled by async-std itself.
//!
//! Every wait of the harness is event-driven with a generous cap (`CAP`): awaiting a timer's join handle,
//! a condition variable signalled by the target's handler / by the target's supervisor. No sleep is used
//! as synchronisation.
//!
//! Time stamps (µs since the start of the case, one monotonic clock, `std::time::Instant` — the clock
//! async-std's timers use): an attempt is stamped inside the message builder (before the send), a handled
//! message inside the target's handler, the exit inside the supervisor's handler. The `t=` of an op is read
//! AFTER the snapshot of those events — except for timer creations and `stop`/`kill`/`drain`, where it
//! is read after the snapshot and BEFORE the API call, so that it is a lower bound of the call.
//!
//! ops: `sa|si|ea|ka|dsa|dsi|dea|dka <period µs>`, `await <i>` (until timer i's handle is finished),
//! `awaithd <i> <k>` (until the target handled the k-th message of timer i, or left), `abort <i>`,
//! `stop` `kill` `drain` (the call only), `awaitexit` (until the supervisor saw the target's exit).
//! observation: the line format of the paused-clock harness (`timers.rs`).
//!
//! usage: timers_as --seed S --cases N --out DIR [--replay-ops f1,f2] [--only-replay 1]

use std::future::Future;
use std::panic::AssertUnwindSafe;
use std::pin::Pin;
use std::sync::atomic::{AtomicU32, Ordering};
use std::sync::{Arc, Condvar, Mutex};
use std::task::{Context, Poll, Waker};
use std::time::Instant;

use hutil::{Args, Log, Rng, Stats};
use ractor::concurrency::{Duration, JoinHandle};
use ractor::{Actor, ActorProcessingErr, ActorRef, ActorStatus, MessagingErr, SupervisionEvent};

type Ev = (u32, u32, u64); // (timer id, k, µs)

const CAP: Duration = Duration::from_secs(12);

#[derive(Default)]
struct Inner {
    attempts: Vec<Ev>,
    handled: Vec<Ev>,
    exit: Option<(String, u64)>,
}

struct Shared {
    m: Mutex<Inner>,
    cv: Condvar,
    t0: Instant,
}

impl Shared {
    fn now(&self) -> u64 {
        self.t0.elapsed().as_micros() as u64
    }
    /// block until `f` holds (signalled by the target / its supervisor) or the cap is over
    fn wait_until(&self, f: impl Fn(&Inner) -> bool) -> bool {
        let g = self.m.lock().unwrap();
        let (g, r) = self.cv.wait_timeout_while(g, CAP, |i| !f(i)).unwrap();
        drop(g);
        !r.timed_out()
    }
}

struct Target(Arc<Shared>);

impl Actor for Target {
    type Msg = (u32, u32);
    type State = ();
    type Arguments = ();
    async fn pre_start(&self, _me: ActorRef<Self::Msg>, _: ()) -> Result<(), ActorProcessingErr> {
        Ok(())
    }
    async fn handle(&self, _me: ActorRef<Self::Msg>, m: Self::Msg, _s: &mut ()) -> Result<(), ActorProcessingErr> {
        let t = self.0.now();
        self.0.m.lock().unwrap().handled.push((m.0, m.1, t));
        self.0.cv.notify_all();
        Ok(())
    }
}

struct Watcher(Arc<Shared>);

impl Actor for Watcher {
    type Msg = ();
    type State = ();
    type Arguments = ();
    async fn pre_start(&self, _me: ActorRef<Self::Msg>, _: ()) -> Result<(), ActorProcessingErr> {
        Ok(())
    }
    async fn handle_supervisor_evt(
        &self,
        _me: ActorRef<Self::Msg>,
        ev: SupervisionEvent,
        _s: &mut (),
    ) -> Result<(), ActorProcessingErr> {
        let t = self.0.now();
        {
            let mut sh = self.0.m.lock().unwrap();
            match ev {
                SupervisionEvent::ActorTerminated(_, _, reason) => {
                    let r = reason.unwrap_or_else(|| "<none>".into());
                    if sh.exit.is_none() {
                        sh.exit = Some((r, t));
                    } else {
                        sh.exit = Some((format!("<second exit> {r}"), t));
                    }
                }
                SupervisionEvent::ActorFailed(_, e) => sh.exit = Some((format!("<failed> {e}"), t)),
                _ => {}
            }
        }
        self.0.cv.notify_all();
        Ok(())
    }
}

/// message type of a `DerivedActorRef` onto the target (its own copies of the timer functions)
struct DMsg(u32, u32);
impl From<DMsg> for (u32, u32) {
    fn from(d: DMsg) -> Self {
        (d.0, d.1)
    }
}
impl TryFrom<(u32, u32)> for DMsg {
    type Error = ();
    fn try_from(m: (u32, u32)) -> Result<Self, ()> {
        Ok(DMsg(m.0, m.1))
    }
}

enum Handle {
    Send(JoinHandle<Result<(), MessagingErr<(u32, u32)>>>),
    SendD(JoinHandle<Result<(), MessagingErr<DMsg>>>),
    Unit(JoinHandle<()>),
}

fn send_res<T>(r: Result<Result<(), MessagingErr<T>>, ()>) -> String {
    match r {
        Ok(Ok(())) => "ok".into(),
        Ok(Err(MessagingErr::SendErr(_))) => "err".into(),
        Ok(Err(MessagingErr::ChannelClosed)) => "err:ChannelClosed".into(),
        Ok(Err(MessagingErr::InvalidActorType)) => "err:InvalidActorType".into(),
        // async-std backend: `Err(())` = the `Abortable` wrapper saw the abort flag
        Err(()) => "cancelled".into(),
    }
}

fn unit_res(r: Result<(), ()>) -> String {
    match r {
        Ok(()) => "ok".into(),
        Err(()) => "cancelled".into(),
    }
}

fn poll_now<F: Future + Unpin>(f: &mut F) -> Option<F::Output> {
    let mut cx = Context::from_waker(Waker::noop());
    match Pin::new(f).poll(&mut cx) {
        Poll::Ready(v) => Some(v),
        Poll::Pending => None,
    }
}

struct TimerRec {
    h: Handle,
    res: Option<String>,
    one_shot: bool,
}

impl TimerRec {
    /// one poll of the join handle with a no-op waker
    fn peek(&mut self) {
        if self.res.is_some() {
            return;
        }
        self.res = match &mut self.h {
            Handle::Send(h) => poll_now(h).map(send_res),
            Handle::SendD(h) => poll_now(h).map(send_res),
            Handle::Unit(h) => poll_now(h).map(unit_res),
        };
    }
    /// await the join handle (event-driven), at most `CAP`
    fn wait(&mut self) {
        if self.res.is_some() {
            return;
        }
        self.res = match &mut self.h {
            Handle::Send(h) => async_std::task::block_on(async_std::future::timeout(CAP, h)).ok().map(send_res),
            Handle::SendD(h) => async_std::task::block_on(async_std::future::timeout(CAP, h)).ok().map(send_res),
            Handle::Unit(h) => async_std::task::block_on(async_std::future::timeout(CAP, h)).ok().map(unit_res),
        };
    }
    fn abort(&mut self) {
        match &mut self.h {
            Handle::Send(h) => h.abort(),
            Handle::SendD(h) => h.abort(),
            Handle::Unit(h) => h.abort(),
        }
    }
}

#[derive(Clone, Debug)]
enum Op {
    Sa(u64),
    Si(u64),
    Dsa(u64),
    Dsi(u64),
    Ea(u64),
    Ka(u64),
    Dea(u64),
    Dka(u64),
    Await(usize),
    AwaitHd(usize, u32),
    Abort(usize),
    Stop,
    Kill,
    Drain,
    AwaitExit,
}

impl Op {
    fn text(&self) -> String {
        match self {
            Op::Sa(p) => format!("sa {p}"),
            Op::Si(p) => format!("si {p}"),
            Op::Dsa(p) => format!("dsa {p}"),
            Op::Dsi(p) => format!("dsi {p}"),
            Op::Ea(p) => format!("ea {p}"),
            Op::Ka(p) => format!("ka {p}"),
            Op::Dea(p) => format!("dea {p}"),
            Op::Dka(p) => format!("dka {p}"),
            Op::Await(i) => format!("await {i}"),
            Op::AwaitHd(i, k) => format!("awaithd {i} {k}"),
            Op::Abort(i) => format!("abort {i}"),
            Op::Stop => "stop".into(),
            Op::Kill => "kill".into(),
            Op::Drain => "drain".into(),
            Op::AwaitExit => "awaitexit".into(),
        }
    }
    fn parse(s: &str) -> Option<Op> {
        let w: Vec<&str> = s.split_whitespace().filter(|w| !w.starts_with("h=")).collect();
        let n = |i: usize| w.get(i).and_then(|x| x.parse::<u64>().ok());
        Some(match *w.first()? {
            "sa" => Op::Sa(n(1)?),
            "si" => Op::Si(n(1)?),
            "dsa" => Op::Dsa(n(1)?),
            "dsi" => Op::Dsi(n(1)?),
            "ea" => Op::Ea(n(1)?),
            "ka" => Op::Ka(n(1)?),
            "dea" => Op::Dea(n(1)?),
            "dka" => Op::Dka(n(1)?),
            "await" => Op::Await(n(1)? as usize),
            "awaithd" => Op::AwaitHd(n(1)? as usize, n(2)? as u32),
            "abort" => Op::Abort(n(1)? as usize),
            "stop" => Op::Stop,
            "kill" => Op::Kill,
            "drain" => Op::Drain,
            "awaitexit" => Op::AwaitExit,
            _ => return None,
        })
    }
    fn creates(&self) -> bool {
        matches!(
            self,
            Op::Sa(_) | Op::Si(_) | Op::Dsa(_) | Op::Dsi(_) | Op::Ea(_) | Op::Ka(_) | Op::Dea(_) | Op::Dka(_)
        )
    }
}

fn show(v: &[Ev]) -> String {
    if v.is_empty() {
        return "-".into();
    }
    v.iter().map(|(i, k, t)| format!("{i}.{k}@{t}")).collect::<Vec<_>>().join(",")
}

struct Case {
    sh: Arc<Shared>,
    target: ActorRef<(u32, u32)>,
    timers: Vec<TimerRec>,
    n_att: usize,
    n_hd: usize,
}

impl Case {
    /// handles first (a finished timer's attempts are in the log by then), then the event log, then the clock
    fn snapshot(&mut self, fresh_pending: bool) -> (u64, String) {
        for t in self.timers.iter_mut() {
            t.peek();
        }
        let (att, hd, exit) = {
            let s = self.sh.m.lock().unwrap();
            (s.attempts[self.n_att..].to_vec(), s.handled[self.n_hd..].to_vec(), s.exit.clone())
        };
        self.n_att += att.len();
        self.n_hd += hd.len();
        // a one-shot timer whose message builder has run is finishing right now (no await point is left
        // between the builder and the end of its task): take its result into the same observation
        for (i, _, _) in &att {
            if let Some(t) = self.timers.get_mut(*i as usize) {
                if t.one_shot {
                    t.wait();
                }
            }
        }
        let mut res: Vec<String> = self.timers.iter().map(|t| t.res.clone().unwrap_or_else(|| "P".into())).collect();
        if fresh_pending {
            res.push("P".into());
        }
        let res = if res.is_empty() { "-".to_string() } else { res.join(",") };
        let t = self.sh.now();
        let tgt = match exit {
            Some((r, te)) => format!("Stopped:{r}@{te}"),
            None => "Running".to_string(),
        };
        (t, format!("t={t} att={} hd={} res={res} tgt={tgt}", show(&att), show(&hd)))
    }

    fn exec(&mut self, op: &Op) -> String {
        let us = Duration::from_micros;
        // waits first, then the snapshot; creations and closing calls AFTER the snapshot
        match op {
            Op::Await(i) => {
                if let Some(t) = self.timers.get_mut(*i) {
                    t.wait();
                }
            }
            Op::AwaitHd(i, k) => {
                let (i, k) = (*i as u32, *k);
                self.sh.wait_until(|s| s.exit.is_some() || s.handled.iter().any(|h| h.0 == i && h.1 == k));
            }
            Op::AwaitExit => {
                self.sh.wait_until(|s| s.exit.is_some());
            }
            Op::Abort(i) => {
                if let Some(t) = self.timers.get_mut(*i) {
                    t.abort();
                    t.wait();
                }
            }
            _ => {}
        }
        let (_, obs) = self.snapshot(op.creates());
        let id = self.timers.len() as u32;
        let sh = self.sh.clone();
        let one = move || {
            let t = sh.now();
            sh.m.lock().unwrap().attempts.push((id, 1, t));
        };
        let sh2 = self.sh.clone();
        let k = AtomicU32::new(0);
        let many = move || {
            let kk = k.fetch_add(1, Ordering::SeqCst) + 1;
            let t = sh2.now();
            sh2.m.lock().unwrap().attempts.push((id, kk, t));
            kk
        };
        let h = match op {
            Op::Sa(p) => Some(Handle::Send(self.target.send_after(us(*p), move || {
                one();
                (id, 1)
            }))),
            Op::Si(p) => Some(Handle::Unit(self.target.send_interval(us(*p), move || (id, many())))),
            Op::Dsa(p) => {
                let d = self.target.get_derived::<DMsg>();
                Some(Handle::SendD(d.send_after(us(*p), move || {
                    one();
                    DMsg(id, 1)
                })))
            }
            Op::Dsi(p) => {
                let d = self.target.get_derived::<DMsg>();
                Some(Handle::Unit(d.send_interval(us(*p), move || DMsg(id, many()))))
            }
            Op::Ea(p) => Some(Handle::Unit(self.target.exit_after(us(*p)))),
            Op::Ka(p) => Some(Handle::Unit(self.target.kill_after(us(*p)))),
            Op::Dea(p) => Some(Handle::Unit(self.target.get_derived::<DMsg>().exit_after(us(*p)))),
            Op::Dka(p) => Some(Handle::Unit(self.target.get_derived::<DMsg>().kill_after(us(*p)))),
            Op::Stop => {
                self.target.stop(Some("manual".into()));
                None
            }
            Op::Kill => {
                self.target.kill();
                None
            }
            Op::Drain => {
                let _ = self.target.drain();
                None
            }
            _ => None,
        };
        if let Some(h) = h {
            let one_shot = !matches!(op, Op::Si(_) | Op::Dsi(_));
            self.timers.push(TimerRec { h, res: None, one_shot });
        }
        obs
    }
}

fn run_case(ops: &[Op]) -> Vec<String> {
    let sh = Arc::new(Shared { m: Mutex::new(Inner::default()), cv: Condvar::new(), t0: Instant::now() });
    let (watcher, _wh) = async_std::task::block_on(Actor::spawn(None, Watcher(sh.clone()), ())).expect("watcher");
    let (target, _th) =
        async_std::task::block_on(Actor::spawn_linked(None, Target(sh.clone()), (), watcher.get_cell())).expect("target");
    let mut c = Case { sh, target, timers: Vec::new(), n_att: 0, n_hd: 0 };
    let out: Vec<String> = ops.iter().map(|op| c.exec(op)).collect();
    // tear down (not recorded): nothing of this case keeps running
    for t in c.timers.iter_mut() {
        t.abort();
    }
    c.target.kill();
    watcher.stop(None);
    let _ = c.target.get_status() == ActorStatus::Stopped;
    out
}

const ONE: [u64; 8] = [0, 0, 700, 1_000, 3_000, 8_000, 15_000, 30_000];
const IV: [u64; 5] = [1_000, 2_500, 5_000, 9_000, 16_000];

/// A case: timers are created, awaited, aborted; the target is stopped / killed / drained / left to an
/// exit_after / kill_after timer at a random point; timers are created on the dead target; at the end every
/// timer is awaited (one-shots must have fired or report why not, intervals must be gone with the target).
fn gen_case(rng: &mut Rng, st: &mut Stats) -> Vec<Op> {
    let mut ops: Vec<Op> = Vec::new();
    // (is interval, aborted)
    let mut timers: Vec<(bool, bool)> = Vec::new();
    // closing timers (exit_after / kill_after) that were not aborted; a manual closing call was made
    let mut closers: Vec<usize> = Vec::new();
    let mut manual = false;
    let mut closed = false; // awaitexit done
    let n = rng.range(3, 9);
    for _ in 0..n {
        let r = rng.below(100);
        let closing = manual || !closers.is_empty();
        if r < 45 || timers.is_empty() {
            let d = rng.chance(1, 4);
            let kind = rng.below(if closing { 8 } else { 10 });
            let op = match kind {
                0..=3 => {
                    let p = *rng.pick(&ONE);
                    timers.push((false, false));
                    if d { Op::Dsa(p) } else { Op::Sa(p) }
                }
                4..=7 => {
                    let p = *rng.pick(&IV);
                    timers.push((true, false));
                    if d { Op::Dsi(p) } else { Op::Si(p) }
                }
                8 => {
                    let p = *rng.pick(&ONE);
                    closers.push(timers.len());
                    timers.push((false, false));
                    if d { Op::Dea(p) } else { Op::Ea(p) }
                }
                _ => {
                    let p = *rng.pick(&ONE);
                    closers.push(timers.len());
                    timers.push((false, false));
                    if d { Op::Dka(p) } else { Op::Ka(p) }
                }
            };
            st.bump(&format!("op.{}", op.text().split(' ').next().unwrap_or("?")));
            ops.push(op);
        } else if r < 65 {
            let i = rng.below(timers.len() as u64) as usize;
            if timers[i].0 {
                if !timers[i].1 {
                    st.bump("op.awaithd");
                    ops.push(Op::AwaitHd(i, rng.range(1, 4) as u32));
                }
            } else if !closed || !closers.contains(&i) {
                st.bump("op.await");
                ops.push(Op::Await(i));
            }
        } else if r < 80 {
            // (an aborted closing timer may still have won the race: the target may leave anyway)
            let i = rng.below(timers.len() as u64) as usize;
            timers[i].1 = true;
            closers.retain(|c| *c != i);
            st.bump("op.abort");
            ops.push(Op::Abort(i));
        } else if !closing {
            manual = true;
            let op = match rng.below(3) {
                0 => Op::Stop,
                1 => Op::Kill,
                _ => Op::Drain,
            };
            st.bump(&format!("op.{}", op.text()));
            ops.push(op);
        } else if !closed {
            closed = true;
            st.bump("op.awaitexit");
            ops.push(Op::AwaitExit);
        }
    }
    let closing = manual || !closers.is_empty();
    // wrap-up: the target leaves, every timer is awaited
    if !closing {
        let op = match rng.below(3) {
            0 => Op::Stop,
            1 => Op::Kill,
            _ => Op::Drain,
        };
        // sometimes let the one-shot timers fire on the live target first
        if rng.chance(1, 2) {
            for (i, t) in timers.iter().enumerate() {
                if !t.0 {
                    ops.push(Op::Await(i));
                }
            }
        }
        ops.push(op);
    }
    if !closed {
        ops.push(Op::AwaitExit);
    }
    // a timer on the dead target
    if rng.chance(1, 2) {
        timers.push((false, false));
        ops.push(Op::Sa(*rng.pick(&ONE)));
    }
    if rng.chance(1, 3) {
        timers.push((true, false));
        ops.push(Op::Si(*rng.pick(&IV)));
    }
    for i in 0..timers.len() {
        ops.push(Op::Await(i));
    }
    ops
}

fn fixed_cases() -> Vec<Vec<Op>> {
    use Op::*;
    vec![
        // one-shot fires once, not early; zero period
        vec![Sa(0), Sa(5_000), Await(0), Await(1), Stop, AwaitExit],
        // interval: k-th message at k periods; dies with the target
        vec![Si(4_000), AwaitHd(0, 3), Stop, AwaitExit, Await(0)],
        vec![Si(2_500), AwaitHd(0, 2), Kill, AwaitExit, Await(0)],
        vec![Si(2_500), AwaitHd(0, 2), Drain, AwaitExit, Await(0)],
        // abort before it fires prevents delivery
        vec![Sa(20_000), Abort(0), Sa(1_000), Await(1), Stop, AwaitExit],
        vec![Si(3_000), AwaitHd(0, 1), Abort(0), Stop, AwaitExit],
        // exit_after / kill_after: reason, never early
        vec![Ea(6_000), AwaitExit, Await(0)],
        vec![Ka(6_000), AwaitExit, Await(0)],
        vec![Dea(3_000), Si(1_000), AwaitExit, Await(0), Await(1)],
        vec![Dka(0), AwaitExit, Await(0)],
        // a timer whose target is gone delivers nothing, send_after reports it
        vec![Stop, AwaitExit, Sa(2_000), Si(1_000), Ea(1_000), Await(0), Await(1), Await(2)],
        // the target leaves while a one-shot is pending: the handle says Err
        vec![Sa(10_000), Stop, AwaitExit, Await(0)],
        vec![Dsa(10_000), Drain, AwaitExit, Await(0)],
    ]
}

fn main() {
    let args = Args::parse();
    let seed = args.u64("seed", 1);
    let cases = args.u64("cases", 40);
    let out = args.str("out", ".");
    std::panic::set_hook(Box::new(|_| {}));
    let mut rng = Rng::new(seed);
    let mut st = Stats::default();
    let mut log = Log::create(std::path::Path::new(&out)).expect("log");
    let mut all: Vec<Vec<Op>> = Vec::new();
    let replay = args.str("replay-ops", "");
    for f in replay.split(',').filter(|f| !f.is_empty()) {
        if let Ok(txt) = std::fs::read_to_string(f) {
            let mut cur: Vec<Op> = Vec::new();
            for line in txt.lines() {
                if line.starts_with("case") {
                    if !cur.is_empty() {
                        all.push(std::mem::take(&mut cur));
                    }
                } else if let Some(op) = Op::parse(line) {
                    cur.push(op);
                }
            }
            if !cur.is_empty() {
                all.push(cur);
            }
            st.bump("replayed_files");
        }
    }
    if args.u64("only-replay", 0) != 1 {
        let fixed = fixed_cases();
        st.add("fixed_cases", fixed.len() as u64);
        all.extend(fixed);
        for _ in 0..cases {
            all.push(gen_case(&mut rng, &mut st));
        }
    }
    for (ci, ops) in all.iter().enumerate() {
        st.bump("cases");
        let res = std::panic::catch_unwind(AssertUnwindSafe(|| run_case(ops)));
        log.rec(format!("case {ci}"), "ok");
        match res {
            Ok(obs) => {
                for (op, o) in ops.iter().zip(obs.iter()) {
                    if !o.contains("att=-") {
                        st.bump("obs_with_attempt");
                    }
                    if o.contains("err") {
                        st.bump("obs_send_error");
                    }
                    if o.contains("cancelled") {
                        st.bump("obs_cancelled");
                    }
                    if o.contains("Stopped:") {
                        st.bump("obs_target_stopped");
                    }
                    log.rec(op.text(), o);
                }
            }
            Err(_) => {
                st.bump("case_panicked");
                log.rec(ops[0].text(), "<case panicked>");
            }
        }
    }
    st.write_json(&std::path::Path::new(&out).join("stats.json"));
    log.finish();
}
