import RactorModel.Model.Session
import RactorModel.Model.Codec
import Driver.Common

/-! Driver for the `Auth` / `Session` models (C17). Ops are written by
`harness/hcluster/src/bin/c17.rs` after executing them on the real code.

Digests are hex strings; the digest function is given per op as a table `h=<challenge>:<hex>,…`
that the harness computes with the real `challenge_digest` and the node's real cookie.

E-PURE (state machines of `auth.rs`), states and messages `:`-separated:
  `srv <state> <msg> fresh=<c|-> h=…`      → next state          (`ServerAuthenticationProcess::next`)
  `srvstart <state> fresh=<c|-> h=…`       → next state          (`start_challenge`)
  `cli <state> <msg> fresh=<c|-> h=…`      → next state          (`ClientAuthenticationProcess::next`)

  `digest c1=<hex> c2=<hex> ch1= ch2= ref=<hex>,<hex>` → `<hex>,<hex>`   (`hash::challenge_digest` on both inputs)
  `authz adv=<pids> pid=<p> rem=<live remotable pids>` → `<0|1> adv=<pids afterwards>`   (`authorized_local_actor`)

E-LTS (a real `NodeServer`, the harness is the peer):
  `node <name> transitive=<0|1> limit=<max_inbound_frame_size>` → `ok`        (fresh NodeServer; forgets all sessions)
  `open <k> <server|client> thisname= thisconn= connid= transitive=` → `sent=[…]`
  `send <k> <frame> len=<payload bytes> check= elected= fresh= pids= groups= rem= sessions= h=` → observation
  `batch <k> <frame>+<frame>+… env…`                       → observation (frames written back-to-back)
  `local <k> <spawn|term> <pid> <rem 0|1> groups=<scope/group/pid;…>` → observation
  `declare <k> <declared len> <n payload bytes sent>`      → observation (header only / partial payload)
  `garbage <k> <hex>` / `drop <k>`                         → observation (transport closed)
  `survived`                                               → `1` (a fresh session authenticated after a wire fault on another one)
  `connects`                                               → number of TCP connections the node opened to the advertised address
  `killed <k>`                                             → observation (the NodeServer stopped the session: it lost an election)
observation: `sent=[f|…] probe=[pid:cast|pid:call|…] proxies=[…] pg=[scope/group:pids;…] listed=0|1 alive=0|1`
-/

namespace Driver.C17
open Auth Session Driver

abbrev D := String

def colon (s : String) : List String := splitOnChar s ':'

def field? (w k : String) : Option String :=
  if w.startsWith (k ++ "=") then some (w.drop (k.length + 1)).toString else none

def getField (ws : List String) (k : String) : Option String := ws.findSome? (field? · k)

def parseH (s : String) : List (Nat × String) :=
  if s == "-" || s == "" then [] else
  (splitOnChar s ',').filterMap (fun e => match colon e with
    | [c, h] => c.toNat?.map (·, h)
    | _ => none)

def Hof (tbl : List (Nat × String)) : Unit → Nat → D :=
  fun _ c => match tbl.find? (·.1 == c) with
    | some (_, h) => h
    | none => "?"

def unword (s : String) : String := if s == "-" then "" else s
def word (s : String) : String := if s == "" then "-" else s

def parseMsg? (s : String) : Option (Msg D) :=
  match colon s with
  | ["name", n, c, id] => id.toNat?.map (fun id => .name ⟨unword n, unword c, id⟩)
  | ["sstatus", n] => n.toNat?.map .serverStatus
  | ["cstatus", b] => (parseBool? b).map .clientStatus
  | ["schal", n, cs, c] => c.toNat?.map (.serverChallenge (unword n) (unword cs))
  | ["cchal", c, h] => c.toNat?.map (fun c => .clientChallenge c (unword h))
  | ["sack", h] => some (.serverAck (unword h))
  | ["empty"] => some .empty
  | _ => none

def parseServer? (s : String) : Option (Server D) :=
  match colon s with
  | ["waitingName"] => some .waitingName
  | ["havePeerName", n, c, id] => id.toNat?.map (fun id => .havePeerName ⟨unword n, unword c, id⟩)
  | ["waitingClientStatus"] => some .waitingClientStatus
  | ["waitingReply", c, h] => c.toNat?.map (fun c => .waitingReply c h)
  | ["ok", h] => some (.ok h)
  | ["close"] => some .close
  | _ => none

def showServer : Server D → String
  | .waitingName => "waitingName"
  | .havePeerName n => s!"havePeerName:{word n.name}:{word n.conn}:{n.connId}"
  | .waitingClientStatus => "waitingClientStatus"
  | .waitingReply c h => s!"waitingReply:{c}:{h}"
  | .ok h => s!"ok:{h}"
  | .close => "close"

def parseClient? (s : String) : Option (Client D) :=
  match colon s with
  | ["waitingStatus"] => some .waitingStatus
  | ["waitingChallenge", n] => n.toNat?.map .waitingChallenge
  | ["waitingAck", n, cs, sc, reply, ours, exp] => do
    let sc ← sc.toNat?; let ours ← ours.toNat?
    pure (.waitingAck (unword n) (unword cs) sc reply ours exp)
  | ["ok"] => some .ok
  | ["close"] => some .close
  | _ => none

def showClient : Client D → String
  | .waitingStatus => "waitingStatus"
  | .waitingChallenge n => s!"waitingChallenge:{n}"
  | .waitingAck n cs sc reply ours exp => s!"waitingAck:{word n}:{word cs}:{sc}:{reply}:{ours}:{exp}"
  | .ok => "ok"
  | .close => "close"

/-! ### frames -/

def pidList? (s : String) : Option (List Nat) := natList? s

def parsePeers (s : String) : List (String × String) :=
  if s == "-" || s == "" then [] else
  (splitOnChar s ';').filterMap (fun e => match splitOnChar e '^' with
    | [n, c] => some (unword n, (unword c).replace "~" ":")   -- `~` stands for `:` inside a descriptor
    | _ => none)

def showPeers (l : List (String × String)) : String :=
  if l.isEmpty then "-" else ";".intercalate (l.map (fun p => s!"{word p.1}^{word p.2}"))

def parseFrame? (s : String) : Option (Frame D) :=
  match colon s with
  | ["cast", to] => to.toNat?.map (fun t => .node (.cast t))
  | ["call", to, tag] => do pure (.node (.call (← to.toNat?) (← tag.toNat?)))
  | ["reply", to, tag] => do pure (.node (.reply (← to.toNat?) (← tag.toNat?)))
  | ["nempty"] => some (.node .empty)
  | ["ready"] => some (.control .ready)
  | ["spawn", p] => (pidList? p).map (fun p => .control (.spawn p))
  | ["term", p] => (pidList? p).map (fun p => .control (.terminate p))
  | ["ping"] => some (.control .ping)
  | ["pong"] => some (.control .pong)
  | ["pgjoin", sc, g, p] => (pidList? p).map (fun p => .control (.pgJoin (unword sc) (unword g) p))
  | ["pgleave", sc, g, p] => (pidList? p).map (fun p => .control (.pgLeave (unword sc) (unword g) p))
  | ["enum", n, c] => some (.control (.enumerate (unword n) (unword c)))
  | ["nodesessions", l] => some (.control (.nodeSessions (parsePeers l)))
  | ["cempty"] => some (.control .empty)
  | ["netempty"] => some .empty
  | ["aempty"] => some (.auth .empty)
  | _ => (parseMsg? s).map .auth

/-- Frames the node sends, as the harness prints them (connection strings of the node itself
are not printed: the listener port is chosen by the OS). -/
def showFrame : Frame D → String
  | .auth (.name n) => s!"name:{word n.name}:{n.connId}"
  | .auth (.serverStatus s) => s!"sstatus:{s}"
  | .auth (.clientStatus b) => s!"cstatus:{if b then 1 else 0}"
  | .auth (.serverChallenge n _ c) => s!"schal:{word n}:{c}"
  | .auth (.clientChallenge c h) => s!"cchal:{c}:{h}"
  | .auth (.serverAck h) => s!"sack:{h}"
  | .auth .empty => "aempty"
  | .node (.cast to) => s!"cast:{to}"
  | .node (.call to tag) => s!"call:{to}:{tag}"
  | .node (.reply to tag) => s!"reply:{to}:{tag}"
  | .node .empty => "nempty"
  | .control .ready => "ready"
  | .control (.spawn p) => s!"spawn:{showNats p}"
  | .control (.terminate p) => s!"term:{showNats p}"
  | .control .ping => "ping"
  | .control .pong => "pong"
  | .control (.pgJoin sc g p) => s!"pgjoin:{word sc}:{word g}:{showNats p}"
  | .control (.pgLeave sc g p) => s!"pgleave:{word sc}:{word g}:{showNats p}"
  | .control (.enumerate n _) => s!"enum:{word n}"
  | .control (.nodeSessions l) => s!"nodesessions:{showPeers l}"
  | .control .empty => "cempty"
  | .empty => "netempty"

def parseCheck (s : String) : Check :=
  match s with
  | "noOther" => .noOther
  | "thisContinues" => .thisContinues
  | "otherContinues" => .otherContinues
  | "duplicate" => .duplicate
  | _ => .failed

def parseGroups (s : String) : List (String × String × List Nat) :=
  if s == "-" || s == "" then [] else
  (splitOnChar s ';').filterMap (fun e => match splitOnChar e '/' with
    | [sc, g, p] => (natList? p).map (fun p => (unword sc, unword g, p))
    | _ => none)

def parseEnv (ws : List String) : Env :=
  let rem := ((getField ws "rem").bind natList?).getD []
  { check := parseCheck ((getField ws "check").getD "failed")
    elected := (getField ws "elected") == some "1"
    fresh := ((getField ws "fresh").bind (·.toNat?)).getD 0
    localPids := ((getField ws "pids").bind natList?).getD []
    groups := parseGroups ((getField ws "groups").getD "-")
    remotable := fun p => rem.contains p
    sessions := match getField ws "sessions" with
      | none => none
      | some "none" => none
      | some l => some (parsePeers l) }

/-! ### per-session model + oracle state -/

structure Ses where
  cfg : Cfg Unit
  st : SState D
  /-- pg membership of this session's proxies (driver bookkeeping of pgJoin / pgLeave / stopProxy) -/
  pg : List (String × String × List Nat) := []
  authed : Bool := false            -- model: `authenticated` was emitted
  -- oracle state, fed only by what the harness sent and what the implementation showed
  oIssued : Option Nat := none      -- challenge the node issued on this session (seen in its frames)
  oGood : Bool := false             -- the harness presented the right digest for it (not one the node itself had sent)
  oRelayed : Bool := false          -- the right digest the harness presented was one the NODE had sent before (reflection)
  oClosed : Bool := false           -- the session was seen dead
  oAdvertised : List Nat := []      -- pids the node announced in `spawn` frames and not yet `term`ed

structure St where
  sessions : List (Nat × Ses) := []
  /-- the node's configured `max_inbound_frame_size` -/
  limit : Nat := Codec.defaultMaxFrame
  /-- transitive `connect` effects of the current node (all sessions) -/
  connects : Nat := 0
  anyGood : Bool := false
  anyRelayed : Bool := false
  /-- oracle: how many dials of the advertised listener the `NodeSessions` frames sent so far may
  cause at most: entries naming a peer that is not this node and not a peer the harness is
  authenticated as (by name or connection string), sent on an authenticated session in transitive mode -/
  oAllowedDials : Nat := 0
  /-- oracle: every digest the node itself has sent so far (in its `ChallengeReply` / `ChallengeAck`
  frames, any session): presenting one of these proves nothing about knowing the cookie -/
  emitted : List String := []
  /-- oracle (wave 2): the digests the node sent on sessions whose peer had NOT proved the cookie by
  then — what a cookie-less end point can have seen (`Multi.advView`) -/
  emittedAdv : List String := []

def St.get? (s : St) (k : Nat) : Option Ses := (s.sessions.find? (·.1 == k)).map (·.2)
def St.set (s : St) (k : Nat) (v : Ses) : St :=
  { s with sessions := (s.sessions.filter (·.1 != k)) ++ [(k, v)], anyGood := s.anyGood || v.oGood,
           anyRelayed := s.anyRelayed || v.oRelayed }

/-- digests in the frames the node sent -/
def digestsIn (sent : List String) : List String :=
  sent.filterMap (fun f => match colon f with
    | ["cchal", _, h] => some h
    | ["sack", h] => some h
    | _ => none)

def sortNats (l : List Nat) : List Nat := (l.toArray.qsort (· < ·)).toList

def pgAdd (pg : List (String × String × List Nat)) (sc g : String) (pids : List Nat) :
    List (String × String × List Nat) :=
  match pg.find? (fun (e : String × String × List Nat) => e.1 == sc && e.2.1 == g) with
  | some (_, _, old) =>
    (pg.filter (fun (e : String × String × List Nat) => !(e.1 == sc && e.2.1 == g))) ++
      [(sc, g, old ++ pids.filter (fun p => !old.contains p))]
  | none => pg ++ [(sc, g, pids.eraseDups)]

def pgDel (pg : List (String × String × List Nat)) (sc g : String) (pids : List Nat) :
    List (String × String × List Nat) :=
  (pg.map (fun (e : String × String × List Nat) => if e.1 == sc && e.2.1 == g then (e.1, e.2.1, e.2.2.filter (fun p => !pids.contains p)) else e)).filter
    (fun e => !e.2.2.isEmpty)

def pgDrop (pg : List (String × String × List Nat)) (pid : Nat) : List (String × String × List Nat) :=
  (pg.map (fun (e : String × String × List Nat) => (e.1, e.2.1, e.2.2.filter (· != pid)))).filter (fun e => !e.2.2.isEmpty)

def applyPg (pg : List (String × String × List Nat)) : List (Effect D) → List (String × String × List Nat)
  | [] => pg
  | .pgJoin sc g p :: r => applyPg (pgAdd pg sc g p) r
  | .pgLeave sc g p :: r => applyPg (pgDel pg sc g p) r
  | .stopProxy p :: r => applyPg (pgDrop pg p) r
  | _ :: r => applyPg pg r

def showPg (pg : List (String × String × List Nat)) : String :=
  let es := pg.map (fun e => s!"{word e.1}/{word e.2.1}:{showNats (sortNats e.2.2)}")
  ";".intercalate (es.toArray.qsort (· < ·)).toList

def isSubseq : List String → List String → Bool
  | [], _ => true
  | _ :: _, [] => false
  | a :: as, b :: bs => if a == b then isSubseq as bs else isSubseq (a :: as) bs

/-- what the implementation reported as sent, if parsable -/
def implSent (impl : String) : Option (List String) :=
  match words impl with
  | a :: _ =>
    if a.startsWith "sent=[" && a.endsWith "]" then
      let inner := ((a.drop 6).toString.dropEnd 1).toString
      some (if inner == "" then [] else splitOnChar inner '|')
    else none
  | [] => none

/-- The observable projection of a step. Frames queued in a step that also stops the session
may never reach the wire (the writer is torn down with the session): for such a step any
subsequence of the predicted frames is accepted, nothing beyond them. -/
def showObs (ses : Ses) (eff : List (Effect D)) (impl : String := "") : String :=
  let sent := eff.filterMap (fun e => match e with
    | .send f => some (showFrame f)
    | _ => none)
  -- a delivered call is answered by the probe: the reply forwarder sends a `reply` frame
  -- (replies are produced concurrently by the forwarder tasks: listed last, by ascending pid)
  let replies := (sortNats (eff.filterMap (fun e => match e with
    | .deliverLocal pid true => some pid
    | _ => none))).map (fun pid => s!"reply:{pid}")
  -- deliveries grouped by target (ascending pid), in arrival order per target: the order in
  -- which different actors get to run is not part of the observation
  let dl := eff.filterMap (fun e => match e with
    | .deliverLocal pid c => some (pid, c)
    | _ => none)
  let probe := (sortNats (dl.map (·.1)).eraseDups).flatMap (fun p =>
    (dl.filter (·.1 == p)).map (fun (x : Nat × Bool) => s!"{x.1}:{if x.2 then "call" else "cast"}"))
  let dead := ses.st.stopped
  let allSent := sent ++ replies
  let allSent := match dead, implSent impl with
    | true, some is => if isSubseq is allSent then is else allSent
    | _, _ => allSent
  let proxies := if dead then [] else sortNats ses.st.proxies
  let pg := if dead then "" else showPg ses.pg
  let listed := ses.authed && !dead
  s!"sent=[{"|".intercalate allSent}] probe=[{"|".intercalate probe}] proxies=[{showNats proxies}] pg=[{pg}] listed={if listed then 1 else 0} alive={if dead then 0 else 1}"

/-! ### the run-time oracle (`C17.ok` on the implementation's observations alone) -/

structure Obs where
  sent : List String
  probe : List String
  proxies : String
  pg : String
  listed : Bool
  alive : Bool

def inner (s pre : String) : Option String :=
  if s.startsWith (pre ++ "=[") && s.endsWith "]" then
    some ((s.drop (pre.length + 2)).toString.dropEnd 1).toString
  else none

def parseObs? (s : String) : Option Obs :=
  match words s with
  | [a, b, c, d, e, f] => do
    let sent ← inner a "sent"; let probe ← inner b "probe"
    let proxies ← inner c "proxies"; let pg ← inner d "pg"
    let listed ← field? e "listed"; let alive ← field? f "alive"
    pure { sent := if sent == "" then [] else splitOnChar sent '|'
           probe := if probe == "" then [] else splitOnChar probe '|'
           proxies := proxies, pg := pg, listed := listed == "1", alive := alive == "1" }
  | _ => none

/-- Frames that only an authenticated, elected session may send (they disclose local actors). -/
def disclosing (f : String) : Bool :=
  f.startsWith "spawn:" || f.startsWith "term:" || f.startsWith "pgjoin:" || f.startsWith "pgleave:" ||
  f == "ready" || f.startsWith "nodesessions:" || f.startsWith "reply:" || f.startsWith "enum:" || f == "pong"

def hasEffect (o : Obs) : Bool :=
  !o.probe.isEmpty || o.proxies != "-" || o.pg != "" || o.listed || o.sent.any disclosing

/-- Update the oracle state with what the harness sent, then judge the observation. -/
def judge (ses : Ses) (sentByHarness : Option (Frame D)) (tbl : List (Nat × String)) (remNow : List Nat)
    (o : Obs) (emitted : List String := []) : Ses × List String :=
  -- did the harness just present the right digest for the challenge this node issued?
  let good := match sentByHarness, ses.oIssued with
    | some (.auth (.clientChallenge _ dg)), some c => ses.cfg.isServer && dg == Hof tbl () c && dg != "?"
    | some (.auth (.serverAck dg)), some c => !ses.cfg.isServer && dg == Hof tbl () c && dg != "?"
    | _, _ => false
  -- … but a digest the node itself had sent before (on any session) proves nothing: the peer may
  -- have copied it (reflection). Such a session counts as NOT having proved knowledge of the cookie.
  let relayed := match sentByHarness with
    | some (.auth (.clientChallenge _ dg)) => emitted.contains dg
    | some (.auth (.serverAck dg)) => emitted.contains dg
    | _ => false
  let oGood := ses.oGood || (good && !relayed)
  let oRelayed := ses.oRelayed || (good && relayed)
  let fails1 := if !oGood && hasEffect o then
      [if oRelayed then "authenticated-by-reflected-digest" else "effect-before-authentication"] else []
  let fails2 := if ses.oClosed && (hasEffect o || o.alive || !o.sent.isEmpty) then ["effect-after-close"] else []
  -- allow-list: deliveries only to pids this node announced on this session, live and remotable
  let adv := o.sent.foldl (fun acc f =>
    match colon f with
    | ["spawn", p] => acc ++ ((natList? p).getD [])
    | ["term", p] => acc.filter (fun x => !((natList? p).getD []).contains x)
    | _ => acc) ses.oAdvertised
  let fails3 := if o.probe.all (fun p => match colon p with
      | [pid, _] => match pid.toNat? with
        | some pid => (ses.oAdvertised.contains pid || adv.contains pid) && remNow.contains pid
        | none => false
      | _ => false) then [] else ["delivery-to-unadvertised-pid"]
  -- the challenge this node issued (server side: in its Challenge; client side: in its ChallengeReply)
  let issued := o.sent.foldl (fun acc f =>
    match colon f with
    | ["schal", _, c] => if ses.cfg.isServer then c.toNat? else acc
    | ["cchal", c, _] => if !ses.cfg.isServer then c.toNat? else acc
    | _ => acc) ses.oIssued
  ({ ses with oGood := oGood, oRelayed := oRelayed, oClosed := ses.oClosed || !o.alive, oAdvertised := adv, oIssued := issued },
   fails1 ++ fails2 ++ fails3)

def oracleOn (ses : Ses) (sentByHarness : Option (Frame D)) (tbl : List (Nat × String)) (remNow : List Nat)
    (impl : String) (emitted : List String := []) : Ses × List String :=
  match parseObs? impl with
  | some o => judge ses sentByHarness tbl remNow o emitted
  | none => (ses, ["unparsable-observation"])

/-! ### step -/

def fsmOracleSrv (st : Server D) (m : Msg D) (impl : String) : List String :=
  match parseServer? impl with
  | none => ["unparsable"]
  | some nx =>
    (if st.isClose && !nx.isClose then ["fsm-close-absorbing"] else []) ++
    (if nx.isOk && !st.isOk then
      (match st, m with
       | .waitingReply _ d, .clientChallenge _ dg => if d == dg then [] else ["fsm-ok-needs-digest"]
       | _, _ => ["fsm-ok-needs-digest"]) else []) ++
    (if !st.expects m && !nx.isClose then ["fsm-unexpected-closes"] else [])

def fsmOracleCli (st : Client D) (m : Msg D) (impl : String) : List String :=
  match parseClient? impl with
  | none => ["unparsable"]
  | some nx =>
    (if st.isClose && !nx.isClose then ["fsm-close-absorbing"] else []) ++
    (if nx.isOk && !st.isOk then
      (match st, m with
       | .waitingAck _ _ _ _ _ d, .serverAck dg => if d == dg then [] else ["fsm-ok-needs-digest"]
       | _, _ => ["fsm-ok-needs-digest"]) else []) ++
    (if !st.expects m && !nx.isClose then ["fsm-unexpected-closes"] else [])

def freshOf (ws : List String) : Nat := ((getField ws "fresh").bind (·.toNat?)).getD 0

/-- The property clause "any malformed, out-of-order or wrong-digest authentication message
closes the session": on a live, unauthenticated session (model state, validated so far by the
correspondence) a frame that is an authentication violation must leave the session dead. -/
def violationOracle (ses : Ses) (fr : Frame D) (impl : String) : List String :=
  match fr with
  | .auth m =>
    if !ses.st.stopped && !ses.st.auth.isOk && !selfConnection ses.cfg ses.st && !ses.st.auth.accepts m then
      match parseObs? impl with
      | some o => if o.alive then ["auth-violation-did-not-close-session"] else []
      | none => []
    else []
  | _ => []

/-- The frame layer in front of the session (`Codec.checkedFrameLength`, the model of
`checked_frame_length`, with the node's CONFIGURED limit): is a frame declaring `len` payload
bytes read at all? -/
def admitted (limit len : Nat) : Bool :=
  match Codec.checkedFrameLength len limit with
  | .ok _ => true
  | .error _ => false

/-- The C19 clause "a frame over the configured limit closes the session without reading it":
the session must be dead and must not have answered. -/
def overLimitOracle (impl : String) : List String :=
  match parseObs? impl with
  | some o => if o.alive || !o.sent.isEmpty || !o.probe.isEmpty then ["frame-over-configured-limit-accepted"] else []
  | none => []

def lensOf (ws : List String) : List Nat :=
  match getField ws "len" with
  | some l => (splitOnChar l '+').filterMap (·.toNat?)
  | none => []

/-- What the real `GetSessions` must answer according to the model: the live sessions that
emitted `ConnectionAuthenticated`, with the name and connection string they registered. The
`EnumerateNodeSessions` reply and the transitive `NodeSessions` handling are predicted from
this, not from what the node reported. -/
def modelSessions (st : List (Nat × Ses)) : List (String × String) :=
  let l := st.filterMap (fun (_, s) => if s.authed && !s.st.stopped then s.st.name else none)
  (l.toArray.qsort (fun a b => a.1 < b.1 || (a.1 == b.1 && a.2 < b.2))).toList

/-- Clause: every peer named in a `NodeSessions` reply belongs to a session on which the harness
presented the right digest. -/
def enumOracle (st : List (Nat × Ses)) (impl : String) : List String :=
  match parseObs? impl with
  | some o =>
    let named := o.sent.flatMap (fun f => match colon f with
      | ["nodesessions", l] => (parsePeers l).map (·.1)
      | _ => [])
    let bad := named.filter (fun n => !st.any (fun (_, s) => s.oGood && (s.st.name.map (·.1)) == some n))
    if bad.isEmpty then []
    else if bad.all (fun n => st.any (fun (_, s) => s.oRelayed && (s.st.name.map (·.1)) == some n)) then
      ["authenticated-by-reflected-digest"]
    else ["unauthenticated-peer-listed-to-others"]
  | none => []

/-- the node's digests in an observation -/
def implDigests (impl : String) : List String :=
  match parseObs? impl with
  | some o => digestsIn o.sent
  | none => []

def closeTransport (ses : Ses) : Ses :=
  { ses with st := { ses.st with stopped := true } }

/-- `relay <k> <from> <kind> frame=<f> env…` is the frame `<f>` on session `<k>` (the harness built
it from the node's own frames on session `<from>`; the oracle does not rely on that label: it
recognises a reflected digest by itself). -/
def unrelay (op : String) : String :=
  match words op with
  | "relay" :: k :: _ :: _ :: rest =>
    match getField rest "frame" with
    | some f => if f == "-" then op else " ".intercalate ("send" :: k :: f :: rest.filter (fun w => !w.startsWith "frame="))
    | none => op
  | _ => op

def step (st : St) (op0 impl : String) : St × StepOut :=
  let op := unrelay op0
  let ws := words op
  let tbl := parseH ((getField ws "h").getD "-")
  match ws with
  | "relay" :: _ => (st, { model := "nothing-to-relay" })
  | "srv" :: s :: m :: _ =>
    match parseServer? s, parseMsg? m with
    | some s, some m =>
      (st, { model := showServer (s.next (Hof tbl) () (freshOf ws) m), oracle := fsmOracleSrv s m impl, nontrivial := true })
    | _, _ => (st, { model := "bad-op" })
  | "srvstart" :: s :: _ =>
    match parseServer? s with
    | some s => (st, { model := showServer (Server.startChallenge (Hof tbl) () (freshOf ws) s), nontrivial := true })
    | none => (st, { model := "bad-op" })
  | "cli" :: s :: m :: _ =>
    match parseClient? s, parseMsg? m with
    | some s, some m =>
      (st, { model := showClient (s.next (Hof tbl) () (freshOf ws) m), oracle := fsmOracleCli s m impl, nontrivial := true })
    | _, _ => (st, { model := "bad-op" })
  | "digest" :: _ =>
    -- the real `challenge_digest` against the reference SHA-256(challenge BE ‖ cookie) computed by
    -- the harness with the sha2 crate; distinct inputs must give distinct digests (the hypothesis
    -- `hsep` of `C17.wrong_cookie_never_authenticated`, sampled), equal inputs equal digests
    let f := fun k => (getField ws k).getD ""
    let same := f "c1" == f "c2" && f "ch1" == f "ch2"
    let orc := match splitOnChar impl ',' with
      | [d1, d2] =>
        (if impl == f "ref" then [] else ["digest-differs-from-reference"]) ++
        (if !same && d1 == d2 then ["digest-ignores-part-of-its-input"] else []) ++
        (if same && d1 != d2 then ["digest-not-a-function-of-its-input"] else [])
      | _ => ["unparsable"]
    (st, { model := f "ref", oracle := orc, nontrivial := true })
  | "authz" :: _ =>
    let adv := ((getField ws "adv").bind natList?).getD []
    let pid := ((getField ws "pid").bind (·.toNat?)).getD 0
    let rem := ((getField ws "rem").bind natList?).getD []
    let env : Env := { check := .failed, elected := false, fresh := 0, localPids := [], groups := [],
                       remotable := fun p => rem.contains p, sessions := none }
    let s0 : SState D := { (Session.init ({ isServer := true, cookie := (), thisName := "", thisConn := "",
                                             transitive := false, connId := 0 } : Cfg Unit)) with advertised := adv }
    let (s1, ok) := authorized s0 env pid
    -- oracle on the implementation's answer: allowed only if advertised and a live remotable actor
    let orc := if impl.startsWith "1" && !(adv.contains pid && rem.contains pid) then ["delivery-to-unadvertised-pid"] else []
    (st, { model := s!"{if ok then 1 else 0} adv={showNats (sortNats s1.advertised)}", oracle := orc, nontrivial := true })
  | "node" :: _ =>
    ({ sessions := [], limit := ((getField ws "limit").bind (·.toNat?)).getD Codec.defaultMaxFrame }, { model := "ok" })
  | ["survived"] =>
    -- after a framing fault on one session a fresh session must still authenticate (C19)
    (st, { model := "1", oracle := if impl == "1" then [] else ["node-wedged-after-wire-fault"], nontrivial := true })
  | ["live"] =>
    -- C18 on the LIVE session actors (not on `GetSessions`): of the sessions on which the peer proved
    -- the cookie, at most ONE per peer name may be alive on the accepting node — the NodeServer's own
    -- election on `ConnectionAuthenticated` stops every loser, also one whose (name, nonce) is shared
    -- (legacy nonce 0 / repeated nonce) so that its own `CheckSession` cannot tell it lost
    let aliveImpl : List Nat := (splitOnChar impl ',').filterMap (fun e => match colon e with
      | [k, "1"] => k.toNat?
      | _ => none)
    let proved := st.sessions.filter (fun (k, s) => s.cfg.isServer && (s.oGood || s.oRelayed) && aliveImpl.contains k && s.st.name.isSome)
    let dup := proved.any (fun (k, s) => proved.any (fun (k', s') => k != k' && (s.st.name.map (·.1)) == (s'.st.name.map (·.1))))
    let m := ",".intercalate ((st.sessions.toArray.qsort (fun a b => a.1 < b.1)).toList.map (fun (k, s) => s!"{k}:{if s.st.stopped then 0 else 1}"))
    (st, { model := if m == "" then "-" else m, oracle := if dup then ["two-live-links-to-one-peer"] else [], nontrivial := proved.length > 0 })
  | ["connects"] =>
    -- oracle: the node dials a peer-supplied address only if some session presented the right digest
    let orc := match impl.toNat? with
      | some n => if n > 0 && !st.anyGood then
          [if st.anyRelayed then "authenticated-by-reflected-digest" else "effect-before-authentication"]
        else if n > st.oAllowedDials then ["transitive-dial-of-known-peer-or-self"] else []
      | none => []
    (st, { model := toString st.connects, oracle := orc, nontrivial := st.connects > 0 })
  | "open" :: k :: side :: _ =>
    match k.toNat? with
    | some k =>
      let cfg : Cfg Unit :=
        { isServer := side == "server", cookie := (),
          thisName := unword ((getField ws "thisname").getD "-"), thisConn := unword ((getField ws "thisconn").getD "-"),
          transitive := getField ws "transitive" == some "1",
          connId := ((getField ws "connid").bind (·.toNat?)).getD 0 }
      let ses : Ses := { cfg := cfg, st := Session.init cfg }
      -- pre_start of a client-side session announces this node
      let sent := if cfg.isServer then "" else showFrame (.auth (.name ⟨cfg.thisName, cfg.thisConn, cfg.connId⟩))
      (st.set k ses, { model := s!"sent=[{sent}]" })
    | none => (st, { model := "bad-op" })
  | "declare" :: k :: d :: n :: _ =>
    match k.toNat?.bind st.get?, d.toNat?, n.toNat? with
    | some ses, some declared, some n =>
      if admitted st.limit declared then
        -- within the limit: the reader waits for the rest of the payload (nothing else happens);
        -- a complete payload of filler bytes does not decode and closes the transport
        let ses' := if n < declared then ses else closeTransport ses
        let (sesO, orc) := oracleOn ses' none tbl [] impl
        (st.set (k.toNat?.getD 0) sesO, { model := showObs ses' [], oracle := orc, nontrivial := true })
      else
        let ses' := closeTransport ses
        let (sesO, orc) := oracleOn ses' none tbl [] impl
        (st.set (k.toNat?.getD 0) sesO,
         { model := showObs ses' [], oracle := orc ++ (if ses.st.stopped then [] else overLimitOracle impl), nontrivial := true })
    | _, _, _ => (st, { model := "bad-op" })
  | "send" :: k :: f :: _ =>
    match k.toNat?.bind st.get?, parseFrame? f with
    | some ses, some fr =>
      if !(lensOf ws).all (admitted st.limit) then
        -- the frame is over the configured limit: rejected on its header, the transport closes
        let ses' := closeTransport ses
        let (sesO, orc) := oracleOn ses' none tbl [] impl
        (st.set (k.toNat?.getD 0) sesO,
         { model := showObs ses' [], oracle := orc ++ (if ses.st.stopped then [] else overLimitOracle impl), nontrivial := true })
      else
      let env := { parseEnv ws with sessions := some (modelSessions st.sessions) }
      let (s', eff) := Session.handle (Hof tbl) ses.cfg ses.st env (.frame fr)
      let ses' : Ses := { ses with st := s', pg := applyPg ses.pg eff,
                                     authed := ses.authed || eff.contains Effect.authenticated }
      let rem := ((getField ws "rem").bind natList?).getD []
      let (sesO, orc1) := oracleOn ses' (some fr) tbl rem impl st.emitted
      -- C18, end to end: a session that has just proved the cookie is turned away (stops instead of
      -- becoming ready) only in favour of another session of the same peer name that proved it too
      let kn := k.toNat?.getD 0
      let provedNow := (sesO.oGood && !ses.oGood) || (sesO.oRelayed && !ses.oRelayed)
      let rival := st.sessions.any (fun (k', s) => k' != kn && (s.oGood || s.oRelayed) && !s.oClosed &&
        (s.st.name.map (·.1)) == (s'.name.map (·.1)) && s.st.name.isSome)
      let orcV := match parseObs? impl with
        | some o => if provedNow && !ses.st.stopped && !selfConnection ses.cfg ses.st && !o.alive && !rival
                    then ["authenticated-session-turned-away-without-authenticated-rival"] else []
        | none => []
      -- … and a connection that merely ANNOUNCES its name (first `Name` on a fresh server-side session)
      -- is refused at once only in favour of a session of that name that proved the cookie: an
      -- unauthenticated squatter cannot veto it
      let orcN := match fr, ses.st.auth, parseObs? impl with
        | .auth (.name n), .server .waitingName, some o =>
          let rivalN := st.sessions.any (fun (k', s) => k' != kn && (s.oGood || s.oRelayed) && !s.oClosed &&
            (s.st.name.map (·.1)) == some n.name)
          if !ses.st.stopped && !o.alive && !rivalN then ["connection-refused-without-authenticated-rival"] else []
        | _, _, _ => []
      -- wave 2 (C17.inbound_only_adversary_is_never_authenticated, checked on the real node): while every
      -- session whose peer has not proved the cookie is INBOUND, the node has disclosed no digest to such
      -- a peer, so none of them can get in with a copied digest — this is NOT the known finding F11
      let presentedDg : Option String := match fr with
        | .auth (.clientChallenge _ dg) => some dg
        | .auth (.serverAck dg) => some dg
        | _ => none
      let orcI := if sesO.oRelayed && !ses.oRelayed && (presentedDg.map st.emittedAdv.contains).getD false &&
          st.sessions.all (fun (_, s) => s.cfg.isServer || s.oGood) then
        ["reflected-digest-accepted-with-inbound-sessions-only"] else []
      let orc := orc1 ++ orcV ++ orcN ++ orcI ++ violationOracle ses fr impl ++ enumOracle ((st.set (k.toNat?.getD 0) sesO).sessions) impl
      let nt := eff.any (·.gated) || s'.stopped
      -- dials of the advertised loopback listener (other addresses are not dialable and not observed)
      let nc := (eff.filter (fun e => match e with | .connect a => a.startsWith "127.0.0.1:" | _ => false)).length
      -- oracle bookkeeping for the transitive dial (from the harness' frames and the oracle's own
      -- notion of which sessions proved the cookie and are still up)
      let stO := st.set (k.toNat?.getD 0) sesO
      let allowed := match fr with
        | .control (.nodeSessions peers) =>
          if ses.cfg.transitive && (sesO.oGood || sesO.oRelayed) && !sesO.oClosed then
            let known := stO.sessions.filterMap (fun (_, s) => if (s.oGood || s.oRelayed) && !s.oClosed then s.st.name else none)
            let ks := known.flatMap (fun n => [n.1, n.2])
            (peers.filter (fun p => p.2.startsWith "127.0.0.1:" &&
              !(ks.contains p.1 || ks.contains p.2 || p.1 == ses.cfg.thisName || p.2 == ses.cfg.thisConn))).length
          else 0
        | _ => 0
      ({ stO with connects := st.connects + nc, emitted := st.emitted ++ implDigests impl,
                  emittedAdv := st.emittedAdv ++ (if sesO.oGood then [] else implDigests impl),
                  oAllowedDials := st.oAllowedDials + allowed },
       { model := showObs ses' eff impl, oracle := orc, nontrivial := nt })
    | _, _ => (st, { model := "bad-op" })
  | "batch" :: k :: fs :: _ =>
    match k.toNat?.bind st.get?, (splitOnChar fs '+').mapM parseFrame? with
    | some ses, some frames =>
      if !(lensOf ws).all (admitted st.limit) then (st, { model := "over-limit-frame-in-burst-not-modelled" }) else
      let env := parseEnv ws
      let (s', eff) := frames.foldl (fun (acc : SState D × List (Effect D)) fr =>
        let (s2, e2) := Session.handle (Hof tbl) ses.cfg acc.1 env (.frame fr)
        (s2, acc.2 ++ e2)) (ses.st, [])
      let ses' : Ses := { ses with st := s', pg := applyPg ses.pg eff,
                                     authed := ses.authed || eff.contains Effect.authenticated }
      let rem := ((getField ws "rem").bind natList?).getD []
      -- the oracle sees the digest the burst may have carried
      let presented := frames.find? (fun f => match f with
        | .auth (.clientChallenge _ _) => true
        | .auth (.serverAck _) => true
        | _ => false)
      let (sesO, orc) := oracleOn ses' presented tbl rem impl st.emitted
      let nt := eff.any (·.gated) || s'.stopped
      ({ st.set (k.toNat?.getD 0) sesO with emitted := st.emitted ++ implDigests impl },
       { model := showObs ses' eff impl, oracle := orc, nontrivial := nt })
    | _, _ => (st, { model := "bad-op" })
  | "local" :: k :: what :: pid :: rem :: _ =>
    match k.toNat?.bind st.get?, pid.toNat? with
    | some ses, some pid =>
      let i : In D := if what == "spawn" then .pidSpawn pid (rem == "1") else .pidTerminate pid (rem == "1")
      let env : Env := { check := .failed, elected := false, fresh := 0, localPids := [], groups := [],
                         remotable := fun _ => false, sessions := none }
      let (s1, eff1) := Session.handle (Hof tbl) ses.cfg ses.st env i
      -- the groups the actor joins (spawn) / leaves on exit (term): one `ProcessGroupChanged` each
      let grps := parseGroups ((getField ws "groups").getD "-")
      let (s', eff) := grps.foldl (fun (acc : SState D × List (Effect D)) g =>
        let (s2, e2) := Session.handle (Hof tbl) ses.cfg acc.1 env
          (.pgChanged (what == "spawn") g.1 g.2.1 (if rem == "1" then g.2.2 else []))
        (s2, acc.2 ++ e2)) (s1, eff1)
      let ses' : Ses := { ses with st := s', pg := applyPg ses.pg eff }
      let (sesO, orc) := oracleOn ses' none tbl [] impl
      (st.set (k.toNat?.getD 0) sesO, { model := showObs ses' eff, oracle := orc, nontrivial := !eff.isEmpty })
    | _, _ => (st, { model := "bad-op" })
  | "garbage" :: k :: _ | "drop" :: k :: _ | "killed" :: k :: _ =>
    match k.toNat?.bind st.get? with
    | some ses =>
      let ses' := closeTransport ses
      let (sesO, orc0) := oracleOn ses' none tbl [] impl
      -- a framing fault / EOF closes this session (C19: "closes that session only")
      -- C18, end to end: the NodeServer stops a session (election loser) only in favour of a session of
      -- the same peer name that PROVED the cookie - an unauthenticated connection can neither displace
      -- nor veto another one, whatever name it claims
      let kn := k.toNat?.getD 0
      let rival := st.sessions.any (fun (k', s) => k' != kn && (s.oGood || s.oRelayed) &&
        (s.st.name.map (·.1)) == (ses.st.name.map (·.1)) && s.st.name.isSome)
      let orcK := if ws.head? == some "killed" && !ses.st.stopped && !rival then ["session-displaced-without-authenticated-rival"] else []
      let orc := orc0 ++ orcK ++ (match parseObs? impl with
        | some o => if o.alive && !(ws.head? == some "killed") then ["wire-fault-did-not-close-session"] else []
        | none => [])
      (st.set (k.toNat?.getD 0) sesO, { model := showObs ses' [], oracle := orc, nontrivial := true })
    | none => (st, { model := "bad-op" })
  | _ => (st, { model := "bad-op" })

def run (ops impl : Array String) : IO Tally :=
  replay ({} : St) step ops impl

end Driver.C17
