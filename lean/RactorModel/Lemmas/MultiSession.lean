import RactorModel.Model.MultiSession
import RactorModel.Lemmas.Session

/-! Helper lemmas for the multi-session node (C17, round 4): which steps of `Session.handle` put a
digest on the wire. -/

namespace Multi
open Auth Session

section
variable {C D : Type} [DecidableEq D] (H : C → Nat → D)

/-- No effect of the list carries a digest. -/
def NoDigest (eff : List (Effect D)) : Prop := ∀ e ∈ eff, sentDigest e = none

omit [DecidableEq D] in
theorem NoDigest.append {a b : List (Effect D)} (ha : NoDigest a) (hb : NoDigest b) : NoDigest (a ++ b) := by
  intro e he
  rcases List.mem_append.mp he with h | h
  · exact ha e h
  · exact hb e h

omit [DecidableEq D] in
theorem spawnMissing_noDigest (ps : List Nat) : ∀ st : SState D, NoDigest (spawnMissing st ps).2 := by
  induction ps with
  | nil => intro st e he; simp [spawnMissing] at he
  | cons p ps ih =>
    intro st
    unfold spawnMissing
    split
    · exact ih st
    · intro e he
      simp only [List.mem_cons] at he
      rcases he with rfl | he
      · rfl
      · exact ih _ e he

omit [DecidableEq D] in
theorem terminateAll_noDigest (ps : List Nat) : ∀ st : SState D, NoDigest (terminateAll st ps).2 := by
  induction ps with
  | nil => intro st e he; simp [terminateAll] at he
  | cons p ps ih =>
    intro st
    unfold terminateAll
    split
    · intro e he
      simp only [List.mem_cons] at he
      rcases he with rfl | he
      · rfl
      · exact ih _ e he
    · exact ih st

omit [DecidableEq D] in
theorem handleNode_noDigest (st : SState D) (env : Env) (n : NodeMsg) : NoDigest (handleNode st env n).2 := by
  intro e he
  unfold handleNode at he
  split at he
  · simp at he
  · cases n <;> simp only at he
    · split at he <;> simp at he; subst he; rfl
    · split at he <;> simp at he; subst he; rfl
    · split at he <;> simp at he; subst he; rfl
    · simp at he

omit [DecidableEq D] in
theorem afterAuthenticated_noDigest (cfg : Cfg C) (st : SState D) (env : Env) :
    NoDigest (afterAuthenticated cfg st env).2 := by
  intro e he
  simp only [afterAuthenticated, List.mem_append, List.mem_cons, List.mem_map, List.mem_filter] at he
  rcases he with (((he | he) | he) | he) | he
  · rcases he with rfl | he
    · rfl
    · simp at he
  · split at he <;> simp at he; subst he; rfl
  · split at he <;> simp at he; subst he; rfl
  · obtain ⟨g, _, rfl⟩ := he; rfl
  · rcases he with rfl | he
    · rfl
    · simp at he

omit [DecidableEq D] in
theorem handleControl_noDigest (cfg : Cfg C) (st : SState D) (env : Env) (c : CtlMsg) :
    NoDigest (handleControl cfg st env c).2 := by
  unfold handleControl
  split
  · intro e he; simp at he
  · cases c with
    | ready =>
      simp only
      split
      · intro e he; simp at he
      · intro e he; simp at he; subst he; rfl
      · intro e he; simp at he
    | spawn pids => exact spawnMissing_noDigest pids st
    | terminate pids => exact terminateAll_noDigest pids st
    | ping => intro e he; simp at he; subst he; rfl
    | pong => intro e he; simp at he
    | pgJoin scope group pids =>
      simp only
      apply NoDigest.append (spawnMissing_noDigest pids st)
      intro e he
      split at he <;> simp at he
      subst he; rfl
    | pgLeave scope group pids =>
      intro e he
      simp only at he
      split at he <;> simp at he
      subst he; rfl
    | enumerate name conn =>
      simp only
      split
      · intro e he; simp at he; rcases he with rfl | rfl <;> rfl
      · intro e he; simp at he; subst he; rfl
    | nodeSessions peers =>
      simp only
      split
      · intro e he
        simp only [List.mem_append, List.mem_cons, List.mem_map] at he
        rcases he with (rfl | he) | ⟨p, _, rfl⟩
        · rfl
        · simp at he
        · rfl
      · intro e he; simp at he
    | empty => intro e he; simp at he

theorem Client.next_waitingAck (cookie : C) (fresh : Nat) (c : Client D) (m : Msg D)
    {n cs : String} {sc : Nat} {reply : D} {ours : Nat} {e : D}
    (h : Client.next H cookie fresh c m = .waitingAck n cs sc reply ours e) :
    ∃ n cs ch, m = .serverChallenge n cs ch := by
  cases c <;> cases m <;> simp [Client.next] at h ⊢
  split at h <;> simp at h

/-- client side of `handle_auth`: a digest goes out only in answer to a `ServerChallenge`. -/
theorem authClient_digest (cfg : Cfg C) (st : SState D) (env : Env) (c : Client D) (m : Msg D) :
    ∀ e ∈ (authClient H cfg st env c m).2, ∀ d, sentDigest e = some d →
      ∃ n cs ch, m = .serverChallenge n cs ch := by
  intro e he d hd
  unfold authClient at he
  generalize hn : Client.next H cfg.cookie env.fresh c m = next at he
  cases next with
  | waitingChallenge s =>
    simp only at he
    generalize Status.ofWire s = w at he
    cases w <;> simp [Client.isClose] at he <;>
      (try (rcases he with rfl | rfl)) <;> (try subst he) <;> simp [sentDigest] at hd
  | waitingAck n cs sc reply ours e' => exact Client.next_waitingAck H _ _ _ _ hn
  | waitingStatus => simp [Client.isClose] at he
  | ok => simp [Client.isClose] at he
  | close => simp [Client.isClose] at he; subst he; simp [sentDigest] at hd

/-- server side of `handle_auth`: a digest (the `ChallengeAck`) goes out only in the step that
reaches `Ok`. -/
theorem authServer_digest (cfg : Cfg C) (st : SState D) (env : Env) (s : Server D) (m : Msg D) :
    ∀ e ∈ (authServer H cfg st env s m).2, ∀ d, sentDigest e = some d →
      (authServer H cfg st env s m).1.auth.isOk = true := by
  intro e he d hd
  unfold authServer at he ⊢
  generalize Server.next H cfg.cookie env.fresh s m = next at he ⊢
  cases next with
  | havePeerName n =>
    simp only at he ⊢
    generalize env.check.status = cs at he ⊢
    cases cs with
    | none =>
      simp [Server.isClose] at he
      rcases he with rfl | rfl | rfl <;> simp [sentDigest] at hd
    | some status =>
      cases status <;> simp [Server.isClose, Server.startChallenge] at he <;>
        (rcases he with rfl | rfl | rfl | rfl | rfl <;> simp [sentDigest] at hd)
  | ok d' => simp [Server.isClose, AuthSt.isOk, Server.isOk]
  | waitingName => simp [Server.isClose] at he
  | waitingClientStatus => simp [Server.isClose] at he
  | waitingReply c d' => simp [Server.isClose] at he
  | close => simp [Server.isClose] at he; subst he; simp [sentDigest] at hd

theorem handleAuth_digest (cfg : Cfg C) (st : SState D) (env : Env) (m : Msg D) :
    ∀ e ∈ (handleAuth H cfg st env m).2, ∀ d, sentDigest e = some d →
      (st.auth.isOk = false ∧ (handleAuth H cfg st env m).1.auth.isOk = true) ∨
      ∃ n cs ch, m = .serverChallenge n cs ch := by
  intro e he d hd
  unfold handleAuth at he ⊢
  by_cases hok : st.auth.isOk = true
  · simp [hok] at he
  · have hno : st.auth.isOk = false := by simpa using hok
    rw [if_neg (by simp [hno])] at he ⊢
    obtain ⟨auth, name, connId, rdy, proxies, advertised, monitoring, stopped⟩ := st
    simp only at he hno ⊢
    cases auth with
    | client c =>
      right
      by_cases hcl : c.isClose = true
      · simp only [AuthSt.isClose, hcl, if_true, List.mem_append] at he
        rcases he with he | he
        · simp at he; rcases he with rfl | rfl <;> simp [sentDigest] at hd
        · exact authClient_digest H cfg _ env c m e he d hd
      · simp only [AuthSt.isClose, hcl, List.mem_append] at he
        rcases he with he | he
        · simp at he
        · exact authClient_digest H cfg _ env c m e he d hd
    | server s =>
      left
      refine ⟨hno, ?_⟩
      by_cases hcl : s.isClose = true
      · simp only [AuthSt.isClose, hcl, if_true, List.mem_append] at he ⊢
        rcases he with he | he
        · simp at he; rcases he with rfl | rfl <;> simp [sentDigest] at hd
        · exact authServer_digest H cfg _ env s m e he d hd
      · simp only [AuthSt.isClose, hcl, List.mem_append] at he ⊢
        rcases he with he | he
        · simp at he
        · exact authServer_digest H cfg _ env s m e he d hd

omit [DecidableEq D] in
theorem afterAuthenticated_auth (cfg : Cfg C) (st : SState D) (env : Env) :
    (afterAuthenticated cfg st env).1.auth = st.auth := rfl

theorem onAuthFrame_digest (cfg : Cfg C) (st : SState D) (env : Env) (m : Msg D) :
    ∀ e ∈ (onAuthFrame H cfg st env m).2, ∀ d, sentDigest e = some d →
      (st.auth.isOk = false ∧ (onAuthFrame H cfg st env m).1.auth.isOk = true) ∨
      ∃ n cs ch, m = .serverChallenge n cs ch := by
  intro e he d hd
  unfold onAuthFrame at he ⊢
  simp only at he ⊢
  split at he
  · rename_i hc
    simp only [Bool.and_eq_true, Bool.not_eq_true'] at hc
    rw [if_pos (by simp [hc])]
    split at he
    · rename_i hel
      rw [if_pos hel]
      left
      exact ⟨hc.1, by rw [afterAuthenticated_auth]; exact hc.2⟩
    · rename_i hel
      rw [if_neg hel]
      left
      exact ⟨hc.1, hc.2⟩
  · rename_i hc
    rw [if_neg hc]
    exact handleAuth_digest H cfg st env m e he d hd

/-- Which steps of a session put a digest on the wire: only (i) the step of a server-side session
that reaches `Ok` (its `ChallengeAck`), or (ii) a step answering a `ServerChallenge` frame (the
`ChallengeReply` of a client-side session). -/
theorem handle_digest (cfg : Cfg C) (st : SState D) (env : Env) (i : In D) :
    ∀ e ∈ (handle H cfg st env i).2, ∀ d, sentDigest e = some d →
      (st.auth.isOk = false ∧ (handle H cfg st env i).1.auth.isOk = true) ∨
      isServerChallenge i = true := by
  intro e he d hd
  unfold handle at he ⊢
  split at he
  · simp at he
  · rename_i hst
    rw [if_neg hst]
    cases i with
    | pidSpawn pid rem =>
      simp only at he
      split at he <;> simp at he
      subst he; simp [sentDigest] at hd
    | pidTerminate pid rem =>
      simp only at he
      split at he <;> simp at he
      subst he; simp [sentDigest] at hd
    | pgChanged join scope group pids =>
      simp only at he
      split at he <;> simp at he
      subst he
      cases join <;> simp [sentDigest] at hd
    | frame f =>
      simp only at he ⊢
      split at he
      · simp at he; subst he; simp [sentDigest] at hd
      · rename_i hself
        rw [if_neg hself]
        cases f with
        | auth m =>
          rcases onAuthFrame_digest H cfg st env m e he d hd with h | ⟨n, cs, ch, rfl⟩
          · exact Or.inl h
          · exact Or.inr rfl
        | node n => rw [handleNode_noDigest st env n e he] at hd; simp at hd
        | control c => rw [handleControl_noDigest cfg st env c e he] at hd; simp at hd
        | empty => simp at he

/-! ## the node -/

/-- every session uses the node's cookie and waits for the digest of the challenge it holds -/
def Inv (n : Node C D) : Prop :=
  ∀ p ∈ n.sessions, p.1.cookie = n.cookie ∧ p.2.auth.wf H n.cookie

omit [DecidableEq D] in
theorem init_wf' (cfg : Cfg C) :
    (Session.init cfg : SState D).auth.wf H cfg.cookie ∧ (Session.init cfg : SState D).auth.isOk = false := by
  unfold Session.init
  cases cfg.isServer <;>
    simp [AuthSt.wf, AuthSt.isOk, Server.init, Client.init, Server.wf, Client.wf, Server.isOk, Client.isOk]

theorem step_cookie (n : Node C D) (op : Op D) : (step H n op).1.cookie = n.cookie := by
  cases op with
  | «open» a b c d e => rfl
  | input k env i =>
    simp only [step]
    split <;> rfl
  | deauth ks => rfl

omit [DecidableEq D] in
theorem presents_digest {cookie : C} {a : AuthSt D} {i : In D} (h : presents H cookie a i) :
    ∃ d c, digestOf i = some d ∧ d = H cookie c := by
  unfold presents at h
  split at h
  · exact ⟨_, _, rfl, by rw [h.1, h.2]⟩
  · exact ⟨_, _, rfl, by rw [h.1, h.2]⟩
  · exact absurd h (by simp)

theorem inv_step (n : Node C D) (op : Op D) (h : Inv H n) : Inv H (step H n op).1 := by
  cases op with
  | «open» a b c d e =>
    intro p hp
    simp only [step, List.mem_append, List.mem_singleton] at hp
    rcases hp with hp | rfl
    · exact h p hp
    · exact ⟨rfl, (init_wf' H _).1⟩
  | input k env i =>
    simp only [step]
    split
    · exact h
    · rename_i cfg st hk
      intro p hp
      have hm : (cfg, st) ∈ n.sessions := List.mem_of_getElem? hk
      rcases List.mem_or_eq_of_mem_set hp with hp | rfl
      · exact h p hp
      · obtain ⟨hc, hw⟩ := h _ hm
        refine ⟨hc, ?_⟩
        have := (handle_facts H cfg st env i).wf (by rw [hc]; exact hw)
        rw [hc] at this
        exact this
  | deauth ks => exact h

theorem inv_nodeAfter (ops : List (Op D)) : ∀ n : Node C D, Inv H n → Inv H (nodeAfter H n ops) := by
  induction ops with
  | nil => intro n h; exact h
  | cons op rest ih => intro n h; exact ih _ (inv_step H n op h)

theorem nodeAfter_cookie (ops : List (Op D)) : ∀ n : Node C D, (nodeAfter H n ops).cookie = n.cookie := by
  induction ops with
  | nil => intro n; rfl
  | cons op rest ih => intro n; rw [nodeAfter, ih, step_cookie]

/-- `legal` of a concatenation: the condition on the op in the middle, at the node reached. -/
theorem legal_split (cookie' : C) (pre : List (Op D)) : ∀ (n : Node C D) (op : Op D) (post : List (Op D)),
    legal H cookie' n (pre ++ op :: post) →
    legal H cookie' (nodeAfter H n pre) (op :: post) := by
  induction pre with
  | nil => intro n op post h; exact h
  | cons p pre ih => intro n op post h; exact ih _ op post h.2

omit [DecidableEq D] in
theorem empty_inv (cookie : C) : Inv H (empty cookie : Node C D) := by
  intro p hp; simp [empty] at hp

/-- every session `GetSessions` lists exists and has completed the handshake -/
def ListedOk (n : Node C D) : Prop :=
  ∀ k ∈ n.listed, ∃ cfg st, n.sessions[k]? = some (cfg, st) ∧ st.auth.isOk = true

theorem listedOk_step (n : Node C D) (op : Op D) (h : ListedOk n) : ListedOk (step H n op).1 := by
  cases op with
  | «open» a b c d e =>
    intro k hk
    obtain ⟨cfg, st, h1, h2⟩ := h k hk
    refine ⟨cfg, st, ?_, h2⟩
    simp only [step]
    have hlt : k < n.sessions.length := by
      rcases Nat.lt_or_ge k n.sessions.length with hlt | hge
      · exact hlt
      · rw [List.getElem?_eq_none hge] at h1; exact absurd h1 (by simp)
    rw [List.getElem?_append_left hlt]; exact h1
  | deauth ks =>
    intro k hk
    simp only [step, List.mem_filter] at hk
    exact h k hk.1
  | input j env i =>
    simp only [step]
    split
    · exact h
    · rename_i cfg st hj
      have f := handle_facts H cfg st env i
      have hjlt : j < n.sessions.length := by
        rcases Nat.lt_or_ge j n.sessions.length with hlt | hge
        · exact hlt
        · rw [List.getElem?_eq_none hge] at hj; exact absurd hj (by simp)
      -- sessions listed before stay authenticated (`okStable`), and exist
      have old : ∀ k ∈ n.listed, ∃ cfg' st', (n.sessions.set j (cfg, (handle H cfg st env i).1))[k]? = some (cfg', st') ∧
          st'.auth.isOk = true := by
        intro k hk
        obtain ⟨cfg', st', h1, h2⟩ := h k hk
        by_cases hkj : j = k
        · subst hkj
          rw [hj] at h1
          obtain ⟨rfl, rfl⟩ := Prod.mk.inj (Option.some.inj h1)
          exact ⟨cfg, _, by simp [List.getElem?_set, hjlt], f.okStable h2⟩
        · exact ⟨cfg', st', by rw [List.getElem?_set_ne hkj]; exact h1, h2⟩
      intro k hk
      simp only at hk
      split at hk
      · rename_i hc
        rcases List.mem_append.mp hk with hk | hk
        · exact old k hk
        · simp only [List.mem_singleton] at hk
          subst hk
          have hmem : Effect.authenticated ∈ (handle H cfg st env i).2 := by
            simpa using hc
          exact ⟨cfg, _, by simp [List.getElem?_set, hjlt], f.gate _ hmem rfl⟩
      · exact old k hk

theorem listedOk_nodeAfter (ops : List (Op D)) : ∀ n : Node C D, ListedOk n → ListedOk (nodeAfter H n ops) := by
  induction ops with
  | nil => intro n h; exact h
  | cons op rest ih => intro n h; exact ih _ (listedOk_step H n op h)

/-- the invariant of the `_partial` theorem: nobody is authenticated, nothing was disclosed -/
def Quiet (n : Node C D) : Prop :=
  Inv H n ∧ (∀ p ∈ n.sessions, p.2.auth.isOk = false) ∧ n.seen = []

theorem quiet_step (cookie' : C) (n : Node C D) (op : Op D)
    (hsep : ∀ c c', H cookie' c' ≠ H n.cookie c)
    (hq : Quiet H n) (hl : legal H cookie' n [op]) (hns : noServerChallenge [op] = true) :
    Quiet H (step H n op).1 ∧ ∀ e ∈ (step H n op).2, e.gated = false := by
  obtain ⟨hinv, hnok, hseen⟩ := hq
  refine ⟨⟨inv_step H n op hinv, ?_⟩, ?_⟩
  · cases op with
    | «open» a b c d e =>
      refine ⟨?_, hseen⟩
      intro p hp
      simp only [step, List.mem_append, List.mem_singleton] at hp
      rcases hp with hp | rfl
      · exact hnok p hp
      · exact (init_wf' H _).2
    | input k env i =>
      simp only [step]
      split
      · exact ⟨hnok, hseen⟩
      · rename_i cfg st hk
        have hm : (cfg, st) ∈ n.sessions := List.mem_of_getElem? hk
        obtain ⟨hc, hw⟩ := hinv _ hm
        have hno := hnok _ hm
        have f := handle_facts H cfg st env i
        -- the step cannot authenticate
        have hstill : (handle H cfg st env i).1.auth.isOk = false := by
          cases hh : (handle H cfg st env i).1.auth.isOk
          · rfl
          · have hp := f.okNeeds (by rw [hc]; exact hw) hno hh
            obtain ⟨d, c, hd, hdc⟩ := presents_digest H hp
            have := hl.1 d hd
            rw [hseen] at this
            rcases this with h | ⟨c', hc'⟩
            · simp at h
            · exact absurd (by rw [← hc', hdc, hc]) (hsep c c')
        refine ⟨?_, ?_⟩
        · intro p hp
          rcases List.mem_or_eq_of_mem_set hp with hp | rfl
          · exact hnok p hp
          · exact hstill
        · simp only [hseen, List.nil_append, List.filterMap_eq_nil_iff]
          intro e he
          cases hd : sentDigest e with
          | none => rfl
          | some d =>
            rcases handle_digest H cfg st env i e he d hd with h | h
            · rw [hstill] at h; exact absurd h.2 (by simp)
            · simp [noServerChallenge, h] at hns
    | deauth ks => exact ⟨hnok, hseen⟩
  · cases op with
    | «open» a b c d e => intro e he; simp [step] at he
    | input k env i =>
      simp only [step]
      split
      · intro e he; simp at he
      · rename_i cfg st hk
        have hm : (cfg, st) ∈ n.sessions := List.mem_of_getElem? hk
        obtain ⟨hc, hw⟩ := hinv _ hm
        have hno := hnok _ hm
        have f := handle_facts H cfg st env i
        intro e he
        cases hg : e.gated
        · rfl
        · have hh := f.gate e he hg
          have hp := f.okNeeds (by rw [hc]; exact hw) hno hh
          obtain ⟨d, c, hd, hdc⟩ := presents_digest H hp
          have := hl.1 d hd
          rw [hseen] at this
          rcases this with h | ⟨c', hc'⟩
          · simp at h
          · exact absurd (by rw [← hc', hdc, hc]) (hsep c c')
    | deauth ks => intro e he; simp [step] at he

end

end Multi
