import RactorModel.Lemmas.FactoryStop
import RactorModel.Lemmas.FactoryNoPanic
import RactorModel.Lemmas.FactoryRouters

/-! Run-level discard limit (C15): apart from `maybe_enqueue` no function of the factory lengthens the factory
queue — every other function leaves a sublist (same order) — and nothing but `UpdateSettings` touches the limit.
Hence with settings that are never changed the bound of `maybe_enqueue` holds after EVERY operation sequence. -/

namespace Factory

theorem popByPrio_sublist {cfg : Cfg} {ps : List Nat} {q : List Job} {x : Job} {r : List Job}
    (h : popByPrio cfg ps q = some (x, r)) : r.Sublist q := by
  obtain ⟨_, _, _, _, pre, post, e1, e2, _⟩ := popByPrio_spec h
  rw [e1, e2]
  exact List.Sublist.append (List.Sublist.refl _) (List.sublist_cons_self _ _)

/-- the factory queue only lost jobs (in order); limit settings and configuration untouched -/
structure QSub (w w' : W) : Prop where
  queue : w'.queue.Sublist w.queue
  disc : w'.disc = w.disc
  cfg : w'.cfg = w.cfg
  inbox : w'.inbox = w.inbox

theorem QSub.refl (w : W) : QSub w w := ⟨List.Sublist.refl _, rfl, rfl, rfl⟩
theorem QSub.trans {a b c : W} (h1 : QSub a b) (h2 : QSub b c) : QSub a c :=
  ⟨h2.queue.trans h1.queue, h2.disc.trans h1.disc, h2.cfg.trans h1.cfg, h2.inbox.trans h1.inbox⟩

theorem qsub_availChange (w : W) (wid : Nat) (b : Bool) : QSub w (w.availChange wid b) := by
  unfold W.availChange; split
  · split <;> exact ⟨List.Sublist.refl _, rfl, rfl, rfl⟩
  · exact ⟨List.Sublist.refl _, rfl, rfl, rfl⟩

theorem qsub_choose (w : W) (j : Job) (hint : Option Nat) : QSub w (w.chooseTargetWorker j hint).2 := by
  unfold W.chooseTargetWorker
  split
  · split
    · exact ⟨List.Sublist.refl _, rfl, rfl, rfl⟩
    · split
      · exact ⟨List.Sublist.refl _, rfl, rfl, rfl⟩
      · split <;> exact ⟨List.Sublist.refl _, rfl, rfl, rfl⟩
  · split <;> exact ⟨List.Sublist.refl _, rfl, rfl, rfl⟩
  · split
    · exact ⟨List.Sublist.refl _, rfl, rfl, rfl⟩
    · split
      · exact ⟨List.Sublist.refl _, rfl, rfl, rfl⟩
      · split <;> exact ⟨List.Sublist.refl _, rfl, rfl, rfl⟩
  · split
    · exact ⟨List.Sublist.refl _, rfl, rfl, rfl⟩
    · split <;> exact ⟨List.Sublist.refl _, rfl, rfl, rfl⟩
  · split <;> exact ⟨List.Sublist.refl _, rfl, rfl, rfl⟩

theorem qsub_routeInner (w : W) (j : Job) (hint : Option Nat) : QSub w (w.routeInner j hint).2 := by
  unfold W.routeInner
  have hs := qsub_choose w j hint
  cases hc : w.chooseTargetWorker j hint with
  | mk t w1 =>
    rw [hc] at hs
    simp only at hs ⊢
    cases t with
    | none => exact hs
    | some wid =>
      simp only
      cases hg : getW w1.pool wid with
      | none => exact hs
      | some p => exact hs.trans ⟨List.Sublist.refl _, rfl, rfl, rfl⟩

theorem qsub_routeLimited (w : W) (j : Job) (hint : Option Nat) : QSub w (w.routeLimited j hint).2 := by
  unfold W.routeLimited
  split
  · exact qsub_routeInner w j hint
  · rename_i c lb _
    simp only
    have h0 : QSub w { w with rl := some (c, (LeakyBucket.check c lb w.env.now).1) } := ⟨List.Sublist.refl _, rfl, rfl, rfl⟩
    split
    · split
      · split
        · rename_i hh _
          exact h0.trans (qsub_availChange _ hh true)
        · exact h0
      · exact h0
    · have hi := qsub_routeInner { w with rl := some (c, (LeakyBucket.check c lb w.env.now).1) } j hint
      cases hr : W.routeInner { w with rl := some (c, (LeakyBucket.check c lb w.env.now).1) } j hint with
      | mk r w2 =>
        rw [hr] at hi
        simp only at hi ⊢
        split
        · exact h0.trans (hi.trans ⟨List.Sublist.refl _, rfl, rfl, rfl⟩)
        · exact h0.trans hi

theorem qsub_routeMessage (w : W) (j : Job) (hint : Option Nat) : QSub w (w.routeMessage j hint).2 := by
  unfold W.routeMessage
  have hi := qsub_routeLimited w j hint
  cases hr : w.routeLimited j hint with
  | mk r w2 => rw [hr] at hi; exact hi.trans ⟨List.Sublist.refl _, rfl, rfl, rfl⟩

theorem qsub_dropExpiredHead (fuel : Nat) (w : W) : QSub w (W.dropExpiredHead fuel w) := by
  induction fuel generalizing w with
  | zero => exact QSub.refl w
  | succ fuel ih =>
    unfold W.dropExpiredHead
    split
    · split
      · split
        · rename_i j' q' hp
          refine QSub.trans ?_ (ih _)
          exact ⟨popByPrio_sublist (show popByPrio w.cfg prioUp w.queue = some (j', q') from hp), rfl, rfl, rfl⟩
        · exact QSub.refl w
      · exact QSub.refl w
    · exact QSub.refl w

theorem qsub_routeLoop (hint : Option Nat) (fuel : Nat) (w : W) : QSub w (W.routeLoop hint fuel w) := by
  induction fuel generalizing w with
  | zero => exact QSub.refl w
  | succ fuel ih =>
    unfold W.routeLoop
    split
    · exact QSub.refl w
    · rename_i j _
      have hs := qsub_choose w j hint
      cases hc : w.chooseTargetWorker j hint with
      | mk t w1 =>
        rw [hc] at hs
        simp only at hs ⊢
        cases t with
        | none => exact hs
        | some worker =>
          simp only
          cases hp : qPopFront w1.cfg w1.queue with
          | none => exact hs
          | some jq =>
            obtain ⟨j', q⟩ := jq
            simp only
            have h1 : QSub w { w1 with queue := q } :=
              hs.trans ⟨popByPrio_sublist (show popByPrio w1.cfg prioUp w1.queue = some (j', q) from hp), rfl, rfl, rfl⟩
            have hr := qsub_routeMessage { w1 with queue := q } j' (some worker)
            cases hrm : W.routeMessage { w1 with queue := q } j' (some worker) with
            | mk r w2 =>
              rw [hrm] at hr
              cases r with
              | handled => exact h1.trans hr
              | rateLimited =>
                simp only
                refine (h1.trans hr).trans (QSub.trans ?_ (ih _))
                exact ⟨List.Sublist.refl _, rfl, rfl, rfl⟩
              | backlog =>
                simp only
                exact (h1.trans hr).trans ⟨List.Sublist.refl _, rfl, rfl, rfl⟩

theorem qsub_tryRoute (w : W) (hint : Option Nat) : QSub w (w.tryRouteNextActiveJob hint) := by
  unfold W.tryRouteNextActiveJob
  exact (qsub_dropExpiredHead _ w).trans (qsub_routeLoop _ _ _)

theorem qsub_growOne (w : W) (wid : Nat) : QSub w (w.growOne wid) := by
  unfold W.growOne
  split
  · dsimp only
    split
    · apply QSub.trans _ (qsub_availChange _ _ _)
      exact ⟨List.Sublist.refl _, rfl, rfl, rfl⟩
    · exact ⟨List.Sublist.refl _, rfl, rfl, rfl⟩
  · dsimp only
    apply QSub.trans _ (qsub_availChange _ _ _)
    exact ⟨List.Sublist.refl _, rfl, rfl, rfl⟩

theorem qsub_foldl {f : W → Nat → W} (hf : ∀ w k, QSub w (f w k)) (l : List Nat) (w : W) : QSub w (l.foldl f w) := by
  induction l generalizing w with
  | nil => exact QSub.refl w
  | cons a l ih => exact (hf w a).trans (ih _)

theorem qsub_growPool (w : W) (n : Nat) : QSub w (w.growPool n) := by
  unfold W.growPool; exact qsub_foldl (fun w k => qsub_growOne w _) _ w

theorem qsub_shrinkOne (w : W) (wid : Nat) : QSub w (w.shrinkOne wid) := by
  unfold W.shrinkOne
  split
  · split
    · exact ⟨List.Sublist.refl _, rfl, rfl, rfl⟩
    · exact (qsub_availChange w wid false).trans ⟨List.Sublist.refl _, rfl, rfl, rfl⟩
  · exact QSub.refl w

theorem qsub_shrinkPool (w : W) (n : Nat) : QSub w (w.shrinkPool n) := by
  unfold W.shrinkPool; exact qsub_foldl (fun w k => qsub_shrinkOne w _) _ w

theorem qsub_flushAfterGrow (fuel : Nat) (w : W) : QSub w (W.flushAfterGrow fuel w) := by
  induction fuel generalizing w with
  | zero => exact QSub.refl w
  | succ fuel ih =>
    unfold W.flushAfterGrow
    simp only
    split
    · exact QSub.refl w
    · split
      · exact qsub_tryRoute w none
      · exact (qsub_tryRoute w none).trans (ih _)

theorem qsub_resizePool (w : W) (n : Nat) : QSub w (w.resizePool n) := by
  unfold W.resizePool
  split
  · exact QSub.refl w
  · simp only
    split
    · apply QSub.trans _ (qsub_flushAfterGrow _ _)
      exact (qsub_growPool w _).trans ⟨List.Sublist.refl _, rfl, rfl, rfl⟩
    · split
      · exact (qsub_shrinkPool w _).trans ⟨List.Sublist.refl _, rfl, rfl, rfl⟩
      · exact ⟨List.Sublist.refl _, rfl, rfl, rfl⟩

theorem qsub_ite (c : Prop) [Decidable c] (w a b : W) (ha : QSub w a) (hb : QSub w b) : QSub w (if c then a else b) := by
  split <;> assumption

theorem qsub_workerFinishedJob (w : W) (who key : Nat) : QSub w (w.workerFinishedJob who key) := by
  unfold W.workerFinishedJob
  split
  · rename_i p _
    cases hwc : p.workerComplete w.env key with
    | mk p' e' =>
      simp only
      have h1 : QSub w { w with pool := setW w.pool who p', env := e' } := ⟨List.Sublist.refl _, rfl, rfl, rfl⟩
      split
      · split
        · exact ⟨List.Sublist.refl _, rfl, rfl, rfl⟩
        · exact h1
      · apply qsub_ite
        · exact (h1.trans (qsub_tryRoute _ _)).trans (qsub_availChange _ _ _)
        · exact h1.trans (qsub_tryRoute _ _)
  · exact qsub_tryRoute w _

theorem qsub_removeExpired (w : W) : QSub w w.removeExpired := by
  unfold W.removeExpired
  split
  · exact ⟨List.filter_sublist, rfl, rfl, rfl⟩
  · exact QSub.refl w

theorem qsub_calcRest (w : W) : QSub w w.calcRest := by
  unfold W.calcRest
  exact (qsub_removeExpired w).trans ⟨List.Sublist.refl _, rfl, rfl, rfl⟩

theorem qsub_afterReplace (w : W) (wid : Nat) : QSub w (w.afterReplace wid) := by
  unfold W.afterReplace
  cases hret : w.retireIdleDrainingWorker wid with
  | some w2 =>
    simp only
    unfold W.retireIdleDrainingWorker at hret
    split at hret
    · split at hret
      · simp only [Option.some.injEq] at hret; subst hret
        exact ⟨List.Sublist.refl _, rfl, rfl, rfl⟩
      · simp at hret
    · simp at hret
  | none =>
    simp only
    apply qsub_ite
    · exact (qsub_tryRoute _ _).trans (qsub_availChange _ _ _)
    · exact qsub_tryRoute _ _

theorem qsub_handleSupervisorEvt (w : W) (who : Nat) : QSub w (w.handleSupervisorEvt who) := by
  unfold W.handleSupervisorEvt
  split
  · exact QSub.refl w
  · rename_i wid _
    split
    · exact QSub.refl w
    · rename_i p _
      simp only
      cases hrw : p.replaceWorker (w.env.spawn wid w.nextAid) w.nextAid with
      | mk p' e' =>
        simp only
        refine QSub.trans ?_ (qsub_afterReplace _ wid)
        exact ⟨List.Sublist.refl _, rfl, rfl, rfl⟩



/-! ## The bound over a run -/

/-- a measure of the factory queue that `maybe_enqueue` keeps within `L` under settings `D` and that cannot grow
when jobs are removed -/
structure Meas (D : Option (Nat × Mode)) (μ : Cfg → List Job → Nat) (L : Nat) : Prop where
  sub : ∀ cfg q r, List.Sublist r q → μ cfg r ≤ μ cfg q
  enq : ∀ (w : W) j, w.disc = D → μ w.cfg (w.maybeEnqueue j).queue ≤ max L (μ w.cfg w.queue)

/-- the limit settings are `D`, no message that would change them is waiting, and the queue is within `L` -/
structure LimInv (D : Option (Nat × Mode)) (μ : Cfg → List Job → Nat) (L : Nat) (w : W) : Prop where
  disc : w.disc = D
  bound : μ w.cfg w.queue ≤ L
  inbox : ∀ m ∈ w.inbox, ∀ d n, m ≠ .updateSettings (some d) n

variable {D : Option (Nat × Mode)} {μ : Cfg → List Job → Nat} {L : Nat}

theorem LimInv.qsub {w w' : W} (M : Meas D μ L) (h : LimInv D μ L w) (q : QSub w w') : LimInv D μ L w' :=
  ⟨q.disc.trans h.disc, by rw [q.cfg]; exact Nat.le_trans (M.sub _ _ _ q.queue) h.bound, by rw [q.inbox]; exact h.inbox⟩

theorem maybeEnqueue_fields (w : W) (j : Job) : (w.maybeEnqueue j).disc = w.disc ∧ (w.maybeEnqueue j).cfg = w.cfg ∧
    (w.maybeEnqueue j).inbox = w.inbox := by
  have hs := maybeEnqueue_samePool w j
  have hc := ctl_maybeEnqueue w j
  refine ⟨?_, hs.cfg, hc.inbox⟩
  unfold W.maybeEnqueue
  split
  · split <;> rfl
  · dsimp only
    have : ∀ (limit fuel : Nat) (w : W), (W.shedQueueOldest limit fuel w).disc = w.disc := by
      intro limit fuel
      induction fuel with
      | zero => intro w; rfl
      | succ fuel ih =>
        intro w
        unfold W.shedQueueOldest
        split
        · split
          · rw [ih]
          · exact ih w
        · rfl
    rw [this]
  · rfl

theorem lim_dispatch (M : Meas D μ L) (w : W) (j : Job) (h : LimInv D μ L w) : LimInv D μ L (w.dispatch j) := by
  unfold W.dispatch
  split
  · exact ⟨h.disc, h.bound, h.inbox⟩
  · split
    · have hf := routeMessage_frame w j none
      cases hrm : w.routeMessage j none with
      | mk r w2 =>
        rw [hrm] at hf
        simp only at hf
        have h2 : LimInv D μ L w2 := ⟨hf.disc.trans h.disc, by rw [hf.cfg, hf.queue]; exact h.bound, by rw [hf.inbox]; exact h.inbox⟩
        cases r with
        | handled => exact h2
        | rateLimited => exact ⟨h2.disc, h2.bound, h2.inbox⟩
        | backlog =>
          obtain ⟨f1, f2, f3⟩ := maybeEnqueue_fields w2 j
          refine ⟨f1.trans h2.disc, ?_, by rw [f3]; exact h2.inbox⟩
          have := M.enq w2 j h2.disc
          have hb := h2.bound
          show μ (w2.maybeEnqueue j).cfg (w2.maybeEnqueue j).queue ≤ L
          rw [f2]
          omega
    · exact ⟨h.disc, h.bound, h.inbox⟩

theorem lim_handleMsg (M : Meas D μ L) (w : W) (m : FMsg) (hm : ∀ d n, m ≠ .updateSettings (some d) n)
    (h : LimInv D μ L w) : LimInv D μ L (w.handleMsg m) := by
  cases m with
  | dispatch j => exact lim_dispatch M w j h
  | finished who key => exact h.qsub M (qsub_workerFinishedJob w who key)
  | adjust n => exact h.qsub M (qsub_resizePool w n)
  | updateSettings d n =>
    cases d with
    | some d => exact absurd rfl (hm d n)
    | none =>
      cases n with
      | none => exact h
      | some n => exact h.qsub M (qsub_resizePool w n)
  | setHandler hd => exact ⟨h.disc, h.bound, h.inbox⟩
  | drainRequests => exact ⟨h.disc, h.bound, h.inbox⟩
  | calculate =>
    show LimInv D μ L (if w.cfg.hasCC && w.armed then { w with armed := false, blocked := true } else w.calcRest)
    split
    · exact ⟨h.disc, h.bound, h.inbox⟩
    · exact h.qsub M (qsub_calcRest w)
  | getQueueDepth => exact ⟨h.disc, h.bound, h.inbox⟩
  | getNumActiveWorkers => exact ⟨h.disc, h.bound, h.inbox⟩
  | getAvailableCapacity => exact ⟨h.disc, h.bound, h.inbox⟩

theorem qsub_afterHandle (w : W) : QSub w w.afterHandle := by
  unfold W.afterHandle
  split
  · exact QSub.refl w
  · have hq : QSub w w.isDrained.2 := by
      unfold W.isDrained
      split
      · exact QSub.refl w
      · exact QSub.refl w
      · split
        · exact ⟨List.Sublist.refl _, rfl, rfl, rfl⟩
        · exact QSub.refl w
    cases hd : w.isDrained with
    | mk d w2 =>
      rw [hd] at hq
      simp only at hq ⊢
      split
      · exact hq.trans ⟨List.Sublist.refl _, rfl, rfl, rfl⟩
      · exact hq

theorem lim_loopStep (M : Meas D μ L) (w w' : W) (h : LimInv D μ L w) (hl : w.loopStep = some w') : LimInv D μ L w' := by
  unfold W.loopStep at hl
  split at hl
  · simp at hl
  · split at hl
    · simp only [Option.some.injEq] at hl; subst hl
      refine ⟨h.disc, ?_, h.inbox⟩
      exact Nat.le_trans (M.sub _ _ _ (List.nil_sublist _)) h.bound
    · split at hl
      · rename_i who rest _
        simp only [Option.some.injEq] at hl; subst hl
        have h1 : LimInv D μ L ({ w with env := { w.env with sup := rest } } : W) := ⟨h.disc, h.bound, h.inbox⟩
        exact h1.qsub M (qsub_handleSupervisorEvt _ who)
      · split at hl
        · rename_i m rest hin
          simp only [Option.some.injEq] at hl; subst hl
          have hm : ∀ d n, m ≠ .updateSettings (some d) n :=
            fun d n => h.inbox m (by rw [hin]; exact List.mem_cons_self ..) d n
          have h1 : LimInv D μ L ({ w with inbox := rest } : W) :=
            ⟨h.disc, h.bound, fun x hx => h.inbox x (by rw [hin]; exact List.mem_cons_of_mem _ hx)⟩
          exact (lim_handleMsg M _ m hm h1).qsub M (qsub_afterHandle _)
        · simp at hl

theorem lim_runQ (M : Meas D μ L) (fuel : Nat) (w : W) (h : LimInv D μ L w) : LimInv D μ L (W.runQ fuel w) := by
  induction fuel generalizing w with
  | zero => exact h
  | succ fuel ih =>
    unfold W.runQ
    cases hl : w.loopStep with
    | some w' => simp only; exact ih _ (lim_loopStep M w w' h hl)
    | none =>
      simp only
      have hs : LimInv D μ L (W.tryFinishStop { w with env := w.env.settle }) := by
        unfold W.tryFinishStop
        split
        · exact ⟨h.disc, h.bound, fun m hm => by cases hm⟩
        · exact ⟨h.disc, h.bound, h.inbox⟩
      split
      · exact hs
      · exact ih _ hs

theorem lim_send (w : W) (m : FMsg) (hm : ∀ d n, m ≠ .updateSettings (some d) n) (h : LimInv D μ L w) :
    LimInv D μ L (w.send m) := by
  unfold W.send
  split
  · exact h
  · refine ⟨h.disc, h.bound, ?_⟩
    intro x hx
    rcases List.mem_append.mp hx with hx | hx
    · exact h.inbox x hx
    · simp only [List.mem_singleton] at hx; subst hx; exact hm

theorem lim_advanceTo (M : Meas D μ L) (t fuel : Nat) (w : W) (h : LimInv D μ L w) : LimInv D μ L (W.advanceTo t fuel w) := by
  induction fuel generalizing w with
  | zero => exact ⟨h.disc, h.bound, h.inbox⟩
  | succ fuel ih =>
    unfold W.advanceTo
    split
    · simp only
      apply ih
      apply lim_runQ M
      apply lim_send _ _ (fun _ _ hc => by cases hc)
      exact ⟨h.disc, h.bound, h.inbox⟩
    · exact ⟨h.disc, h.bound, h.inbox⟩

/-- the operation does not change the discard settings -/
def Op.keepsDisc : Op → Bool
  | .settings (some _) _ => false
  | _ => true

theorem lim_finish (w : W) (aid : Nat) (ok : Bool) (h : LimInv D μ L w) : LimInv D μ L (w.finish aid ok) := by
  unfold W.finish
  cases ha : w.env.getActor aid with
  | none => exact h
  | some a =>
    simp only
    cases hr : a.running with
    | none => exact h
    | some j =>
      simp only
      split
      · exact h
      · split
        · exact ⟨h.disc, h.bound, h.inbox⟩
        · have h1 : LimInv D μ L (W.send { w with env := (w.env.emit (.finishOk aid)).emit (.handled aid j.id) } (.finished a.wid j.key)) :=
            lim_send _ _ (fun _ _ hc => by cases hc) ⟨h.disc, h.bound, h.inbox⟩
          exact ⟨h1.disc, h1.bound, h1.inbox⟩

theorem lim_applyOp (M : Meas D μ L) (w : W) (op : Op) (hk : op.keepsDisc = true) (h : LimInv D μ L w) :
    LimInv D μ L (w.applyOp op) := by
  cases op with
  | dispatch id key hash ttl acc =>
    simp only [W.applyOp]
    split
    · exact h
    · exact lim_send _ _ (fun _ _ hc => by cases hc) ⟨h.disc, h.bound, h.inbox⟩
  | finish aid ok => exact lim_finish w aid ok h
  | kill aid => exact ⟨h.disc, h.bound, h.inbox⟩
  | resize n => exact lim_send _ _ (fun _ _ hc => by cases hc) ⟨h.disc, h.bound, h.inbox⟩
  | settings d n =>
    cases d with
    | some d => simp [Op.keepsDisc] at hk
    | none =>
      simp only [W.applyOp]
      apply lim_send _ _ (fun _ _ hc => by cases hc)
      cases n with
      | none => exact h
      | some n => exact ⟨h.disc, h.bound, h.inbox⟩
  | drain => exact lim_send _ _ (fun _ _ hc => by cases hc) ⟨h.disc, h.bound, h.inbox⟩
  | setHandler hd => exact lim_send _ _ (fun _ _ hc => by cases hc) ⟨h.disc, h.bound, h.inbox⟩
  | advance => exact h
  | block => exact ⟨h.disc, h.bound, h.inbox⟩
  | release n =>
    simp only [W.applyOp]
    split
    · have h0 : LimInv D μ L ({ w.emit (.released n) with blocked := false } : W) := ⟨h.disc, h.bound, h.inbox⟩
      have h1 : LimInv D μ L (if ({ w.emit (.released n) with blocked := false } : W).poolSize != n
          then ({ w.emit (.released n) with blocked := false } : W).resizePool n
          else ({ w.emit (.released n) with blocked := false } : W)) := by
        split
        · exact h0.qsub M (qsub_resizePool _ n)
        · exact h0
      exact (h1.qsub M (qsub_calcRest _)).qsub M (qsub_afterHandle _)
    · exact h
  | nop => exact h

theorem lim_ask (M : Meas D μ L) (w : W) (m : FMsg) (hm : ∀ d n, m ≠ .updateSettings (some d) n) (h : LimInv D μ L w) :
    LimInv D μ L (w.ask m) := by
  unfold W.ask
  split
  · exact ⟨h.disc, h.bound, h.inbox⟩
  · simp only
    have h1 := lim_runQ M RUN_FUEL _ (lim_send w m hm h)
    split
    · exact ⟨h1.disc, h1.bound, h1.inbox⟩
    · exact h1

theorem lim_queries (M : Meas D μ L) (w : W) (h : LimInv D μ L w) : LimInv D μ L w.queries := by
  unfold W.queries
  split
  · exact ⟨h.disc, h.bound, h.inbox⟩
  · exact lim_ask M _ _ (fun _ _ hc => by cases hc) (lim_ask M _ _ (fun _ _ hc => by cases hc)
      (lim_ask M _ _ (fun _ _ hc => by cases hc) ⟨h.disc, h.bound, h.inbox⟩))

theorem lim_stepOp (M : Meas D μ L) (w : W) (op : Op) (t0 tq te : Nat) (hk : op.keepsDisc = true) (h : LimInv D μ L w) :
    LimInv D μ L (w.stepOp op t0 tq te) := by
  unfold W.stepOp
  simp only
  generalize hw1 : W.advanceTo t0 (advanceFuel w t0) w = w1
  have h1 : LimInv D μ L w1 := by rw [← hw1]; exact lim_advanceTo M _ _ _ h
  generalize hw2 : W.runQ RUN_FUEL (w1.applyOp op) = w2
  have h2 : LimInv D μ L w2 := by rw [← hw2]; exact lim_runQ M _ _ (lim_applyOp M _ _ hk h1)
  generalize hw3 : W.advanceTo tq (advanceFuel w2 tq) w2 = w3
  have h3 : LimInv D μ L w3 := by rw [← hw3]; exact lim_advanceTo M _ _ _ h2
  generalize hw4 : w3.queries = w4
  have h4 : LimInv D μ L w4 := by rw [← hw4]; exact lim_queries M _ h3
  generalize hw5 : W.advanceTo te (advanceFuel w4 te) w4 = w5
  have h5 : LimInv D μ L w5 := by rw [← hw5]; exact lim_advanceTo M _ _ _ h4
  exact ⟨h5.disc, h5.bound, h5.inbox⟩

theorem lim_runSteps (M : Meas D μ L) (w : W) (steps : List Step) (hk : steps.all (fun s => s.op.keepsDisc) = true)
    (h : LimInv D μ L w) : LimInv D μ L (w.runSteps steps) := by
  induction steps generalizing w with
  | nil => exact h
  | cons s rest ih =>
    simp only [List.all_cons, Bool.and_eq_true] at hk
    exact ih _ hk.2 (lim_stepOp M w s.op s.t0 s.tq s.te hk.1 h)

theorem init_fields (c : CaseCfg) : (init c).disc = c.disc ∧ (init c).queue = [] ∧ (init c).inbox = [] ∧ (init c).cfg = c.cfg := by
  unfold init
  simp only
  have hq := qsub_growPool
    ({ cfg := c.cfg, poolSize := 0, pool := [], byActor := [], avail := [], inQ := [], last := 0,
       rl := c.rl.map fun (r : Nat × Nat × Nat × Nat) =>
          let lc : LeakyBucket.Cfg := ⟨r.1, r.2.1, r.2.2.1, 10 ^ 40⟩
          (lc, LeakyBucket.new lc (some r.2.2.2) 0),
       queue := [], disc := c.disc, drain := .notDraining,
       handler := if c.cfg.hasHandler then some 0 else none,
       env := { actors := [], log := [], now := 0, sup := [] },
       nextAid := 0, stopSignal := false, stopped := false, inbox := [], blocked := false, armed := false,
       nextCalc := CALCULATE_FREQUENCY, answers := [], lastWq := none } : W) c.n
  refine ⟨hq.disc, ?_, hq.inbox, hq.cfg⟩
  have := hq.queue
  simp only at this
  exact List.eq_nil_of_sublist_nil this

theorem lim_always (M : Meas D μ L) (c : CaseCfg) (hd : c.disc = D) (h0 : μ c.cfg [] ≤ L) (steps : List Step)
    (hk : steps.all (fun s => s.op.keepsDisc) = true) : LimInv D μ L ((init c).runSteps steps) := by
  obtain ⟨f1, f2, f3, f4⟩ := init_fields c
  apply lim_runSteps M _ steps hk
  exact ⟨f1.trans hd, by rw [f2, f4]; exact h0, by rw [f3]; intro m hm; cases hm⟩

/-- Oldest: the whole queue -/
theorem meas_oldest (L : Nat) : Meas (some (L, .oldest)) (fun _ q => q.length) L :=
  ⟨fun _ _ _ h => h.length_le, fun w j hd => Nat.le_trans (maybeEnqueue_oldest_le w j L hd) (Nat.le_max_left _ _)⟩

/-- Newest: the discardable jobs -/
theorem meas_newest (L : Nat) : Meas (some (L, .newest)) (fun cfg q => (q.filter (discardable cfg)).length) L :=
  ⟨fun cfg _ _ h => (h.filter (discardable cfg)).length_le, fun w j hd => maybeEnqueue_newest_discardable w j L hd⟩

end Factory
