//! C05 correspondence harness, E-LTS part: supervision trees at quiescent points.
//!
//! Real actors (handlers block on a per-actor gate so that "Draining with a backlog" is
//! reachable) are spawned with `spawn` / `spawn_linked`, relinked / unlinked through
//! `ActorCell::{verif_try_link, unlink}`, and made to exit by every cause (stop, kill, drain,
//! handler error, handler panic, JoinHandle abort) at every node.  After every op the runtime is
//! run to quiescence and every cell's status, supervisor, children and handled-message count
//! are recorded.
//!
//! usage: tree --seed S --cases N --out DIR [--replay-ops f1,f2] [--only-replay 1]

use std::collections::HashMap;
use std::panic::AssertUnwindSafe;
use std::sync::atomic::{AtomicBool, AtomicU64, Ordering};
use std::sync::{Arc, Mutex};

use hutil::{Args, Log, Rng, Stats};
use ractor::concurrency::JoinHandle;
use ractor::thread_local::{ThreadLocalActor, ThreadLocalActorSpawner};
use ractor::{Actor, ActorCell, ActorId, ActorProcessingErr, ActorRef, SupervisionEvent};
use tokio::sync::Semaphore;

enum NodeMsg {
    Block,
    Fail,
    Panic,
}

struct Shared {
    gate: Semaphore,
    in_handler: AtomicBool,
    handled: AtomicU64,
    cell: Mutex<Option<ActorCell>>,
    /// gate in `post_stop`: when armed, a gracefully exiting actor parks there — status `Stopping`,
    /// children still linked, `cleanup` not yet run
    hold: AtomicBool,
    in_ps: AtomicBool,
    ps_gate: Semaphore,
}

impl Shared {
    fn new() -> Arc<Shared> {
        Arc::new(Shared {
            gate: Semaphore::new(0),
            in_handler: AtomicBool::new(false),
            handled: AtomicU64::new(0),
            cell: Mutex::new(None),
            hold: AtomicBool::new(false),
            in_ps: AtomicBool::new(false),
            ps_gate: Semaphore::new(0),
        })
    }
    async fn post_stop(&self) {
        if self.hold.load(Ordering::SeqCst) {
            self.in_ps.store(true, Ordering::SeqCst);
            struct Leave<'a>(&'a AtomicBool);
            impl Drop for Leave<'_> {
                fn drop(&mut self) {
                    self.0.store(false, Ordering::SeqCst);
                }
            }
            let _leave = Leave(&self.in_ps);
            self.ps_gate.acquire().await.unwrap().forget();
        }
    }
}

struct Node(Arc<Shared>);

impl Actor for Node {
    type Msg = NodeMsg;
    type State = ();
    type Arguments = ();
    async fn pre_start(&self, me: ActorRef<Self::Msg>, _: ()) -> Result<(), ActorProcessingErr> {
        *self.0.cell.lock().unwrap() = Some(me.get_cell());
        Ok(())
    }
    async fn handle(&self, _me: ActorRef<Self::Msg>, m: Self::Msg, _s: &mut ()) -> Result<(), ActorProcessingErr> {
        match m {
            NodeMsg::Block => {
                self.0.in_handler.store(true, Ordering::SeqCst);
                struct Leave<'a>(&'a AtomicBool);
                impl Drop for Leave<'_> {
                    fn drop(&mut self) {
                        self.0.store(false, Ordering::SeqCst);
                    }
                }
                let _leave = Leave(&self.0.in_handler);
                self.0.gate.acquire().await.unwrap().forget();
                self.0.handled.fetch_add(1, Ordering::SeqCst);
                Ok(())
            }
            NodeMsg::Fail => Err("scripted failure".into()),
            NodeMsg::Panic => panic!("scripted panic"),
        }
    }
    async fn post_stop(&self, _me: ActorRef<Self::Msg>, _s: &mut ()) -> Result<(), ActorProcessingErr> {
        self.0.post_stop().await;
        Ok(())
    }
    async fn handle_supervisor_evt(
        &self,
        _me: ActorRef<Self::Msg>,
        _ev: SupervisionEvent,
        _s: &mut (),
    ) -> Result<(), ActorProcessingErr> {
        Ok(()) // supervisors here never react to their children's fate
    }
}

/// The same actor as a thread-local one (`spawn_local_linked`: linked BEFORE `pre_start`, which can
/// be told to fail).  It lives on the spawner's own thread.
#[derive(Default)]
struct LNode;

impl ThreadLocalActor for LNode {
    type Msg = NodeMsg;
    type State = Arc<Shared>;
    type Arguments = (Arc<Shared>, bool);
    async fn pre_start(&self, me: ActorRef<Self::Msg>, a: Self::Arguments) -> Result<Self::State, ActorProcessingErr> {
        *a.0.cell.lock().unwrap() = Some(me.get_cell());
        if a.1 {
            return Err("scripted pre_start failure".into());
        }
        Ok(a.0)
    }
    async fn handle(&self, _me: ActorRef<Self::Msg>, m: Self::Msg, sh: &mut Self::State) -> Result<(), ActorProcessingErr> {
        match m {
            NodeMsg::Block => {
                sh.in_handler.store(true, Ordering::SeqCst);
                struct Leave<'a>(&'a AtomicBool);
                impl Drop for Leave<'_> {
                    fn drop(&mut self) {
                        self.0.store(false, Ordering::SeqCst);
                    }
                }
                let _leave = Leave(&sh.in_handler);
                sh.gate.acquire().await.unwrap().forget();
                sh.handled.fetch_add(1, Ordering::SeqCst);
                Ok(())
            }
            NodeMsg::Fail => Err("scripted failure".into()),
            NodeMsg::Panic => panic!("scripted panic"),
        }
    }
    async fn post_stop(&self, _me: ActorRef<Self::Msg>, sh: &mut Self::State) -> Result<(), ActorProcessingErr> {
        sh.post_stop().await;
        Ok(())
    }
    async fn handle_supervisor_evt(
        &self,
        _me: ActorRef<Self::Msg>,
        _ev: SupervisionEvent,
        _s: &mut Self::State,
    ) -> Result<(), ActorProcessingErr> {
        Ok(())
    }
}

/// what a parent that builds its subtree inside `pre_start` leaves for the harness: its children
type PreKids = Arc<Mutex<Vec<(Arc<Shared>, ActorCell, JoinHandle<()>)>>>;

/// how the start of such a parent ends: `pre_start` returns Err / panics / never returns (the harness then
/// drops the start future)
fn pre_end(mode: u8) -> Result<(), ActorProcessingErr> {
    match mode {
        0 => Err("scripted pre_start failure".into()),
        _ => panic!("scripted pre_start panic"),
    }
}

async fn pre_build(me: ActorCell, k: usize, kids: &PreKids) -> Result<(), ActorProcessingErr> {
    for _ in 0..k {
        let csh = Shared::new();
        let (a, h) = Actor::spawn_linked(None, Node(csh.clone()), (), me.clone()).await.map_err(|e| format!("{e}"))?;
        kids.lock().unwrap().push((csh, a.get_cell(), h));
    }
    Ok(())
}

/// A parent that `spawn_linked`s `k` children under ITSELF inside `pre_start` (the usual way to build a
/// supervision tree) and whose start then fails.
struct PreNode {
    sh: Arc<Shared>,
    k: usize,
    mode: u8,
    kids: PreKids,
}

impl Actor for PreNode {
    type Msg = NodeMsg;
    type State = ();
    type Arguments = ();
    async fn pre_start(&self, me: ActorRef<Self::Msg>, _: ()) -> Result<(), ActorProcessingErr> {
        *self.sh.cell.lock().unwrap() = Some(me.get_cell());
        pre_build(me.get_cell(), self.k, &self.kids).await?;
        if self.mode == 2 {
            std::future::pending::<()>().await;
        }
        pre_end(self.mode)
    }
    async fn handle(&self, _: ActorRef<Self::Msg>, _: Self::Msg, _: &mut ()) -> Result<(), ActorProcessingErr> {
        Ok(())
    }
}

/// the same parent as a thread-local actor (`thread_local/inner.rs` shares the lifecycle guard)
#[derive(Default)]
struct LPreNode;

impl ThreadLocalActor for LPreNode {
    type Msg = NodeMsg;
    type State = ();
    type Arguments = (Arc<Shared>, usize, u8, PreKids);
    async fn pre_start(&self, me: ActorRef<Self::Msg>, a: Self::Arguments) -> Result<(), ActorProcessingErr> {
        *a.0.cell.lock().unwrap() = Some(me.get_cell());
        pre_build(me.get_cell(), a.1, &a.3).await?;
        pre_end(a.2)
    }
    async fn handle(&self, _: ActorRef<Self::Msg>, _: Self::Msg, _: &mut ()) -> Result<(), ActorProcessingErr> {
        Ok(())
    }
}

struct Rec {
    sh: Arc<Shared>,
    cell: ActorCell,
    handle: Option<JoinHandle<()>>,
}

#[derive(Clone, Debug)]
enum Op {
    Spawn,
    SpawnL(usize),
    SpawnLT(usize, bool),
    /// a parent that links `k` children under itself in `pre_start` and then fails to start
    /// (mode 0 = Err, 1 = panic, 2 = the start future is dropped); `true` = thread-local parent
    SpawnPre(usize, u8, bool),
    Link(usize, usize),
    Unlink(usize, usize),
    Block(usize),
    Release(usize),
    Drain(usize),
    Stop(usize),
    Kill(usize),
    Fail(usize),
    Panic(usize),
    Abort(usize),
    /// `ActorCell::stop_children(None)` / `drain_children()` / the `_and_wait` variants (spawned task)
    StopKids(usize),
    DrainKids(usize),
    StopKidsWait(usize),
    DrainKidsWait(usize),
    /// arm the gate in the actor's `post_stop`
    Hold(usize),
    /// open it: `post_stop` returns and `cleanup` runs
    PsRelease(usize),
}

impl Op {
    fn text(&self) -> String {
        match self {
            Op::Spawn => "spawn".into(),
            Op::SpawnL(p) => format!("spawnl {p}"),
            Op::SpawnLT(p, f) => format!("spawnlt {p} {}", if *f { "fail" } else { "ok" }),
            Op::SpawnPre(k, m, tl) => {
                format!("{} {k} {}", if *tl { "spawnpret" } else { "spawnpre" }, ["err", "panic", "cancel"][*m as usize])
            }
            Op::Link(c, p) => format!("link {c} {p}"),
            Op::Unlink(c, p) => format!("unlink {c} {p}"),
            Op::Block(a) => format!("block {a}"),
            Op::Release(a) => format!("release {a}"),
            Op::Drain(a) => format!("drain {a}"),
            Op::Stop(a) => format!("stop {a}"),
            Op::Kill(a) => format!("kill {a}"),
            Op::Fail(a) => format!("fail {a}"),
            Op::Panic(a) => format!("panic {a}"),
            Op::Abort(a) => format!("abort {a}"),
            Op::StopKids(a) => format!("stopkids {a}"),
            Op::DrainKids(a) => format!("drainkids {a}"),
            Op::StopKidsWait(a) => format!("stopkidswait {a}"),
            Op::DrainKidsWait(a) => format!("drainkidswait {a}"),
            Op::Hold(a) => format!("hold {a}"),
            Op::PsRelease(a) => format!("psrelease {a}"),
        }
    }
    fn parse(s: &str) -> Option<Op> {
        let w: Vec<&str> = s.split_whitespace().filter(|w| !w.starts_with("h=")).collect();
        let n = |i: usize| w.get(i).and_then(|x| x.parse::<usize>().ok());
        Some(match *w.first()? {
            "spawn" => Op::Spawn,
            "spawnl" => Op::SpawnL(n(1)?),
            "spawnlt" => Op::SpawnLT(n(1)?, w.get(2) == Some(&"fail")),
            "spawnpre" | "spawnpret" => {
                let m = match *w.get(2)? {
                    "err" => 0,
                    "panic" => 1,
                    _ => 2,
                };
                Op::SpawnPre(n(1)?, m, w[0] == "spawnpret")
            }
            "link" => Op::Link(n(1)?, n(2)?),
            "unlink" => Op::Unlink(n(1)?, n(2)?),
            "block" => Op::Block(n(1)?),
            "release" => Op::Release(n(1)?),
            "drain" => Op::Drain(n(1)?),
            "stop" => Op::Stop(n(1)?),
            "kill" => Op::Kill(n(1)?),
            "fail" => Op::Fail(n(1)?),
            "panic" => Op::Panic(n(1)?),
            "abort" => Op::Abort(n(1)?),
            "stopkids" => Op::StopKids(n(1)?),
            "drainkids" => Op::DrainKids(n(1)?),
            "stopkidswait" => Op::StopKidsWait(n(1)?),
            "drainkidswait" => Op::DrainKidsWait(n(1)?),
            "hold" => Op::Hold(n(1)?),
            "psrelease" => Op::PsRelease(n(1)?),
            _ => return None,
        })
    }
}

async fn quiesce() {
    for _ in 0..64 {
        tokio::task::yield_now().await;
    }
}

struct World {
    nodes: Vec<Rec>,
    ids: HashMap<ActorId, usize>,
    /// thread-local actors live on this spawner's thread (created on first use)
    spawner: Option<ThreadLocalActorSpawner>,
    /// `*_children_and_wait` tasks, in creation order
    waiters: Vec<JoinHandle<()>>,
}

impl World {
    /// terminal supervision events handed to a supervisor's port since the last call (`note_sup` hook)
    fn events(&self) -> String {
        let mut ev: Vec<String> = Vec::new();
        for n in ractor::verif::take_notes() {
            if let ractor::verif::Note::Sup(s) = n {
                if s.kind != "Terminated" && s.kind != "Failed" {
                    continue;
                }
                let ix = |id: &ActorId| self.ids.get(id).map(|x| x.to_string()).unwrap_or_else(|| "?".into());
                let who = s.who.as_ref().map(ix).unwrap_or_else(|| "?".into());
                let why = if s.kind == "Failed" {
                    "failed".to_string()
                } else {
                    s.text.clone().unwrap_or_else(|| "none".into()).replace(' ', "_")
                };
                ev.push(format!("{who}>{}:{why}", ix(&s.to)));
            }
        }
        ev.sort();
        if ev.is_empty() {
            "-".into()
        } else {
            ev.join(",")
        }
    }

    fn waiter_states(&self) -> String {
        if self.waiters.is_empty() {
            return "-".into();
        }
        self.waiters.iter().map(|h| if h.is_finished() { "done" } else { "pending" }).collect::<Vec<_>>().join(",")
    }

    fn snapshot(&self, r: &str) -> String {
        let mut s = format!("r={r} w={} |", self.waiter_states());
        for (i, n) in self.nodes.iter().enumerate() {
            let sup = n
                .cell
                .try_get_supervisor()
                .map(|c| self.ids.get(&c.get_id()).map(|x| x.to_string()).unwrap_or_else(|| "?".into()))
                .unwrap_or_else(|| "-".into());
            let mut kids: Vec<String> = Vec::new();
            let mut kk: Vec<usize> =
                n.cell.get_children().iter().map(|c| self.ids.get(&c.get_id()).copied().unwrap_or(usize::MAX)).collect();
            kk.sort();
            for k in &kk {
                kids.push(if *k == usize::MAX { "?".into() } else { k.to_string() });
            }
            let kids = if kids.is_empty() { "-".to_string() } else { kids.join(",") };
            let nc = n.cell.verif_num_children();
            let ncs = if nc == kk.len() { String::new() } else { format!("!num_children={nc}") };
            s.push_str(&format!(
                " {i}:{:?}:{sup}:{kids}{ncs}:{}",
                n.cell.get_status(),
                n.sh.handled.load(Ordering::SeqCst)
            ));
        }
        s
    }

    /// is the op executable in the current real state (so that model and code stay in lock-step)
    fn valid(&self, op: &Op) -> bool {
        let n = self.nodes.len();
        let ok = |a: &usize| *a < n;
        match op {
            Op::Spawn => true,
            Op::SpawnPre(_, m, tl) => !(*tl && *m == 2),
            Op::SpawnL(p) | Op::SpawnLT(p, _) => ok(p),
            Op::Link(c, p) | Op::Unlink(c, p) => ok(c) && ok(p),
            Op::Release(a) => ok(a) && self.nodes[*a].sh.in_handler.load(Ordering::SeqCst),
            Op::Fail(a) | Op::Panic(a) => {
                ok(a)
                    && !self.nodes[*a].sh.in_handler.load(Ordering::SeqCst)
                    && self.nodes[*a].cell.get_status() == ractor::ActorStatus::Running
            }
            Op::Abort(a) => ok(a) && self.nodes[*a].handle.is_some(),
            Op::Block(a) | Op::Drain(a) | Op::Stop(a) | Op::Kill(a) | Op::Hold(a) => ok(a),
            // (if the actor is beneath one of its own children, which child exits first — and takes the
            // others with it — is the HashMap's iteration order: not compared)
            Op::StopKids(a) | Op::DrainKids(a) | Op::StopKidsWait(a) | Op::DrainKidsWait(a) => ok(a) && !self.in_cycle(*a),
            Op::PsRelease(a) => ok(a) && self.nodes[*a].sh.in_ps.load(Ordering::SeqCst),
        }
    }

    async fn exec(&mut self, op: &Op) -> String {
        let r = match op {
            Op::SpawnLT(p, fail) => {
                let sh = Shared::new();
                let spawner = self.spawner.get_or_insert_with(ThreadLocalActorSpawner::new).clone();
                let res = self.nodes[*p].cell.spawn_local_linked::<LNode>(None, (sh.clone(), *fail), spawner).await;
                let cell = sh.cell.lock().unwrap().clone();
                match (res, cell) {
                    (Ok((a, h)), _) => {
                        let cell = a.get_cell();
                        self.ids.insert(cell.get_id(), self.nodes.len());
                        self.nodes.push(Rec { sh, cell, handle: Some(h) });
                        "ok".to_string()
                    }
                    (Err(_), Some(cell)) => {
                        // pre_start ran (and failed): the cell was seen by user code, watch it
                        self.ids.insert(cell.get_id(), self.nodes.len());
                        self.nodes.push(Rec { sh, cell, handle: None });
                        "err".to_string()
                    }
                    (Err(_), None) => "err".to_string(), // refused before pre_start: nothing to observe
                }
            }
            Op::SpawnPre(k, mode, tl) => {
                let sh = Shared::new();
                let kids: PreKids = Arc::new(Mutex::new(Vec::new()));
                let r = if *tl {
                    let spawner = self.spawner.get_or_insert_with(ThreadLocalActorSpawner::new).clone();
                    match <LPreNode as ThreadLocalActor>::spawn(None, (sh.clone(), *k, *mode, kids.clone()), spawner).await {
                        Ok(_) => "ok",
                        Err(_) => "err",
                    }
                } else {
                    let fut = Actor::spawn(None, PreNode { sh: sh.clone(), k: *k, mode: *mode, kids: kids.clone() }, ());
                    if *mode == 2 {
                        // the start never finishes: drop its future in the middle of `pre_start`
                        let h = tokio::spawn(fut);
                        quiesce().await;
                        h.abort();
                        let _ = h.await;
                        "err"
                    } else {
                        match fut.await {
                            Ok(_) => "ok",
                            Err(_) => "err",
                        }
                    }
                };
                // the parent first, then its children in the order it spawned them
                let cell = sh.cell.lock().unwrap().clone().expect("pre_start ran");
                self.ids.insert(cell.get_id(), self.nodes.len());
                self.nodes.push(Rec { sh, cell, handle: None });
                for (csh, ccell, h) in kids.lock().unwrap().drain(..) {
                    self.ids.insert(ccell.get_id(), self.nodes.len());
                    self.nodes.push(Rec { sh: csh, cell: ccell, handle: Some(h) });
                }
                r.to_string()
            }
            Op::Spawn | Op::SpawnL(_) => {
                let sh = Shared::new();
                let res = match op {
                    Op::SpawnL(p) => Actor::spawn_linked(None, Node(sh.clone()), (), self.nodes[*p].cell.clone()).await,
                    _ => Actor::spawn(None, Node(sh.clone()), ()).await,
                };
                let (cell, handle, r) = match res {
                    Ok((a, h)) => (a.get_cell(), Some(h), "ok"),
                    Err(_) => (sh.cell.lock().unwrap().clone().expect("pre_start ran"), None, "err"),
                };
                self.ids.insert(cell.get_id(), self.nodes.len());
                self.nodes.push(Rec { sh, cell, handle });
                r.to_string()
            }
            Op::Link(c, p) => self.nodes[*c].cell.verif_try_link(self.nodes[*p].cell.clone()).to_string(),
            Op::Unlink(c, p) => {
                self.nodes[*c].cell.unlink(self.nodes[*p].cell.clone());
                "unit".into()
            }
            Op::Block(a) => match self.nodes[*a].cell.send_message(NodeMsg::Block) {
                Ok(()) => "ok".into(),
                Err(_) => "err".into(),
            },
            Op::Release(a) => {
                self.nodes[*a].sh.gate.add_permits(1);
                "unit".into()
            }
            Op::Drain(a) => {
                let _ = self.nodes[*a].cell.drain();
                "unit".into()
            }
            Op::Stop(a) => {
                self.nodes[*a].cell.stop(None);
                "unit".into()
            }
            Op::Kill(a) => {
                self.nodes[*a].cell.kill();
                "unit".into()
            }
            Op::Fail(a) => {
                let _ = self.nodes[*a].cell.send_message(NodeMsg::Fail);
                "unit".into()
            }
            Op::Panic(a) => {
                let _ = self.nodes[*a].cell.send_message(NodeMsg::Panic);
                "unit".into()
            }
            Op::Abort(a) => {
                if let Some(h) = &self.nodes[*a].handle {
                    h.abort();
                }
                "unit".into()
            }
            Op::StopKids(a) => {
                self.nodes[*a].cell.stop_children(None);
                "unit".into()
            }
            Op::DrainKids(a) => {
                self.nodes[*a].cell.drain_children();
                "unit".into()
            }
            Op::StopKidsWait(a) => {
                let c = self.nodes[*a].cell.clone();
                self.waiters.push(tokio::spawn(async move { c.stop_children_and_wait(None, None).await }));
                "unit".into()
            }
            Op::DrainKidsWait(a) => {
                let c = self.nodes[*a].cell.clone();
                self.waiters.push(tokio::spawn(async move { c.drain_children_and_wait(None).await }));
                "unit".into()
            }
            Op::Hold(a) => {
                self.nodes[*a].sh.hold.store(true, Ordering::SeqCst);
                "unit".into()
            }
            Op::PsRelease(a) => {
                self.nodes[*a].sh.ps_gate.add_permits(1);
                "unit".into()
            }
        };
        quiesce().await;
        if let Some(sp) = self.spawner.clone() {
            // actors on the spawner's thread: let that thread run to idle (`verif_barrier` runs a
            // task there that yields 64 times and waits for it), then this one, and repeat until
            // the picture did not change over four full rounds — no real-time waits, so a loaded
            // machine cannot cut the settling short
            let mut last = self.snapshot(&r);
            let mut stable = 0;
            for _ in 0..400 {
                sp.verif_barrier(64).await;
                quiesce().await;
                let now = self.snapshot(&r);
                if now == last {
                    stable += 1;
                    if stable >= 4 {
                        break;
                    }
                } else {
                    stable = 0;
                    last = now;
                }
            }
        }
        // events last: everything the op caused has happened by now
        let snap = self.snapshot(&r);
        let ev = self.events();
        snap.replacen(" w=", &format!(" ev={ev} w="), 1)
    }

    /// is the actor (transitively) its own supervisor
    fn in_cycle(&self, a: usize) -> bool {
        let mut x = a;
        for _ in 0..32 {
            match self.nodes[x].cell.try_get_supervisor().and_then(|s| self.ids.get(&s.get_id()).copied()) {
                Some(p) if p == a => return true,
                Some(p) => x = p,
                None => return false,
            }
        }
        false
    }

    fn depth(&self, mut a: usize) -> usize {
        let mut d = 0;
        while let Some(s) = self.nodes[a].cell.try_get_supervisor() {
            match self.ids.get(&s.get_id()) {
                Some(p) if d < 32 => {
                    a = *p;
                    d += 1;
                }
                _ => break,
            }
        }
        d
    }

    fn gen(&self, rng: &mut Rng, local: bool) -> Op {
        let n = self.nodes.len();
        if n == 0 {
            return Op::Spawn;
        }
        let any = |rng: &mut Rng| rng.below(n as u64) as usize;
        // prefer live nodes as targets of structural ops
        let live: Vec<usize> =
            (0..n).filter(|i| self.nodes[*i].cell.get_status() == ractor::ActorStatus::Running).collect();
        let pick_live = |rng: &mut Rng| if live.is_empty() || rng.chance(1, 12) { any(rng) } else { *rng.pick(&live) };
        let busy: Vec<usize> = (0..n).filter(|i| self.nodes[*i].sh.in_handler.load(Ordering::SeqCst)).collect();
        // live nodes that have at least one live child: exits there are the interesting ones
        let parents: Vec<usize> = live.iter().copied().filter(|i| !self.nodes[*i].cell.get_children().is_empty()).collect();
        let pick_parent = |rng: &mut Rng| if parents.is_empty() || rng.chance(1, 3) { pick_live(rng) } else { *rng.pick(&parents) };
        for _ in 0..50 {
            let r = rng.below(100);
            // a supervisor parked in `post_stop` (Stopping, children not yet taken): work on its children
            let held: Vec<usize> = (0..n).filter(|i| self.nodes[*i].sh.in_ps.load(Ordering::SeqCst)).collect();
            let op = if !held.is_empty() && rng.chance(1, 3) {
                let h = *rng.pick(&held);
                let kids: Vec<usize> =
                    self.nodes[h].cell.get_children().iter().filter_map(|c| self.ids.get(&c.get_id()).copied()).collect();
                let q = rng.below(100);
                if !kids.is_empty() && q < 40 {
                    Op::Link(*rng.pick(&kids), pick_live(rng))
                } else if !kids.is_empty() && q < 52 {
                    Op::Unlink(*rng.pick(&kids), h)
                } else if !kids.is_empty() && q < 62 {
                    Op::Kill(*rng.pick(&kids))
                } else if q < 72 {
                    Op::SpawnL(h)
                } else if q < 90 {
                    Op::PsRelease(h)
                } else if q < 95 {
                    Op::Kill(h)
                } else {
                    Op::Abort(h)
                }
            } else if live.is_empty() && n < 14 && r < 70 {
                Op::Spawn
            } else if r < 36 && n < 14 {
                // grow: deep chains up to depth 5
                let p = if rng.chance(1, 8) { any(rng) } else { pick_live(rng) };
                if self.depth(p) >= 5 {
                    Op::Spawn
                } else if local && rng.chance(1, 2) {
                    Op::SpawnLT(p, rng.chance(1, 4))
                } else {
                    Op::SpawnL(p)
                }
            } else if r < 38 && n < 14 {
                Op::Spawn
            } else if r < 39 && n < 11 {
                // a parent that builds a subtree in pre_start and fails to start
                let tl = local && rng.chance(1, 2);
                Op::SpawnPre(rng.below(3) as usize, if tl { rng.below(2) as u8 } else { rng.below(3) as u8 }, tl)
            } else if r < 50 {
                // a quarter of the links involve a draining / stopped side (must be refused)
                let c = if rng.chance(1, 6) { any(rng) } else { pick_live(rng) };
                let p = if rng.chance(1, 5) { any(rng) } else { pick_live(rng) };
                Op::Link(c, p)
            } else if r < 54 {
                Op::Unlink(any(rng), any(rng))
            } else if r < 63 {
                Op::Block(pick_live(rng))
            } else if r < 65 {
                // arm the post_stop gate of a supervisor
                Op::Hold(pick_parent(rng))
            } else if r < 69 {
                // the supervisor-side wrappers, on an actor that has children (some with a backlog)
                let p = pick_parent(rng);
                match rng.below(4) {
                    0 => Op::StopKids(p),
                    1 => Op::DrainKids(p),
                    2 => Op::StopKidsWait(p),
                    _ => Op::DrainKidsWait(p),
                }
            } else if r < 77 {
                if busy.is_empty() { Op::Release(any(rng)) } else { Op::Release(*rng.pick(&busy)) }
            } else if r < 85 {
                // drain: mostly busy nodes (Draining with a backlog); an idle node drains and exits at once
                if !busy.is_empty() && rng.chance(5, 6) { Op::Drain(*rng.pick(&busy)) } else if rng.chance(1, 3) { Op::Drain(pick_live(rng)) } else { Op::Block(pick_live(rng)) }
            } else if r < 89 {
                // prefer supervisors whose post_stop gate is armed
                let armed: Vec<usize> = live.iter().copied().filter(|i| self.nodes[*i].sh.hold.load(Ordering::SeqCst)).collect();
                if !armed.is_empty() && rng.chance(2, 3) { Op::Stop(*rng.pick(&armed)) } else { Op::Stop(pick_parent(rng)) }
            } else if r < 94 {
                Op::Kill(pick_parent(rng))
            } else if r < 96 {
                Op::Fail(pick_parent(rng))
            } else if r < 98 {
                Op::Panic(pick_parent(rng))
            } else {
                Op::Abort(pick_parent(rng))
            };
            if self.valid(&op) {
                return op;
            }
        }
        Op::Spawn
    }
}

enum Script {
    Fixed(Vec<Op>),
    Random(usize, Rng),
}

async fn run_case(script: Script) -> Vec<(String, String)> {
    let _ = ractor::verif::take_notes();
    let mut w = World { nodes: Vec::new(), ids: HashMap::new(), spawner: None, waiters: Vec::new() };
    let mut out = Vec::new();
    match script {
        Script::Fixed(ops) => {
            for op in ops {
                if !w.valid(&op) {
                    continue; // shrunk / edited scripts may contain ops that no longer apply
                }
                let o = w.exec(&op).await;
                out.push((op.text(), o));
            }
        }
        Script::Random(n, mut rng) => {
            // one case in eight also uses thread-local actors (they need real-time waits)
            let local = rng.chance(1, 8);
            let n = if local { n.min(12) } else { n };
            for _ in 0..n {
                let op = w.gen(&mut rng, local);
                let o = w.exec(&op).await;
                out.push((op.text(), o));
            }
        }
    }
    // tidy up
    for n in &w.nodes {
        n.sh.gate.add_permits(1000);
        n.sh.ps_gate.add_permits(1000);
        n.cell.kill();
    }
    for h in &w.waiters {
        h.abort();
    }
    quiesce().await;
    if w.spawner.is_some() {
        tokio::time::sleep(std::time::Duration::from_millis(3)).await;
    }
    out
}

fn fixed_cases() -> Vec<Vec<Op>> {
    use Op::*;
    vec![
        // a chain of depth 5, every exit cause at the root
        vec![Spawn, SpawnL(0), SpawnL(1), SpawnL(2), SpawnL(3), SpawnL(4), Kill(0)],
        vec![Spawn, SpawnL(0), SpawnL(1), SpawnL(2), SpawnL(3), SpawnL(4), Stop(0)],
        vec![Spawn, SpawnL(0), SpawnL(1), SpawnL(2), SpawnL(3), SpawnL(4), Drain(0)],
        vec![Spawn, SpawnL(0), SpawnL(1), SpawnL(2), SpawnL(3), SpawnL(4), Fail(0)],
        vec![Spawn, SpawnL(0), SpawnL(1), SpawnL(2), SpawnL(3), SpawnL(4), Panic(0)],
        vec![Spawn, SpawnL(0), SpawnL(1), SpawnL(2), SpawnL(3), SpawnL(4), Abort(0)],
        // ... and in the middle
        vec![Spawn, SpawnL(0), SpawnL(1), SpawnL(1), SpawnL(2), SpawnL(3), Kill(1), Stop(0)],
        // relink, unlink, self-link and a two-cycle
        vec![Spawn, Spawn, SpawnL(0), Link(2, 1), Link(2, 1), Unlink(2, 0), Unlink(2, 1), Kill(1)],
        vec![Spawn, Link(0, 0), Kill(0)],
        vec![Spawn, Spawn, Link(0, 1), Link(1, 0), SpawnL(0), Stop(1)],
        // refused links and spawns
        vec![Spawn, Spawn, Kill(0), Link(1, 0), Link(0, 1), SpawnL(0)],
        vec![Spawn, Spawn, Block(0), Drain(0), Link(1, 0), Link(0, 1), SpawnL(0), Release(0)],
        // a busy child: stop waits for the handler, kill does not
        vec![Spawn, SpawnL(0), Block(1), Block(1), Stop(1), Release(1)],
        vec![Spawn, SpawnL(0), Block(1), Block(1), Kill(0)],
        vec![Spawn, SpawnL(0), Block(0), Stop(0), SpawnL(0), Release(0)],
        // a child draining a backlog while its supervisor goes away (finding F1 on the pinned code)
        vec![Spawn, SpawnL(0), Block(1), Block(1), Drain(1), Kill(0), Release(1), Release(1)],
        vec![Spawn, SpawnL(0), SpawnL(1), Block(1), Drain(1), Stop(0), Release(1)],
        // the supervisor-side wrappers: children idle, busy with a backlog, one already asked to stop
        vec![Spawn, SpawnL(0), SpawnL(0), Block(1), Block(1), Block(1), DrainKidsWait(0), Release(1), Release(1), Release(1)],
        vec![Spawn, SpawnL(0), SpawnL(0), Block(1), Block(1), Block(1), DrainKids(0), Release(1), Release(1), Release(1)],
        vec![Spawn, SpawnL(0), SpawnL(0), Block(1), Block(1), Block(1), StopKidsWait(0), Release(1)],
        vec![Spawn, SpawnL(0), SpawnL(0), SpawnL(1), Block(2), Block(2), StopKids(0), Release(2)],
        vec![Spawn, SpawnL(0), Block(1), Stop(1), StopKidsWait(0), DrainKidsWait(0), Release(1)],
        vec![Spawn, SpawnL(0), SpawnL(0), Hold(1), Block(2), DrainKidsWait(0), StopKidsWait(0), Release(2), PsRelease(1)],
        vec![Spawn, SpawnL(0), Kill(0), DrainKidsWait(0), StopKidsWait(0), DrainKids(0), StopKids(0)],
        // a supervisor parked in post_stop (Stopping, children not yet taken)
        vec![Spawn, Spawn, SpawnL(0), Hold(0), Stop(0), Link(2, 1), PsRelease(0)],
        vec![Spawn, Spawn, SpawnL(0), SpawnL(2), Hold(0), Drain(0), Link(2, 1), Link(2, 0), SpawnL(0), PsRelease(0)],
        vec![Spawn, SpawnL(0), SpawnL(1), Hold(1), Stop(1), Kill(0), PsRelease(1)],
        vec![Spawn, SpawnL(0), SpawnL(0), Hold(0), Stop(0), Unlink(1, 0), Kill(2), Kill(0)],
        vec![Spawn, SpawnL(0), Hold(0), Block(0), Stop(0), Drain(0), Release(0), Stop(0), Drain(0), Abort(0)],
        vec![Spawn, Spawn, SpawnL(0), Hold(0), Hold(1), Stop(0), Stop(1), Link(2, 1), PsRelease(1), PsRelease(0)],
        // a start that fails after the actor has linked children under itself in pre_start takes them with it
        // (seeded change C05-10): Err, panic, dropped start future; thread-local parent
        vec![SpawnPre(2, 0, false), Spawn, SpawnPre(1, 1, false), SpawnL(3)],
        vec![Spawn, SpawnPre(2, 2, false), SpawnPre(0, 0, false), Kill(0)],
        vec![SpawnPre(2, 0, true), SpawnPre(1, 1, true), Spawn],
        // a stale unlink (after a hand-over, with the FORMER supervisor) is a no-op; the child's end is then reported
        // to the supervisor it has (seeded change C04-11)
        vec![Spawn, Spawn, SpawnL(0), Link(2, 1), Unlink(2, 0), Fail(2)],
        vec![Spawn, Spawn, SpawnL(0), Unlink(2, 1), Link(2, 1), Unlink(2, 0), Unlink(2, 2), Kill(2)],
        // thread-local children: linked before pre_start
        vec![Spawn, SpawnLT(0, false), SpawnLT(1, false), Kill(0)],
        vec![Spawn, SpawnLT(0, true), SpawnLT(0, false), Stop(0)],
        vec![Spawn, Block(0), Drain(0), SpawnLT(0, false), SpawnLT(0, true), Release(0)],
        vec![Spawn, SpawnLT(0, false), SpawnL(1), Block(1), Drain(1), Kill(0), Release(1)],
        vec![Spawn, SpawnLT(0, false), Block(1), Block(1), Stop(1), Kill(0)],
    ]
}

fn main() {
    std::panic::set_hook(Box::new(|_| {})); // scripted handler panics are part of the plan
    let args = Args::parse();
    let seed = args.u64("seed", 1);
    let cases = args.u64("cases", 200);
    let out = args.str("out", "/tmp/tree-tree");
    let mut rng = Rng::new(seed);
    let mut st = Stats::default();
    let mut log = Log::create(std::path::Path::new(&out)).unwrap();
    let mut all: Vec<Script> = Vec::new();
    if let Some(c) = args.0.get("replay-ops") {
        for f in c.split(',').filter(|f| !f.is_empty()) {
            let txt = std::fs::read_to_string(f).expect("replay file");
            let mut cur: Vec<Op> = Vec::new();
            for line in txt.lines() {
                let line = line.trim();
                if line.is_empty() || line.starts_with('#') {
                    continue;
                }
                if line.starts_with("case") {
                    if !cur.is_empty() {
                        all.push(Script::Fixed(std::mem::take(&mut cur)));
                    }
                } else if let Some(op) = Op::parse(line) {
                    cur.push(op);
                }
            }
            if !cur.is_empty() {
                all.push(Script::Fixed(cur));
            }
            st.bump("replay_files");
        }
    }
    if args.u64("only-replay", 0) != 1 {
        for c in fixed_cases() {
            st.bump("fixed_cases");
            all.push(Script::Fixed(c));
        }
        for _ in 0..cases {
            let n = rng.range(4, 26) as usize;
            all.push(Script::Random(n, rng.fork()));
        }
    }
    for (ci, script) in all.into_iter().enumerate() {
        st.bump("cases");
        let rt = tokio::runtime::Builder::new_current_thread().enable_all().build().unwrap();
        let res = std::panic::catch_unwind(AssertUnwindSafe(|| rt.block_on(run_case(script))));
        drop(rt);
        log.rec(format!("case {ci}"), "ok");
        let mut h: u64 = 0xcbf29ce484222325;
        match res {
            Ok(lines) => {
                for (t, o) in lines {
                    for b in t.bytes().chain([b'\n']) {
                        h = (h ^ b as u64).wrapping_mul(0x100000001b3);
                    }
                    st.bump(t.split(' ').next().unwrap());
                    if o.starts_with("r=err") {
                        st.bump("res_err");
                    }
                    if o.starts_with("r=false") {
                        st.bump("res_link_refused");
                    }
                    if o.contains(":Draining:") {
                        st.bump("snap_with_draining");
                    }
                    log.rec(format!("{t} h={h:x}"), o);
                }
            }
            Err(_) => {
                st.bump("case_panicked");
                log.rec("spawn h=0", "<case panicked>");
            }
        }
    }
    st.write_json(&std::path::Path::new(&out).join("stats.json"));
    log.finish();
}
