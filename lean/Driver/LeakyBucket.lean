import RactorModel.Model.LeakyBucket
import Driver.Common

/-! Driver for the `LeakyBucket` model (C15, bucket clause).

ops: `lbnew <refill> <interval_ns> <max|-> <initial|-> <now_ns> <inst_lim_ns> <MAX_LB_BALANCE>` → `bal=<b> dl=<ns|none>`
     `lbcheck <now_ns>` → `<bool> bal=<b> dl=<ns|none>`
     `lbbump` → `bal=<b> dl=<ns|none>`

Oracle (on the implementation's observations): `balanceOk` after every call and `admitOk` for
every window that starts at an earlier observation of the same limiter: the number of
token-taking bumps since that observation is within `budget`. -/

namespace Driver.LeakyBucket
open _root_.LeakyBucket Driver

structure St where
  cfg : Cfg := ⟨0, 0, 0, 0⟩
  s : LB := ⟨0, none⟩
  /-- last observed implementation state -/
  last : LB := ⟨0, none⟩
  /-- (snapshot of the implementation's state, jobs admitted since) -/
  snaps : List (LB × Nat) := []
  now : Nat := 0

def optNat? (s : String) : Option (Option Nat) :=
  if s == "-" || s == "none" then some none else s.toNat?.map some

def showLB (s : LB) : String :=
  s!"bal={s.balance} dl={match s.deadline with | some d => toString d | none => "none"}"

def parseObs? (ws : List String) : Option LB :=
  match ws with
  | [b, d] =>
    match b.splitOn "=", d.splitOn "=" with
    | ["bal", b], ["dl", d] => do
      let b ← b.toNat?; let d ← optNat? d
      pure ⟨b, d⟩
    | _, _ => none
  | _ => none

def oracle (st : St) (obs : LB) (admittedNow : Bool) : St × List String :=
  let snaps := if admittedNow then st.snaps.map (fun (s, n) => (s, n + 1)) else st.snaps
  let bad := snaps.any fun (s, n) => !admitOk st.cfg s n st.now
  let r := (if balanceOk st.cfg obs then [] else ["bucket-balance-le-max"]) ++
           (if bad then ["bucket-admit-window"] else [])
  ({ st with snaps := (obs, 0) :: snaps, last := obs }, r)

def step (st : St) (op impl : String) : St × StepOut :=
  match words op with
  | ["lbnew", refill, interval, max, initial, now, lim, cap] =>
    match refill.toNat?, interval.toNat?, optNat? max, optNat? initial, now.toNat?, lim.toNat?, cap.toNat? with
    | some refill, some interval, some max, some initial, some now, some lim, some cap =>
      let cfg : Cfg := ⟨refill, interval, max.getD MAX_LB_BALANCE, lim⟩
      let s := new cfg initial now
      let st : St := { cfg, s, now, snaps := [], last := s }
      let capOk := cap == MAX_LB_BALANCE
      match parseObs? (words impl) with
      | some o =>
        let (st, orc) := oracle st o false
        (st, { model := if capOk then showLB s else "MAX_LB_BALANCE differs from the model's", oracle := orc })
      | none => (st, { model := showLB s, oracle := ["unparsable"] })
    | _, _, _, _, _, _, _ => (st, { model := "bad-op" })
  | ["lbcheck", now] =>
    match now.toNat? with
    | some now =>
      let (s', r) := check st.cfg st.s now
      let refilled := s'.deadline != st.s.deadline
      let st := { st with s := s', now }
      match words impl with
      | _ :: rest =>
        match parseObs? rest with
        | some o =>
          let (st, orc) := oracle st o false
          (st, { model := s!"{r} {showLB s'}", oracle := orc, nontrivial := refilled })
        | none => (st, { model := s!"{r} {showLB s'}", oracle := ["unparsable"] })
      | _ => (st, { model := s!"{r} {showLB s'}", oracle := ["unparsable"] })
    | none => (st, { model := "bad-op" })
  | ["lbbump"] =>
    let s' := bump st.s
    let st := { st with s := s' }
    match parseObs? (words impl) with
    | some o =>
      -- admitted on the implementation's side: its balance went down
      let adm := decide (o.balance < st.last.balance)
      let (st, orc) := oracle st o adm
      (st, { model := showLB s', oracle := orc, nontrivial := adm })
    | none => (st, { model := showLB s', oracle := ["unparsable"] })
  | _ => (st, { model := "bad-op" })

def run (ops impl : Array String) : IO Tally := replay ({} : St) step ops impl

end Driver.LeakyBucket
